(* Property C16, value level, TTNO path (proofs for TTNDO/ValueTTNO.v).
     1. lists, trees;
     2. the operator store on the state's tree: per node view, its edge and physical wires are pairwise distinct;
     3. the network side: the diagram of ttndo_ttno_expectation in the fused flat form ttndo_three_flat (C16_expectation_closed,
        orientation-free normal form of ValueTTNOGen.v, C04's fusion lemma fuse_items);
     4. the join with C04's three_flat (renaming of the summed wires, build contracts node by node, the artificial root
        and the padding contribute the factor 1). *)
From Coq Require Import List Arith Bool Lia Permutation ZArith.
From PTN Require Import TTN.Store TTN.StoreProofs TTN.Inv TTN.InvProofs Wire.Sem Wire.SemProofs TTN.InvSem TTN.InvSemProofs
  Contr.Blocks Contr.Closed Contr.ClosedProofs Contr.TensorProd Contr.TensorProdProofs Contr.TensorProdSem
  Contr.TensorProdBridge Contr.TensorProdBridgeProofs Contr.TensorProdBridgeStore Contr.ThreeLayerValue Contr.ThreeLayerValueProofs
  TTNDO.Contr TTNDO.ContrProofs TTNDO.Value TTNDO.ValueProofs TTNDO.ValueTTNOGen TTNDO.ValueTTNO.
Import ListNotations.

(* ================================================================================================================ *)
(* 1. lists, trees                                                                                                    *)
(* ================================================================================================================ *)
Lemma NoDup_flat_map_disj {A B} (f : A -> list B) l :
  NoDup l -> (forall a, In a l -> NoDup (f a)) ->
  (forall a b x, In a l -> In b l -> In x (f a) -> In x (f b) -> a = b) -> NoDup (flat_map f l).
Proof.
  induction l as [|a t IH]; intros Hnd H1 H2; cbn [flat_map]; [constructor|].
  inversion Hnd as [|? ? Hni Hnd']; subst. apply NoDup_app_iff. split; [apply H1; left; reflexivity|]. split.
  - apply IH; [exact Hnd'|intros; apply H1; right; assumption|intros a0 b x Ha Hb; apply H2; right; assumption].
  - intros x Hx Hc. apply in_flat_map in Hc. destruct Hc as (b & Hb & Hxb).
    assert (a = b) by (apply (H2 a b x); [left; reflexivity|right; exact Hb|exact Hx|exact Hxb]). subst b. contradiction.
Qed.

Lemma perm_flat_map3 {A B} (a b c : A -> B) l :
  Permutation (flat_map (fun n => [a n; b n; c n]) l) (map a l ++ map b l ++ map c l).
Proof. induction l as [|x t IH]; cbn [flat_map map app]; [constructor|]. rewrite IH. perm_solve. Qed.

Lemma perm_flat_map2 {A B} (a b : A -> B) l :
  Permutation (flat_map (fun n => [a n; b n]) l) (map a l ++ map b l).
Proof. induction l as [|x t IH]; cbn [flat_map map app]; [constructor|]. rewrite IH. perm_solve. Qed.

Lemma map_fst_flat2 {A} (a b c e : A -> nat) l :
  map fst (flat_map (fun n => [(a n, b n); (c n, e n)]) l) = flat_map (fun n => [a n; c n]) l.
Proof. induction l as [|x t IH]; [reflexivity|]. cbn [flat_map map app fst]. rewrite IH. reflexivity. Qed.
Lemma map_snd_flat2 {A} (a b c e : A -> nat) l :
  map snd (flat_map (fun n => [(a n, b n); (c n, e n)]) l) = flat_map (fun n => [b n; e n]) l.
Proof. induction l as [|x t IH]; [reflexivity|]. cbn [flat_map map app snd]. rewrite IH. reflexivity. Qed.

Lemma map_fst_flat3 {A} (a a' b b' c c' : A -> nat) l :
  map fst (flat_map (fun n => [(a n, a' n); (b n, b' n); (c n, c' n)]) l) = flat_map (fun n => [a n; b n; c n]) l.
Proof. induction l as [|x t IH]; [reflexivity|]. cbn [flat_map map app fst]. rewrite IH. reflexivity. Qed.
Lemma map_snd_flat3 {A} (a a' b b' c c' : A -> nat) l :
  map snd (flat_map (fun n => [(a n, a' n); (b n, b' n); (c n, c' n)]) l) = flat_map (fun n => [a' n; b' n; c' n]) l.
Proof. induction l as [|x t IH]; [reflexivity|]. cbn [flat_map map app snd]. rewrite IH. reflexivity. Qed.

Lemma wf_sub3_tlist woff ket op t : forall p, wf_sub3 woff ket op p t ->
  forall q n cs, In (q, n, cs) (tlist p t) -> node_ok3 woff ket op q n cs.
Proof.
  induction t as [m ds IH] using rt_rect'. intros p H q n cs He. inversion H as [? ? ? Hok Hsub]; subst.
  cbn [tlist] in He. destruct He as [E|He].
  - injection E as <- <- <-. exact Hok.
  - apply in_flat_map in He. destruct He as (x & Hx & He). apply (IH x Hx (Some m) (Hsub x Hx) _ _ _ He).
Qed.

Lemma in_hd_nonempty (l : list nat) x t : l = x :: t -> In (hd 0 l) l.
Proof. intros ->. left. reflexivity. Qed.
Lemma in_last_snoc (l t : list nat) x : l = t ++ [x] -> In (last l 0) l.
Proof. intros ->. rewrite last_last. apply in_or_app. right. left. reflexivity. Qed.

(* ================================================================================================================ *)
(* 2. + 3. the operator on the state's tree; the network side                                                         *)
(* ================================================================================================================ *)
Section DSide.
  Variable R : Type.
  Variables (zero one : R) (add mul : R -> R -> R).
  Hypothesis SR : comm_semiring zero one add mul.
  Variables (woff : nat) (im : idmaps) (d s op : store) (r0 : id) (ts : rt) (k : nat).
  Variable tblD : nat -> list nat -> R.
  Variable WrD : nat -> list wire.
  Variable DmD : wire -> nat.
  Hypothesis WS : wfs s.
  Hypothesis WO : wfs op.
  Hypothesis TO : ttndo_of im d s r0 ts k.
  Hypothesis W3 : wf_three woff s op ts.
  Hypothesis WD3 : wf_ttndo3 im d op r0 (rmap (im_kid im) ts).
  Hypothesis Hrev : forall n, In n (rnodes ts) -> im_rev im (im_kid im n) = n.
  Hypothesis HsepD : op_above (next_wire d) op.
  Hypothesis WrD_d : forall a, In a (total_atoms d) -> WrD a = atom_wires d a.
  Hypothesis WrD_op : forall a, In a (total_atoms op) -> WrD a = atom_wires op a.

  Local Notation kid := (im_kid im).
  Local Notation k2b := (im_k2b im).
  Local Notation upD := (up_wire d).
  Local Notation opD := (open_wire d).
  Local Notation upO := (up_wire op).
  Local Notation oW := (out_wire op).
  Local Notation iW := (in_wire op).
  Local Notation GD := (glueD3 im d op ts).
  Local Notation valD := (value R zero one add mul WrD DmD tblD).

  Let WDs : wfs d := to_wfs _ _ _ _ _ _ TO.

  (* ---- the operator's nodes ------------------------------------------------------------------------------------------ *)
  Lemma op_node q n cs : In (q, n, cs) (tlist None ts) -> exists on to,
    aget n (nodes op) = Some on /\ aget n (tensors op) = Some to /\ tens op n = to /\
    t_atoms op n = atoms to /\ t_bnd op n = bnd to /\ parent on = q /\ Permutation (children on) cs /\
    t_axes op n = opt_list q (upO n) ++ map upO (children on) ++ [oW n; iW n] /\
    Permutation (t_axes op n) (axes to) /\
    own_of on (tens op n) = opt_list q (upO n) ++ [oW n; iW n].
  Proof.
    intros He. destruct W3 as (_ & _ & _ & Hsub).
    destruct (wf_sub3_tlist woff s op ts None Hsub q n cs He) as (kn & on & _ & E2 & _ & P2 & _ & C2 & _ & _ & AX2 & _).
    destruct (node_tensor op WO n on E2) as [to T2]. destruct (t_views op n on to E2 T2) as (U1 & U2 & U3 & U4).
    exists on, to. repeat (split; [assumption|]). split.
    - rewrite U1. rewrite <- U4. apply (wf_lax_perm_axes op n on (ws_wf op WO) E2).
    - rewrite <- P2 in AX2 |- *. apply (own_shape op n on to (upO n) (map upO (children on)) [oW n; iW n] E2 T2); [apply map_length|exact AX2].
  Qed.

  Lemma op_axes_in q n cs on to w : In (q, n, cs) (tlist None ts) -> aget n (nodes op) = Some on -> aget n (tensors op) = Some to ->
    In w (opt_list q (upO n) ++ [oW n; iW n]) -> In w (axes to).
  Proof.
    intros He E T Hw. destruct (op_node q n cs He) as (on' & to' & E' & T' & _ & _ & _ & _ & _ & AX & PX & _).
    assert (to' = to) by congruence. subst to'. apply (Permutation_in _ PX). rewrite AX.
    apply in_app_or in Hw. destruct Hw as [Hw|Hw]; [apply in_or_app; left; exact Hw|apply in_or_app; right; apply in_or_app; right; exact Hw].
  Qed.

  (* every edge / physical wire of the operator is an axis of an operator tensor, hence above the network's wires *)
  Definition opw (n : id) : list wire :=
    match aget n (nodes op) with Some on => own_of on (tens op n) | None => [] end.

  Lemma opw_root : opw (rid ts) = [oW (rid ts); iW (rid ts)].
  Proof.
    destruct (op_node _ _ _ (in_tlist_root ts)) as (on & to & E & _ & _ & _ & _ & _ & _ & _ & _ & O). unfold opw. rewrite E. exact O.
  Qed.
  Lemma opw_desc n : In n (rdesc ts) -> opw n = [upO n; oW n; iW n].
  Proof.
    intros Hn. destruct (in_tlist_desc ts n Hn) as (p & cs & He).
    destruct (op_node _ _ _ He) as (on & to & E & _ & _ & _ & _ & _ & _ & _ & _ & O). unfold opw. rewrite E. exact O.
  Qed.

  Lemma ts_nodup : NoDup (rnodes ts).
  Proof. destruct W3 as (_ & _ & H & _). exact H. Qed.

  Lemma opw_nodup : NoDup (flat_map opw (rnodes ts)).
  Proof.
    apply NoDup_flat_map_disj; [exact ts_nodup| |].
    - intros n Hn. destruct (in_tlist ts n Hn) as (q & cs & He). destruct (op_node _ _ _ He) as (on & to & E & _).
      unfold opw. rewrite E. apply (wf_own1 op (ws_wf op WO) n on E).
    - intros a b x Ha Hb Hxa Hxb. destruct (in_tlist ts a Ha) as (q & cs & He). destruct (op_node _ _ _ He) as (on & to & E & _).
      destruct (in_tlist ts b Hb) as (q' & cs' & He'). destruct (op_node _ _ _ He') as (on' & to' & E' & _).
      unfold opw in Hxa, Hxb. rewrite E in Hxa. rewrite E' in Hxb. exact (wf_own2 op (ws_wf op WO) a on b on' x E E' Hxa Hxb).
  Qed.

  Definition OPW : list wire := map upO (rdesc ts) ++ flat_map (fun n => [oW n; iW n]) (rnodes ts).

  Lemma OPW_perm : Permutation (flat_map opw (rnodes ts)) OPW.
  Proof.
    unfold OPW. rewrite (rnodes_desc ts). cbn [flat_map]. rewrite opw_root.
    rewrite (flat_map_ext_in' opw (fun n => [upO n] ++ [oW n; iW n]) (rdesc ts)) by (intros n Hn; rewrite (opw_desc n Hn); reflexivity).
    rewrite (perm_flat_map_split (fun n => [upO n]) (fun n => [oW n; iW n]) (rdesc ts)). rewrite flat_map_single. perm_solve.
  Qed.

  Lemma OPW_nodup : NoDup OPW.
  Proof. apply (Permutation_NoDup OPW_perm). exact opw_nodup. Qed.

  Lemma OPW_axis w : In w OPW -> exists n to, In n (rnodes ts) /\ aget n (tensors op) = Some to /\ In w (axes to).
  Proof.
    intros Hw. apply (Permutation_in _ (Permutation_sym OPW_perm)) in Hw. apply in_flat_map in Hw. destruct Hw as (n & Hn & Hw).
    destruct (in_tlist ts n Hn) as (q & cs & He). destruct (op_node _ _ _ He) as (on & to & E & T & _ & _ & _ & _ & _ & _ & _ & O).
    exists n, to. split; [exact Hn|]. split; [exact T|]. unfold opw in Hw. rewrite E, O in Hw. apply (op_axes_in q n cs on to w He E T Hw).
  Qed.

  Lemma OPW_above w : In w OPW -> next_wire d <= w.
  Proof. intros Hw. destruct (OPW_axis w Hw) as (n & to & _ & T & Hax). apply (HsepD n to w T). apply in_or_app. left. exact Hax. Qed.

  (* ---- the network's nodes -------------------------------------------------------------------------------------------- *)
  Lemma d_item m : In m (all_ids im r0 ts) -> exists tm,
    aget m (tensors d) = Some tm /\ tens d m = tm /\ atoms tm = [datom d m] /\ bnd tm = [] /\
    WrD (datom d m) = t_axes d m /\ Permutation (t_axes d m) (axes tm).
  Proof.
    intros Hm. destruct (keys_aget _ _ (ids_keys im d s r0 ts k TO m Hm)) as [nd E].
    destruct (node_tensor d WDs m nd E) as [tm T]. destruct (t_views d m nd tm E T) as (V1 & V2 & V3 & V4).
    destruct (to_plain _ _ _ _ _ _ TO m Hm) as (P1 & P2 & P3).
    exists tm. split; [exact T|]. split; [exact V4|]. split; [rewrite <- V2; exact P1|]. split; [rewrite <- V3; exact P2|]. split.
    - rewrite <- P3. apply WrD_d. apply (F_atom_in d m tm _ T). rewrite <- V2, P1. left. reflexivity.
    - rewrite V1. rewrite <- V4. apply (wf_lax_perm_axes d m nd (ws_wf d WDs) E).
  Qed.

  Lemma valD_item m r : In m (all_ids im r0 ts) -> valD (tens d m) r = mul (tblD (datom d m) (map r (t_axes d m))) one.
  Proof.
    intros Hm. destruct (d_item m Hm) as (tm & _ & -> & A & B & W & _). unfold value. rewrite A, B. cbn [sum_bnd].
    unfold atoms_val. cbn [prod_over]. unfold atom_val. rewrite W. reflexivity.
  Qed.

  Lemma in_ids_kid n : In n (rnodes ts) -> In (kid n) (all_ids im r0 ts).
  Proof. intros Hn. right. apply in_or_app. left. apply in_map. exact Hn. Qed.
  Lemma in_ids_bid n : In n (rnodes ts) -> In (bid im n) (all_ids im r0 ts).
  Proof. intros Hn. right. apply in_or_app. right. apply in_map. exact Hn. Qed.
  Lemma in_ids_root : In r0 (all_ids im r0 ts).
  Proof. left. reflexivity. Qed.

  (* the open wire of every node of the network and the parent wire of every ket / bra node are axes of its tensor *)
  Lemma d_open_axis m : In m (all_ids im r0 ts) -> In (opD m) (t_axes d m).
  Proof.
    intros [<-|Hm].
    - destruct (d_root im d s r0 ts k TO) as (rn & _ & _ & _ & _ & AX & _). unfold open_wire at 1. apply (in_last_snoc _ _ _ AX).
    - apply in_app_or in Hm. destruct Hm as [Hm|Hm]; apply in_map_iff in Hm; destruct Hm as (n & <- & Hn);
        destruct (in_tlist ts n Hn) as (q & cs & He); destruct (d_node im d s r0 ts k TO q n cs He) as (kn & bn & p & bp & _ & _ & _ & _ & AK & AB & _).
      + unfold open_wire at 1. rewrite AK at 1 2. rewrite app_comm_cons. rewrite last_last. apply in_or_app. right. left. reflexivity.
      + unfold open_wire at 1. rewrite AB at 1 2. rewrite app_comm_cons. rewrite last_last. apply in_or_app. right. left. reflexivity.
  Qed.
  Lemma d_up_axis m : In m (map kid (rnodes ts) ++ map (bid im) (rnodes ts)) -> In (upD m) (t_axes d m).
  Proof.
    intros Hm. apply in_app_or in Hm. destruct Hm as [Hm|Hm]; apply in_map_iff in Hm; destruct Hm as (n & <- & Hn);
      destruct (in_tlist ts n Hn) as (q & cs & He); destruct (d_node im d s r0 ts k TO q n cs He) as (kn & bn & p & bp & _ & _ & _ & _ & AK & AB & _).
    - unfold up_wire at 1. rewrite AK at 1 2. left. reflexivity.
    - unfold up_wire at 1. rewrite AB at 1 2. left. reflexivity.
  Qed.

  Lemma d_axis_lt m w : In m (all_ids im r0 ts) -> In w (t_axes d m) -> w < next_wire d.
  Proof.
    intros Hm Hw. destruct (d_item m Hm) as (tm & T & _ & _ & _ & _ & PX). apply (F_axes_nw d WDs m tm w T). apply (Permutation_in _ PX). exact Hw.
  Qed.

  Lemma WD_below w : In w (WD im d r0 ts) -> w < next_wire d.
  Proof.
    unfold WD. intros Hw. apply in_app_or in Hw. destruct Hw as [Hw|Hw]; apply in_map_iff in Hw; destruct Hw as (m & <- & Hm).
    - apply (d_axis_lt m _ Hm). apply d_open_axis. exact Hm.
    - apply (d_axis_lt m); [right; exact Hm|]. apply d_up_axis. exact Hm.
  Qed.

  (* ---- all the wires of the flat form are pairwise distinct ------------------------------------------------------------ *)
  Local Notation RD := (rootD3 im d r0 ts).
  Local Notation ED := (edgeD3 im d op ts).

  Lemma allD_nodup : NoDup (WD im d r0 ts ++ OPW).
  Proof.
    apply NoDup_app_iff. split; [exact (WD_nodup im d s r0 ts k TO)|]. split; [exact OPW_nodup|].
    intros w H1 H2. pose proof (WD_below w H1). pose proof (OPW_above w H2). lia.
  Qed.

  Lemma allD_perm : Permutation (RD ++ ED ++ map fst GD ++ map snd GD) (WD im d r0 ts ++ OPW).
  Proof.
    unfold rootD3, edgeD3, glueD3, WD, OPW, all_ids.
    rewrite (map_fst_flat2 (fun n => opD (kid n)) iW oW (fun n => opD (bid im n))).
    rewrite (map_snd_flat2 (fun n => opD (kid n)) iW oW (fun n => opD (bid im n))).
    rewrite (perm_flat_map3 (fun n => upD (kid n)) upO (fun n => upD (bid im n)) (rdesc ts)).
    rewrite !(perm_flat_map2 _ _ (rnodes ts)).
    rewrite (rnodes_desc ts). cbn [map app]. rewrite !map_app. cbn [map]. rewrite !map_map. perm_solve.
  Qed.

  Lemma allD3_nodup : NoDup (RD ++ ED ++ map fst GD ++ map snd GD).
  Proof. apply (Permutation_NoDup (Permutation_sym allD_perm)). exact allD_nodup. Qed.

  Lemma GD_all_nodup : NoDup (map fst GD ++ map snd GD).
  Proof. pose proof allD3_nodup as H. apply NoDup_app_r in H. apply NoDup_app_r in H. exact H. Qed.

  (* ---- the family of tensors of the diagram: the hypotheses of C04's fusion lemma --------------------------------------- *)
  Local Notation dD := (tensD3 im d op r0).
  Local Notation items := (itemsD3 r0 ts).

  Lemma in_itemsD l n : l < 3 -> In n (rnodes ts) -> In (l, n) items.
  Proof.
    intros Hl Hn. right. unfold layer_items. apply in_flat_map. exists n. split; [exact Hn|].
    destruct l as [|[|[|l]]]; [left|right; left|right; right; left|lia]; reflexivity.
  Qed.

  Lemma item_cases i : In i items ->
    (exists m, In m (all_ids im r0 ts) /\ dD i = tens d m) \/ (exists n, In n (rnodes ts) /\ i = (1, n)).
  Proof.
    intros [<-|H]; [left; exists r0; split; [exact in_ids_root|reflexivity]|].
    unfold layer_items in H. apply in_flat_map in H. destruct H as (n & Hn & H). cbn in H. destruct H as [<-|[<-|[<-|[]]]].
    - left. exists (kid n). split; [exact (in_ids_kid n Hn)|reflexivity].
    - right. exists n. auto.
    - left. exists (bid im n). split; [exact (in_ids_bid n Hn)|reflexivity].
  Qed.

  Lemma itemsD_nodup : NoDup items.
  Proof.
    constructor; [|exact (items_nodup woff s op ts W3)]. intros H. unfold layer_items in H. apply in_flat_map in H.
    destruct H as (m & _ & H). cbn in H. destruct H as [H|[H|[H|[]]]]; discriminate.
  Qed.

  Lemma op_item n : In n (rnodes ts) -> exists to, aget n (tensors op) = Some to /\ tens op n = to.
  Proof.
    intros Hn. destruct (in_tlist ts n Hn) as (q & cs & He). destruct (op_node _ _ _ He) as (on & to & _ & T & V & _). exists to. auto.
  Qed.

  Lemma f_closed i a y : In i items -> In a (atoms (dD i)) -> In y (WrD a) -> In y (axes (dD i)) \/ In y (bnd (dD i)).
  Proof.
    intros Hi Ha Hy. destruct (item_cases i Hi) as [(m & Hm & E)|(n & Hn & ->)].
    - rewrite E in *. destruct (d_item m Hm) as (tm & T & V & _). rewrite V in *.
      rewrite (WrD_d a (F_atom_in d m tm a T Ha)) in Hy. exact (F_closed d WDs m tm a y T Ha Hy).
    - change (dD (1, n)) with (tens op n) in *. destruct (op_item n Hn) as (to & T & V). rewrite V in *.
      rewrite (WrD_op a (F_atom_in op n to a T Ha)) in Hy. exact (F_closed op WO n to a y T Ha Hy).
  Qed.

  Lemma bnd_is_op i b : In i items -> In b (bnd (dD i)) -> exists n to, In n (rnodes ts) /\ i = (1, n) /\ aget n (tensors op) = Some to /\ In b (bnd to).
  Proof.
    intros Hi Hb. destruct (item_cases i Hi) as [(m & Hm & E)|(n & Hn & ->)].
    - rewrite E in Hb. destruct (d_item m Hm) as (tm & _ & V & _ & B & _). rewrite V, B in Hb. destruct Hb.
    - change (dD (1, n)) with (tens op n) in Hb. destruct (op_item n Hn) as (to & T & V). rewrite V in Hb. exists n, to. auto.
  Qed.

  Lemma f_ba i j b : In i items -> In j items -> In b (bnd (dD i)) -> ~ In b (axes (dD j)).
  Proof.
    intros Hi Hj Hb Hax. destruct (bnd_is_op i b Hi Hb) as (n & to & Hn & -> & T & Hb').
    destruct (item_cases j Hj) as [(m & Hm & E)|(n' & Hn' & ->)].
    - rewrite E in Hax. destruct (d_item m Hm) as (tm & T' & V & _). rewrite V in Hax.
      pose proof (F_axes_nw d WDs m tm b T' Hax). pose proof (HsepD n to b T (in_or_app _ _ _ (or_intror Hb'))). lia.
    - change (dD (1, n')) with (tens op n') in Hax. destruct (op_item n' Hn') as (to' & T' & V). rewrite V in Hax.
      exact (F_bnd_axes op WO n to n' to' b T T' Hb' Hax).
  Qed.

  Lemma f_bb i j b : In i items -> In j items -> i <> j -> In b (bnd (dD i)) -> ~ In b (bnd (dD j)).
  Proof.
    intros Hi Hj Hne Hb Hb2. destruct (bnd_is_op i b Hi Hb) as (n & to & Hn & -> & T & Hb').
    destruct (bnd_is_op j b Hj Hb2) as (n' & to' & Hn' & -> & T' & Hb2').
    assert (Hnn : n <> n') by (intros ->; apply Hne; reflexivity).
    exact (F_bnd_disj op WO n to n' to' b T T' Hnn Hb' Hb2').
  Qed.

  Lemma ax_kO n : In n (rnodes ts) -> exists i, In i items /\ In (opD (kid n)) (axes (dD i)).
  Proof.
    intros Hn. exists (0, n). split; [apply in_itemsD; [lia|exact Hn]|]. change (dD (0, n)) with (tens d (kid n)).
    destruct (d_item _ (in_ids_kid n Hn)) as (tm & _ & V & _ & _ & _ & PX). rewrite V. apply (Permutation_in _ PX). apply d_open_axis. exact (in_ids_kid n Hn).
  Qed.
  Lemma ax_bO n : In n (rnodes ts) -> exists i, In i items /\ In (opD (bid im n)) (axes (dD i)).
  Proof.
    intros Hn. exists (2, n). split; [apply in_itemsD; [lia|exact Hn]|]. change (dD (2, n)) with (tens d (bid im n)).
    destruct (d_item _ (in_ids_bid n Hn)) as (tm & _ & V & _ & _ & _ & PX). rewrite V. apply (Permutation_in _ PX). apply d_open_axis. exact (in_ids_bid n Hn).
  Qed.
  Lemma ax_phys n w : In n (rnodes ts) -> In w [oW n; iW n] -> exists i, In i items /\ In w (axes (dD i)).
  Proof.
    intros Hn Hw. exists (1, n). split; [apply in_itemsD; [lia|exact Hn]|]. change (dD (1, n)) with (tens op n).
    destruct (in_tlist ts n Hn) as (q & cs & He). destruct (op_node _ _ _ He) as (on & to & E & T & V & _). rewrite V.
    apply (op_axes_in q n cs on to w He E T). apply in_or_app. right. exact Hw.
  Qed.

  Lemma f_G p : In p GD ->
    (exists i, In i items /\ In (fst p) (axes (dD i))) /\ (exists j, In j items /\ In (snd p) (axes (dD j))).
  Proof.
    unfold glueD3. intros Hp. apply in_flat_map in Hp. destruct Hp as (n & Hn & [<-|[<-|[]]]); cbn [fst snd].
    - split; [apply ax_kO; exact Hn|apply (ax_phys n); [exact Hn|right; left; reflexivity]].
    - split; [apply (ax_phys n); [exact Hn|left; reflexivity]|apply ax_bO; exact Hn].
  Qed.

  (* ---- THE FLAT FORM of the diagram of ttndo_ttno_expectation ---------------------------------------------------------- *)
  Theorem D_flat : (forall p, In p GD -> DmD (fst p) = DmD (snd p)) ->
    exists g, ttndo_ttno_expectation im d op = Some g /\ gaxes g = [] /\
    forall rho, gvalue R zero one add mul WrD DmD tblD g rho
                = ttndo_three_flat R zero one add mul WrD DmD tblD im d op r0 ts rho.
  Proof.
    intros DmD_glue.
    destruct (ttndo_expectation_closed im d op r0 _ WD3) as (g & Hg & Hax & PA & PB & PG).
    exists g. split; [exact Hg|]. split; [exact Hax|]. intros rho.
    rewrite rnodes_rmap in PA, PB, PG. rewrite rdesc_rmap in PB.
    set (NA := flat_map (fun i => atoms (dD i)) items). set (NB := flat_map (fun i => bnd (dD i)) items).
    assert (Vd : forall m, In m (all_ids im r0 ts) -> t_atoms d m = atoms (tens d m) /\ t_bnd d m = bnd (tens d m)).
    { intros m Hm. destruct (d_item m Hm) as (tm & T & V & A & B & _). destruct (to_plain _ _ _ _ _ _ TO m Hm) as (P1 & P2 & _).
      rewrite V, A, B. auto. }
    assert (Vo : forall n, In n (rnodes ts) -> t_atoms op n = atoms (tens op n) /\ t_bnd op n = bnd (tens op n)).
    { intros n Hn. destruct (in_tlist ts n Hn) as (q & cs & He). destruct (op_node _ _ _ He) as (on & to & _ & _ & V & A & B & _).
      rewrite V. auto. }
    rewrite (gvalue_norm_unoriented R zero one add mul SR WrD DmD tblD g NA (RD ++ ED ++ NB) GD rho).
    - unfold ttndo_three_flat.
      rewrite (sum_bnd_perm R zero one add mul SR DmD _ ((RD ++ ED ++ NB) ++ map fst GD) ((RD ++ ED ++ map fst GD) ++ NB)
                 (aval_glue_ext R one mul WrD tblD NA GD)) by perm_solve.
      rewrite sum_bnd_app. apply sum_bnd_ext_F. intros r1. unfold NA, NB.
      exact (fuse_items R zero one add mul SR WrD DmD tblD (nat * id) dD GD items itemsD_nodup f_closed f_ba f_bb f_G r1).
    - rewrite PA. unfold ex_atoms, NA, itemsD3. cbn [flat_map]. change (dD (3, r0)) with (tens d r0).
      rewrite (proj1 (Vd r0 in_ids_root)). apply Permutation_app_head.
      unfold layer_items. rewrite flat_map_flat_map, flat_map_map. apply perm_flat_map_pointwise. intros n Hn.
      cbn [flat_map]. change (dD (0, n)) with (tens d (kid n)). change (dD (1, n)) with (tens op n). change (dD (2, n)) with (tens d (bid im n)).
      rewrite (Hrev n Hn). change (k2b (kid n)) with (bid im n).
      rewrite (proj1 (Vd _ (in_ids_kid n Hn))), (proj1 (Vd _ (in_ids_bid n Hn))), (proj1 (Vo n Hn)), app_nil_r. reflexivity.
    - rewrite PB. unfold ex_bnd, NB, itemsD3, rootD3, edgeD3. cbn [flat_map]. change (dD (3, r0)) with (tens d r0).
      rewrite (proj2 (Vd r0 in_ids_root)). rewrite !flat_map_map, !map_map.
      rewrite (map_ext_in (fun m => upO (im_rev im (kid m))) upO (rdesc ts))
        by (intros n Hn; rewrite (Hrev n); [reflexivity|rewrite (rnodes_desc ts); right; exact Hn]).
      assert (PI : Permutation (flat_map (fun m => t_bnd d (kid m) ++ t_bnd op (im_rev im (kid m)) ++ t_bnd d (k2b (kid m))) (rnodes ts))
                               (flat_map (fun i => bnd (dD i)) (layer_items (rnodes ts)))).
      { unfold layer_items. rewrite flat_map_flat_map. apply perm_flat_map_pointwise. intros n Hn.
        cbn [flat_map]. change (dD (0, n)) with (tens d (kid n)). change (dD (1, n)) with (tens op n). change (dD (2, n)) with (tens d (bid im n)).
        rewrite (Hrev n Hn). change (k2b (kid n)) with (bid im n).
        rewrite (proj2 (Vd _ (in_ids_kid n Hn))), (proj2 (Vd _ (in_ids_bid n Hn))), (proj2 (Vo n Hn)), app_nil_r. reflexivity. }
      rewrite PI. rewrite (perm_flat_map3 (fun n => upD (kid n)) upO (fun n => upD (bid im n)) (rdesc ts)).
      rewrite (perm_flat_map2 (fun m => upD (kid m)) (fun m => upD (k2b (kid m))) (rnodes ts)).
      rewrite (rnodes_desc ts) at 1 2. cbn [map app]. change (k2b (kid (rid ts))) with (bid im (rid ts)).
      rewrite (map_ext (fun m => upD (k2b (kid m))) (fun m => upD (bid im m))) by reflexivity. perm_solve.
    - rewrite PG. apply Permutation_refl'. f_equal. unfold ex_glue, glueD3. rewrite flat_map_map. apply flat_map_ext_in'. intros n Hn.
      rewrite (Hrev n Hn). reflexivity.
    - exact GD_all_nodup.
    - exact DmD_glue.
  Qed.

  (* ================================================================================================================ *)
  (* 4. the join with C04's three-layer flat form                                                                      *)
  (* ================================================================================================================ *)
  Variable aoff : nat.
  Variable tblS : nat -> list nat -> R.
  Variable WrS : nat -> list wire.
  Variable DmS : wire -> nat.
  Hypothesis H1 : one_open s.
  Hypothesis Hw0 : 0 < woff.
  Hypothesis Hw : next_wire s <= woff.
  Hypothesis Ha : next_atom s <= aoff.
  Hypothesis WT : wf_two s (conj_store woff aoff s) ts.
  Hypothesis HP : Permutation (rnodes ts) (akeys (nodes s)).
  Hypothesis Hk : 1 <= k.
  Hypothesis BC : build_contracts R zero one add mul woff aoff im d s r0 ts k tblD tblS.
  Hypothesis HsepS : op_above (next_wire s) op.
  Hypothesis Hwo : next_wire op <= woff.
  Hypothesis DmD_d : forall w, w < next_wire d -> DmD w = wdim d w.
  Hypothesis WrS_ket : forall a, In a (total_atoms s) -> WrS a = atom_wires s a.
  Hypothesis WrS_op : forall a, In a (total_atoms op) -> WrS a = atom_wires op a.
  Hypothesis WrS_bra : forall a, a < next_atom s -> WrS (aoff + a) = map (Nat.add woff) (atom_wires s a).
  Hypothesis DmS_ket : forall w, w < next_wire s -> DmS w = wdim s w.
  Hypothesis DmS_bra : forall w, w < next_wire s -> DmS (woff + w) = wdim s w.
  Hypothesis Dm_op : forall n to w, aget n (tensors op) = Some to -> In w (axes to ++ bnd to) -> DmD w = DmS w.
  Hypothesis Tbl_op : forall a idx, In a (total_atoms op) -> tblD a idx = tblS a idx.
  Hypothesis Hphys : forall n, In n (rnodes ts) -> DmS (iW n) = wdim s (open_wire s n) /\ DmS (oW n) = wdim s (open_wire s n).
  Hypothesis Hbra_dim : forall n, In n (rnodes ts) -> wdim d (opD (bid im n)) = wdim s (open_wire s n).

  Local Notation upS := (up_wire s).
  Local Notation opS := (open_wire s).
  Local Notation GS := (three_glue woff s op ts).
  Local Notation TW := (three_wires woff s op ts).
  Local Notation valS := (value R zero one add mul WrS DmS tblS).
  Local Notation rt0 := (rid ts).

  Lemma desc_in n : In n (rdesc ts) -> In n (rnodes ts).
  Proof. intros H. rewrite (rnodes_desc ts). right. exact H. Qed.
  Lemma root_in : In rt0 (rnodes ts).
  Proof. rewrite (rnodes_desc ts). left. reflexivity. Qed.

  (* ---- the wires of the state side ------------------------------------------------------------------------------------ *)
  Definition KW : list wire := map upS (rdesc ts) ++ map opS (rnodes ts).

  Lemma s_axis_lt q n cs w : In (q, n, cs) (tlist None ts) -> In w (t_axes s n) -> w < next_wire s.
  Proof.
    intros He Hw'. destruct (s_node woff aoff s ts WS WT q n cs He) as (kn & tm & _ & T & _ & _ & _ & PX).
    apply (F_axes_nw s WS n tm w T). apply (Permutation_in _ PX). exact Hw'.
  Qed.

  Lemma upS_lt n : In n (rdesc ts) -> upS n < next_wire s.
  Proof.
    intros Hn. destruct (in_tlist_desc ts n Hn) as (p & cs & He). apply (s_axis_lt _ n cs _ He).
    destruct (s_node woff aoff s ts WS WT _ n cs He) as (kn & tm & _ & _ & _ & _ & AX & _). rewrite AX. left. reflexivity.
  Qed.
  Lemma opS_lt n : In n (rnodes ts) -> opS n < next_wire s.
  Proof.
    intros Hn. destruct (in_tlist ts n Hn) as (q & cs & He). apply (s_axis_lt q n cs _ He).
    destruct (s_node woff aoff s ts WS WT _ n cs He) as (kn & tm & _ & _ & _ & _ & AX & _). rewrite AX.
    apply in_or_app. right. apply in_or_app. right. left. reflexivity.
  Qed.

  Lemma KW_lt w : In w KW -> w < next_wire s.
  Proof.
    unfold KW. intros Hw'. apply in_app_or in Hw'. destruct Hw' as [Hw'|Hw']; apply in_map_iff in Hw'; destruct Hw' as (n & <- & Hn);
      [apply upS_lt|apply opS_lt]; exact Hn.
  Qed.

  Lemma OPW_rangeS w : In w OPW -> next_wire s <= w /\ w < woff.
  Proof.
    intros Hw'. destruct (OPW_axis w Hw') as (n & to & _ & T & Hax). split.
    - apply (HsepS n to w T). apply in_or_app. left. exact Hax.
    - pose proof (F_axes_nw op WO n to w T Hax). lia.
  Qed.

  Definition SW : list wire := KW ++ map (Nat.add woff) KW ++ OPW.

  Lemma SW_nodup : NoDup SW.
  Proof.
    pose proof (s_ket_wires_nodup woff aoff s ts WS H1 WT HP) as NK. fold KW in NK.
    unfold SW. apply NoDup_app_iff. split; [exact NK|]. split.
    - apply NoDup_app_iff. split; [|split; [exact OPW_nodup|]].
      + apply NoDup_map_inj_in; [intros a b _ _ E; lia|exact NK].
      + intros w Hw1 Hw2. apply in_map_iff in Hw1. destruct Hw1 as (x & <- & _). pose proof (OPW_rangeS _ Hw2). lia.
    - intros w Hw1 Hw2. pose proof (KW_lt w Hw1). apply in_app_or in Hw2. destruct Hw2 as [Hw2|Hw2].
      + apply in_map_iff in Hw2. destruct Hw2 as (x & <- & _). lia.
      + pose proof (OPW_rangeS _ Hw2). lia.
  Qed.

  Lemma SW_perm : Permutation (TW ++ map snd GS) SW.
  Proof.
    unfold three_wires, three_glue, edge_wires3, open_pairs3, SW, KW, OPW. rewrite !map_app. cbn [map fst snd app].
    rewrite (map_fst_flat2 opS iW oW (fun m => woff + opS m)).
    rewrite (map_snd_flat2 opS iW oW (fun m => woff + opS m)).
    rewrite (perm_flat_map3 upS upO (fun m => woff + upS m) (rdesc ts)).
    rewrite !(perm_flat_map2 _ _ (rdesc ts)).
    rewrite (rnodes_desc ts). cbn [map app flat_map]. rewrite (perm_flat_map2 oW iW (rdesc ts)). rewrite ?map_app, ?map_map. cbn [map]. perm_solve.
  Qed.

  Lemma allS_nodup : NoDup (TW ++ map snd GS).
  Proof. apply (Permutation_NoDup (Permutation_sym SW_perm)). exact SW_nodup. Qed.

  Lemma GS_snd_nodup : NoDup (map snd GS).
  Proof. exact (NoDup_app_r _ _ allS_nodup). Qed.
  Lemma GD_snd_nodup : NoDup (map snd GD).
  Proof. exact (NoDup_app_r _ _ GD_all_nodup). Qed.

  (* ---- reading wires through the two gluings ----------------------------------------------------------------------------- *)
  Lemma readD r' w : In w (RD ++ ED ++ map fst GD) -> glue_asg GD r' w = r' w.
  Proof.
    intros Hw'. apply glue_asg_out. intros Hc.
    assert (H : NoDup ((RD ++ ED ++ map fst GD) ++ map snd GD)) by (rewrite <- !app_assoc; exact allD3_nodup).
    exact (NoDup_app_disj _ _ w H Hw' Hc).
  Qed.
  Lemma readS r w : In w TW -> glue_asg GS r w = r w.
  Proof. intros Hw'. apply glue_asg_out. intros Hc. exact (NoDup_app_disj _ _ w allS_nodup Hw' Hc). Qed.

  Lemma inGD1 n : In n (rnodes ts) -> In (opD (kid n), iW n) GD.
  Proof. intros Hn. unfold glueD3. apply in_flat_map. exists n. split; [exact Hn|left; reflexivity]. Qed.
  Lemma inGD2 n : In n (rnodes ts) -> In (oW n, opD (bid im n)) GD.
  Proof. intros Hn. unfold glueD3. apply in_flat_map. exists n. split; [exact Hn|right; left; reflexivity]. Qed.

  Lemma readD_iW r' n : In n (rnodes ts) -> glue_asg GD r' (iW n) = r' (opD (kid n)).
  Proof. intros Hn. exact (glue_asg_in GD r' _ GD_snd_nodup (inGD1 n Hn)). Qed.
  Lemma readD_bO r' n : In n (rnodes ts) -> glue_asg GD r' (opD (bid im n)) = r' (oW n).
  Proof. intros Hn. exact (glue_asg_in GD r' _ GD_snd_nodup (inGD2 n Hn)). Qed.

  Lemma inGS_iW n : In n (rnodes ts) -> In (opS n, iW n) GS.
  Proof.
    intros Hn. unfold three_glue. rewrite (rnodes_desc ts) in Hn. destruct Hn as [<-|Hn]; [left; reflexivity|].
    apply in_or_app. right. unfold open_pairs3. apply in_flat_map. exists n. split; [exact Hn|left; reflexivity].
  Qed.
  Lemma readS_iW r n : In n (rnodes ts) -> glue_asg GS r (iW n) = r (opS n).
  Proof. intros Hn. exact (glue_asg_in GS r _ GS_snd_nodup (inGS_iW n Hn)). Qed.
  Lemma readS_oWr r : glue_asg GS r (oW rt0) = r (woff + opS rt0).
  Proof. apply (glue_asg_in GS r (woff + opS rt0, oW rt0) GS_snd_nodup). unfold three_glue. right. left. reflexivity. Qed.
  Lemma readS_bra r n : In n (rdesc ts) -> glue_asg GS r (woff + opS n) = r (oW n).
  Proof.
    intros Hn. apply (glue_asg_in GS r (oW n, woff + opS n) GS_snd_nodup). unfold three_glue. apply in_or_app. right.
    unfold open_pairs3. apply in_flat_map. exists n. split; [exact Hn|right; left; reflexivity].
  Qed.

  (* ---- the pairing of the summed wires ------------------------------------------------------------------------------------ *)
  Local Notation WP := (wire_pairs3 woff im d s op ts).

  Lemma WP_fst : map fst WP = TW.
  Proof.
    unfold wire_pairs3, three_wires, three_glue, edge_wires3, open_pairs3. rewrite !map_app. cbn [map fst app].
    rewrite (map_fst_flat3 upS (fun n => upD (kid n)) upO upO (fun n => woff + upS n) (fun n => upD (bid im n))).
    rewrite (map_fst_flat2 opS (fun m => opD (kid m)) oW oW), (map_fst_flat2 opS iW oW (fun m => woff + opS m)). reflexivity.
  Qed.
  Lemma WP_snd : map snd WP = ED ++ map fst GD.
  Proof.
    unfold wire_pairs3, edgeD3, glueD3. rewrite !map_app. cbn [map snd app].
    rewrite (map_snd_flat3 upS (fun n => upD (kid n)) upO upO (fun n => woff + upS n) (fun n => upD (bid im n))).
    rewrite (map_snd_flat2 opS (fun m => opD (kid m)) oW oW).
    rewrite (map_fst_flat2 (fun n => opD (kid n)) iW oW (fun n => opD (bid im n))).
    rewrite (rnodes_desc ts). reflexivity.
  Qed.

  Definition related3 (r r' : assignment) : Prop :=
    forall p, In p WP -> r (fst p) < DmS (fst p) /\ r' (snd p) = r (fst p).

  Lemma rel_read r r' p : related3 r r' -> In p WP ->
    glue_asg GD r' (snd p) = glue_asg GS r (fst p) /\ glue_asg GS r (fst p) < DmS (fst p).
  Proof.
    intros Hr Hp. destruct (Hr p Hp) as [B E].
    rewrite (readS r (fst p)) by (rewrite <- WP_fst; apply in_map; exact Hp).
    rewrite (readD r' (snd p)) by (apply in_or_app; right; rewrite <- WP_snd; apply in_map; exact Hp). auto.
  Qed.

  Lemma inWP_e n : In n (rdesc ts) ->
    In (upS n, upD (kid n)) WP /\ In (upO n, upO n) WP /\ In (woff + upS n, upD (bid im n)) WP /\
    In (opS n, opD (kid n)) WP /\ In (oW n, oW n) WP.
  Proof.
    intros Hn. unfold wire_pairs3. repeat split.
    - apply in_or_app. left. apply in_flat_map. exists n. split; [exact Hn|left; reflexivity].
    - apply in_or_app. left. apply in_flat_map. exists n. split; [exact Hn|right; left; reflexivity].
    - apply in_or_app. left. apply in_flat_map. exists n. split; [exact Hn|right; right; left; reflexivity].
    - apply in_or_app. right. apply in_or_app. right. apply in_flat_map. exists n. split; [exact Hn|left; reflexivity].
    - apply in_or_app. right. apply in_or_app. right. apply in_flat_map. exists n. split; [exact Hn|right; left; reflexivity].
  Qed.
  Lemma inWP_r : In (opS rt0, opD (kid rt0)) WP /\ In (woff + opS rt0, oW rt0) WP.
  Proof. unfold wire_pairs3. split; apply in_or_app; right; apply in_or_app; left; [left|right; left]; reflexivity. Qed.

  Local Notation pS := (glue_asg GS).
  Local Notation pD := (glue_asg GD).

  Lemma dic_edge r r' n : related3 r r' -> In n (rdesc ts) ->
    pD r' (upD (kid n)) = pS r (upS n) /\ pS r (upS n) < wdim s (upS n) /\
    pD r' (upD (bid im n)) = pS r (woff + upS n) /\ pS r (woff + upS n) < wdim s (upS n) /\
    pD r' (upO n) = pS r (upO n).
  Proof.
    intros Hr Hn. destruct (inWP_e n Hn) as (I1 & I2 & I3 & _).
    destruct (rel_read r r' _ Hr I1) as [E1 B1]. destruct (rel_read r r' _ Hr I2) as [E2 _]. destruct (rel_read r r' _ Hr I3) as [E3 B3].
    cbn [fst snd] in *. rewrite (DmS_ket _ (upS_lt n Hn)) in B1. rewrite (DmS_bra _ (upS_lt n Hn)) in B3. auto.
  Qed.

  Lemma dic_phys r r' n : related3 r r' -> In n (rnodes ts) ->
    pD r' (opD (kid n)) = pS r (opS n) /\ pS r (opS n) < wdim s (opS n) /\
    pD r' (opD (bid im n)) = pS r (woff + opS n) /\ pS r (woff + opS n) < wdim s (opS n) /\
    pD r' (oW n) = pS r (oW n) /\ pD r' (iW n) = pS r (iW n).
  Proof.
    intros Hr Hn.
    assert (FK : In (opD (kid n)) (RD ++ ED ++ map fst GD)).
    { apply in_or_app. right. apply in_or_app. right. apply (in_map fst _ _ (inGD1 n Hn)). }
    assert (FO : In (oW n) (RD ++ ED ++ map fst GD)).
    { apply in_or_app. right. apply in_or_app. right. apply (in_map fst _ _ (inGD2 n Hn)). }
    assert (TO' : In (opS n) TW).
    { unfold three_wires. apply in_or_app. right. apply (in_map fst _ _ (inGS_iW n Hn)). }
    assert (EK : pD r' (opD (kid n)) = pS r (opS n) /\ pS r (opS n) < wdim s (opS n)).
    { pose proof Hn as Hn'. rewrite (rnodes_desc ts) in Hn'. destruct Hn' as [<-|Hd].
      - destruct (rel_read r r' _ Hr (proj1 inWP_r)) as [E B]. cbn [fst snd] in *. rewrite (DmS_ket _ (opS_lt _ Hn)) in B. auto.
      - destruct (inWP_e n Hd) as (_ & _ & _ & I4 & _). destruct (rel_read r r' _ Hr I4) as [E B]. cbn [fst snd] in *.
        rewrite (DmS_ket _ (opS_lt _ Hn)) in B. auto. }
    destruct EK as [EK BK]. split; [exact EK|]. split; [exact BK|].
    rewrite (readD_bO r' n Hn), (readD_iW r' n Hn), (readS_iW r n Hn). rewrite <- (readD r' _ FK), <- (readD r' _ FO), <- (readS r _ TO').
    pose proof Hn as Hn'. rewrite (rnodes_desc ts) in Hn'. destruct Hn' as [<-|Hd].
    - destruct (rel_read r r' _ Hr (proj2 inWP_r)) as [E B]. cbn [fst snd] in *. rewrite (DmS_bra _ (opS_lt _ Hn)) in B.
      assert (TB : In (woff + opS rt0) TW) by (rewrite <- WP_fst; apply (in_map fst _ _ (proj2 inWP_r))).
      rewrite (readS_oWr r). rewrite <- (readS r _ TB). auto.
    - destruct (inWP_e n Hd) as (_ & _ & _ & _ & I5). destruct (rel_read r r' _ Hr I5) as [E B]. cbn [fst snd] in *.
      rewrite (proj2 (Hphys n Hn)) in B. rewrite (readS_bra r n Hd).
      assert (TO2 : In (oW n) TW) by (rewrite <- WP_fst; apply (in_map fst _ _ I5)).
      rewrite <- (readS r _ TO2). auto.
  Qed.

  (* ---- the state's tensors: the pair world of C04 against the world (WrS, DmS) --------------------------------------------- *)
  Local Notation bra := (conj_store woff aoff s).
  Local Notation valP := (value R zero one add mul (pair_wires s bra) (pair_dim s bra) tblS).

  Lemma ket_world n tm rho : aget n (tensors s) = Some tm -> valP tm rho = valS tm rho.
  Proof.
    intros T. apply value_worlds.
    - intros a Ha'. split; [|reflexivity]. pose proof (F_atom_in s n tm a T Ha') as Hin.
      rewrite (pw_ket woff aoff s WS a Hin), (WrS_ket a Hin). reflexivity.
    - intros w Hb. pose proof (F_bnd_nw s WS n tm w T Hb) as Hl. rewrite (DmS_ket w Hl). apply (pd_ket woff aoff s). lia.
  Qed.
  Lemma bra_world n tm rho : aget n (tensors s) = Some tm -> valP (conj_sarr woff aoff tm) rho = valS (conj_sarr woff aoff tm) rho.
  Proof.
    intros T. apply value_worlds; unfold conj_sarr; cbn [atoms bnd].
    - intros a' Ha'. split; [|reflexivity]. apply in_map_iff in Ha'. destruct Ha' as (a & <- & Ha').
      pose proof (ws_atoms_lt s WS a (F_atom_in s n tm a T Ha')) as Hl.
      rewrite (pw_bra woff aoff s WS Hw Ha a Hl), (WrS_bra a Hl). reflexivity.
    - intros w' Hb. apply in_map_iff in Hb. destruct Hb as (w & <- & Hb). pose proof (F_bnd_nw s WS n tm w T Hb) as Hl.
      rewrite (DmS_bra w Hl). apply (pd_bra woff aoff s WS Hw Ha).
  Qed.

  Lemma bra_entry_at q n cs rho : In (q, n, cs) (tlist None ts) ->
    bra_entry R zero one add mul woff aoff s tblS n (map (fun w => rho (woff + w)) (t_axes s n)) = valS (conj_sarr woff aoff (tens s n)) rho.
  Proof.
    intros He. destruct (s_node woff aoff s ts WS WT q n cs He) as (kn & tm & E1 & E2 & V4 & _ & _ & PX).
    unfold bra_entry. rewrite V4. rewrite <- (bra_world n tm rho E2).
    apply (val_conj_dep R zero one add mul woff aoff s tblS WS (pair_wires s bra) (pair_dim s bra) (pw_bra woff aoff s WS Hw Ha) tm n E2).
    intros w Hin. rewrite <- (map_map (Nat.add woff) rho). apply assign_map_in.
    apply in_map_iff in Hin. destruct Hin as (x & <- & Hx). apply in_map. apply (Permutation_in _ (Permutation_sym PX)). exact Hx.
  Qed.
  Lemma ket_entry_at q n cs rho : In (q, n, cs) (tlist None ts) ->
    ket_entry R zero one add mul woff aoff s tblS n (map rho (t_axes s n)) = valS (tens s n) rho.
  Proof.
    intros He. rewrite (ket_entry_val R zero one add mul woff aoff s ts tblS WS WT q n cs rho He). unfold FKS.
    destruct (s_node woff aoff s ts WS WT q n cs He) as (kn & tm & _ & E2 & V4 & _). rewrite V4. apply (ket_world n tm rho E2).
  Qed.

  (* ---- the factors of one node ------------------------------------------------------------------------------------------ *)
  Lemma idx_tail q n cs r r' : In (q, n, cs) (tlist None ts) -> related3 r r' ->
    map (pD r') (map upD (map kid cs) ++ [opD (kid n)]) = map (pS r) (map upS cs ++ [opS n]) /\
    map (pD r') (map upD (map k2b (map kid cs)) ++ [opD (bid im n)]) = map (fun w => pS r (woff + w)) (map upS cs ++ [opS n]) /\
    (forall w, In w (map upS cs ++ [opS n]) -> pS r w < wdim s w /\ pS r (woff + w) < wdim s w).
  Proof.
    intros He Hr.
    assert (Hn : In n (rnodes ts)) by (rewrite <- (tlist_nodes ts None); apply (in_map (fun e => snd (fst e)) _ _ He)).
    pose proof (tlist_children ts None q n cs He) as Hcs.
    destruct (dic_phys r r' n Hr Hn) as (P1 & P2 & P3 & P4 & _).
    split; [|split].
    - rewrite !map_app, !map_map. cbn [map]. f_equal; [|rewrite P1; reflexivity].
      apply map_ext_in. intros c Hc. apply (dic_edge r r' c Hr (Hcs c Hc)).
    - rewrite !map_app, !map_map. cbn [map]. f_equal; [|rewrite P3; reflexivity].
      apply map_ext_in. intros c Hc. change (k2b (kid c)) with (bid im c). apply (dic_edge r r' c Hr (Hcs c Hc)).
    - intros w Hin. apply in_app_or in Hin. destruct Hin as [Hin|[<-|[]]]; [|auto].
      apply in_map_iff in Hin. destruct Hin as (c & <- & Hc). destruct (dic_edge r r' c Hr (Hcs c Hc)) as (_ & B1 & _ & B2 & _). auto.
  Qed.

  Lemma op_factor q n cs r r' : In (q, n, cs) (tlist None ts) -> related3 r r' ->
    valD (tens op n) (pD r') = valS (tens op n) (pS r).
  Proof.
    intros He Hr.
    assert (Hn : In n (rnodes ts)) by (rewrite <- (tlist_nodes ts None); apply (in_map (fun e => snd (fst e)) _ _ He)).
    pose proof (tlist_children ts None q n cs He) as Hcs.
    destruct (op_node q n cs He) as (on & to & E & T & V & _ & _ & _ & PC & AX & PX & _). rewrite V.
    rewrite (value_worlds R zero one add mul WrD WrS DmD DmS tblD tblS to).
    - apply (val_ket_dep R zero one add mul op tblS WO WrS DmS WrS_op to n T). intros w Hin.
      apply (Permutation_in _ (Permutation_sym PX)) in Hin. rewrite AX in Hin.
      destruct (dic_phys r r' n Hr Hn) as (_ & _ & _ & _ & P5 & P6).
      apply in_app_or in Hin. destruct Hin as [Hin|Hin].
      + destruct q as [p|]; cbn [opt_list] in Hin; [|destruct Hin]. destruct Hin as [<-|[]].
        apply (dic_edge r r' n Hr (tlist_some_desc ts p n cs He)).
      + apply in_app_or in Hin. destruct Hin as [Hin|[<-|[<-|[]]]]; [|exact P5|exact P6].
        apply in_map_iff in Hin. destruct Hin as (c & <- & Hc). apply (dic_edge r r' c Hr). apply Hcs. apply (Permutation_in _ PC). exact Hc.
    - intros a Ha'. pose proof (F_atom_in op n to a T Ha') as Hin. split; [rewrite (WrD_op a Hin), (WrS_op a Hin); reflexivity|].
      intros idx. apply Tbl_op. exact Hin.
    - intros w Hb. apply (Dm_op n to w T). apply in_or_app. right. exact Hb.
  Qed.

  Local Notation n3 := (node_three R zero one add mul WrS DmS tblS woff aoff s op).

  Lemma node_desc p n cs r r' : In (Some p, n, cs) (tlist None ts) -> related3 r r' ->
    mul (mul (valD (tens d (kid n)) (pD r')) (valD (tens op n) (pD r'))) (valD (tens d (bid im n)) (pD r')) = n3 n (pS r).
  Proof.
    intros He Hr. pose proof (tlist_some_desc ts p n cs He) as Hnd. pose proof (desc_in n Hnd) as Hn.
    destruct (s_node woff aoff s ts WS WT _ n cs He) as (kn & tm & _ & _ & _ & _ & AS & _). cbn [opt_list app] in AS.
    destruct (d_node im d s r0 ts k TO _ n cs He) as (dk & db & dp & dbp & _ & _ & _ & _ & AK & AB & _).
    destruct (idx_tail _ n cs r r' He Hr) as (IK & IB & BD). destruct (dic_edge r r' n Hr Hnd) as (U1 & U2 & U3 & U4 & _).
    unfold node_three. rewrite (op_factor _ n cs r r' He Hr).
    rewrite (valD_item _ (pD r') (in_ids_kid n Hn)), (valD_item _ (pD r') (in_ids_bid n Hn)). rewrite !(mul_1_r R zero one add mul SR).
    rewrite AK, AB. cbn [map]. rewrite IK, IB, U1, U3.
    destruct (bc_desc _ _ _ _ _ _ _ _ _ _ _ _ _ _ _ BC n Hnd (map (pS r) (t_axes s n))) as (C1 & _).
    { apply forall2_map_r. rewrite AS. intros w [<-|Hin]; [exact U2|apply BD; exact Hin]. }
    destruct (bc_desc _ _ _ _ _ _ _ _ _ _ _ _ _ _ _ BC n Hnd (map (fun w => pS r (woff + w)) (t_axes s n))) as (_ & C2).
    { apply forall2_map_r. rewrite AS. intros w [<-|Hin]; [exact U4|apply BD; exact Hin]. }
    rewrite (ket_entry_at _ n cs (pS r) He) in C1. rewrite (bra_entry_at _ n cs (pS r) He) in C2.
    rewrite AS in C1, C2. cbn [map] in C1, C2. rewrite C1, C2. reflexivity.
  Qed.

  Lemma pad3 i j X O Y :
    mul (mul (if Nat.eqb i 0 then X else zero) O) (if Nat.eqb j 0 then Y else zero)
    = mul (mul (pad R zero one i) (pad R zero one j)) (mul (mul X O) Y).
  Proof.
    unfold pad. destruct (Nat.eqb i 0), (Nat.eqb j 0);
      rewrite ?(csr_mul_1_l _ _ _ _ SR), ?(csr_mul_0_r _ _ _ _ SR), ?(mul_0_l R zero one add mul SR), ?(csr_mul_0_r _ _ _ _ SR), ?(mul_0_l R zero one add mul SR); reflexivity.
  Qed.

  Lemma node_root r r' i j : related3 r r' -> r' (upD (kid rt0)) = i -> r' (upD (bid im rt0)) = j -> i < k -> j < k ->
    mul (mul (valD (tens d (kid rt0)) (pD r')) (valD (tens op rt0) (pD r'))) (valD (tens d (bid im rt0)) (pD r'))
    = mul (mul (pad R zero one i) (pad R zero one j)) (n3 rt0 (pS r)).
  Proof.
    intros Hr Ei Ej Hi Hj. pose proof (in_tlist_root ts) as He. set (n := rt0) in *. set (cs := map rid (rcs ts)) in *.
    assert (Hn : In n (rnodes ts)) by exact root_in.
    destruct (s_node woff aoff s ts WS WT _ n cs He) as (kn & tm & _ & _ & _ & _ & AS & _). cbn [opt_list app] in AS.
    destruct (d_node im d s r0 ts k TO _ n cs He) as (dk & db & dp & dbp & _ & _ & _ & _ & AK & AB & _).
    destruct (idx_tail _ n cs r r' He Hr) as (IK & IB & BD).
    assert (LK : In (upD (kid n)) (RD ++ ED ++ map fst GD)) by (apply in_or_app; left; right; left; reflexivity).
    assert (LB : In (upD (bid im n)) (RD ++ ED ++ map fst GD)) by (apply in_or_app; left; right; right; left; reflexivity).
    unfold node_three. rewrite (op_factor _ n cs r r' He Hr).
    rewrite (valD_item _ (pD r') (in_ids_kid n Hn)), (valD_item _ (pD r') (in_ids_bid n Hn)). rewrite !(mul_1_r R zero one add mul SR).
    rewrite AK, AB. cbn [map]. rewrite IK, IB, (readD r' _ LK), (readD r' _ LB), Ei, Ej.
    destruct (bc_root _ _ _ _ _ _ _ _ _ _ _ _ _ _ _ BC i (map (pS r) (t_axes s n)) Hi) as (C1 & _).
    { apply forall2_map_r. rewrite AS. intros w Hin. apply BD. exact Hin. }
    destruct (bc_root _ _ _ _ _ _ _ _ _ _ _ _ _ _ _ BC j (map (fun w => pS r (woff + w)) (t_axes s n)) Hj) as (_ & C2).
    { apply forall2_map_r. rewrite AS. intros w Hin. apply BD. exact Hin. }
    fold n in C1, C2. rewrite (ket_entry_at _ n cs (pS r) He) in C1. rewrite (bra_entry_at _ n cs (pS r) He) in C2.
    rewrite AS in C1, C2. rewrite C1, C2. apply pad3.
  Qed.

  Lemma art_root r' o i j : r' (opD r0) = o -> o < 1 -> r' (upD (kid rt0)) = i -> r' (upD (bid im rt0)) = j -> i < k -> j < k ->
    valD (tens d r0) (pD r') = delta R zero one i j.
  Proof.
    intros Eo Ho Ei Ej Hi Hj. rewrite (valD_item r0 (pD r') in_ids_root), (mul_1_r R zero one add mul SR).
    destruct (d_root im d s r0 ts k TO) as (rn & _ & _ & Hc & _ & Ax & _).
    assert (L0 : In (opD r0) (RD ++ ED ++ map fst GD)) by (apply in_or_app; left; left; reflexivity).
    assert (LK : In (upD (kid rt0)) (RD ++ ED ++ map fst GD)) by (apply in_or_app; left; right; left; reflexivity).
    assert (LB : In (upD (bid im rt0)) (RD ++ ED ++ map fst GD)) by (apply in_or_app; left; right; right; left; reflexivity).
    assert (E0 : o = 0) by lia. rewrite E0 in Eo.
    rewrite Ax. destruct Hc as [-> | ->]; cbn [map app]; rewrite (readD r' _ L0), (readD r' _ LK), (readD r' _ LB), Eo, Ei, Ej.
    - rewrite (bc_eye _ _ _ _ _ _ _ _ _ _ _ _ _ _ _ BC i j Hi Hj). reflexivity.
    - rewrite (bc_eye _ _ _ _ _ _ _ _ _ _ _ _ _ _ _ BC j i Hj Hi). unfold delta. rewrite Nat.eqb_sym. reflexivity.
  Qed.

  (* ---- the summand at related assignments ------------------------------------------------------------------------------- *)
  Lemma leaf3 r r' o i j : related3 r r' -> r' (opD r0) = o -> o < 1 ->
    r' (upD (kid rt0)) = i -> r' (upD (bid im rt0)) = j -> i < k -> j < k ->
    prod_over R one mul (fun it => valD (dD it) (pD r')) items
    = mul (mul (delta R zero one i j) (mul (pad R zero one i) (pad R zero one j)))
          (prod_over R one mul (fun m => n3 m (pS r)) (rnodes ts)).
  Proof.
    intros Hr Eo Ho Ei Ej Hi Hj. unfold itemsD3. cbn [prod_over]. change (dD (3, r0)) with (tens d r0).
    rewrite (art_root r' o i j Eo Ho Ei Ej Hi Hj).
    rewrite (prod_items R zero one add mul SR (fun it => valD (dD it) (pD r')) (rnodes ts)).
    rewrite (rnodes_desc ts). cbn [prod_over].
    change (dD (0, rt0)) with (tens d (kid rt0)). change (dD (1, rt0)) with (tens op rt0). change (dD (2, rt0)) with (tens d (bid im rt0)).
    rewrite (node_root r r' i j Hr Ei Ej Hi Hj).
    rewrite (prod_over_ext R one mul _ (fun m => n3 m (pS r)) (rdesc ts)).
    2:{ intros n Hn. destruct (in_tlist_desc ts n Hn) as (p & cs & He). apply (node_desc p n cs r r' He Hr). }
    rewrite <- (csr_mul_assoc _ _ _ _ SR (mul (pad R zero one i) (pad R zero one j))).
    apply (csr_mul_assoc _ _ _ _ SR).
  Qed.

  (* ---- dimensions ---------------------------------------------------------------------------------------------------------- *)
  Lemma dimD_open n : In n (rnodes ts) -> DmD (opD (kid n)) = wdim s (opS n) /\ DmD (opD (bid im n)) = wdim s (opS n).
  Proof.
    intros Hn. split.
    - rewrite (DmD_d (opD (kid n))) by (apply (d_axis_lt (kid n)); [exact (in_ids_kid n Hn)|apply d_open_axis; exact (in_ids_kid n Hn)]).
      exact (to_dim_open _ _ _ _ _ _ TO n Hn).
    - rewrite (DmD_d (opD (bid im n))) by (apply (d_axis_lt (bid im n)); [exact (in_ids_bid n Hn)|apply d_open_axis; exact (in_ids_bid n Hn)]).
      exact (Hbra_dim n Hn).
  Qed.
  Lemma dimD_up n : In n (rdesc ts) -> DmD (upD (kid n)) = wdim s (upS n) /\ DmD (upD (bid im n)) = wdim s (upS n).
  Proof.
    intros Hd. pose proof (desc_in n Hd) as Hn. destruct (to_dim_up _ _ _ _ _ _ TO n Hd) as (D1 & D2). split.
    - rewrite (DmD_d (upD (kid n))); [exact D1|]. apply (d_axis_lt (kid n)); [exact (in_ids_kid n Hn)|]. apply d_up_axis. apply in_or_app. left. apply in_map. exact Hn.
    - rewrite (DmD_d (upD (bid im n))); [exact D2|]. apply (d_axis_lt (bid im n)); [exact (in_ids_bid n Hn)|]. apply d_up_axis. apply in_or_app. right. apply in_map. exact Hn.
  Qed.
  Lemma dim_opw q n cs w : In (q, n, cs) (tlist None ts) -> In w (opt_list q (upO n) ++ [oW n; iW n]) -> DmD w = DmS w.
  Proof.
    intros He Hw'. destruct (op_node q n cs He) as (on & to & E & T & _). apply (Dm_op n to w T). apply in_or_app. left.
    exact (op_axes_in q n cs on to w He E T Hw').
  Qed.
  Lemma dimD_phys n : In n (rnodes ts) -> DmD (iW n) = wdim s (opS n) /\ DmD (oW n) = wdim s (opS n).
  Proof.
    intros Hn. destruct (in_tlist ts n Hn) as (q & cs & He). destruct (Hphys n Hn) as [P1 P2]. split.
    - rewrite (dim_opw q n cs (iW n) He); [exact P1|]. apply in_or_app. right. right. left. reflexivity.
    - rewrite (dim_opw q n cs (oW n) He); [exact P2|]. apply in_or_app. right. left. reflexivity.
  Qed.

  Lemma DmD_glue p : In p GD -> DmD (fst p) = DmD (snd p).
  Proof.
    unfold glueD3. intros Hp. apply in_flat_map in Hp. destruct Hp as (n & Hn & [<-|[<-|[]]]); cbn [fst snd].
    - rewrite (proj1 (dimD_open n Hn)), (proj1 (dimD_phys n Hn)). reflexivity.
    - rewrite (proj2 (dimD_open n Hn)), (proj2 (dimD_phys n Hn)). reflexivity.
  Qed.

  Lemma pairs_dims3 p : In p WP -> DmS (fst p) = DmD (snd p).
  Proof.
    unfold wire_pairs3. intros Hp. apply in_app_or in Hp. destruct Hp as [Hp|Hp]; [|apply in_app_or in Hp; destruct Hp as [Hp|Hp]].
    - apply in_flat_map in Hp. destruct Hp as (n & Hd & Hp). destruct (dimD_up n Hd) as [D1 D2].
      destruct Hp as [<-|[<-|[<-|[]]]]; cbn [fst snd].
      + rewrite D1. apply DmS_ket. apply upS_lt. exact Hd.
      + destruct (in_tlist_desc ts n Hd) as (p' & cs & He). symmetry. apply (dim_opw _ n cs _ He). left. reflexivity.
      + rewrite D2. apply DmS_bra. apply upS_lt. exact Hd.
    - destruct Hp as [<-|[<-|[]]]; cbn [fst snd].
      + rewrite (proj1 (dimD_open _ root_in)). apply DmS_ket. apply opS_lt. exact root_in.
      + rewrite (proj2 (dimD_phys _ root_in)). apply DmS_bra. apply opS_lt. exact root_in.
    - apply in_flat_map in Hp. destruct Hp as (n & Hd & Hp). pose proof (desc_in n Hd) as Hn.
      destruct Hp as [<-|[<-|[]]]; cbn [fst snd].
      + rewrite (proj1 (dimD_open n Hn)). apply DmS_ket. apply opS_lt. exact Hn.
      + rewrite (proj2 (dimD_phys n Hn)). exact (proj2 (Hphys n Hn)).
  Qed.

  (* ---- the value ------------------------------------------------------------------------------------------------------------ *)
  Lemma root_wires_distinct3 :
    let o0 := opD r0 in let uK := upD (kid rt0) in let uB := upD (bid im rt0) in
    o0 <> uK /\ o0 <> uB /\ uK <> uB /\ ~ In o0 (ED ++ map fst GD) /\ ~ In uK (ED ++ map fst GD) /\ ~ In uB (ED ++ map fst GD).
  Proof.
    cbv zeta. pose proof allD3_nodup as H. unfold rootD3 in H. cbn [app] in H.
    inversion H as [|? ? N1 H']; subst. inversion H' as [|? ? N2 H'']; subst. inversion H'' as [|? ? N3 _]; subst.
    assert (Sub : forall w, In w (ED ++ map fst GD) -> In w (ED ++ map fst GD ++ map snd GD)).
    { intros w Hin. rewrite app_assoc. apply in_or_app. left. exact Hin. }
    repeat split.
    - intros E. apply N1. left. exact (eq_sym E).
    - intros E. apply N1. right. left. exact (eq_sym E).
    - intros E. apply N2. left. exact (eq_sym E).
    - intros Hin. apply N1. right. right. apply Sub. exact Hin.
    - intros Hin. apply N2. right. apply Sub. exact Hin.
    - intros Hin. apply N3. apply Sub. exact Hin.
  Qed.

  Local Notation FD := (fun r' : assignment => prod_over R one mul (fun it => valD (dD it) (pD r')) items).
  Local Notation FS := (fun r : assignment => prod_over R one mul (fun m => n3 m (pS r)) (rnodes ts)).

  Lemma inner_sum3 rho rhoS o i j : o < 1 -> i < k -> j < k ->
    sum_bnd R zero add DmD (ED ++ map fst GD) FD
            (upd (upd (upd rho (opD r0) o) (upD (kid rt0)) i) (upD (bid im rt0)) j)
    = mul (mul (delta R zero one i j) (mul (pad R zero one i) (pad R zero one j)))
          (sum_bnd R zero add DmS TW FS rhoS).
  Proof.
    intros Ho Hi Hj. destruct root_wires_distinct3 as (D1 & D2 & D3 & N1 & N2 & N3).
    set (c := mul (delta R zero one i j) (mul (pad R zero one i) (pad R zero one j))).
    rewrite <- (sum_bnd_mul_l R zero one add mul SR DmS TW (fun _ => c) FS) by (intros r1 r2 _; reflexivity).
    symmetry. rewrite <- WP_fst, <- WP_snd.
    apply (sum_bnd_rename R zero add DmS DmD).
    - rewrite WP_fst. exact (NoDup_app_l _ _ allS_nodup).
    - rewrite WP_snd. pose proof allD3_nodup as H. apply NoDup_app_r in H. rewrite app_assoc in H. exact (NoDup_app_l _ _ H).
    - exact pairs_dims3.
    - intros r r' Hrel _ Hout. rewrite WP_snd in Hout. symmetry. apply (leaf3 r r' o i j Hrel); try assumption.
      + rewrite (Hout _ N1). unfold upd. destruct (Nat.eqb_spec (opD r0) (upD (bid im rt0))) as [E|_]; [contradiction|].
        destruct (Nat.eqb_spec (opD r0) (upD (kid rt0))) as [E|_]; [contradiction|]. rewrite Nat.eqb_refl. reflexivity.
      + rewrite (Hout _ N2). unfold upd. destruct (Nat.eqb_spec (upD (kid rt0)) (upD (bid im rt0))) as [E|_]; [contradiction|].
        rewrite Nat.eqb_refl. reflexivity.
      + rewrite (Hout _ N3). unfold upd. rewrite Nat.eqb_refl. reflexivity.
  Qed.

  Theorem ttno_value_main : exists gD gS,
    ttndo_ttno_expectation im d op = Some gD /\ expectation_value woff aoff s op = Some gS /\
    gaxes gD = [] /\ gaxes gS = [] /\
    forall rho rho', gvalue R zero one add mul WrD DmD tblD gD rho = gvalue R zero one add mul WrS DmS tblS gS rho'.
  Proof.
    destruct (D_flat DmD_glue) as (gD & HgD & HaxD & HvD).
    destruct (three_flat_value R zero one add mul SR woff aoff s op tblS WS WO Hw HsepS Hwo ts W3 WrS DmS WrS_ket WrS_op
                (fun a Hin => WrS_bra a (ws_atoms_lt s WS a Hin))) as (gS & HgS & HaxS & HvS).
    exists gD, gS. repeat (split; [assumption|]). intros rho rho'. rewrite HvD, HvS.
    unfold ttndo_three_flat, three_flat. rewrite sum_bnd_app. unfold rootD3. cbn [sum_bnd].
    destruct (d_root im d s r0 ts k TO) as (rn & _ & _ & _ & _ & _ & D0). destruct (to_dim_root _ _ _ _ _ _ TO) as (DK & DB).
    rewrite (DmD_d (opD r0)) by (apply (d_axis_lt r0); [exact in_ids_root|apply d_open_axis; exact in_ids_root]).
    rewrite (DmD_d (upD (kid rt0))) by (apply (d_axis_lt (kid rt0)); [exact (in_ids_kid _ root_in)|apply d_up_axis; apply in_or_app; left; apply in_map; exact root_in]).
    rewrite (DmD_d (upD (bid im rt0))) by (apply (d_axis_lt (bid im rt0)); [exact (in_ids_bid _ root_in)|apply d_up_axis; apply in_or_app; right; apply in_map; exact root_in]).
    rewrite D0, DK, DB.
    rewrite <- (root_sums R zero one add mul SR k (sum_bnd R zero add DmS TW FS rho') Hk) at 1.
    apply sum_upto_ext. intros o Ho. apply sum_upto_ext. intros i Hi. apply sum_upto_ext. intros j Hj.
    apply (inner_sum3 rho rho' o i j Ho Hi Hj).
  Qed.
End DSide.

(* ================================================================================================================ *)
(* 5. the statement on the stores: the tree read off the state, C04's pairing hypothesis from the store invariants    *)
(* ================================================================================================================ *)
Theorem ttno_value (R : Type) (zero one : R) (add mul : R -> R -> R) :
  comm_semiring zero one add mul ->
  forall (woff aoff : nat) (im : idmaps) (d s op : store) (r0 : id) (ts : rt) (k : nat)
         (tblD tblS : nat -> list nat -> R) (WrD WrS : nat -> list wire) (DmD DmS : wire -> nat),
  wfs s -> one_open s -> wfs op -> two_open op -> root op = root s ->
  (forall kk n, aget kk (nodes s) = Some n ->
     exists on, aget kk (nodes op) = Some on /\ parent on = parent n /\ Permutation (children on) (children n)) ->
  0 < woff -> next_wire s <= woff -> next_atom s <= aoff ->
  op_above (next_wire s) op -> op_above (next_wire d) op -> next_wire op <= woff ->
  ket_tree s = Some ts -> 1 <= k ->
  ttndo_of im d s r0 ts k ->
  build_contracts R zero one add mul woff aoff im d s r0 ts k tblD tblS ->
  wf_ttndo3 im d op r0 (rmap (im_kid im) ts) ->
  (forall n, In n (rnodes ts) -> im_rev im (im_kid im n) = n) ->
  (forall n, In n (rnodes ts) -> wdim d (open_wire d (bid im n)) = wdim s (open_wire s n)) ->
  (forall n, In n (rnodes ts) -> DmS (in_wire op n) = wdim s (open_wire s n) /\ DmS (out_wire op n) = wdim s (open_wire s n)) ->
  (forall a, In a (total_atoms d) -> WrD a = atom_wires d a) ->
  (forall a, In a (total_atoms op) -> WrD a = atom_wires op a) ->
  (forall w, w < next_wire d -> DmD w = wdim d w) ->
  (forall a, In a (total_atoms s) -> WrS a = atom_wires s a) ->
  (forall a, In a (total_atoms op) -> WrS a = atom_wires op a) ->
  (forall a, a < next_atom s -> WrS (aoff + a) = map (Nat.add woff) (atom_wires s a)) ->
  (forall w, w < next_wire s -> DmS w = wdim s w) ->
  (forall w, w < next_wire s -> DmS (woff + w) = wdim s w) ->
  (forall n to w, aget n (tensors op) = Some to -> In w (axes to ++ bnd to) -> DmD w = DmS w) ->
  (forall a idx, In a (total_atoms op) -> tblD a idx = tblS a idx) ->
  exists gD gS,
    ttndo_ttno_expectation im d op = Some gD /\ expectation_value woff aoff s op = Some gS /\
    gaxes gD = [] /\ gaxes gS = [] /\
    forall rho rho', gvalue R zero one add mul WrD DmD tblD gD rho = gvalue R zero one add mul WrS DmS tblS gS rho'.
Proof.
  intros SR woff aoff im d s op r0 ts k tblD tblS WrD WrS DmD DmS WS H1 WO H2 Hroot Hsame Hw0 Hw Ha HsepS HsepD Hwo Hts Hk TO BC WD3 Hrev
         Hbra Hphys WrD_d WrD_op DmD_d WrS_ket WrS_op WrS_bra DmS_ket DmS_bra Dm_op Tbl_op.
  destruct (wf_two_of_wf woff aoff s (ws_wf s WS) H1 Hw0) as (t & Ht & WT & HP). rewrite Hts in Ht. injection Ht as <-.
  destruct (wf_three_of_wf woff s op WS WO H1 H2 Hroot Hsame HsepS Hwo Hw0) as (t' & Ht' & W3 & _). rewrite Hts in Ht'. injection Ht' as <-.
  exact (ttno_value_main R zero one add mul SR woff im d s op r0 ts k tblD WrD DmD WS WO TO W3 WD3 Hrev HsepD WrD_d WrD_op
           aoff tblS WrS DmS H1 Hw0 Hw Ha WT HP Hk BC HsepS Hwo DmD_d WrS_ket WrS_op WrS_bra DmS_ket DmS_bra Dm_op Tbl_op Hphys Hbra).
Qed.

(* ---- example: three-node tree, operator with the root's children in the other order, non-symmetric integer tensors ------ *)
Lemma tx_example_hyp : ket_tree tx_s = Some tx_ts /\ tx_hyp 1 = true /\ tx_hyp 2 = true /\ tx_hyp 3 = true.
Proof. vm_compute. repeat split; reflexivity. Qed.

Lemma tx_example_numbers :
  (vx_tblS 20 [0; 1; 0; 1], vx_tblS 20 [0; 1; 1; 0], vx_tblS 22 [0; 0; 1], vx_tblS 22 [0; 1; 0]) = (0, 2, -3, -1)%Z /\
  tx_S = Some 42108%Z /\ tx_D 1 = Some 42108%Z /\ tx_D 2 = Some 42108%Z.
Proof. vm_compute. repeat split; reflexivity. Qed.
