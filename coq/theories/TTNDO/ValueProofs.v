(* Property C16, value level (proofs for TTNDO/Value.v): for every tree, every root bond dimension k >= 1 and every
   commutative semiring, under the build contracts (bra atom = conjugate twin, padded root, eye(k)) the closed diagram
   trace_ttndo returns on the network from_ttns builds has the value of the <psi|psi> diagram of the pure state.

   Route:
     1. algebra: a sum whose only non-zero term is the first; SUM_{o<1} SUM_{i<k} SUM_{j<k} delta(i,j).pad(i).pad(j).X = X
        (the artificial root and the zero padding contribute the factor 1); sum_bnd_rename: two sums over wire lists that
        correspond wire by wire (same dimensions, both duplicate-free) agree when the summands agree on related assignments;
     2. trees: the image of the state's tree, the (parent, node, children) triples, wf_sub / wf_subD read per triple;
     3. the pure state: C04's fused form (TensorProdBridgeStore.full_value at the root): the value of the <psi|psi>
        diagram is the sum over both copies of every edge wire and every ket-side open wire of the product over the
        nodes of (node tensor) . (conjugate copy's node tensor);
     4. the network: its wires are pairwise distinct (TensorProdBridgeStore.open_wire_inj / up_wire_inj / up_open_neq on d
        itself), gvalue_norm puts the trace diagram in the order root wires ++ (edge wires, ket open wires);
     5. for fixed indices (o, i, j) on the root's three wires the remaining sum is, by sum_bnd_rename and the contracts
        node by node, delta(i,j).pad(i).pad(j) times the <psi|psi> sum; 1. finishes.
   No axioms; TTN/Store.v, Contr/*.v are imported read-only. *)
From Coq Require Import List Arith Bool Lia Permutation ZArith.
From PTN Require Import TTN.Store TTN.StoreProofs TTN.Inv TTN.InvProofs Wire.Sem Wire.SemProofs TTN.InvSem TTN.InvSemProofs
  Contr.Blocks Contr.Closed Contr.ClosedProofs Contr.TensorProd Contr.TensorProdProofs Contr.TensorProdSem
  Contr.TensorProdBridge Contr.TensorProdBridgeProofs Contr.TensorProdBridgeStore TTNDO.Contr TTNDO.ContrProofs TTNDO.Value.
From PTN Require TTNDO.Sym Tree.RTree.
Import ListNotations.

Ltac nlia := unfold id, wire in *; lia.
Ltac ncongr := unfold id, wire in *; congruence.

(* ================================================================================================================ *)
(* 1. algebra: a sum with a single non-zero term, sums over renamed wires                                           *)
(* ================================================================================================================ *)
Section Algebra.
  Variable R : Type.
  Variables (zero one : R) (add mul : R -> R -> R).
  Hypothesis SR : comm_semiring zero one add mul.

  Local Notation sumu := (sum_upto R zero add).

  Lemma sum_upto_only0 k f : 1 <= k -> (forall i, 0 < i -> i < k -> f i = zero) -> sumu k f = f 0.
  Proof.
    induction k as [|k IH]; intros Hk H0; [lia|]. cbn [sum_upto].
    destruct k as [|k].
    - cbn [sum_upto]. apply (csr_add_0_l _ _ _ _ SR).
    - rewrite IH by (try lia; intros i H1 H2; apply H0; lia). rewrite (H0 (S k)) by lia.
      apply (add_0_r R zero one add mul SR).
  Qed.

  (* the padding indicator: slice 0 only *)
  Definition pad (i : nat) : R := if Nat.eqb i 0 then one else zero.

  (* SUM_{o<1} SUM_{i<k} SUM_{j<k} delta(i,j).pad(i).pad(j).X = X : the artificial root contributes the factor 1 *)
  Lemma root_sums k X : 1 <= k ->
    sumu 1 (fun _ => sumu k (fun i => sumu k (fun j =>
       mul (mul (delta R zero one i j) (mul (pad i) (pad j))) X))) = X.
  Proof.
    intros Hk. cbn [sum_upto]. rewrite (csr_add_0_l _ _ _ _ SR).
    rewrite (sum_upto_ext R zero add k _ (fun i => mul (mul (pad i) (pad i)) X)).
    - rewrite sum_upto_only0; [|exact Hk|].
      + unfold pad. cbn [Nat.eqb]. rewrite !(csr_mul_1_l _ _ _ _ SR). reflexivity.
      + intros i Hi _. unfold pad. destruct (Nat.eqb_spec i 0); [lia|].
        rewrite (csr_mul_0_r _ _ _ _ SR). apply (mul_0_l R zero one add mul SR).
    - intros i Hi.
      rewrite (sum_upto_ext R zero add k _ (fun j => mul (mul (mul (pad i) (pad j)) X) (delta R zero one i j))).
      + apply (sum_upto_delta R zero one add mul SR k i (fun j => mul (mul (pad i) (pad j)) X) Hi).
      + intros j _. rewrite <- (csr_mul_assoc _ _ _ _ SR). apply (csr_mul_comm _ _ _ _ SR).
  Qed.
  Lemma pad_terms i j X Y :
    mul (if Nat.eqb i 0 then X else zero) (mul (if Nat.eqb j 0 then Y else zero) one) = mul (mul (pad i) (pad j)) (mul X Y).
  Proof.
    unfold pad. rewrite (mul_1_r R zero one add mul SR).
    destruct (Nat.eqb i 0), (Nat.eqb j 0);
      rewrite ?(csr_mul_1_l _ _ _ _ SR), ?(csr_mul_0_r _ _ _ _ SR), ?(mul_0_l R zero one add mul SR); reflexivity.
  Qed.
End Algebra.

Section Rename.
  Variable R : Type.
  Variables (zero : R) (add : R -> R -> R).
  Variables (dim dim' : wire -> nat).

  (* two sums over wire lists of the same length, wire by wire of the same dimension, agree when the summands agree on
     related assignments (the i-th wire of one list carries the index of the i-th wire of the other) *)
  Lemma sum_bnd_rename (F F' : assignment -> R) : forall (ps : list (wire * wire)) (rho rho' : assignment),
    NoDup (map fst ps) -> NoDup (map snd ps) ->
    (forall p, In p ps -> dim (fst p) = dim' (snd p)) ->
    (forall r r', (forall p, In p ps -> r (fst p) < dim (fst p) /\ r' (snd p) = r (fst p)) ->
                  (forall w, ~ In w (map fst ps) -> r w = rho w) ->
                  (forall w, ~ In w (map snd ps) -> r' w = rho' w) -> F r = F' r') ->
    sum_bnd R zero add dim (map fst ps) F rho = sum_bnd R zero add dim' (map snd ps) F' rho'.
  Proof.
    induction ps as [|p t IH]; intros rho rho' N1 N2 Hd HF; cbn [map sum_bnd].
    - apply HF; [intros ? []|reflexivity|reflexivity].
    - cbn [map] in N1, N2. inversion N1 as [|? ? Hn1 N1']; subst. inversion N2 as [|? ? Hn2 N2']; subst.
      rewrite <- (Hd p (or_introl eq_refl)). apply sum_upto_ext. intros k Hk.
      apply IH; [exact N1'|exact N2'|intros q Hq; apply Hd; right; exact Hq|].
      intros r r' Hrel Ho Ho'. apply HF.
      + intros q [<-|Hq]; [|apply Hrel; exact Hq].
        rewrite (Ho _ Hn1), (Ho' _ Hn2). unfold upd. rewrite !Nat.eqb_refl. split; [exact Hk|reflexivity].
      + intros w Hw. rewrite Ho by (intros Hc; apply Hw; right; exact Hc).
        unfold upd. destruct (Nat.eqb_spec w (fst p)) as [->|]; [|reflexivity]. exfalso. apply Hw. left. reflexivity.
      + intros w Hw. rewrite Ho' by (intros Hc; apply Hw; right; exact Hc).
        unfold upd. destruct (Nat.eqb_spec w (snd p)) as [->|]; [|reflexivity]. exfalso. apply Hw. left. reflexivity.
  Qed.
End Rename.

(* reading back an assignment written from the same assignment *)
Lemma assign_map_in (rho0 r : assignment) : forall ws w, In w ws -> assign rho0 ws (map r ws) w = r w.
Proof.
  induction ws as [|x t IH]; intros w Hw; [destruct Hw|]. cbn [map assign]. unfold upd.
  destruct (Nat.eqb_spec w x) as [->|Hne]; [reflexivity|]. destruct Hw as [->|Hw]; [congruence|]. apply IH. exact Hw.
Qed.

(* ================================================================================================================ *)
(* 2. trees: the image of the state's tree, and the (parent, node, children) triples of a tree                        *)
(* ================================================================================================================ *)

Lemma rid_rmap f t : rid (rmap f t) = f (rid t).
Proof. destruct t; reflexivity. Qed.

Lemma map_rid_rmap f cs : map rid (map (rmap f) cs) = map f (map rid cs).
Proof. rewrite !map_map. apply map_ext. intros c. apply rid_rmap. Qed.

Lemma rnodes_rmap f t : rnodes (rmap f t) = map f (rnodes t).
Proof.
  induction t as [n cs IH] using rt_rect'. cbn [rmap rnodes map]. f_equal.
  induction cs as [|c cs IHc]; [reflexivity|]. cbn [map flat_map]. rewrite map_app, IH by (left; reflexivity).
  f_equal. apply IHc. intros x Hx. apply IH. right. exact Hx.
Qed.

Lemma rdesc_rmap f t : rdesc (rmap f t) = map f (rdesc t).
Proof.
  pose proof (rnodes_rmap f t) as H. rewrite (rnodes_desc (rmap f t)), (rnodes_desc t) in H. cbn [map] in H.
  injection H as _ H. exact H.
Qed.


Lemma tlist_nodes t : forall p, map (fun e => snd (fst e)) (tlist p t) = rnodes t.
Proof.
  induction t as [n cs IH] using rt_rect'. intros p. cbn [tlist rnodes map fst snd]. f_equal.
  induction cs as [|c cs IHc]; [reflexivity|]. cbn [flat_map]. rewrite map_app, IH by (left; reflexivity).
  f_equal. apply IHc. intros x Hx. apply IH. right. exact Hx.
Qed.

Lemma tlist_root p t : exists l, tlist p t = (p, rid t, map rid (rcs t)) :: l /\
  (forall e, In e l -> exists q, fst (fst e) = Some q) /\ map (fun e => snd (fst e)) l = rdesc t.
Proof.
  destruct t as [n cs]. cbn [tlist rid rcs]. eexists. split; [reflexivity|]. split.
  - intros e He. apply in_flat_map in He. destruct He as (c & Hc & He). clear Hc. revert e He.
    generalize n. induction c as [m ds IH] using rt_rect'. intros n0 e He. cbn [tlist] in He. destruct He as [<-|He].
    + exists n0. reflexivity.
    + apply in_flat_map in He. destruct He as (x & Hx & He). apply (IH x Hx m e He).
  - pose proof (tlist_nodes (RN n cs) p) as H. cbn [tlist map fst snd] in H. rewrite (rnodes_desc (RN n cs)) in H.
    cbn [rid] in H. injection H as H. exact H.
Qed.

(* the children of a node of the tree are proper descendants of the tree's root *)
Lemma tlist_children t : forall p q n cs, In (q, n, cs) (tlist p t) -> forall c, In c cs -> In c (rdesc t).
Proof.
  induction t as [m ds IH] using rt_rect'. intros p q n cs He c Hc. cbn [tlist] in He. unfold rdesc. cbn [rcs].
  destruct He as [E|He].
  - injection E as _ <- <-. apply in_map_iff in Hc. destruct Hc as (x & <- & Hx). apply in_flat_map. exists x. split; [exact Hx|].
    apply rnodes_rid.
  - apply in_flat_map in He. destruct He as (x & Hx & He). apply in_flat_map. exists x. split; [exact Hx|].
    rewrite (rnodes_desc x). right. apply (IH x Hx _ _ _ _ He c Hc).
Qed.

Lemma wf_sub_tlist ket bra t : forall p, wf_sub ket bra p t ->
  forall q n cs, In (q, n, cs) (tlist p t) -> node_ok ket bra q n cs.
Proof.
  induction t as [m ds IH] using rt_rect'. intros p H q n cs He. inversion H as [? ? ? Hok Hsub]; subst.
  cbn [tlist] in He. destruct He as [E|He].
  - injection E as <- <- <-. exact Hok.
  - apply in_flat_map in He. destruct He as (x & Hx & He). apply (IH x Hx (Some m) (Hsub x Hx) _ _ _ He).
Qed.


Lemma wf_subD_tlist im d r0 f t : forall p, wf_subD im d (pmap r0 f p) (rmap f t) ->
  forall q n cs, In (q, n, cs) (tlist p t) -> dnode_ok im d (pmap r0 f q) (f n) (map f cs).
Proof.
  induction t as [m ds IH] using rt_rect'. intros p H q n cs He. cbn [rmap] in H. inversion H as [? ? ? Hok Hsub]; subst.
  cbn [tlist] in He. destruct He as [E|He].
  - injection E as <- <- <-. rewrite map_rid_rmap in Hok. exact Hok.
  - apply in_flat_map in He. destruct He as (x & Hx & He). apply (IH x Hx (Some m)); [|exact He].
    apply (Hsub (rmap f x)). apply in_map. exact Hx.
Qed.

(* ================================================================================================================ *)
(* 3. the pure state: the value of the <psi|psi> diagram as a sum over the edge and open wires of the product of the   *)
(*    node tensors and their conjugate copies (C04's fused form, taken at the root)                                     *)
(* ================================================================================================================ *)

Section SSide.
  Variable R : Type.
  Variables (zero one : R) (add mul : R -> R -> R).
  Hypothesis SR : comm_semiring zero one add mul.
  Variables (woff aoff : nat) (s : store) (tbl : nat -> list nat -> R).
  Hypothesis WS : wfs s.
  Hypothesis H1 : one_open s.
  Hypothesis Hw0 : 0 < woff.
  Hypothesis Hw : next_wire s <= woff.
  Hypothesis Ha : next_atom s <= aoff.
  Variable ts : rt.
  Hypothesis WT : wf_two s (conj_store woff aoff s) ts.
  Hypothesis HP : Permutation (rnodes ts) (akeys (nodes s)).

  Local Notation bra := (conj_store woff aoff s).
  Local Notation Wr := (pair_wires s bra).
  Local Notation Dm := (pair_dim s bra).
  Local Notation valS := (value R zero one add mul Wr Dm tbl).

  Definition FKS (n : id) (r : assignment) : R := valS (tens s n) r.
  Definition FBS (n : id) (r : assignment) : R := valS (conj_sarr woff aoff (tens s n)) (glue_asg (s_opt woff s) r).
  Definition prodS (r : assignment) : R := prod_over R one mul (fun n => mul (FKS n r) (FBS n r)) (rnodes ts).

  Lemma prodS_ext : ext R prodS.
  Proof.
    intros r r' E. unfold prodS. apply (prod_over_ext R one mul). intros n _. unfold FKS, FBS. f_equal.
    - apply (value_ext R zero one add mul). exact E.
    - apply (value_ext R zero one add mul). apply glue_asg_ext. exact E.
  Qed.

  Lemma root_mem : amem (rid ts) (nodes s) = true.
  Proof.
    destruct WT as (_ & _ & _ & Hsub). inversion Hsub as [? ? ? Hok _]; subst. destruct Hok as (kn & bn & E & _).
    cbn [rid]. unfold amem. rewrite E. reflexivity.
  Qed.

  Lemma S_value : exists g, contract_two_ttns s bra = Some g /\
    forall rho, gvalue R zero one add mul Wr Dm tbl g rho = sum_bnd R zero add Dm (restS woff s ts) prodS rho.
  Proof.
    set (c := rid ts). pose proof root_mem as Hc. fold c in Hc.
    assert (Hco : open_wire s c = open_wire s c \/ next_wire s <= open_wire s c < woff) by (left; reflexivity).
    destruct (full_value R zero one add mul SR woff aoff s tbl WS Hw0 Hw Ha Wr Dm
                (pw_ket woff aoff s WS) (pw_bra woff aoff s WS Hw Ha) ts WT HP c Hc (open_wire s c) Hco
                (fun r => valS (tens s c) r) eq_refl (fun r => eq_refl)) as (g & Hg & Hval).
    exists g. split; [exact Hg|]. intros rho. rewrite Hval.
    assert (Eopt : glue_pairs woff s c (open_wire s c) (akeys (nodes s)) = s_opt woff s).
    { unfold glue_pairs, s_opt. apply map_ext. intros m. rewrite (kop_norm s c _ eq_refl). reflexivity. }
    rewrite Eopt.
    pose proof (perm_T_t s WS ts HP c Hc) as PT.
    rewrite (sum_bnd_ext_F R zero add Dm _ _ prodS).
    - apply (sum_bnd_perm R zero one add mul SR Dm prodS _ _ prodS_ext).
      rewrite (wires_sub_perm _ _ _ (centre_tree s c)). unfold restS. apply Permutation_app.
      + rewrite (flat_map_double (bond_u woff s c) (bond_u' woff s c) woff (rdesc (centre_tree s c))).
        * rewrite <- (Permutation_flat_map _ (perm_edges woff aoff s WS Hw0 Hw Ha ts WT HP c Hc _ Hco)).
          rewrite flat_map_map. reflexivity.
        * intros m Hm. destruct (u_rdesc_T woff aoff s WS Hw0 Hw Ha c Hc _ Hco m Hm) as (kn & p & _ & _ & _ & U1 & U2).
          rewrite U1, U2. reflexivity.
      + rewrite flat_map_single. rewrite (map_ext _ (open_wire s)) by (intros m; apply (kop_norm s c _ eq_refl)).
        apply Permutation_map. exact PT.
    - intros r. rewrite (prod_sub_flat R zero one add mul SR). unfold prodS.
      rewrite (prod_over_perm R zero one add mul SR _ _ _ PT). apply (prod_over_ext R one mul). intros m _.
      unfold FKS, FBS. f_equal. destruct (Nat.eqb m c) eqn:E; [apply Nat.eqb_eq in E; subst m|]; reflexivity.
  Qed.
End SSide.

(* ================================================================================================================ *)
(* 4. what "d is the density-operator network from_ttns builds from the state s with root bond dimension k" means:     *)
(*    structure (decidable, checked per instance by ttndo_ofb) and the value-level build contracts                     *)
(* ================================================================================================================ *)

(* ---- wires of a well-formed state are private to their legs --------------------------------------------------------- *)
Lemma wires_distinct (s : store) : wfs s -> one_open s ->
  (forall m m', In m (akeys (nodes s)) -> In m' (akeys (nodes s)) -> open_wire s m = open_wire s m' -> m = m') /\
  (forall m m' kn kn' p p', aget m (nodes s) = Some kn -> aget m' (nodes s) = Some kn' -> parent kn = Some p -> parent kn' = Some p' ->
     up_wire s m = up_wire s m' -> m = m') /\
  (forall m m' kn p, aget m (nodes s) = Some kn -> parent kn = Some p -> In m' (akeys (nodes s)) -> up_wire s m <> open_wire s m').
Proof.
  intros WS H1. destruct (wf_two_of_wf 1 0 s (ws_wf s WS) H1 (Nat.lt_0_1)) as (t & _ & WT & HP).
  split; [|split].
  - exact (open_wire_inj 1 0 s WS t WT HP).
  - exact (up_wire_inj 1 0 s WS t WT HP).
  - exact (up_open_neq 1 0 s WS t WT HP).
Qed.

(* ================================================================================================================ *)
(* 5. the trace                                                                                                        *)
(* ================================================================================================================ *)

Lemma wire_pairs_fst woff im d s ts : map fst (wire_pairs woff im d s ts) = restS woff s ts.
Proof.
  unfold wire_pairs, restS. rewrite map_app, map_map. cbn [fst]. f_equal.
  induction (rdesc ts) as [|n l IH]; [reflexivity|]. cbn [flat_map map app fst]. rewrite IH. reflexivity.
Qed.
Lemma wire_pairs_snd woff im d s ts : map snd (wire_pairs woff im d s ts) = restD im d ts.
Proof.
  unfold wire_pairs, restD. rewrite map_app, map_map. cbn [snd]. f_equal.
  induction (rdesc ts) as [|n l IH]; [reflexivity|]. cbn [flat_map map app snd]. rewrite IH. reflexivity.
Qed.

Lemma flat_map_nil {A B} (f : A -> list B) l : (forall a, In a l -> f a = []) -> flat_map f l = [].
Proof. induction l as [|a t IH]; intros H; [reflexivity|]. cbn [flat_map]. rewrite H by (left; reflexivity). apply IH. intros; apply H; right; assumption. Qed.

Lemma forall2_map_r {A} (P : A -> nat -> Prop) (g : A -> nat) : forall ws, (forall w, In w ws -> P w (g w)) -> Forall2 P ws (map g ws).
Proof. induction ws as [|w t IH]; intros H; cbn [map]; constructor; [apply H; left; reflexivity|apply IH; intros; apply H; right; assumption]. Qed.

Section Main.
  Variable R : Type.
  Variables (zero one : R) (add mul : R -> R -> R).
  Hypothesis SR : comm_semiring zero one add mul.
  Variables (woff aoff : nat) (im : idmaps) (d s : store) (r0 : id) (ts : rt) (k : nat).
  Variables (tblD tblS : nat -> list nat -> R).
  Hypothesis WS : wfs s.
  Hypothesis H1 : one_open s.
  Hypothesis Hw0 : 0 < woff.
  Hypothesis Hw : next_wire s <= woff.
  Hypothesis Ha : next_atom s <= aoff.
  Hypothesis WT : wf_two s (conj_store woff aoff s) ts.
  Hypothesis HP : Permutation (rnodes ts) (akeys (nodes s)).
  Hypothesis Hk : 1 <= k.
  Hypothesis TO : ttndo_of im d s r0 ts k.
  Hypothesis BC : build_contracts R zero one add mul woff aoff im d s r0 ts k tblD tblS.

  Local Notation bra := (conj_store woff aoff s).
  Local Notation kid := (im_kid im).
  Local Notation k2b := (im_k2b im).
  Local Notation WrS := (pair_wires s bra).
  Local Notation DmS := (pair_dim s bra).
  Local Notation valS := (value R zero one add mul WrS DmS tblS).
  Local Notation upS := (up_wire s).
  Local Notation opS := (open_wire s).
  Local Notation upD := (up_wire d).
  Local Notation opD := (open_wire d).

  (* ---- one node of the tree, in the state and in the network -------------------------------------------------- *)
  Lemma s_node q n cs : In (q, n, cs) (tlist None ts) -> exists kn tm,
    aget n (nodes s) = Some kn /\ aget n (tensors s) = Some tm /\ tens s n = tm /\ parent kn = q /\
    t_axes s n = opt_list q (upS n) ++ map upS cs ++ [opS n] /\ Permutation (t_axes s n) (axes tm).
  Proof.
    intros He. destruct WT as (_ & _ & _ & Hsub). destruct (wf_sub_tlist s bra ts None Hsub q n cs He) as (kn & bn & E1 & _ & P1 & _ & C1 & _ & _ & A1 & _).
    destruct (node_tensor s WS n kn E1) as (tm & E2). destruct (t_views s n kn tm E1 E2) as (V1 & _ & _ & V4).
    exists kn, tm. repeat split; auto. rewrite V1. rewrite <- V4. apply (wf_lax_perm_axes s n kn (ws_wf s WS) E1).
  Qed.

  Lemma d_node q n cs : In (q, n, cs) (tlist None ts) -> exists kn bn p bp,
    aget (kid n) (nodes d) = Some kn /\ aget (bid im n) (nodes d) = Some bn /\ parent kn = Some p /\ parent bn = Some bp /\
    t_axes d (kid n) = upD (kid n) :: map upD (map kid cs) ++ [opD (kid n)] /\
    t_axes d (bid im n) = upD (bid im n) :: map upD (map k2b (map kid cs)) ++ [opD (bid im n)] /\
    im_isket im (kid n) = true /\ im_isket im (bid im n) = false.
  Proof.
    intros He. destruct (to_wf _ _ _ _ _ _ TO) as (_ & _ & Hsub & _).
    assert (Hn : In n (rnodes ts)) by (rewrite <- (tlist_nodes ts None); apply (in_map (fun e => snd (fst e)) _ _ He)).
    destruct (wf_subD_tlist im d r0 kid ts None Hsub q n cs He) as (kn & bn & bp & E1 & E2 & P1 & P2 & C1 & _ & _ & _ & A1 & A2 & _ & K1 & K2).
    exists kn, bn, (pmap r0 kid q), bp. unfold bid. repeat split; auto.
    rewrite A2. rewrite (to_sym _ _ _ _ _ _ TO n kn bn Hn E1 E2), C1. reflexivity.
  Qed.

  (* ---- the nodes and wires of the network are pairwise distinct --------------------------------------------------- *)
  Lemma in_tlist n : In n (rnodes ts) -> exists q cs, In (q, n, cs) (tlist None ts).
  Proof.
    intros Hn. rewrite <- (tlist_nodes ts None) in Hn. apply in_map_iff in Hn. destruct Hn as ([[q m] cs] & E & He).
    cbn [fst snd] in E. subst m. exists q, cs. exact He.
  Qed.

  Lemma in_tlist_desc n : In n (rdesc ts) -> exists p cs, In (Some p, n, cs) (tlist None ts).
  Proof.
    intros Hn. destruct (tlist_root None ts) as (l & El & Hq & Hm). rewrite <- Hm in Hn. apply in_map_iff in Hn.
    destruct Hn as ([[q m] cs] & E & He). cbn [fst snd] in E. subst m. destruct (Hq _ He) as (p & Ep). cbn [fst] in Ep. subst q.
    exists p, cs. rewrite El. right. exact He.
  Qed.

  Lemma in_tlist_root : In (None, rid ts, map rid (rcs ts)) (tlist None ts).
  Proof. destruct (tlist_root None ts) as (l & El & _). rewrite El. left. reflexivity. Qed.

  Lemma d_root : exists rn, aget r0 (nodes d) = Some rn /\ parent rn = None /\
    (children rn = [kid (rid ts); bid im (rid ts)] \/ children rn = [bid im (rid ts); kid (rid ts)]) /\
    im_isket im r0 = false /\ t_axes d r0 = map upD (children rn) ++ [opD r0] /\ wdim d (opD r0) = 1.
  Proof.
    destruct (to_wf _ _ _ _ _ _ TO) as (_ & _ & _ & rn & E & P & C & K & A & D). rewrite rid_rmap in C.
    exists rn. unfold bid. repeat split; auto.
  Qed.

  Lemma ids_keys m : In m (all_ids im r0 ts) -> In m (akeys (nodes d)).
  Proof.
    intros [<-|Hm].
    - destruct d_root as (rn & E & _). apply (aget_Some_keys _ _ _ E).
    - apply in_app_or in Hm. destruct Hm as [Hm|Hm]; apply in_map_iff in Hm; destruct Hm as (n & <- & Hn);
        destruct (in_tlist n Hn) as (q & cs & He); destruct (d_node q n cs He) as (kn & bn & p & bp & E1 & E2 & _).
      + apply (aget_Some_keys _ _ _ E1).
      + apply (aget_Some_keys _ _ _ E2).
  Qed.

  Lemma ids_nodup : NoDup (all_ids im r0 ts).
  Proof.
    unfold all_ids. destruct d_root as (rn & Er & Pr & _ & Kr & _).
    assert (Hk1 : forall n, In n (rnodes ts) -> im_isket im (kid n) = true /\ im_isket im (bid im n) = false /\
                   exists bn bp, aget (bid im n) (nodes d) = Some bn /\ parent bn = Some bp).
    { intros n Hn. destruct (in_tlist n Hn) as (q & cs & He). destruct (d_node q n cs He) as (kn & bn & p & bp & _ & E2 & _ & P2 & _ & _ & K1 & K2).
      split; [exact K1|]. split; [exact K2|]. exists bn, bp. auto. }
    constructor.
    - intros Hin. apply in_app_or in Hin. destruct Hin as [Hin|Hin]; apply in_map_iff in Hin; destruct Hin as (n & E & Hn);
        destruct (Hk1 n Hn) as (K1 & K2 & bn & bp & E2 & P2).
      + rewrite E in K1. congruence.
      + rewrite E in E2. rewrite Er in E2. injection E2 as <-. congruence.
    - apply NoDup_app_iff. split; [|split].
      + destruct (to_wf _ _ _ _ _ _ TO) as (_ & Hnd & _). rewrite rnodes_rmap in Hnd. exact Hnd.
      + exact (to_bras _ _ _ _ _ _ TO).
      + intros x Hx Hx'. apply in_map_iff in Hx. destruct Hx as (n & <- & Hn). apply in_map_iff in Hx'. destruct Hx' as (n' & E & Hn').
        destruct (Hk1 n Hn) as (K1 & _). destruct (Hk1 n' Hn') as (_ & K2 & _). rewrite E in K2. congruence.
  Qed.

  (* every wire of the trace diagram: the open wire of every node, the parent wire of every node below the root *)
  Definition WD : list wire :=
    map opD (all_ids im r0 ts) ++ map upD (map kid (rnodes ts) ++ map (bid im) (rnodes ts)).

  Lemma WD_nodup : NoDup WD.
  Proof.
    destruct (wires_distinct d (to_wfs _ _ _ _ _ _ TO) (to_open _ _ _ _ _ _ TO)) as (I1 & I2 & I3).
    assert (Hpar : forall m, In m (map kid (rnodes ts) ++ map (bid im) (rnodes ts)) -> exists nd p, aget m (nodes d) = Some nd /\ parent nd = Some p).
    { intros m Hm. apply in_app_or in Hm. destruct Hm as [Hm|Hm]; apply in_map_iff in Hm; destruct Hm as (n & <- & Hn);
        destruct (in_tlist n Hn) as (q & cs & He); destruct (d_node q n cs He) as (kn & bn & p & bp & E1 & E2 & P1 & P2 & _).
      - exists kn, p. auto.
      - exists bn, bp. auto. }
    pose proof ids_nodup as Hnd. unfold WD. apply NoDup_app_iff. split; [|split].
    - apply NoDup_map_inj_in; [|exact Hnd]. intros a b Hia Hib. apply I1; apply ids_keys; assumption.
    - apply NoDup_map_inj_in; [|unfold all_ids in Hnd; inversion Hnd; assumption].
      intros a b Hia Hib E. destruct (Hpar a Hia) as (na & pa & Ea & Pa). destruct (Hpar b Hib) as (nb & pb & Eb & Pb).
      apply (I2 a b na nb pa pb Ea Eb Pa Pb E).
    - intros w H1' H2'. apply in_map_iff in H1'. destruct H1' as (m' & <- & Hm'). apply in_map_iff in H2'. destruct H2' as (m & E & Hm).
      destruct (Hpar m Hm) as (nd & p & En & Pn). apply (I3 m m' nd p En Pn (ids_keys m' Hm')). exact E.
  Qed.

  Definition LD : list wire := [opD r0; upD (kid (rid ts)); upD (bid im (rid ts))] ++ restD im d ts.
  Definition GD : list (wire * wire) := map (fun n => (opD (kid n), opD (bid im n))) (rnodes ts).

  Lemma LD_perm : Permutation (LD ++ map snd GD) WD.
  Proof.
    unfold LD, GD, WD, restD, all_ids. rewrite (rnodes_desc ts). cbn [map app]. rewrite !map_app. cbn [map]. rewrite !map_map. cbn [snd].
    assert (P : Permutation (flat_map (fun n => [upD (kid n); upD (bid im n)]) (rdesc ts))
                            (map (fun n => upD (kid n)) (rdesc ts) ++ map (fun n => upD (bid im n)) (rdesc ts))).
    { rewrite <- !flat_map_single. apply (perm_flat_map_split (fun n => [upD (kid n)]) (fun n => [upD (bid im n)])). }
    rewrite P. perm_solve.
  Qed.

  Lemma LD_GD_nodup : NoDup (LD ++ map snd GD).
  Proof. apply (Permutation_NoDup (Permutation_sym LD_perm)). exact WD_nodup. Qed.

  Lemma GD_nodup : NoDup (map snd GD).
  Proof. exact (NoDup_app_r _ _ LD_GD_nodup). Qed.

  Lemma LD_nodup : NoDup LD.
  Proof. exact (NoDup_app_l _ _ LD_GD_nodup). Qed.

  (* reading a summed wire through the gluing is reading it directly *)
  Lemma glue_LD r w : In w LD -> glue_asg GD r w = r w.
  Proof. intros Hin. apply glue_asg_out. intros Hc. exact (NoDup_app_disj _ _ w LD_GD_nodup Hin Hc). Qed.

  (* the open leg of a bra node reads the index of the ket node's open leg *)
  Lemma glue_bra_open r n : In n (rnodes ts) -> glue_asg GD r (opD (bid im n)) = r (opD (kid n)).
  Proof.
    intros Hn. apply (glue_asg_in GD r (opD (kid n), opD (bid im n)) GD_nodup). unfold GD.
    apply (in_map (fun n => (opD (kid n), opD (bid im n)))). exact Hn.
  Qed.

  (* ---- the wires of the state --------------------------------------------------------------------------------------- *)
  Lemma s_keys n : In n (rnodes ts) -> In n (akeys (nodes s)).
  Proof. intros Hn. exact (Permutation_in _ HP Hn). Qed.

  Lemma s_desc_in n : In n (rdesc ts) -> In n (rnodes ts).
  Proof. intros Hn. rewrite (rnodes_desc ts). right. exact Hn. Qed.

  Lemma s_hco : opS (rid ts) = opS (rid ts) \/ next_wire s <= opS (rid ts) < woff.
  Proof. left. reflexivity. Qed.

  Lemma s_open_lt n : In n (rnodes ts) -> opS n < woff.
  Proof. intros Hn. exact (open_wire_lt woff aoff s WS Hw0 Hw Ha ts WT HP (rid ts) _ s_hco n (s_keys n Hn)). Qed.

  Lemma s_desc_node n : In n (rdesc ts) -> exists kn p, aget n (nodes s) = Some kn /\ parent kn = Some p.
  Proof.
    intros Hn. destruct (in_tlist_desc n Hn) as (p & cs & He). destruct (s_node (Some p) n cs He) as (kn & tm & E & _ & _ & P & _).
    exists kn, p. auto.
  Qed.

  Lemma s_up_lt n : In n (rdesc ts) -> upS n < woff.
  Proof.
    intros Hn. destruct (s_desc_node n Hn) as (kn & p & E & P).
    exact (up_wire_lt woff aoff s WS Hw0 Hw Ha ts WT HP (rid ts) _ s_hco n kn p E P).
  Qed.

  Lemma s_ket_wires_nodup : NoDup (map upS (rdesc ts) ++ map opS (rnodes ts)).
  Proof.
    destruct (wires_distinct s WS H1) as (I1 & I2 & I3). destruct WT as (_ & _ & Hnd & _).
    pose proof Hnd as Hnd'. rewrite (rnodes_desc ts) in Hnd'. apply NoDup_cons_iff in Hnd'. destruct Hnd' as [_ Hndd].
    apply NoDup_app_iff. split; [|split].
    - apply NoDup_map_inj_in; [|exact Hndd]. intros a b Hia Hib E.
      destruct (s_desc_node a Hia) as (na & pa & Ea & Pa). destruct (s_desc_node b Hib) as (nb & pb & Eb & Pb).
      exact (I2 a b na nb pa pb Ea Eb Pa Pb E).
    - apply NoDup_map_inj_in; [|exact Hnd]. intros a b Hia Hib. apply I1; apply s_keys; assumption.
    - intros w Hx Hx'. apply in_map_iff in Hx. destruct Hx as (m & <- & Hm). apply in_map_iff in Hx'. destruct Hx' as (m' & E & Hm').
      destruct (s_desc_node m Hm) as (nd & p & En & Pn). apply (I3 m m' nd p En Pn (s_keys m' Hm')). symmetry. exact E.
  Qed.

  Lemma restS_nodup : NoDup (restS woff s ts).
  Proof.
    unfold restS.
    replace (flat_map (fun n => [upS n; woff + upS n]) (rdesc ts)) with (flat_map (fun w => [w; woff + w]) (map upS (rdesc ts)))
      by apply flat_map_map.
    apply (NoDup_double woff _ _ Hw0 s_ket_wires_nodup).
    intros w Hin. apply in_app_or in Hin. destruct Hin as [Hin|Hin]; apply in_map_iff in Hin; destruct Hin as (m & <- & Hm).
    - apply s_up_lt. exact Hm.
    - apply s_open_lt. exact Hm.
  Qed.

  Lemma s_opt_nodup : NoDup (map snd (s_opt woff s)).
  Proof.
    destruct (wires_distinct s WS H1) as (I1 & _). unfold s_opt. rewrite map_map. cbn [snd].
    apply NoDup_map_inj_in; [|apply (wf_nd s (ws_wf s WS))]. intros a b Hia Hib E. apply I1; [exact Hia|exact Hib|lia].
  Qed.

  Lemma s_glue_open r n : In n (rnodes ts) -> glue_asg (s_opt woff s) r (woff + opS n) = r (opS n).
  Proof.
    intros Hn. apply (glue_asg_in (s_opt woff s) r (opS n, woff + opS n) s_opt_nodup). unfold s_opt.
    apply (in_map (fun m => (opS m, woff + opS m))). apply s_keys. exact Hn.
  Qed.

  Lemma s_glue_up r n : In n (rdesc ts) -> glue_asg (s_opt woff s) r (woff + upS n) = r (woff + upS n).
  Proof.
    intros Hn. apply glue_asg_out. intros Hc. unfold s_opt in Hc. rewrite map_map in Hc. cbn [snd] in Hc.
    apply in_map_iff in Hc. destruct Hc as (m & E & Hm). destruct (wires_distinct s WS H1) as (_ & _ & I3).
    destruct (s_desc_node n Hn) as (nd & p & En & Pn). apply (I3 n m nd p En Pn Hm). lia.
  Qed.

  (* dimensions, wire by wire *)
  Lemma pairs_dims p : In p (wire_pairs woff im d s ts) -> DmS (fst p) = wdim d (snd p).
  Proof.
    unfold wire_pairs. intros Hp. apply in_app_or in Hp. destruct Hp as [Hp|Hp].
    - apply in_flat_map in Hp. destruct Hp as (n & Hn & Hp). destruct (to_dim_up _ _ _ _ _ _ TO n Hn) as (D1 & D2).
      destruct Hp as [<-|[<-|[]]]; cbn [fst snd].
      + rewrite (pd_ket woff aoff s _ (s_up_lt n Hn)). symmetry. exact D1.
      + rewrite (pd_bra woff aoff s WS Hw Ha). symmetry. exact D2.
    - apply in_map_iff in Hp. destruct Hp as (n & <- & Hn). cbn [fst snd].
      rewrite (pd_ket woff aoff s _ (s_open_lt n Hn)). symmetry. exact (to_dim_open _ _ _ _ _ _ TO n Hn).
  Qed.

  (* ---- the contracts read at an assignment: entries of the state's tensors are their values ------------------------- *)
  Local Notation fks := (FKS R zero one add mul woff aoff s tblS).
  Local Notation fbs := (FBS R zero one add mul woff aoff s tblS).
  Local Notation kentry := (ket_entry R zero one add mul woff aoff s tblS).
  Local Notation bentry := (bra_entry R zero one add mul woff aoff s tblS).
  Local Notation gS := (fun (r : assignment) (w : wire) => glue_asg (s_opt woff s) r (woff + w)).

  Lemma ket_entry_val q n cs r : In (q, n, cs) (tlist None ts) -> kentry n (map r (t_axes s n)) = fks n r.
  Proof.
    intros He. destruct (s_node q n cs He) as (kn & tm & E1 & E2 & V4 & _ & _ & PX).
    unfold ket_entry, FKS. rewrite V4.
    apply (val_ket_dep R zero one add mul s tblS WS WrS DmS (pw_ket woff aoff s WS) tm n E2).
    intros w Hin. apply assign_map_in. apply (Permutation_in _ (Permutation_sym PX)). exact Hin.
  Qed.

  Lemma bra_entry_val q n cs r : In (q, n, cs) (tlist None ts) -> bentry n (map (gS r) (t_axes s n)) = fbs n r.
  Proof.
    intros He. destruct (s_node q n cs He) as (kn & tm & E1 & E2 & V4 & _ & _ & PX).
    unfold bra_entry, FBS. rewrite V4.
    apply (val_conj_dep R zero one add mul woff aoff s tblS WS WrS DmS (pw_bra woff aoff s WS Hw Ha) tm n E2).
    intros w Hin. rewrite <- (map_map (Nat.add woff) (glue_asg (s_opt woff s) r)). apply assign_map_in.
    apply in_map_iff in Hin. destruct Hin as (x & <- & Hx). apply in_map. apply (Permutation_in _ (Permutation_sym PX)). exact Hx.
  Qed.

  (* ---- related assignments: the i-th summed wire of the trace diagram carries the index of the i-th summed wire of
          the <psi|psi> diagram, within the dimensions --------------------------------------------------------------- *)
  Definition related (r r' : assignment) : Prop :=
    forall p, In p (wire_pairs woff im d s ts) -> r (fst p) < DmS (fst p) /\ r' (snd p) = r (fst p).

  Lemma rel_up r r' n : related r r' -> In n (rdesc ts) ->
    r' (upD (kid n)) = r (upS n) /\ r (upS n) < wdim s (upS n) /\
    r' (upD (bid im n)) = r (woff + upS n) /\ r (woff + upS n) < wdim s (upS n).
  Proof.
    intros Hr Hn.
    assert (I1 : In (upS n, upD (kid n)) (wire_pairs woff im d s ts)).
    { unfold wire_pairs. apply in_or_app. left. apply in_flat_map. exists n. split; [exact Hn|left; reflexivity]. }
    assert (I2 : In (woff + upS n, upD (bid im n)) (wire_pairs woff im d s ts)).
    { unfold wire_pairs. apply in_or_app. left. apply in_flat_map. exists n. split; [exact Hn|right; left; reflexivity]. }
    destruct (Hr _ I1) as (B1 & E1). destruct (Hr _ I2) as (B2 & E2). cbn [fst snd] in *.
    rewrite (pd_ket woff aoff s _ (s_up_lt n Hn)) in B1. rewrite (pd_bra woff aoff s WS Hw Ha) in B2. auto.
  Qed.

  Lemma rel_open r r' n : related r r' -> In n (rnodes ts) -> r' (opD (kid n)) = r (opS n) /\ r (opS n) < wdim s (opS n).
  Proof.
    intros Hr Hn.
    assert (I1 : In (opS n, opD (kid n)) (wire_pairs woff im d s ts)).
    { unfold wire_pairs. apply in_or_app. right. apply (in_map (fun n => (opS n, opD (kid n)))). exact Hn. }
    destruct (Hr _ I1) as (B1 & E1). cbn [fst snd] in *. rewrite (pd_ket woff aoff s _ (s_open_lt n Hn)) in B1. auto.
  Qed.

  Lemma in_LD_upK n : In n (rdesc ts) -> In (upD (kid n)) LD.
  Proof.
    intros Hn. unfold LD, restD. apply in_or_app. right. apply in_or_app. left. apply in_flat_map. exists n. split; [exact Hn|left; reflexivity].
  Qed.
  Lemma in_LD_upB n : In n (rdesc ts) -> In (upD (bid im n)) LD.
  Proof.
    intros Hn. unfold LD, restD. apply in_or_app. right. apply in_or_app. left. apply in_flat_map. exists n. split; [exact Hn|right; left; reflexivity].
  Qed.
  Lemma in_LD_open n : In n (rnodes ts) -> In (opD (kid n)) LD.
  Proof.
    intros Hn. unfold LD, restD. apply in_or_app. right. apply in_or_app. right. apply (in_map (fun n => opD (kid n))). exact Hn.
  Qed.

  (* the indices the ket / bra atom of node n is read at (all legs but the parent leg) *)
  Lemma idx_ket q n cs r r' : In (q, n, cs) (tlist None ts) -> related r r' ->
    map (glue_asg GD r') (map upD (map kid cs) ++ [opD (kid n)]) = map r (map upS cs ++ [opS n]) /\
    (forall w, In w (map upS cs ++ [opS n]) -> r w < wdim s w).
  Proof.
    intros He Hr.
    assert (Hn : In n (rnodes ts)) by (rewrite <- (tlist_nodes ts None); apply (in_map (fun e => snd (fst e)) _ _ He)).
    pose proof (tlist_children ts None q n cs He) as Hcs. split.
    - rewrite !map_app, !map_map. cbn [map]. f_equal.
      + apply map_ext_in. intros c Hc. rewrite (glue_LD r' _ (in_LD_upK c (Hcs c Hc))). apply (rel_up r r' c Hr (Hcs c Hc)).
      + rewrite (glue_LD r' _ (in_LD_open n Hn)). f_equal. apply (rel_open r r' n Hr Hn).
    - intros w Hin. apply in_app_or in Hin. destruct Hin as [Hin|[<-|[]]].
      + apply in_map_iff in Hin. destruct Hin as (c & <- & Hc). apply (rel_up r r' c Hr (Hcs c Hc)).
      + apply (rel_open r r' n Hr Hn).
  Qed.

  Lemma idx_bra q n cs r r' : In (q, n, cs) (tlist None ts) -> related r r' ->
    map (glue_asg GD r') (map upD (map k2b (map kid cs)) ++ [opD (bid im n)]) = map (gS r) (map upS cs ++ [opS n]) /\
    (forall w, In w (map upS cs ++ [opS n]) -> gS r w < wdim s w).
  Proof.
    intros He Hr.
    assert (Hn : In n (rnodes ts)) by (rewrite <- (tlist_nodes ts None); apply (in_map (fun e => snd (fst e)) _ _ He)).
    pose proof (tlist_children ts None q n cs He) as Hcs. split.
    - rewrite !map_app, !map_map. cbn [map]. f_equal.
      + apply map_ext_in. intros c Hc. change (k2b (kid c)) with (bid im c).
        rewrite (glue_LD r' _ (in_LD_upB c (Hcs c Hc))), (s_glue_up r c (Hcs c Hc)). apply (rel_up r r' c Hr (Hcs c Hc)).
      + rewrite (glue_bra_open r' n Hn), (s_glue_open r n Hn). f_equal. apply (rel_open r r' n Hr Hn).
    - intros w Hin. apply in_app_or in Hin. destruct Hin as [Hin|[<-|[]]].
      + apply in_map_iff in Hin. destruct Hin as (c & <- & Hc). rewrite (s_glue_up r c (Hcs c Hc)). apply (rel_up r r' c Hr (Hcs c Hc)).
      + rewrite (s_glue_open r n Hn). apply (rel_open r r' n Hr Hn).
  Qed.

  (* ---- the factor of one node -------------------------------------------------------------------------------------- *)
  Local Notation avalD := (atoms_val R one mul (atom_wires d) tblD).

  Lemma tlist_some_desc p n cs : In (Some p, n, cs) (tlist None ts) -> In n (rdesc ts).
  Proof.
    intros He. destruct (tlist_root None ts) as (l & El & _ & Hm). rewrite El in He. destruct He as [E|He]; [discriminate|].
    rewrite <- Hm. apply (in_map (fun e => snd (fst e)) _ _ He).
  Qed.

  Lemma plain_ket n : In n (rnodes ts) -> dplain d (kid n).
  Proof. intros Hn. apply (to_plain _ _ _ _ _ _ TO). right. apply in_or_app. left. apply in_map. exact Hn. Qed.
  Lemma plain_bra n : In n (rnodes ts) -> dplain d (bid im n).
  Proof. intros Hn. apply (to_plain _ _ _ _ _ _ TO). right. apply in_or_app. right. apply in_map. exact Hn. Qed.

  Lemma node_term_desc p n cs r r' : In (Some p, n, cs) (tlist None ts) -> related r r' ->
    avalD [datom d (kid n); datom d (bid im n)] (glue_asg GD r') = mul (fks n r) (fbs n r).
  Proof.
    intros He Hr. pose proof (tlist_some_desc p n cs He) as Hnd. pose proof (s_desc_in n Hnd) as Hn.
    destruct (s_node _ n cs He) as (kn & tm & _ & _ & _ & _ & AS & _). cbn [opt_list] in AS.
    destruct (d_node _ n cs He) as (dk & db & dp & dbp & _ & _ & _ & _ & AK & AB & _).
    destruct (plain_ket n Hn) as (_ & _ & WK). destruct (plain_bra n Hn) as (_ & _ & WB).
    destruct (idx_ket _ n cs r r' He Hr) as (IK & BK). destruct (idx_bra _ n cs r r' He Hr) as (IB & BB).
    destruct (rel_up r r' n Hr Hnd) as (U1 & U2 & U3 & U4).
    unfold atoms_val. cbn [prod_over]. unfold atom_val. rewrite WK, WB, AK, AB. cbn [map]. rewrite IK, IB.
    rewrite (glue_LD r' _ (in_LD_upK n Hnd)), (glue_LD r' _ (in_LD_upB n Hnd)), U1, U3.
    destruct (bc_desc _ _ _ _ _ _ _ _ _ _ _ _ _ _ _ BC n Hnd (map r (t_axes s n))) as (C1 & _).
    { apply forall2_map_r. rewrite AS. intros w [<-|Hin]; [exact U2|apply BK; exact Hin]. }
    destruct (bc_desc _ _ _ _ _ _ _ _ _ _ _ _ _ _ _ BC n Hnd (map (gS r) (t_axes s n))) as (_ & C2).
    { apply forall2_map_r. rewrite AS. intros w [<-|Hin]; [rewrite (s_glue_up r n Hnd); exact U4|apply BB; exact Hin]. }
    pose proof (eq_trans C1 (ket_entry_val _ n cs r He)) as C1'. pose proof (eq_trans C2 (bra_entry_val _ n cs r He)) as C2'.
    rewrite AS in C1', C2'. cbn [map app] in C1', C2'. rewrite (s_glue_up r n Hnd) in C2'.
    rewrite C1', C2'. rewrite (mul_1_r R zero one add mul SR). reflexivity.
  Qed.

  Lemma node_term_root r r' i j : related r r' -> r' (upD (kid (rid ts))) = i -> r' (upD (bid im (rid ts))) = j -> i < k -> j < k ->
    avalD [datom d (kid (rid ts)); datom d (bid im (rid ts))] (glue_asg GD r')
    = mul (mul (pad R zero one i) (pad R zero one j)) (mul (fks (rid ts) r) (fbs (rid ts) r)).
  Proof.
    intros Hr Ei Ej Hi Hj. pose proof in_tlist_root as He. set (n := rid ts) in *. set (cs := map rid (rcs ts)) in *.
    assert (Hn : In n (rnodes ts)) by apply rnodes_rid.
    destruct (s_node _ n cs He) as (kn & tm & _ & _ & _ & _ & AS & _). cbn [opt_list app] in AS.
    destruct (d_node _ n cs He) as (dk & db & dp & dbp & _ & _ & _ & _ & AK & AB & _).
    destruct (plain_ket n Hn) as (_ & _ & WK). destruct (plain_bra n Hn) as (_ & _ & WB).
    destruct (idx_ket _ n cs r r' He Hr) as (IK & BK). destruct (idx_bra _ n cs r r' He Hr) as (IB & BB).
    assert (LK : In (upD (kid n)) LD) by (unfold LD; right; left; reflexivity).
    assert (LB : In (upD (bid im n)) LD) by (unfold LD; right; right; left; reflexivity).
    unfold atoms_val. cbn [prod_over]. unfold atom_val. rewrite WK, WB, AK, AB. cbn [map]. rewrite IK, IB.
    rewrite (glue_LD r' _ LK), (glue_LD r' _ LB), Ei, Ej.
    destruct (bc_root _ _ _ _ _ _ _ _ _ _ _ _ _ _ _ BC i (map r (t_axes s n)) Hi) as (C1 & _).
    { apply forall2_map_r. rewrite AS. exact BK. }
    destruct (bc_root _ _ _ _ _ _ _ _ _ _ _ _ _ _ _ BC j (map (gS r) (t_axes s n)) Hj) as (_ & C2).
    { apply forall2_map_r. rewrite AS. exact BB. }
    fold n in C1, C2. rewrite (ket_entry_val _ n cs r He) in C1. rewrite (bra_entry_val _ n cs r He) in C2.
    rewrite AS in C1, C2. rewrite C1, C2.
    apply (pad_terms R zero one add mul SR).
  Qed.

  (* ---- the summand of the trace diagram at related assignments ----------------------------------------------------- *)
  Local Notation prods := (prodS R zero one add mul woff aoff s tblS ts).
  Definition AD : list nat := datom d r0 :: flat_map (fun n => [datom d (kid n); datom d (bid im n)]) (rnodes ts).

  Lemma avalD_cons a l r : avalD (a :: l) r = mul (atom_val R (atom_wires d) tblD r a) (avalD l r).
  Proof. reflexivity. Qed.

  Lemma leaf r r' o i j : related r r' -> r' (opD r0) = o -> o < 1 ->
    r' (upD (kid (rid ts))) = i -> r' (upD (bid im (rid ts))) = j -> i < k -> j < k ->
    avalD AD (glue_asg GD r') = mul (mul (delta R zero one i j) (mul (pad R zero one i) (pad R zero one j))) (prods r).
  Proof.
    intros Hr Eo Ho Ei Ej Hi Hj. unfold AD. rewrite avalD_cons.
    rewrite (atoms_val_flat_map R zero one add mul SR). unfold prodS. rewrite (rnodes_desc ts). cbn [prod_over].
    rewrite (node_term_root r r' i j Hr Ei Ej Hi Hj).
    rewrite (prod_over_ext R one mul _ (fun n => mul (fks n r) (fbs n r)) (rdesc ts)).
    2:{ intros n Hn. destruct (in_tlist_desc n Hn) as (p & cs & He). apply (node_term_desc p n cs r r' He Hr). }
    (* the artificial root *)
    assert (Er : atom_val R (atom_wires d) tblD (glue_asg GD r') (datom d r0) = delta R zero one i j).
    { destruct d_root as (rn & _ & _ & Hc & _ & Ax & _).
      destruct (to_plain _ _ _ _ _ _ TO r0 (or_introl eq_refl)) as (_ & _ & W0).
      assert (L0 : In (opD r0) LD) by (unfold LD; left; reflexivity).
      assert (LK : In (upD (kid (rid ts))) LD) by (unfold LD; right; left; reflexivity).
      assert (LB : In (upD (bid im (rid ts))) LD) by (unfold LD; right; right; left; reflexivity).
      assert (E0 : o = 0) by lia. rewrite E0 in Eo.
      unfold atom_val. rewrite W0, Ax. destruct Hc as [-> | ->]; cbn [map app];
        rewrite (glue_LD r' _ L0), (glue_LD r' _ LK), (glue_LD r' _ LB), Eo, Ei, Ej.
      - rewrite (bc_eye _ _ _ _ _ _ _ _ _ _ _ _ _ _ _ BC i j Hi Hj). reflexivity.
      - rewrite (bc_eye _ _ _ _ _ _ _ _ _ _ _ _ _ _ _ BC j i Hj Hi). unfold delta. rewrite Nat.eqb_sym. reflexivity. }
    rewrite Er. rewrite <- (csr_mul_assoc _ _ _ _ SR (mul (pad R zero one i) (pad R zero one j))).
    apply (csr_mul_assoc _ _ _ _ SR).
  Qed.

  (* ---- the value of the trace diagram -------------------------------------------------------------------------------- *)
  Lemma D_norm : exists g, trace_ttndo im d = Some g /\
    forall rho, gvalue R zero one add mul (atom_wires d) (wdim d) tblD g rho
                = sum_bnd R zero add (wdim d) LD (fun r => avalD AD (glue_asg GD r)) rho.
  Proof.
    destruct (trace_ttndo_closed im d r0 _ (to_wf _ _ _ _ _ _ TO)) as (g & Hg & _ & PA & PB & PG).
    exists g. split; [exact Hg|]. intros rho. rewrite rnodes_rmap in PA, PB, PG.
    assert (Pl : forall m, In m (all_ids im r0 ts) -> t_atoms d m = [datom d m] /\ t_bnd d m = []).
    { intros m Hm. destruct (to_plain _ _ _ _ _ _ TO m Hm) as (P1 & P2 & _). auto. }
    assert (Ik : forall n, In n (rnodes ts) -> In (kid n) (all_ids im r0 ts)) by (intros n Hn; right; apply in_or_app; left; apply in_map; exact Hn).
    assert (Ib : forall n, In n (rnodes ts) -> In (bid im n) (all_ids im r0 ts)) by (intros n Hn; right; apply in_or_app; right; apply in_map; exact Hn).
    apply (gvalue_norm R zero one add mul SR (atom_wires d) (wdim d) tblD g AD LD GD rho).
    - rewrite PA. apply Permutation_refl'. unfold tr_atoms, AD. rewrite (proj1 (Pl r0 (or_introl eq_refl))). cbn [app]. f_equal.
      rewrite flat_map_map. apply flat_map_ext_in'. intros n Hn.
      rewrite (proj1 (Pl _ (Ik n Hn))). change (k2b (kid n)) with (bid im n). rewrite (proj1 (Pl _ (Ib n Hn))). reflexivity.
    - rewrite PB, (Permutation_map fst PG). apply Permutation_refl'. unfold tr_bnd, tr_glue, LD, restD.
      rewrite (proj2 (Pl r0 (or_introl eq_refl))).
      rewrite (flat_map_nil (fun m => t_bnd d m ++ t_bnd d (k2b m)) (map kid (rnodes ts))).
      2:{ intros m Hm. apply in_map_iff in Hm. destruct Hm as (n & <- & Hn). rewrite (proj2 (Pl _ (Ik n Hn))).
          change (k2b (kid n)) with (bid im n). rewrite (proj2 (Pl _ (Ib n Hn))). reflexivity. }
      fold (@app wire). rewrite !app_nil_r, !map_map. cbn [fst]. rewrite flat_map_map. rewrite (rnodes_desc ts) at 1. cbn [flat_map app].
      reflexivity.
    - rewrite PG. apply Permutation_refl'. change (map (fun m => (opD m, opD (k2b m))) (map kid (rnodes ts)) = map (fun n => (opD (kid n), opD (bid im n))) (rnodes ts)). rewrite map_map. reflexivity.
    - exact GD_nodup.
  Qed.

  Lemma restD_nodup : NoDup (restD im d ts).
  Proof. pose proof LD_nodup as H. unfold LD in H. exact (NoDup_app_r _ _ H). Qed.

  Lemma root_wires_distinct :
    let o0 := opD r0 in let uK := upD (kid (rid ts)) in let uB := upD (bid im (rid ts)) in
    o0 <> uK /\ o0 <> uB /\ uK <> uB /\ ~ In o0 (restD im d ts) /\ ~ In uK (restD im d ts) /\ ~ In uB (restD im d ts).
  Proof.
    cbv zeta. pose proof LD_nodup as H. unfold LD in H. cbn [app] in H.
    inversion H as [|? ? N1 H']; subst. inversion H' as [|? ? N2 H'']; subst. inversion H'' as [|? ? N3 _]; subst.
    repeat split.
    - intros E. apply N1. left. exact (eq_sym E).
    - intros E. apply N1. right. left. exact (eq_sym E).
    - intros E. apply N2. left. exact (eq_sym E).
    - intros Hin. apply N1. right. right. exact Hin.
    - intros Hin. apply N2. right. exact Hin.
    - exact N3.
  Qed.

  (* for fixed indices (o, i, j) on the three wires of the artificial root, the rest of the trace diagram is the
     <psi|psi> sum, times the entry of the identity and the two padding indicators *)
  Lemma inner_sum rho rhoS o i j : o < 1 -> i < k -> j < k ->
    sum_bnd R zero add (wdim d) (restD im d ts) (fun r => avalD AD (glue_asg GD r))
            (upd (upd (upd rho (opD r0) o) (upD (kid (rid ts))) i) (upD (bid im (rid ts))) j)
    = mul (mul (delta R zero one i j) (mul (pad R zero one i) (pad R zero one j)))
          (sum_bnd R zero add DmS (restS woff s ts) prods rhoS).
  Proof.
    intros Ho Hi Hj. destruct root_wires_distinct as (D1 & D2 & D3 & N1 & N2 & N3).
    set (c := mul (delta R zero one i j) (mul (pad R zero one i) (pad R zero one j))).
    rewrite <- (sum_bnd_mul_l R zero one add mul SR DmS (restS woff s ts) (fun _ => c) prods) by (intros r1 r2 _; reflexivity).
    symmetry. rewrite <- (wire_pairs_fst woff im d s ts), <- (wire_pairs_snd woff im d s ts).
    apply sum_bnd_rename.
    - rewrite wire_pairs_fst. exact restS_nodup.
    - rewrite wire_pairs_snd. exact restD_nodup.
    - exact pairs_dims.
    - intros r r' Hrel _ Hout. rewrite wire_pairs_snd in Hout. symmetry. apply (leaf r r' o i j Hrel); try assumption.
      + rewrite (Hout _ N1). unfold upd. destruct (Nat.eqb_spec (opD r0) (upD (bid im (rid ts)))) as [E|_]; [contradiction|].
        destruct (Nat.eqb_spec (opD r0) (upD (kid (rid ts)))) as [E|_]; [contradiction|]. rewrite Nat.eqb_refl. reflexivity.
      + rewrite (Hout _ N2). unfold upd. destruct (Nat.eqb_spec (upD (kid (rid ts))) (upD (bid im (rid ts)))) as [E|_]; [contradiction|].
        rewrite Nat.eqb_refl. reflexivity.
      + rewrite (Hout _ N3). unfold upd. rewrite Nat.eqb_refl. reflexivity.
  Qed.

  Theorem trace_value_main : exists gD gS,
    trace_ttndo im d = Some gD /\ scalar_product woff aoff s None = Some gS /\
    forall rho rho', gvalue R zero one add mul (atom_wires d) (wdim d) tblD gD rho
                     = gvalue R zero one add mul WrS DmS tblS gS rho'.
  Proof.
    destruct D_norm as (gD & HgD & HvD).
    destruct (S_value R zero one add mul SR woff aoff s tblS WS Hw0 Hw Ha ts WT HP) as (gS' & HgS & HvS).
    exists gD, gS'. split; [exact HgD|]. split; [exact HgS|]. intros rho rho'. rewrite HvD, HvS.
    destruct d_root as (rn & _ & _ & _ & _ & _ & D0). destruct (to_dim_root _ _ _ _ _ _ TO) as (DK & DB).
    unfold LD. rewrite sum_bnd_app. cbn [sum_bnd]. rewrite D0, DK, DB.
    rewrite <- (root_sums R zero one add mul SR k (sum_bnd R zero add DmS (restS woff s ts) prods rho') Hk) at 1.
    apply sum_upto_ext. intros o Ho. apply sum_upto_ext. intros i Hi. apply sum_upto_ext. intros j Hj.
    apply (inner_sum rho rho' o i j Ho Hi Hj).
  Qed.
End Main.

(* ================================================================================================================ *)
(* 6. the statement with the tree read off the state, executable hypotheses                                          *)
(* ================================================================================================================ *)
Theorem trace_value (R : Type) (zero one : R) (add mul : R -> R -> R) :
  comm_semiring zero one add mul ->
  forall (woff aoff : nat) (im : idmaps) (d s : store) (r0 : id) (ts : rt) (k : nat) (tblD tblS : nat -> list nat -> R),
  wfs s -> one_open s -> 0 < woff -> next_wire s <= woff -> next_atom s <= aoff ->
  ket_tree s = Some ts -> 1 <= k ->
  ttndo_of im d s r0 ts k ->
  build_contracts R zero one add mul woff aoff im d s r0 ts k tblD tblS ->
  exists gD gS,
    trace_ttndo im d = Some gD /\ scalar_product woff aoff s None = Some gS /\
    gaxes gD = [] /\ gaxes gS = [] /\
    forall rho rho', gvalue R zero one add mul (atom_wires d) (wdim d) tblD gD rho
                     = gvalue R zero one add mul (pair_wires s (conj_store woff aoff s)) (pair_dim s (conj_store woff aoff s)) tblS gS rho'.
Proof.
  intros SR woff aoff im d s r0 ts k tblD tblS WS H1 Hw0 Hw Ha Hts Hk TO BC.
  destruct (wf_two_of_wf woff aoff s (ws_wf s WS) H1 Hw0) as (t & Ht & WT & HP). rewrite Hts in Ht. injection Ht as <-.
  destruct (trace_value_main R zero one add mul SR woff aoff im d s r0 ts k tblD tblS WS H1 Hw0 Hw Ha WT HP Hk TO BC) as (gD & gS & E1 & E2 & HV).
  exists gD, gS. split; [exact E1|]. split; [exact E2|].
  destruct (trace_ttndo_closed im d r0 _ (to_wf _ _ _ _ _ _ TO)) as (g1 & F1 & A1 & _). rewrite E1 in F1. injection F1 as <-.
  destruct (contract_two_ttns_closed s _ ts WT) as (g2 & F2 & A2 & _). cbn [scalar_product] in E2. rewrite E2 in F2. injection F2 as <-.
  auto.
Qed.


Lemma dplainb_sound d m : dplainb d m = true -> dplain d m.
Proof.
  unfold dplainb, dplain, datom. destruct (t_atoms d m) as [|a [|? ?]]; try discriminate.
  destruct (t_bnd d m); [|discriminate]. intros H. apply cl_list_eqb in H. cbn [hd]. auto.
Qed.

Lemma ttndo_ofb_sound im d s r0 ts k : ttndo_ofb im d s r0 ts k = true -> ttndo_of im d s r0 ts k.
Proof.
  unfold ttndo_ofb. cbv zeta. intros H. do 12 (apply andb_prop in H; let H' := fresh "H" in destruct H as [H H']).
  pose proof (wfsb_wfs d H) as WD.
  constructor.
  - exact WD.
  - apply (one_openb_sound d (ws_wf d WD)). exact H11.
  - split; [apply opt_eqb_true; exact H10|]. split; [apply cl_nodupb; exact H9|]. split; [apply wf_subDb_sound; exact H8|apply droot_okb_sound; exact H7].
  - apply cl_nodupb. exact H6.
  - intros n kn bn Hn E1 E2. rewrite forallb_forall in H5. specialize (H5 n Hn). rewrite E1, E2 in H5. apply cl_list_eqb. exact H5.
  - intros m Hm. rewrite forallb_forall in H4. apply dplainb_sound. apply H4. exact Hm.
  - intros n Hn. rewrite forallb_forall in H3. specialize (H3 n Hn). apply andb_prop in H3. destruct H3 as [A B].
    apply Nat.eqb_eq in A. apply Nat.eqb_eq in B. auto.
  - intros n Hn. rewrite forallb_forall in H2. specialize (H2 n Hn). apply Nat.eqb_eq in H2. exact H2.
  - apply Nat.eqb_eq in H1. apply Nat.eqb_eq in H0. auto.
Qed.


Theorem trace_value_b (R : Type) (zero one : R) (add mul : R -> R -> R) :
  comm_semiring zero one add mul ->
  forall (woff aoff : nat) (im : idmaps) (d s : store) (r0 : id) (k : nat) (tblD tblS : nat -> list nat -> R),
  value_hyp woff aoff im d s r0 k = true ->
  (forall ts, ket_tree s = Some ts -> build_contracts R zero one add mul woff aoff im d s r0 ts k tblD tblS) ->
  exists gD gS,
    trace_ttndo im d = Some gD /\ scalar_product woff aoff s None = Some gS /\
    gaxes gD = [] /\ gaxes gS = [] /\
    forall rho rho', gvalue R zero one add mul (atom_wires d) (wdim d) tblD gD rho
                     = gvalue R zero one add mul (pair_wires s (conj_store woff aoff s)) (pair_dim s (conj_store woff aoff s)) tblS gS rho'.
Proof.
  intros SR woff aoff im d s r0 k tblD tblS H BC. unfold value_hyp in H.
  do 6 (apply andb_prop in H; let H' := fresh "H" in destruct H as [H H']).
  destruct (ket_tree s) as [ts|] eqn:Ets; [|discriminate].
  pose proof (wfsb_wfs s H) as WS.
  apply (trace_value R zero one add mul SR woff aoff im d s r0 ts k tblD tblS WS); auto.
  - apply (one_openb_sound s (ws_wf s WS)). exact H5.
  - apply Nat.ltb_lt. exact H4.
  - apply Nat.leb_le. exact H3.
  - apply Nat.leb_le. exact H2.
  - apply Nat.leb_le. exact H1.
  - apply ttndo_ofb_sound. exact H0.
Qed.

(* ================================================================================================================ *)
(* 7. the state as a store program, and the build contracts as an executable check over Z (for examples and for the    *)
(*    per-instance evaluation by the harness)                                                                          *)
(* ================================================================================================================ *)


Lemma all_idx_complete ds idx : Forall2 (fun d i => i < d) ds idx -> In idx (all_idx ds).
Proof.
  induction 1 as [|d i ds idx Hi _ IH]; [left; reflexivity|]. cbn [all_idx]. apply in_flat_map. exists i. split.
  - apply in_seq. lia.
  - apply in_map. exact IH.
Qed.

Lemma forall2_map_l {A B C} (P : B -> C -> Prop) (f : A -> B) l l' : Forall2 (fun a c => P (f a) c) l l' -> Forall2 P (map f l) l'.
Proof. induction 1; cbn [map]; constructor; assumption. Qed.

Section ContractsZ.
  Variables (woff aoff : nat) (im : idmaps) (d s : store) (r0 : id) (ts : rt) (k : nat).
  Variables (tblD tblS : nat -> list nat -> Z).

  Local Notation KE := (ket_entry Z 0%Z 1%Z Z.add Z.mul woff aoff s tblS).
  Local Notation BE := (bra_entry Z 0%Z 1%Z Z.add Z.mul woff aoff s tblS).
  Local Notation aK := (fun n => datom d (im_kid im n)).
  Local Notation aB := (fun n => datom d (bid im n)).

  Lemma in_node_idx n idx : in_range s n idx -> In idx (node_idx s n).
  Proof. intros H. apply all_idx_complete. apply forall2_map_l. exact H. Qed.

  Lemma build_contractsb_sound : build_contractsb woff aoff im d s r0 ts k tblD tblS = true ->
    build_contracts Z 0%Z 1%Z Z.add Z.mul woff aoff im d s r0 ts k tblD tblS.
  Proof.
    unfold build_contractsb. intros H. apply andb_prop in H. destruct H as [H H3]. apply andb_prop in H. destruct H as [H1 H2].
    constructor.
    - intros i j Hi Hj. unfold eye_contractb in H1. rewrite forallb_forall in H1.
      assert (Ii : In i (seq 0 k)) by (apply in_seq; lia). specialize (H1 i Ii). rewrite forallb_forall in H1.
      assert (Ij : In j (seq 0 k)) by (apply in_seq; lia). specialize (H1 j Ij). apply Z.eqb_eq in H1. exact H1.
    - intros i idx Hi Hr. unfold root_contractb in H2. rewrite forallb_forall in H2.
      assert (Ii : In i (seq 0 k)) by (apply in_seq; lia). specialize (H2 i Ii). rewrite forallb_forall in H2.
      specialize (H2 idx (in_node_idx _ idx Hr)). apply andb_prop in H2. destruct H2 as [A B].
      apply Z.eqb_eq in A. apply Z.eqb_eq in B. auto.
    - intros n Hn idx Hr. rewrite forallb_forall in H3. specialize (H3 n Hn). unfold node_contractb in H3. rewrite forallb_forall in H3.
      specialize (H3 idx (in_node_idx _ idx Hr)). apply andb_prop in H3. destruct H3 as [A B].
      apply Z.eqb_eq in A. apply Z.eqb_eq in B. auto.
  Qed.

End ContractsZ.

Lemma Z_semiring : comm_semiring 0%Z 1%Z Z.add Z.mul.
Proof. constructor; intros; lia. Qed.


(* ---- example: a four-node tree with mixed dimensions, k = 1, 2 and 3 (one more than any bond needs) ------------------ *)
Lemma value_example_hyp :
  ket_tree vx_s = Some vx_ts /\
  value_case vx_bond vx_phys 1 vx_t 1000 100 = true /\ value_case vx_bond vx_phys 2 vx_t 1000 100 = true /\
  value_case vx_bond vx_phys 3 vx_t 1000 100 = true /\
  build_contractsb 1000 100 code_maps (vx_d 1) vx_s 0 vx_ts 1 vx_tblD vx_tblS = true /\
  build_contractsb 1000 100 code_maps (vx_d 2) vx_s 0 vx_ts 2 vx_tblD vx_tblS = true /\
  build_contractsb 1000 100 code_maps (vx_d 3) vx_s 0 vx_ts 3 vx_tblD vx_tblS = true.
Proof. vm_compute. repeat split; reflexivity. Qed.

Lemma value_example_numbers :
  vx_norm = Some 2494%Z /\ vx_trace 1 = Some 2494%Z /\ vx_trace 2 = Some 2494%Z.
Proof. vm_compute. repeat split; reflexivity. Qed.

(* the theorem applies to the example with k = 3 *)
Lemma value_example_thm : exists gD gS,
  trace_ttndo code_maps (vx_d 3) = Some gD /\ scalar_product 1000 100 vx_s None = Some gS /\
  forall rho rho',
    gvalue Z 0%Z 1%Z Z.add Z.mul (atom_wires (vx_d 3)) (wdim (vx_d 3)) vx_tblD gD rho
    = gvalue Z 0%Z 1%Z Z.add Z.mul (pair_wires vx_s (conj_store 1000 100 vx_s)) (pair_dim vx_s (conj_store 1000 100 vx_s)) vx_tblS gS rho'.
Proof.
  destruct value_example_hyp as (Et & _ & _ & H3 & _ & _ & C3).
  destruct (trace_value_b Z 0%Z 1%Z Z.add Z.mul Z_semiring 1000 100 code_maps (vx_d 3) vx_s 0 3 vx_tblD vx_tblS H3) as (gD & gS & E1 & E2 & _ & _ & HV).
  - intros ts Hts. rewrite Et in Hts. injection Hts as <-. apply build_contractsb_sound. exact C3.
  - exists gD, gS. auto.
Qed.
