(* Structural model of pytreenet/ttns/ttndo.py (SymmetricTTNDO, from_ttns, _rec_add_children)
   and of the identifier handling of pytreenet/contractions/ttndo_contractions.py.

   A TTNS is given by its rooted ordered tree `t : rtree` (Tree/RTree.v, natural-number
   identifiers, children in GraphNode.children order) and two dimension functions
   `bond n` (dimension of the leg from node n to its parent) and `phys n` (open leg).
   After `ttns[n]` (which from_ttns performs for every node, lazy transposition included)
   the tensor of n has the legs (parent, children in order, open).

   Parts: A identifiers (abstract `did` and the literal string functions with the
   regex quirk), B the doubled tree as the code builds it (records in dictionary order,
   the add_symmetric_children_to_parent calls, the same construction as a program for the
   Layer-W store model TTN/Store.v, the zero-padded root legs), C the control flow of
   tensor_product_expectation_value with the two defect flags.
   Definitions only; proofs are in SymProofs.v. *)
From Coq Require Import List Arith Bool String Ascii ZArith.
From PTN Require Import Tree.RTree.
From PTN Require TTN.Store.
Import ListNotations.

(* ================================================================================== *)
(* A. identifiers                                                                     *)
(* ================================================================================== *)
Inductive side := Ket | Bra.

(* identifiers of the density-operator network: the artificial root, or node n of the state
   on the ket / bra side (n + ket_suffix, n + bra_suffix in the code) *)
Inductive did := DRoot | DN (n : nat) (s : side).

Definition side_eqb (a b : side) : bool :=
  match a, b with Ket, Ket => true | Bra, Bra => true | _, _ => false end.
Definition did_eqb (a b : did) : bool :=
  match a, b with
  | DRoot, DRoot => true
  | DN n s, DN m r => Nat.eqb n m && side_eqb s r
  | _, _ => false
  end.

Definition ket_id (n : nat) : did := DN n Ket.
Definition bra_id (n : nat) : did := DN n Bra.
(* None = the assertion "not a ket identifier" fails *)
Definition reverse_ket_id (d : did) : option nat := match d with DN n Ket => Some n | _ => None end.
Definition reverse_bra_id (d : did) : option nat := match d with DN n Bra => Some n | _ => None end.
Definition ket_to_bra_id (d : did) : option did := option_map bra_id (reverse_ket_id d).
Definition bra_to_ket_id (d : did) : option did := option_map ket_id (reverse_bra_id d).

(* tagged naturals: the encoding used when the network is handed to the store model *)
Definition code (d : did) : nat :=
  match d with DRoot => 0 | DN n Ket => 2 * n + 1 | DN n Bra => 2 * n + 2 end.
Definition decode (c : nat) : did :=
  match c with
  | 0 => DRoot
  | S c' => if Nat.even c' then DN (c' / 2) Ket else DN (c' / 2) Bra
  end.

(* ---- the literal string functions ------------------------------------------------- *)
Local Open Scope string_scope.

(* re.match(".*" + p, s) is not None, for a pattern p without metacharacters and s without
   a newline: p occurs somewhere in s (match anchors only the start, `.*` absorbs a prefix) *)
Fixpoint has_sub (p s : string) : bool :=
  if prefix p s then true
  else match s with EmptyString => false | String _ s' => has_sub p s' end.

(* str.endswith *)
Definition ends_with (p s : string) : bool :=
  Nat.leb (length p) (length s) && String.eqb (substring (length s - length p) (length p) s) p.

Definition ket_id_s (ksuf s : string) : string := s ++ ksuf.
Definition bra_id_s (bsuf s : string) : string := s ++ bsuf.

(* reverse_ket_id / reverse_bra_id: assert match(".*"+suffix, id); return id[:-len(suffix)].
   Python: id[:-0] is the empty string. *)
Definition reverse_id_s (suf s : string) : option string :=
  if has_sub suf s then
    Some (if Nat.eqb (length suf) 0 then "" else substring 0 (length s - length suf) s)
  else None.

Definition ket_to_bra_id_s (ksuf bsuf s : string) : option string :=
  option_map (bra_id_s bsuf) (reverse_id_s ksuf s).
Definition bra_to_ket_id_s (ksuf bsuf s : string) : option string :=
  option_map (ket_id_s ksuf) (reverse_id_s bsuf s).

(* the filter of ttndo_contraction_order: match(".*"+ket_suffix, node_id) *)
Definition is_ket_s (ksuf s : string) : bool := has_sub ksuf s.

(* the name of an abstract identifier, given the names of the state's nodes *)
Definition name_of (root_name ksuf bsuf : string) (names : nat -> string) (d : did) : string :=
  match d with
  | DRoot => root_name
  | DN n Ket => ket_id_s ksuf (names n)
  | DN n Bra => bra_id_s bsuf (names n)
  end.

Local Close Scope string_scope.

(* ================================================================================== *)
(* B. the doubled tree                                                                *)
(* ================================================================================== *)

(* post-order (TreeStructure.linearise: children before the node) *)
Fixpoint postorder (t : rtree) : list nat :=
  match t with RNode i cs => flat_map postorder cs ++ [i] end.

(* shape of the state's node after access: (parent leg unless root, children, open) *)
Definition ttns_shape (bond phys : nat -> nat) (is_root : bool) (t : rtree) : list nat :=
  (if is_root then [] else [bond (rid t)]) ++ map (fun c => bond (rid c)) (rchildren t) ++ [phys (rid t)].

(* a node of the network: what Node.identifier / parent / children / shape report *)
Record dnode := { dn_id : did; dn_parent : option did; dn_children : list did; dn_shape : list nat }.

(* the parent of the image of a node whose parent in the state is `par` (None = the state's root) *)
Definition par_id (s : side) (par : option nat) : did :=
  match par with None => DRoot | Some p => DN p s end.

Definition sym_shape (bond phys : nat -> nat) (lead : nat) (i : nat) (cs : list rtree) : list nat :=
  lead :: map (fun c => bond (rid c)) cs ++ [phys i].

Definition sym_node (bond phys : nat -> nat) (k : nat) (par : option nat) (s : side) (i : nat) (cs : list rtree) : dnode :=
  {| dn_id := DN i s;
     dn_parent := Some (par_id s par);
     dn_children := map (fun c => DN (rid c) s) cs;
     dn_shape := sym_shape bond phys (match par with None => k | Some _ => bond i end) i cs |}.

(* the nodes below the artificial root in dictionary (insertion) order: for every node of the
   state in pre-order its ket image, then its bra image (add_symmetric_children_to_parent adds
   the ket node first; _rec_add_children recurses into a child right after adding it) *)
Fixpoint sub_nodes (bond phys : nat -> nat) (k : nat) (par : option nat) (t : rtree) : list dnode :=
  match t with
  | RNode i cs =>
      sym_node bond phys k par Ket i cs :: sym_node bond phys k par Bra i cs ::
      flat_map (sub_nodes bond phys k (Some i)) cs
  end.

(* add_trivial_root: eye(k).reshape(k, k, 1); children (ket root, bra root) in that order *)
Definition root_node (k : nat) (t : rtree) : dnode :=
  {| dn_id := DRoot; dn_parent := None; dn_children := [DN (rid t) Ket; DN (rid t) Bra]; dn_shape := [k; k; 1] |}.

(* what from_ttns rejects: 1 = ValueError of positivity_check(root_bond_dim) in add_trivial_root
   (checked first), 2 = KeyError "There is no root!" for an empty state, 0 = accepted *)
Definition from_ttns_guard (k : Z) (t : option rtree) : nat :=
  if Z.leb k 0 then 1 else match t with None => 2 | Some _ => 0 end.

(* from_ttns(ttns, root_id, k): all node records in dictionary order *)
Definition doubled (bond phys : nat -> nat) (k : nat) (t : rtree) : list dnode :=
  root_node k t :: sub_nodes bond phys k None t.

Fixpoint find_node (d : did) (l : list dnode) : option dnode :=
  match l with
  | [] => None
  | r :: l' => if did_eqb d (dn_id r) then Some r else find_node d l'
  end.

(* ttndo_contraction_order: linearise() restricted to ket identifiers (valid when no name
   contains the ket suffix, see is_ket_s); linearise of the doubled tree is the post-order of
   the ket branch, of the bra branch, then the root *)
Definition linearise_doubled (t : rtree) : list did :=
  map ket_id (postorder t) ++ map bra_id (postorder t) ++ [DRoot].
Definition is_ket (d : did) : bool := match d with DN _ Ket => true | _ => false end.
Definition contraction_order (t : rtree) : list did := filter is_ket (linearise_doubled t).

(* the same filter as the code applies it, on the names.  bug_regex = true: the code as it
   stands, match(".*"+ket_suffix, name), which accepts every name CONTAINING the suffix;
   bug_regex = false: the repaired filter name.endswith(ket_suffix) *)
Definition ket_filter_s (bug_regex : bool) (ksuf s : string) : bool :=
  if bug_regex then is_ket_s ksuf s else ends_with ksuf s.
Definition contraction_order_s (bug_regex : bool) (root_name ksuf bsuf : string) (names : nat -> string) (t : rtree) : list did :=
  filter (fun d => ket_filter_s bug_regex ksuf (name_of root_name ksuf bsuf names d)) (linearise_doubled t).

(* ---- the calls from_ttns makes ------------------------------------------------------ *)
(* add_symmetric_children_to_parent(child_id, ket_tensor, bra_tensor, child_leg, parent_id,
   parent_leg, parent_bra_leg); sc_parent = None stands for the artificial root *)
Record sym_call := { sc_child : nat; sc_shape : list nat; sc_child_leg : nat;
                     sc_parent : option nat; sc_parent_leg : nat; sc_parent_bra_leg : nat }.

(* for j, a in enumerate(l, start=j): concatenate f j a *)
Section FlatMapI.
  Context {A B : Type} (f : nat -> A -> list B).
  Fixpoint flat_mapi (j : nat) (l : list A) : list B :=
    match l with [] => [] | a :: r => f j a ++ flat_mapi (S j) r end.
End FlatMapI.

(* _rec_add_children(ttns, ttndo, node): parent_leg = node.neighbour_index(child) + int(node.is_root()),
   child_leg = child_node.parent_leg = 0; j is the position of the child in node.children *)
Definition child_call (bond phys : nat -> nat) (is_root : bool) (i j : nat) (c : rtree) : sym_call :=
  let nb_index := if is_root then j else j + 1 in
  let pleg := nb_index + (if is_root then 1 else 0) in
  {| sc_child := rid c; sc_shape := ttns_shape bond phys false c; sc_child_leg := 0;
     sc_parent := Some i; sc_parent_leg := pleg; sc_parent_bra_leg := pleg |}.

Fixpoint rec_add_children (bond phys : nat -> nat) (is_root : bool) (t : rtree) : list sym_call :=
  match t with
  | RNode i cs =>
      flat_mapi (fun j c => child_call bond phys is_root i j c :: rec_add_children bond phys false c) 0 cs
  end.

(* the padded root tensor: reshape to (1, shape...), pad axis 0 by (0, k-1) *)
Definition padded_lead (k : nat) : nat := 1 + (k - 1).

Definition from_ttns_calls (bond phys : nat -> nat) (k : nat) (t : rtree) : list sym_call :=
  {| sc_child := rid t; sc_shape := padded_lead k :: ttns_shape bond phys true t; sc_child_leg := 0;
     sc_parent := None; sc_parent_leg := 0; sc_parent_bra_leg := 1 |}
  :: rec_add_children bond phys true t.

(* the same construction as a program of the Layer-W store model (identifiers through `code`):
   add_root, then per call add_child_to_parent for the ket node and for the bra node *)
Definition call_ops (c : sym_call) : list Store.op :=
  [Store.AddChild (code (DN (sc_child c) Ket)) (sc_shape c) (sc_child_leg c) (code (par_id Ket (sc_parent c))) (sc_parent_leg c);
   Store.AddChild (code (DN (sc_child c) Bra)) (sc_shape c) (sc_child_leg c) (code (par_id Bra (sc_parent c))) (sc_parent_bra_leg c)].

Definition from_ttns_ops (bond phys : nat -> nat) (k : nat) (t : rtree) : list Store.op :=
  Store.AddRoot (code DRoot) [k; k; 1] :: flat_map call_ops (from_ttns_calls bond phys k t).

Definition from_ttns_store (bond phys : nat -> nat) (k : nat) (t : rtree) : Store.store * list bool :=
  Store.run Store.empty_store (from_ttns_ops bond phys k t).

(* what the store model says about the nodes, in the layout of `doubled` plus the lazy
   permutation: (code, parent, children, permutation, node shape) *)
Definition store_nodes (s : Store.store) : list (nat * option nat * list nat * list nat * list nat) :=
  map (fun kn => (fst kn, Store.parent (snd kn), Store.children (snd kn), Store.perm (snd kn), Store.node_shape (snd kn)))
      (Store.nodes s).
Definition doubled_coded (bond phys : nat -> nat) (k : nat) (t : rtree) :=
  map (fun r => (code (dn_id r), option_map code (dn_parent r), map code (dn_children r),
                 seq 0 (List.length (dn_shape r)), dn_shape r)) (doubled bond phys k t).

(* ---- the padded root legs and the trivial root ---------------------------------------- *)
(* which slices along the padded axis can be non-zero: index 0 only *)
Definition pad_pattern (k : nat) : list bool := true :: repeat false (k - 1).
(* eye(k) *)
Definition eye_entry (a b : nat) : nat := if Nat.eqb a b then 1 else 0.
Definition eye_rows (k : nat) : list (list nat) := map (fun a => map (eye_entry a) (seq 0 k)) (seq 0 k).

Definition b2n (b : bool) : nat := if b then 1 else 0.
(* sum_{a,b} eye[a,b] * [slice a of the ket root may be non-zero] * [slice b of the bra root ...]:
   the factor the artificial root contributes to every contraction *)
Definition root_weight (k : nat) : nat :=
  list_sum (map (fun a => list_sum (map (fun b => eye_entry a b * b2n (nth a (pad_pattern k) false) * b2n (nth b (pad_pattern k) false))
                                        (seq 0 k))) (seq 0 k)).

(* ================================================================================== *)
(* C. tensor_product_expectation_value                                                *)
(* ================================================================================== *)
(* which functional is finally evaluated *)
Inductive final := FTrace | FScalarProduct.

Section TP.
  Variables (St Op : Type).
  (* ttn.absorb_into_open_legs(ket_id, operator) on a copy *)
  Variable absorb : St -> did -> Op -> St.

  (* bug_loop  = true: `ttn = deepcopy(self)` inside the loop (the code before the repair);
     bug_empty = true: the empty product returns self.scalar_product().
     Result: the functional and the network it is evaluated on. *)
  Definition tp_expectation (bug_loop bug_empty : bool) (self : St) (factors : list (nat * Op)) : final * St :=
    match factors with
    | [] => (if bug_empty then FScalarProduct else FTrace, self)
    | _ :: _ =>
        (FTrace,
         if bug_loop
         then fold_left (fun (_ : St) f => absorb self (ket_id (fst f)) (snd f)) factors self
         else fold_left (fun ttn f => absorb ttn (ket_id (fst f)) (snd f)) factors self)
    end.
End TP.

(* the logging instance: the network is the list of applications made to it *)
Definition log_absorb {Op : Type} (s : list (did * Op)) (d : did) (o : Op) : list (did * Op) := s ++ [(d, o)].
Definition tp_log {Op : Type} (bug_loop bug_empty : bool) (factors : list (nat * Op)) : final * list (did * Op) :=
  tp_expectation (list (did * Op)) Op log_absorb bug_loop bug_empty [] factors.

(* observation for the correspondence: (is the trace branch taken, applications as (code, factor index)) *)
Definition tp_obs (bug_loop bug_empty : bool) (nodes : list nat) : bool * list (nat * nat) :=
  let r := tp_log bug_loop bug_empty (combine nodes (seq 0 (List.length nodes))) in
  (match fst r with FTrace => true | FScalarProduct => false end, map (fun x => (code (fst x), snd x)) (snd r)).

(* ================================================================================== *)
(* D. executable checks and observations used by the correspondence                   *)
(* ================================================================================== *)
Definition opt_nat_eqb (a b : option nat) : bool :=
  match a, b with Some x, Some y => Nat.eqb x y | None, None => true | _, _ => false end.

Definition rec5_eqb (a b : nat * option nat * list nat * list nat * list nat) : bool :=
  let '(i1, p1, c1, q1, s1) := a in
  let '(i2, p2, c2, q2, s2) := b in
  Nat.eqb i1 i2 && opt_nat_eqb p1 p2 && Store.list_eqb c1 c2 && Store.list_eqb q1 q2 && Store.list_eqb s1 s2.

Fixpoint all2 {A} (f : A -> A -> bool) (l1 l2 : list A) : bool :=
  match l1, l2 with
  | [], [] => true
  | a :: r1, b :: r2 => f a b && all2 f r1 r2
  | _, _ => false
  end.

(* per instance: the store program of from_ttns is accepted step by step by the Layer-W model
   and leaves exactly the node records of `doubled` (same dictionary order, identity leg
   permutations, same shapes), the artificial root being the store's root *)
Definition store_check (bond phys : nat -> nat) (k : nat) (t : rtree) : bool :=
  let r := from_ttns_store bond phys k t in
  forallb (fun b => b) (snd r) &&
  all2 rec5_eqb (store_nodes (fst r)) (doubled_coded bond phys k t) &&
  opt_nat_eqb (Store.root (fst r)) (Some (code DRoot)) &&
  Store.list_eqb (map fst (Store.tensors (fst r))) (map fst (Store.nodes (fst r))).

(* a child's leg 0 and the leg of its parent it was attached to are the same wire *)
Definition wires_check (s : Store.store) : bool :=
  forallb (fun kn =>
    match Store.parent (snd kn) with
    | None => true
    | Some p =>
        match Store.aget p (Store.nodes s), Store.logical s p, Store.logical s (fst kn) with
        | Some pn, Some pt, Some ct =>
            match Store.neighbour_index pn (fst kn) with
            | Some j => Nat.eqb (nth j (Store.axes pt) 0) (nth 0 (Store.axes ct) 1)
            | None => false
            end
        | _, _, _ => false
        end
    end) (Store.nodes s).

Definition build_obs (bond phys : nat -> nat) (k : nat) (t : rtree) :=
  (doubled_coded bond phys k t, map code (contraction_order t), eye_rows k, pad_pattern k,
   (store_check bond phys k t, wires_check (fst (from_ttns_store bond phys k t)))).
