(* Property C16, value level: the trace of the density-operator network from_ttns builds from a state is <psi|psi>.

   TTNDO/Contr.v + ContrProofs.v prove that trace_ttndo CLOSES the network (C16_trace_closed: which atoms, which
   summed wires, which glued legs).  This file gives the vocabulary of the statement that the VALUE of that closed
   diagram (Contr/TensorProdBridge.gvalue, over any commutative semiring and any atom table) equals the value of the
   diagram scalar_product(...) = contract_two_ttns s (conj_store s) of the pure state (Contr/TensorProd.v, C04):

     - ttndo_of im d s r0 ts k : "d is the network from_ttns(s, root_bond_dim = k) builds" as far as STRUCTURE goes
       (decidable; ttndo_ofb is the executable form, evaluated per instance on the store program of TTNDO/Sym.v):
       d is a well-formed store with one open leg per node, the ket branch below the artificial root r0 is the image
       of the state's tree ts under ket_id and the bra branch its mirror image (wf_ttndo + same child order), every
       node of d is one atom whose axes are the node's legs, leg dimensions are the state's and k on the two legs of
       the artificial root;
     - build_contracts : the VALUE-level facts about the arrays from_ttns stores, as premises on the two atom tables
       (tblD for the network, tblS for the state and its conjugate copy = the world of C04):
         (i)   below the state's root the ket atom holds the state's tensor in logical leg order (ttns[child_id]) and the
               bra atom holds what C04's conjugate copy holds (child_tensor.conj()), entry by entry within the dimensions;
         (ii)  the state's root tensor is reshaped to (1, shape...) and its new leading leg padded with zeros to length k:
               slice 0 is the tensor (resp. its conjugate), every other slice is zero;
         (iii) the artificial root is eye(k).reshape(k, k, 1).
       The harness checks exactly these three facts on the arrays of every build case (exact comparison).

   Definitions only (executable where possible); the theorems are in ValueProofs.v.  TTN/Store.v, Contr/*.v are
   imported read-only. *)
From Coq Require Import List Arith Bool ZArith.
From PTN Require Import TTN.Store TTN.Inv Wire.Sem TTN.InvSem Contr.Blocks Contr.Closed Contr.TensorProd
  Contr.TensorProdBridge TTNDO.Contr.
From PTN Require TTNDO.Sym Tree.RTree.
Import ListNotations.

(* ==== trees ======================================================================================================= *)
(* the image of a tree of identifiers *)
Fixpoint rmap (f : id -> id) (t : rt) : rt := match t with RN n cs => RN (f n) (map (rmap f) cs) end.

(* the (parent, node, children) triples of a tree whose root has parent p *)
Fixpoint tlist (p : option id) (t : rt) : list (option id * id * list id) :=
  match t with RN n cs => (p, n, map rid cs) :: flat_map (tlist (Some n)) cs end.

Definition pmap (r0 : id) (f : id -> id) (q : option id) : id := match q with None => r0 | Some x => f x end.

(* ==== the pure state ================================================================================================ *)
(* the glued pairs of <psi|psi>: open leg of every node with the open leg of its conjugate copy *)
Definition s_opt (woff : nat) (s : store) : list (wire * wire) :=
  map (fun m => (open_wire s m, woff + open_wire s m)) (akeys (nodes s)).
(* the summed wires of <psi|psi>: both copies of every edge, the ket-side open leg of every node *)
Definition restS (woff : nat) (s : store) (ts : rt) : list wire :=
  flat_map (fun n => [up_wire s n; woff + up_wire s n]) (rdesc ts) ++ map (open_wire s) (rnodes ts).

(* ==== the network ==================================================================================================== *)
(* bra_id of a node of the state *)
Definition bid (im : idmaps) (n : id) : id := im_k2b im (im_kid im n).
(* the one atom of a node of the density-operator network *)
Definition datom (d : store) (m : id) : nat := hd 0 (t_atoms d m).
(* the node's tensor is that one atom, nothing summed inside, the atom's axes are the node's (logical) legs *)
Definition dplain (d : store) (m : id) : Prop :=
  t_atoms d m = [datom d m] /\ t_bnd d m = [] /\ atom_wires d (datom d m) = t_axes d m.
Definition dplainb (d : store) (m : id) : bool :=
  match t_atoms d m, t_bnd d m with
  | [a], [] => list_eqb (atom_wires d a) (t_axes d m)
  | _, _ => false
  end.

Definition all_ids (im : idmaps) (r0 : id) (ts : rt) : list id :=
  r0 :: map (im_kid im) (rnodes ts) ++ map (bid im) (rnodes ts).

Record ttndo_of (im : idmaps) (d s : store) (r0 : id) (ts : rt) (k : nat) : Prop := {
  to_wfs : wfs d;
  to_open : one_open d;
  (* the doubled tree: the ket branch is the image of the state's tree under ket_id *)
  to_wf : wf_ttndo im d r0 (rmap (im_kid im) ts);
  to_bras : NoDup (map (bid im) (rnodes ts));
  (* the bra node has the images of the ket node's children as children, in the same order *)
  to_sym : forall n kn bn, In n (rnodes ts) -> aget (im_kid im n) (nodes d) = Some kn -> aget (bid im n) (nodes d) = Some bn ->
             children bn = map (im_k2b im) (children kn);
  to_plain : forall m, In m (all_ids im r0 ts) -> dplain d m;
  (* leg dimensions: the state's, and k on the two legs of the artificial root *)
  to_dim_up : forall n, In n (rdesc ts) ->
                wdim d (up_wire d (im_kid im n)) = wdim s (up_wire s n) /\ wdim d (up_wire d (bid im n)) = wdim s (up_wire s n);
  to_dim_open : forall n, In n (rnodes ts) -> wdim d (open_wire d (im_kid im n)) = wdim s (open_wire s n);
  to_dim_root : wdim d (up_wire d (im_kid im (rid ts))) = k /\ wdim d (up_wire d (bid im (rid ts))) = k
}.

Definition ttndo_ofb (im : idmaps) (d s : store) (r0 : id) (ts : rt) (k : nat) : bool :=
  let kid := im_kid im in
  wfsb d && one_openb d
  && opt_eqb (root d) (Some r0) && nodupb (rnodes (rmap kid ts)) && wf_subDb im d r0 (rmap kid ts) && droot_okb im d r0 (rid (rmap kid ts))
  && nodupb (map (bid im) (rnodes ts))
  && forallb (fun n => match aget (kid n) (nodes d), aget (bid im n) (nodes d) with
                       | Some kn, Some bn => list_eqb (children bn) (map (im_k2b im) (children kn))
                       | _, _ => false
                       end) (rnodes ts)
  && forallb (dplainb d) (all_ids im r0 ts)
  && forallb (fun n => Nat.eqb (wdim d (up_wire d (kid n))) (wdim s (up_wire s n))
                       && Nat.eqb (wdim d (up_wire d (bid im n))) (wdim s (up_wire s n))) (rdesc ts)
  && forallb (fun n => Nat.eqb (wdim d (open_wire d (kid n))) (wdim s (open_wire s n))) (rnodes ts)
  && Nat.eqb (wdim d (up_wire d (kid (rid ts)))) k && Nat.eqb (wdim d (up_wire d (bid im (rid ts)))) k.

(* all the hypotheses of the value theorem but the build contracts *)
Definition value_hyp (woff aoff : nat) (im : idmaps) (d s : store) (r0 : id) (k : nat) : bool :=
  wfsb s && one_openb s && Nat.ltb 0 woff && Nat.leb (next_wire s) woff && Nat.leb (next_atom s) aoff && Nat.leb 1 k
  && match ket_tree s with Some ts => ttndo_ofb im d s r0 ts k | None => false end.

(* ==== the build contracts ============================================================================================ *)
Section Contracts.
  Variable R : Type.
  Variables (zero one : R) (add mul : R -> R -> R).
  Variables (woff aoff : nat) (im : idmaps) (d s : store) (r0 : id) (ts : rt) (k : nat).
  Variables (tblD tblS : nat -> list nat -> R).

  Local Notation bra := (conj_store woff aoff s).
  Local Notation valS := (value R zero one add mul (pair_wires s bra) (pair_dim s bra) tblS).

  (* idx is a multi-index of the (logical) legs of the state's node n, within the dimensions *)
  Definition in_range (n : id) (idx : list nat) : Prop := Forall2 (fun w i => i < wdim s w) (t_axes s n) idx.
  (* the entry of the state's node tensor / of its conjugate copy at a multi-index of its logical legs *)
  Definition ket_entry (n : id) (idx : list nat) : R :=
    valS (tens s n) (assign (fun _ => 0) (t_axes s n) idx).
  Definition bra_entry (n : id) (idx : list nat) : R :=
    valS (conj_sarr woff aoff (tens s n)) (assign (fun _ => 0) (map (Nat.add woff) (t_axes s n)) idx).

  (* (i) below the state's root: the ket atom holds the state's tensor (ttns[child_id]: logical leg order), the bra atom
     holds what the conjugate copy of C04 holds (child_tensor.conj()) *)
  Definition node_contract (n : id) : Prop := forall idx, in_range n idx ->
    tblD (datom d (im_kid im n)) idx = ket_entry n idx /\ tblD (datom d (bid im n)) idx = bra_entry n idx.
  (* (ii) the state's root: reshape to (1, shape...) and pad the new leading leg to length k with zeros *)
  Definition root_contract (n : id) : Prop := forall i idx, i < k -> in_range n idx ->
    tblD (datom d (im_kid im n)) (i :: idx) = (if Nat.eqb i 0 then ket_entry n idx else zero) /\
    tblD (datom d (bid im n)) (i :: idx) = (if Nat.eqb i 0 then bra_entry n idx else zero).
  (* (iii) the artificial root: eye(k).reshape(k, k, 1) *)
  Definition eye_contract : Prop := forall i j, i < k -> j < k ->
    tblD (datom d r0) [i; j; 0] = (if Nat.eqb i j then one else zero).

  Record build_contracts : Prop := {
    bc_eye : eye_contract;
    bc_root : root_contract (rid ts);
    bc_desc : forall n, In n (rdesc ts) -> node_contract n
  }.
End Contracts.

(* ==== the summed wires, pairwise ===================================================================================== *)
(* (wire of the <psi|psi> diagram, wire of the trace diagram) *)
Definition wire_pairs (woff : nat) (im : idmaps) (d s : store) (ts : rt) : list (wire * wire) :=
  flat_map (fun n => [(up_wire s n, up_wire d (im_kid im n)); (woff + up_wire s n, up_wire d (bid im n))]) (rdesc ts)
  ++ map (fun n => (open_wire s n, open_wire d (im_kid im n))) (rnodes ts).
Definition restD (im : idmaps) (d : store) (ts : rt) : list wire :=
  flat_map (fun n => [up_wire d (im_kid im n); up_wire d (bid im n)]) (rdesc ts)
  ++ map (fun n => open_wire d (im_kid im n)) (rnodes ts).

(* ==== the state as a store program; the build contracts as an executable check over Z ============================== *)
(* the state over the tree t with bond / physical dimensions as in TTNDO/Sym.v, every node one fresh atom with legs
   (parent, children in order, open): add_root, then add_child_to_parent in pre-order *)
Definition ttns_ops (bond phys : nat -> nat) (t : RTree.rtree) : list op :=
  AddRoot (RTree.rid t) (Sym.ttns_shape bond phys true t)
  :: map (fun c => let p := match Sym.sc_parent c with Some p => p | None => 0 end in
                   AddChild (Sym.sc_child c) (Sym.sc_shape c) 0 p
                            (if Nat.eqb p (RTree.rid t) then Sym.sc_parent_leg c - 1 else Sym.sc_parent_leg c))
         (Sym.rec_add_children bond phys true t).

(* all multi-indices within the given dimensions *)
Fixpoint all_idx (ds : list nat) : list (list nat) :=
  match ds with
  | [] => [[]]
  | d :: t => flat_map (fun i => map (cons i) (all_idx t)) (seq 0 d)
  end.

Section ContractsZ.
  Variables (woff aoff : nat) (im : idmaps) (d s : store) (r0 : id) (ts : rt) (k : nat).
  Variables (tblD tblS : nat -> list nat -> Z).

  Local Notation KE := (ket_entry Z 0%Z 1%Z Z.add Z.mul woff aoff s tblS).
  Local Notation BE := (bra_entry Z 0%Z 1%Z Z.add Z.mul woff aoff s tblS).
  Local Notation aK := (fun n => datom d (im_kid im n)).
  Local Notation aB := (fun n => datom d (bid im n)).

  Definition node_idx (n : id) : list (list nat) := all_idx (map (wdim s) (t_axes s n)).

  Definition node_contractb (n : id) : bool :=
    forallb (fun idx => Z.eqb (tblD (aK n) idx) (KE n idx) && Z.eqb (tblD (aB n) idx) (BE n idx)) (node_idx n).
  Definition root_contractb (n : id) : bool :=
    forallb (fun i => forallb (fun idx =>
        Z.eqb (tblD (aK n) (i :: idx)) (if Nat.eqb i 0 then KE n idx else 0%Z)
        && Z.eqb (tblD (aB n) (i :: idx)) (if Nat.eqb i 0 then BE n idx else 0%Z)) (node_idx n)) (seq 0 k).
  Definition eye_contractb : bool :=
    forallb (fun i => forallb (fun j => Z.eqb (tblD (datom d r0) [i; j; 0]) (if Nat.eqb i j then 1%Z else 0%Z)) (seq 0 k)) (seq 0 k).
  Definition build_contractsb : bool :=
    eye_contractb && root_contractb (rid ts) && forallb node_contractb (rdesc ts).
End ContractsZ.

(* the per-instance driver: the network from_ttns builds (store program of TTNDO/Sym.v, identifiers through Sym.code)
   against the state built by ttns_ops satisfies every structural hypothesis of the value theorem *)
Definition value_case (bond phys : nat -> nat) (k : nat) (t : RTree.rtree) (woff aoff : nat) : bool :=
  let s := fst (run empty_store (ttns_ops bond phys t)) in
  let d := fst (Sym.from_ttns_store bond phys k t) in
  value_hyp woff aoff code_maps d s 0 k.

(* ---- example data: a four-node tree, integer tables ------------------------------------------------------------------ *)
Definition vx_t : RTree.rtree := RTree.RNode 0 [RTree.RNode 2 []; RTree.RNode 1 [RTree.RNode 3 []]].
Definition vx_bond (n : nat) : nat := nth n [0; 3; 3; 1] 0.
Definition vx_phys (n : nat) : nat := nth n [2; 2; 3; 3] 0.
Definition vx_s : store := fst (run empty_store (ttns_ops vx_bond vx_phys vx_t)).
Definition vx_d (k : nat) : store := fst (Sym.from_ttns_store vx_bond vx_phys k vx_t).
Definition vx_ts : rt := RN 0 [RN 2 []; RN 1 [RN 3 []]].
(* the state's atoms 0..3 and (atoms 100..103) those of its conjugate copy: unrelated integer entries in -3..3 *)
Definition vx_tblS (a : nat) (idx : list nat) : Z :=
  (Z.modulo (fold_left (fun acc i => acc * 3 + Z.of_nat i + 1) idx (Z.of_nat a * 5 + 2)) 7 - 3)%Z.
(* the atoms of the network: 0 the artificial root = eye(k); 2j+1 / 2j+2 the ket / bra image of the j-th node in
   pre-order = the state's atom j / its conjugate twin 100 + j, the root's (j = 0) padded to k slices *)
Definition vx_tblD (a : nat) (idx : list nat) : Z :=
  match a with
  | 0 => match idx with [i; j; _] => if Nat.eqb i j then 1%Z else 0%Z | _ => 0%Z end
  | 1 => match idx with i :: idx' => if Nat.eqb i 0 then vx_tblS 0 idx' else 0%Z | [] => 0%Z end
  | 2 => match idx with i :: idx' => if Nat.eqb i 0 then vx_tblS 100 idx' else 0%Z | [] => 0%Z end
  | S a' => if Nat.even a' then vx_tblS (Nat.div2 a') idx else vx_tblS (100 + Nat.div2 (a' - 1)) idx
  end.
Definition vx_trace (k : nat) : option Z :=
  option_map (fun g => gvalue Z 0%Z 1%Z Z.add Z.mul (atom_wires (vx_d k)) (wdim (vx_d k)) vx_tblD g (fun _ => 0))
             (trace_ttndo code_maps (vx_d k)).
Definition vx_norm : option Z :=
  option_map (fun g => gvalue Z 0%Z 1%Z Z.add Z.mul (pair_wires vx_s (conj_store 1000 100 vx_s)) (pair_dim vx_s (conj_store 1000 100 vx_s)) vx_tblS g (fun _ => 0))
             (scalar_product 1000 100 vx_s None).

(* ==== single-site operator on node c (TTNDO/ValueTP.v): the world of C04's tp_expectation with one factor ============ *)
Definition tp1_wiresS (woff aoff : nat) (s : store) (c : id) : nat -> list wire :=
  ext_wires (pair_wires s (conj_store woff aoff s)) (next_atom s) [next_wire s; open_wire s c].
Definition tp1_dimS (woff aoff : nat) (s : store) (c : id) : wire -> nat :=
  ext_dim (pair_dim s (conj_store woff aoff s)) [next_wire s] (wdim s (open_wire s c)).
