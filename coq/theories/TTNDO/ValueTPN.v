(* Property C16, value level: the tensor-product expectation value on the density-operator network, any number of
   single-site factors on DISTINCT sites, equals the pure-state value of C04 (part B: the network side and the join;
   part A, TTNDO/ValueTPNA.v, is the state side). *)
From Coq Require Import List Arith Bool Lia Permutation ZArith.
From PTN Require Import TTN.Store TTN.StoreProofs TTN.Inv TTN.InvProofs TTN.InvNode Wire.Sem Wire.SemProofs TTN.InvSem TTN.InvSemProofs
  TEBD.Trotter Contr.Blocks Contr.Closed Contr.ClosedProofs Contr.TensorProd Contr.TensorProdProofs Contr.TensorProdSem
  Contr.TensorProdBridge Contr.TensorProdBridgeProofs Contr.TensorProdBridgeStore TTNDO.Contr TTNDO.ContrProofs TTNDO.Value TTNDO.ValueProofs
  TTNDO.ValueTP TTNDO.ValueTP1 TTNDO.ValueTPNA.
Import ListNotations.

(* ================================================================================================================ *)
(* 1. lists                                                                                                           *)
(* ================================================================================================================ *)
Lemma index_of_map_inj_in (f : nat -> nat) x l :
  (forall y, In y l -> f y = f x -> y = x) -> index_of (f x) (map f l) = index_of x l.
Proof.
  induction l as [|y t IH]; cbn; [reflexivity|]. intros H.
  destruct (Nat.eqb_spec x y) as [->|Hne].
  - rewrite Nat.eqb_refl. reflexivity.
  - destruct (Nat.eqb_spec (f x) (f y)) as [E|_].
    + exfalso. apply Hne. symmetry. apply H; [left; reflexivity|congruence].
    + rewrite IH; [reflexivity|]. intros z Hz. apply H. right. exact Hz.
Qed.

Lemma flat_map_indexed_perm {A B} (g f : A -> list B) (x : nat -> B) : forall (l : list A) a,
  (forall i c, nth_error l i = Some c -> Permutation (g c) (f c ++ [x (a + i)])) ->
  Permutation (flat_map g l) (flat_map f l ++ map x (seq a (length l))).
Proof.
  induction l as [|c t IH]; intros a H; [reflexivity|]. cbn [flat_map length seq map].
  rewrite (H 0 c eq_refl), Nat.add_0_r. rewrite (IH (S a)).
  - perm_solve.
  - intros i c' Hi. rewrite (H (S i) c' Hi). replace (a + S i) with (S a + i) by lia. reflexivity.
Qed.

(* a family of lists over the nodes that differs from another one by one extra element at every site *)
Lemma flat_map_sites {B} (g f : id -> list B) (x : nat -> B) (l sites : list id) : NoDup l -> NoDup sites -> incl sites l ->
  (forall m, In m l -> index_of m sites = None -> g m = f m) ->
  (forall m i, In m l -> index_of m sites = Some i -> Permutation (g m) (f m ++ [x i])) ->
  Permutation (flat_map g l) (flat_map f l ++ map x (seq 0 (length sites))).
Proof.
  intros Hl Hs Hi Hn Hsome. destruct (incl_split sites l Hs Hl Hi) as (l' & P & Hd).
  rewrite (Permutation_flat_map g P), (Permutation_flat_map f P), !flat_map_app.
  rewrite (flat_map_indexed_perm g f x sites 0).
  2:{ intros i c Hc. apply Hsome; [apply Hi; exact (nth_error_In _ _ Hc)|exact (nth_error_index_of c sites i Hs Hc)]. }
  assert (El : flat_map g l' = flat_map f l').
  { apply flat_map_ext_in'. intros m Hm. apply Hn; [apply (Permutation_in _ (Permutation_sym P)); apply in_or_app; right; exact Hm|].
    apply index_of_None. exact (Hd m Hm). }
  unfold id in *. rewrite El. perm_solve.
Qed.

(* ================================================================================================================ *)
(* 2. the network after absorbing one factor into the ket image of every site                                         *)
(* ================================================================================================================ *)
Definition kopDN (im : idmaps) (d : store) (ops : list (id * list nat)) (n : id) : wire :=
  match factor_index ops n with Some i => next_wire d + i | None => open_wire d (im_kid im n) end.
Definition GN (im : idmaps) (d : store) (ts : rt) (ops : list (id * list nat)) : list (wire * wire) :=
  map (fun n => (kopDN im d ops n, open_wire d (bid im n))) (rnodes ts).
Definition kops (im : idmaps) (ops : list (id * list nat)) : list (id * list nat) := map (fun o => (im_kid im (fst o), snd o)) ops.

Section DNN.
  Variables (im : idmaps) (d s : store) (r0 : id) (ts : rt) (k : nat).
  Hypothesis TO : ttndo_of im d s r0 ts k.
  Variable ops : list (id * list nat).
  Hypothesis Hnd : NoDup (map fst ops).
  Hypothesis Hin : forall o, In o ops -> In (fst o) (rnodes ts).
  Hypothesis Hshp : forall o, In o ops -> snd o = [wdim s (open_wire s (fst o)); wdim s (open_wire s (fst o))].

  Local Notation kid := (im_kid im).
  Local Notation k2b := (im_k2b im).
  Local Notation upD := (up_wire d).
  Local Notation opD := (open_wire d).
  Local Notation nwD := (next_wire d).
  Local Notation naD := (next_atom d).
  Local Notation sites := (map fst ops).
  Local Notation kps := (kops im ops).
  Local Notation n := (length ops).

  Let WD_ : wfs d := to_wfs _ _ _ _ _ _ TO.
  Let Wfd : wf d := ws_wf d WD_.
  Let woffD := nwD + n + 1.
  Local Notation braD := (conj_store woffD 0 d).

  Lemma kidN_inj a b : In a (rnodes ts) -> In b (rnodes ts) -> kid a = kid b -> a = b.
  Proof.
    destruct (to_wf _ _ _ _ _ _ TO) as (_ & Hn & _). rewrite rnodes_rmap in Hn. apply (nodup_map_inj kid _ Hn).
  Qed.

  Lemma kops_fst : map fst kps = map kid sites.
  Proof. unfold kops. rewrite !map_map. reflexivity. Qed.

  Lemma kops_len : length kps = n.
  Proof. unfold kops. apply map_length. Qed.

  Lemma sites_in c : In c sites -> In c (rnodes ts).
  Proof. intros Hc. apply in_map_iff in Hc. destruct Hc as (o & <- & Ho). apply Hin. exact Ho. Qed.

  Lemma fiK_ket c : In c (rnodes ts) -> factor_index kps (kid c) = factor_index ops c.
  Proof.
    intros Hc. unfold factor_index. rewrite kops_fst. apply index_of_map_inj_in.
    intros y Hy E. apply (kidN_inj y c (sites_in y Hy) Hc E).
  Qed.

  Lemma fiK_other m : (forall c, In c (rnodes ts) -> m <> kid c) -> factor_index kps m = None.
  Proof.
    intros H. unfold factor_index. rewrite kops_fst. apply index_of_None. intros Hx. apply in_map_iff in Hx.
    destruct Hx as (c & E & Hc). apply (H c (sites_in c Hc)). symmetry. exact E.
  Qed.

  Lemma fiK_some m i : factor_index kps m = Some i -> exists c, In c (rnodes ts) /\ m = kid c /\ factor_index ops c = Some i.
  Proof.
    intros H. pose proof H as H'. unfold factor_index in H'. rewrite kops_fst in H'. apply index_of_Some in H'. destruct H' as (Hlt & E).
    rewrite map_length in Hlt. exists (nth i sites 0). assert (Hc : In (nth i sites 0) (rnodes ts)) by (apply sites_in; apply nth_In; exact Hlt).
    split; [exact Hc|]. assert (Em : m = kid (nth i sites 0)).
    { rewrite <- E. rewrite (nth_indep _ 0 (kid 0)) by (rewrite map_length; exact Hlt). apply map_nth. }
    split; [exact Em|]. rewrite <- (fiK_ket _ Hc), <- Em. exact H.
  Qed.

  Lemma ket_isket c : In c (rnodes ts) -> im_isket im (kid c) = true.
  Proof. intros Hc. exact (a_isket im d s r0 ts k TO c Hc). Qed.

  Lemma fiK_r0 : factor_index kps r0 = None.
  Proof.
    apply fiK_other. intros c Hc E. destruct (d_root im d s r0 ts k TO) as (rn & _ & _ & _ & K & _). pose proof (ket_isket c Hc) as Kc.
    rewrite <- E in Kc. congruence.
  Qed.

  Lemma fiK_bra x : In x (rnodes ts) -> factor_index kps (bid im x) = None.
  Proof.
    intros Hx. apply fiK_other. intros c Hc E. destruct (in_tlist ts x Hx) as (q & cs & He).
    destruct (d_node im d s r0 ts k TO q x cs He) as (_ & _ & _ & _ & _ & _ & _ & _ & _ & _ & _ & K2).
    pose proof (ket_isket c Hc) as Kc. rewrite <- E in Kc. congruence.
  Qed.

  (* ---- the absorption is accepted ------------------------------------------------------------------------------------ *)
  Lemma tpD_apply : exists D' tD, tp_apply d kps = Some D' /\ wf_two d braD tD /\ wf_two D' braD tD /\
    Permutation (rnodes tD) (akeys (nodes d)) /\ atab D' = atab d ++ tp_rows d kps /\
    (forall i m, i < length kps -> In m (rnodes tD) -> nwD + i <> open_wire braD m).
  Proof.
    assert (HwD : 0 < woffD) by (unfold woffD; lia).
    destruct (wf_two_of_wf woffD 0 d Wfd (to_open _ _ _ _ _ _ TO) HwD) as (tD & _ & WTD & HPD).
    assert (Hnode : forall m, In m (rnodes tD) -> exists nd, aget m (nodes d) = Some nd /\ t_axes d m <> []).
    { intros m Hm. pose proof WTD as (_ & _ & _ & Hsub). destruct (wf_sub_node d braD tD None Hsub m Hm) as (q & cs & Hok).
      destruct Hok as (kn & bn & Ekn & _ & _ & _ & _ & _ & _ & Hax & _). exists kn. split; [exact Ekn|].
      rewrite Hax. destruct (opt_list q (upD m)), (map upD cs); discriminate. }
    assert (Hbra_open : forall m, In m (rnodes tD) -> open_wire braD m = woffD + opD m).
    { intros m Hm. destruct (Hnode m Hm) as (nd & End & Hne). apply (conj_store_views woffD 0 d m nd Wfd End). exact Hne. }
    assert (Hfresh : forall i m, i < length kps -> In m (rnodes tD) -> nwD + i <> open_wire braD m).
    { intros i m Hi Hm. rewrite (Hbra_open m Hm). rewrite kops_len in Hi. unfold woffD. lia. }
    destruct (tp_apply_closed braD tD kps d WTD) as (D' & E & WTD' & _ & _ & _ & _ & T).
    - rewrite kops_fst. apply NoDup_map_inj_in; [|exact Hnd]. intros a b Ha Hb. apply kidN_inj; apply sites_in; assumption.
    - intros o Ho. unfold kops in Ho. apply in_map_iff in Ho. destruct Ho as (o' & <- & Ho'). cbn [fst].
      apply (Permutation_in _ (Permutation_sym HPD)). destruct (in_tlist ts _ (Hin o' Ho')) as (q & cs & He).
      destruct (d_node im d s r0 ts k TO q _ cs He) as (kn & bn & p & bp & E1 & _). exact (aget_Some_keys _ _ _ E1).
    - exact Hfresh.
    - intros m Hm. apply (d_keys_nw im d s r0 ts k TO). apply (Permutation_in _ HPD). exact Hm.
    - intros o Ho. unfold kops in Ho. apply in_map_iff in Ho. destruct Ho as (o' & <- & Ho'). cbn [fst snd].
      rewrite (to_dim_open _ _ _ _ _ _ TO (fst o') (Hin o' Ho')). apply Hshp. exact Ho'.
    - exists D', tD. exact (conj E (conj WTD (conj WTD' (conj HPD (conj T Hfresh))))).
  Qed.

  Variable D' : store.
  Hypothesis HD' : tp_apply d kps = Some D'.

  Lemma tpD_views :
    (forall m, factor_index kps m = None -> aget m (nodes D') = aget m (nodes d) /\ tensor_of D' m = tensor_of d m) /\
    (forall m i, factor_index kps m = Some i -> exists kn pre,
        aget m (nodes d) = Some kn /\ aget m (nodes D') = Some (reset_permutation kn) /\
        t_axes d m = pre ++ [opD m] /\ t_axes D' m = pre ++ [nwD + i] /\
        t_atoms D' m = t_atoms d m ++ [naD + i] /\ t_bnd D' m = opD m :: t_bnd d m) /\
    root D' = root d /\ dims D' = dims d ++ tp_dims d kps /\ atab D' = atab d ++ tp_rows d kps.
  Proof.
    destruct tpD_apply as (D2 & tD & E & WTD & _ & HPD & T & Hfresh). rewrite HD' in E. injection E as <-.
    destruct (tp_apply_views braD tD kps d D' WTD) as (V1 & V2 & V3 & _ & _ & V6); auto.
    - rewrite kops_fst. apply NoDup_map_inj_in; [|exact Hnd]. intros a b Ha Hb. apply kidN_inj; apply sites_in; assumption.
    - intros o Ho. unfold kops in Ho. apply in_map_iff in Ho. destruct Ho as (o' & <- & Ho'). cbn [fst].
      apply (Permutation_in _ (Permutation_sym HPD)). destruct (in_tlist ts _ (Hin o' Ho')) as (q & cs & He).
      destruct (d_node im d s r0 ts k TO q _ cs He) as (kn & bn & p & bp & E1 & _). exact (aget_Some_keys _ _ _ E1).
    - intros o Ho. unfold kops in Ho. apply in_map_iff in Ho. destruct Ho as (o' & <- & Ho'). cbn [snd]. rewrite (Hshp o' Ho'). eauto.
  Qed.

  Lemma viewN_other m : factor_index kps m = None ->
    aget m (nodes D') = aget m (nodes d) /\ t_axes D' m = t_axes d m /\ t_atoms D' m = t_atoms d m /\ t_bnd D' m = t_bnd d m /\
    up_wire D' m = upD m /\ open_wire D' m = opD m.
  Proof.
    intros Hm. destruct tpD_views as (V1 & _). destruct (V1 m Hm) as (N & T).
    destruct (t_of_tensor_of d D' m m T) as (T1 & T2 & T3). unfold up_wire, open_wire. rewrite T1. repeat split; auto.
  Qed.

  Lemma viewN_site q c cs i : In (q, c, cs) (tlist None ts) -> factor_index ops c = Some i ->
    exists kn, aget (kid c) (nodes d) = Some kn /\ children kn = map kid cs /\
      aget (kid c) (nodes D') = Some (reset_permutation kn) /\
      t_axes D' (kid c) = upD (kid c) :: map upD (map kid cs) ++ [nwD + i] /\
      t_atoms D' (kid c) = t_atoms d (kid c) ++ [naD + i] /\ t_bnd D' (kid c) = opD (kid c) :: t_bnd d (kid c).
  Proof.
    intros He Hi.
    assert (Hc : In c (rnodes ts)) by (rewrite <- (tlist_nodes ts None); apply (in_map (fun e => snd (fst e)) _ _ He)).
    destruct tpD_views as (_ & V2 & _). rewrite <- (fiK_ket c Hc) in Hi. destruct (V2 _ _ Hi) as (kn & pre & E1 & E2 & A1 & A2 & A3 & A4).
    destruct (d_node im d s r0 ts k TO q c cs He) as (kn' & bn & p & bp & F1 & _ & _ & _ & AK & _).
    rewrite E1 in F1. injection F1 as <-.
    destruct (wf_subD_tlist im d r0 kid ts None (proj1 (proj2 (proj2 (to_wf _ _ _ _ _ _ TO)))) q c cs He) as (kn3 & _ & _ & H3 & _ & _ & _ & C3 & _).
    rewrite E1 in H3. injection H3 as <-.
    rewrite AK in A1. change (upD (kid c) :: map upD (map kid cs) ++ [opD (kid c)]) with ((upD (kid c) :: map upD (map kid cs)) ++ [opD (kid c)]) in A1.
    apply app_inj_tail in A1. destruct A1 as (<- & _).
    exists kn. repeat split; auto.
  Qed.

  Lemma upN_same m : up_wire D' m = upD m.
  Proof.
    destruct (factor_index kps m) as [i|] eqn:E; [|apply (viewN_other m E)].
    destruct (fiK_some m i E) as (c & Hc & -> & Hi). destruct (in_tlist ts c Hc) as (q & cs & He).
    destruct (viewN_site q c cs i He Hi) as (kn & _ & _ & _ & AX & _).
    destruct (d_node im d s r0 ts k TO q c cs He) as (_ & _ & _ & _ & _ & _ & _ & _ & AK & _).
    unfold up_wire. rewrite AX. reflexivity.
  Qed.

  Lemma openN_ket c : In c (rnodes ts) -> open_wire D' (kid c) = kopDN im d ops c.
  Proof.
    intros Hc. unfold kopDN. destruct (factor_index ops c) as [i|] eqn:E.
    - destruct (in_tlist ts c Hc) as (q & cs & He). destruct (viewN_site q c cs i He E) as (kn & _ & _ & _ & AX & _).
      unfold open_wire. rewrite AX, app_comm_cons. apply last_last.
    - apply (viewN_other (kid c)). rewrite (fiK_ket c Hc). exact E.
  Qed.

  Lemma dnode_transferN p m cs : In m (map kid (rnodes ts)) -> dnode_ok im d p m cs -> dnode_ok im D' p m cs.
  Proof.
    intros Hmk (kn & bn & bp & E1 & E2 & P1 & P2 & C1 & PC & N1 & N2 & A1 & A2 & NE & K1 & K2).
    apply in_map_iff in Hmk. destruct Hmk as (c & <- & Hc).
    destruct (viewN_other (k2b (kid c)) (fiK_bra c Hc)) as (Vn & Va & _ & _ & _ & Vo).
    destruct (factor_index ops c) as [i|] eqn:Ei.
    - destruct (in_tlist ts c Hc) as (q & cs' & He). destruct (viewN_site q c cs' i He Ei) as (kn0 & F1 & F3 & F4 & AX & _).
      rewrite E1 in F1. injection F1 as <-.
      assert (Vop : open_wire D' (kid c) = nwD + i) by (rewrite (openN_ket c Hc); unfold kopDN; rewrite Ei; reflexivity).
      exists (reset_permutation kn), bn, bp. rewrite Vn, Va, Vo, Vop.
      rewrite !(map_ext (up_wire D') upD upN_same), (upN_same (k2b (kid c))), (upN_same (kid c)).
      repeat split; auto.
      + rewrite AX. rewrite <- F3, C1. reflexivity.
      + intros Hx. pose proof (d_keys_nw im d s r0 ts k TO (k2b (kid c)) (aget_Some_keys _ _ _ E2)) as Hlt. rewrite <- Hx in Hlt. lia.
    - assert (Hk : factor_index kps (kid c) = None) by (rewrite (fiK_ket c Hc); exact Ei).
      destruct (viewN_other (kid c) Hk) as (Wn & Wa & _ & _ & _ & Wo).
      exists kn, bn, bp. rewrite Vn, Va, Vo, Wn, Wa, Wo.
      rewrite !(map_ext (up_wire D') upD upN_same), (upN_same (k2b (kid c))), (upN_same (kid c)).
      repeat split; auto.
  Qed.

  Lemma wf_subD_transferN t : incl (rnodes t) (map kid (rnodes ts)) -> forall p, wf_subD im d p t -> wf_subD im D' p t.
  Proof.
    induction t as [x cs IH] using rt_rect'. intros Hi p H. inversion H as [? ? ? Hok Hsub]; subst. constructor.
    - apply dnode_transferN; [apply Hi; cbn [rnodes]; left; reflexivity|exact Hok].
    - intros y Hy. apply (IH y Hy); [|apply Hsub; exact Hy].
      intros z Hz. apply Hi. cbn [rnodes]. right. apply in_flat_map. exists y. auto.
  Qed.

  Lemma wdimN_old w : w < nwD -> wdim D' w = wdim d w.
  Proof.
    intros Hlt. destruct tpD_views as (_ & _ & _ & Dm & _). unfold wdim. rewrite Dm, aget_app.
    destruct (aget w (dims d)); [reflexivity|]. unfold tp_dims. rewrite aget_rows_none; [reflexivity|]. left. exact Hlt.
  Qed.

  Lemma wdimN_new i o : nth_error ops i = Some o -> wdim D' (nwD + i) = hd 0 (snd o).
  Proof.
    intros Ho. destruct tpD_views as (_ & _ & _ & Dm & _). unfold wdim. rewrite Dm, aget_app.
    destruct (aget (nwD + i) (dims d)) eqn:E.
    - apply aget_Some_keys in E. pose proof (wf_dims d Wfd _ E). lia.
    - unfold tp_dims. assert (Hk : nth_error kps i = Some (kid (fst o), snd o)) by (unfold kops; rewrite nth_error_map, Ho; reflexivity).
      pose proof (aget_rows nwD (fun io : nat * (id * list nat) => hd 0 (snd (snd io))) kps 0 i _ Hk) as Hr. cbn [Nat.add] in Hr.
      rewrite Hr. reflexivity.
  Qed.

  Lemma awN_old x ws : atom_wires d x = ws -> ws <> [] -> atom_wires D' x = ws.
  Proof.
    intros E Hne. destruct tpD_views as (_ & _ & _ & _ & AT). unfold atom_wires in *. rewrite AT, aget_app.
    destruct (aget x (atab d)); [exact E|]. congruence.
  Qed.

  Lemma awN_new i o : nth_error ops i = Some o -> atom_wires D' (naD + i) = [nwD + i; opD (kid (fst o))].
  Proof.
    intros Ho. destruct tpD_views as (_ & _ & _ & _ & AT). unfold atom_wires. rewrite AT, aget_app.
    destruct (aget (naD + i) (atab d)) eqn:E.
    - apply aget_Some_keys in E. pose proof (ws_atab_lt d WD_ _ E). lia.
    - unfold tp_rows. assert (Hk : nth_error kps i = Some (kid (fst o), snd o)) by (unfold kops; rewrite nth_error_map, Ho; reflexivity).
      pose proof (aget_rows naD (fun io : nat * (id * list nat) => [nwD + fst io; opD (fst (snd io))]) kps 0 i _ Hk) as Hr. cbn [Nat.add] in Hr.
      unfold wire, id in *. rewrite Hr. reflexivity.
  Qed.

  Lemma wf_ttndoN : wf_ttndo im D' r0 (rmap kid ts).
  Proof.
    destruct (to_wf _ _ _ _ _ _ TO) as (Hr & Hndk & Hsub & (rn & E & P & C & K & A & Dm)).
    destruct tpD_views as (_ & _ & Hroot & _).
    split; [rewrite Hroot; exact Hr|]. split; [exact Hndk|]. split.
    - apply wf_subD_transferN; [rewrite rnodes_rmap; apply incl_refl|exact Hsub].
    - destruct (viewN_other r0 fiK_r0) as (Vn & Va & _ & _ & _ & Vo).
      exists rn. rewrite Vn, Va, Vo, (map_ext (up_wire D') upD upN_same). repeat split; auto.
      rewrite wdimN_old; [exact Dm|]. apply (d_keys_nw im d s r0 ts k TO). exact (aget_Some_keys _ _ _ E).
  Qed.

  (* ---- the diagram of the trace of the absorbed network, in the order of the proof ------------------------------------ *)
  Local Notation GN' := (GN im d ts ops).
  Definition LN : list wire := LD im d r0 ts ++ new_wires d ops.
  Definition AN : list nat := AD im d r0 ts ++ new_atoms d ops.

  Lemma GN_snd : map snd GN' = map snd (GD im d ts).
  Proof. unfold GN, GD. rewrite !map_map. reflexivity. Qed.

  Lemma ts_nodup : NoDup (rnodes ts).
  Proof. destruct (to_wf _ _ _ _ _ _ TO) as (_ & Hn & _). rewrite rnodes_rmap in Hn. apply (NoDup_map_inv _ _ Hn). Qed.

  Lemma sites_incl : incl sites (rnodes ts).
  Proof. intros c Hc. apply sites_in. exact Hc. Qed.

  Section Norm.
    Variable R : Type.
    Variables (zero one : R) (add mul : R -> R -> R).
    Hypothesis SR : comm_semiring zero one add mul.
    Variable tblD : nat -> list nat -> R.

    Lemma D_norm_tpN : exists g, trace_ttndo im D' = Some g /\ gaxes g = [] /\
      forall rho, gvalue R zero one add mul (atom_wires D') (wdim D') tblD g rho
                  = sum_bnd R zero add (wdim D') LN (fun r => atoms_val R one mul (atom_wires D') tblD AN (glue_asg GN' r)) rho.
    Proof.
      destruct (trace_ttndo_closed im D' r0 _ wf_ttndoN) as (g & Hg & Hax & PA & PB & PG).
      exists g. split; [exact Hg|]. split; [exact Hax|]. intros rho. rewrite rnodes_rmap in PA, PB, PG.
      pose proof ts_nodup as HndT.
      assert (Pl : forall m, In m (all_ids im r0 ts) -> t_atoms d m = [datom d m] /\ t_bnd d m = []).
      { intros m Hm. destruct (to_plain _ _ _ _ _ _ TO m Hm) as (P1 & P2 & _). auto. }
      assert (Ik : forall x, In x (rnodes ts) -> In (kid x) (all_ids im r0 ts)) by (intros x Hx; right; apply in_or_app; left; apply in_map; exact Hx).
      assert (Ib : forall x, In x (rnodes ts) -> In (bid im x) (all_ids im r0 ts)) by (intros x Hx; right; apply in_or_app; right; apply in_map; exact Hx).
      destruct (viewN_other r0 fiK_r0) as (_ & _ & R2 & R3 & _ & R5).
      assert (Vsite : forall m i, In m (rnodes ts) -> factor_index ops m = Some i ->
                t_atoms D' (kid m) = t_atoms d (kid m) ++ [naD + i] /\ t_bnd D' (kid m) = opD (kid m) :: t_bnd d (kid m)).
      { intros m i Hm Hi. destruct (in_tlist ts m Hm) as (q & cs & He). destruct (viewN_site q m cs i He Hi) as (kn & _ & _ & _ & _ & A3 & A4). auto. }
      assert (Vbra : forall m, In m (rnodes ts) -> t_atoms D' (bid im m) = t_atoms d (bid im m) /\ t_bnd D' (bid im m) = t_bnd d (bid im m) /\
                                                    open_wire D' (bid im m) = opD (bid im m)).
      { intros m Hm. destruct (viewN_other (bid im m) (fiK_bra m Hm)) as (_ & _ & W2 & W3 & _ & W5). auto. }
      assert (Vket : forall m, In m (rnodes ts) -> factor_index ops m = None ->
                t_atoms D' (kid m) = t_atoms d (kid m) /\ t_bnd D' (kid m) = t_bnd d (kid m)).
      { intros m Hm Hi. destruct (viewN_other (kid m)) as (_ & _ & W2 & W3 & _); [rewrite (fiK_ket m Hm); exact Hi|]. auto. }
      apply (gvalue_norm R zero one add mul SR (atom_wires D') (wdim D') tblD g AN LN GN' rho).
      - rewrite PA. unfold tr_atoms, AN, AD. cbv zeta. rewrite R2, (proj1 (Pl r0 (or_introl eq_refl))). cbn [app]. apply perm_skip.
        rewrite flat_map_map. unfold new_atoms. rewrite <- (map_length fst ops).
        apply (flat_map_sites (fun x => t_atoms D' (kid x) ++ t_atoms D' (k2b (kid x))) (fun x => [datom d (kid x); datom d (bid im x)])
                 (Nat.add naD) (rnodes ts) sites HndT Hnd sites_incl).
        + intros m Hm Hi. change (k2b (kid m)) with (bid im m). destruct (Vket m Hm Hi) as (-> & _). destruct (Vbra m Hm) as (-> & _).
          rewrite (proj1 (Pl _ (Ik m Hm))), (proj1 (Pl _ (Ib m Hm))). reflexivity.
        + intros m i Hm Hi. change (k2b (kid m)) with (bid im m). destruct (Vsite m i Hm Hi) as (-> & _). destruct (Vbra m Hm) as (-> & _).
          rewrite (proj1 (Pl _ (Ik m Hm))), (proj1 (Pl _ (Ib m Hm))). cbn [app]. perm_solve.
      - rewrite PB, (Permutation_map fst PG). unfold tr_bnd, tr_glue, LN, LD, restD. cbv zeta. fold (@app wire).
        rewrite R5, R3, (proj2 (Pl r0 (or_introl eq_refl))). rewrite !map_map. cbn [fst app].
        rewrite !flat_map_map.
        rewrite (flat_map_ext_in' (fun x => [up_wire D' (kid x); up_wire D' (k2b (kid x))]) (fun x => [upD (kid x); upD (bid im x)]))
          by (intros x _; rewrite !upN_same; reflexivity).
        set (opk := fun x => opD (kid x)).
        assert (PBn : Permutation (flat_map (fun x => t_bnd D' (kid x) ++ t_bnd D' (k2b (kid x))) (rnodes ts)) (map opk sites)).
        { rewrite (flat_map_sites (fun x => t_bnd D' (kid x) ++ t_bnd D' (k2b (kid x))) (fun _ => []) (fun i => opk (nth i sites 0))
                     (rnodes ts) sites HndT Hnd sites_incl).
          - rewrite (flat_map_nil (fun _ : id => @nil wire)) by reflexivity. cbn [app]. apply Permutation_refl'. symmetry.
            apply (map_indexed opk (fun i => opk (nth i sites 0)) sites 0). intros i c Hc. cbn [Nat.add]. f_equal. symmetry. apply (nth_error_nth _ _ 0 Hc).
          - intros m Hm Hi. change (k2b (kid m)) with (bid im m). destruct (Vket m Hm Hi) as (_ & ->). destruct (Vbra m Hm) as (_ & -> & _).
            rewrite (proj2 (Pl _ (Ik m Hm))), (proj2 (Pl _ (Ib m Hm))). reflexivity.
          - intros m i Hm Hi. change (k2b (kid m)) with (bid im m). destruct (Vsite m i Hm Hi) as (_ & ->). destruct (Vbra m Hm) as (_ & -> & _).
            rewrite (proj2 (Pl _ (Ik m Hm))), (proj2 (Pl _ (Ib m Hm))). cbn [app].
            apply index_of_nth_error in Hi. pose proof (nth_error_nth _ _ 0 Hi) as En. unfold id in *. rewrite En. reflexivity. }
        rewrite PBn.
        rewrite (map_ext_in (fun x => open_wire D' (kid x)) (kopDN im d ops)) by (intros x Hx; apply openN_ket; exact Hx).
        pose proof (swap_sites opk (Nat.add nwD) (rnodes ts) sites HndT Hnd sites_incl) as PK. rewrite map_length in PK.
        change (map (fun m => match index_of m sites with Some i => nwD + i | None => opk m end) (rnodes ts)) with (map (kopDN im d ops) (rnodes ts)) in PK.
        rewrite (rnodes_desc ts) at 1. cbn [flat_map app].
        apply perm_skip. apply perm_skip. apply perm_skip. rewrite <- !app_assoc. apply Permutation_app_head.
        cbn [app]. unfold new_wires. fold opk. rewrite <- PK. perm_solve.
      - rewrite PG. apply Permutation_refl'.
        change (map (fun m => (open_wire D' m, open_wire D' (k2b m))) (map kid (rnodes ts)) = GN'). unfold GN. rewrite map_map.
        apply map_ext_in. intros x Hx. rewrite (openN_ket x Hx).
        change (k2b (kid x)) with (bid im x). destruct (Vbra x Hx) as (_ & _ & ->). reflexivity.
      - rewrite GN_snd. exact (GD_nodup im d s r0 ts k TO).
    Qed.
  End Norm.
End DNN.

Lemma prod_over_map (R : Type) (one : R) (mul : R -> R -> R) {A B} (f : B -> R) (g : A -> B) l :
  prod_over R one mul f (map g l) = prod_over R one mul (fun x => f (g x)) l.
Proof. induction l as [|x t IH]; [reflexivity|]. cbn [map prod_over]. rewrite IH. reflexivity. Qed.

Lemma nth_error_fst (ops : list (id * list nat)) i x : nth_error (map fst ops) i = Some x -> exists o, nth_error ops i = Some o /\ fst o = x.
Proof.
  rewrite nth_error_map. destruct (nth_error ops i) as [o|]; [|discriminate]. cbn [option_map]. intros [= <-]. exists o. auto.
Qed.

(* ================================================================================================================ *)
(* 3. the tensor-product expectation value on the network = the pure-state value                                      *)
(* ================================================================================================================ *)
Section JoinN.
  Variable R : Type.
  Variables (zero one : R) (add mul : R -> R -> R).
  Hypothesis SR : comm_semiring zero one add mul.
  Variables (woff aoff : nat) (im : idmaps) (d s : store) (r0 : id) (ts : rt) (k : nat).
  Variables (tblD tblS : nat -> list nat -> R).
  Variable ops : list (id * list nat).
  Hypothesis WS : wfs s.
  Hypothesis H1 : one_open s.
  Hypothesis Hw0 : 0 < woff.
  Hypothesis Hwn : next_wire s + length ops <= woff.
  Hypothesis Han : next_atom s + length ops <= aoff.
  Hypothesis WT : wf_two s (conj_store woff aoff s) ts.
  Hypothesis HP : Permutation (rnodes ts) (akeys (nodes s)).
  Hypothesis Hk : 1 <= k.
  Hypothesis TO : ttndo_of im d s r0 ts k.
  Hypothesis BC : build_contracts R zero one add mul woff aoff im d s r0 ts k tblD tblS.
  Hypothesis Hnd : NoDup (map fst ops).
  Hypothesis Hin : forall o, In o ops -> In (fst o) (rnodes ts).
  Hypothesis Hshp : forall o, In o ops -> snd o = [wdim s (open_wire s (fst o)); wdim s (open_wire s (fst o))].
  Variable D' : store.
  Hypothesis HD' : tp_apply d (kops im ops) = Some D'.
  (* factor i holds the same matrix in both worlds *)
  Hypothesis OC : forall i o, nth_error ops i = Some o -> forall a b, a < hd 0 (snd o) -> b < hd 0 (snd o) ->
                    tblD (next_atom d + i) [a; b] = tblS (next_atom s + i) [a; b].
  (* the world of the state side: the pair world of C04 extended by the factors *)
  Variable Wr : nat -> list wire.
  Variable Dm : wire -> nat.
  Local Notation bra := (conj_store woff aoff s).
  Local Notation WrS := (pair_wires s bra).
  Local Notation DmS := (pair_dim s bra).
  Local Notation n := (length ops).
  Hypothesis Wr_old : forall a, (a < next_atom s \/ next_atom s + n <= a) -> Wr a = WrS a.
  Hypothesis Wr_op : forall i o, nth_error ops i = Some o -> Wr (next_atom s + i) = [next_wire s + i; open_wire s (fst o)].
  Hypothesis Dm_old : forall w, (w < next_wire s \/ next_wire s + n <= w) -> Dm w = DmS w.
  Hypothesis Dm_op : forall i o, nth_error ops i = Some o -> Dm (next_wire s + i) = hd 0 (snd o).

  Let Hw : next_wire s <= woff. Proof. lia. Qed.
  Let Ha : next_atom s <= aoff. Proof. lia. Qed.

  Local Notation kid := (im_kid im).
  Local Notation k2b := (im_k2b im).
  Local Notation valS := (value R zero one add mul WrS DmS tblS).
  Local Notation valN := (value R zero one add mul Wr Dm tblS).
  Local Notation upS := (up_wire s).
  Local Notation opS := (open_wire s).
  Local Notation upD := (up_wire d).
  Local Notation opD := (open_wire d).
  Local Notation nwS := (next_wire s).
  Local Notation nwD := (next_wire d).
  Local Notation naS := (next_atom s).
  Local Notation naD := (next_atom d).
  Local Notation LD0 := (LD im d r0 ts).
  Local Notation GD0 := (GD im d ts).
  Local Notation GN' := (GN im d ts ops).
  Local Notation OPT := (OPTN woff s ops).
  Local Notation kopD := (kopDN im d ops).
  Local Notation kopS := (kopN s ops).
  Local Notation gSN := (fun (r : assignment) (w : wire) => glue_asg OPT r (woff + w)).
  Local Notation kentry := (ket_entry R zero one add mul woff aoff s tblS).
  Local Notation bentry := (bra_entry R zero one add mul woff aoff s tblS).
  Local Notation avalD' := (atoms_val R one mul (atom_wires D') tblD).
  Local Notation avalN := (atoms_val R one mul Wr tblS).
  Local Notation sites := (map fst ops).

  Lemma Wr_ketN a : In a (total_atoms s) -> Wr a = atom_wires s a.
  Proof. intros Hin'. rewrite Wr_old by (left; exact (ws_atoms_lt s WS a Hin')). apply (pw_ket woff aoff s WS a Hin'). Qed.
  Lemma Wr_braN a : a < naS -> Wr (aoff + a) = map (Nat.add woff) (atom_wires s a).
  Proof. intros Hlt. rewrite Wr_old by (right; lia). apply (pw_bra woff aoff s WS Hw Ha a Hlt). Qed.

  Lemma nth_ops i : i < n -> exists o, nth_error ops i = Some o.
  Proof. intros Hi. destruct (nth_error ops i) as [o|] eqn:E; [eauto|]. apply nth_error_None in E. lia. Qed.

  Lemma fi_ops x i : factor_index ops x = Some i -> exists o, nth_error ops i = Some o /\ fst o = x /\ hd 0 (snd o) = wdim s (opS x).
  Proof.
    intros Hi. apply index_of_nth_error in Hi. destruct (nth_error_fst ops i x Hi) as (o & Eo & <-). exists o. split; [exact Eo|]. split; [reflexivity|].
    rewrite (Hshp o (nth_error_In _ _ Eo)). reflexivity.
  Qed.

  (* ---- the gluing of the network ----------------------------------------------------------------------------------- *)
  Local Notation LD_lt' := (LD_lt im d s r0 ts k TO).
  Local Notation LDG_lt' := (LDG_lt im d s r0 ts k TO).

  Lemma GN_snd' : map snd GN' = map snd GD0.
  Proof. unfold GN, GD. rewrite !map_map. reflexivity. Qed.

  Lemma glueN_LD r w : In w LD0 -> glue_asg GN' r w = r w.
  Proof.
    intros Hin'. apply glue_asg_out. rewrite GN_snd'. intros Hx.
    exact (NoDup_app_disj _ _ w (LD_GD_nodup im d s r0 ts k TO) Hin' Hx).
  Qed.

  Lemma glueN_new r w : nwD <= w -> glue_asg GN' r w = r w.
  Proof.
    intros Hge. apply glue_asg_out. rewrite GN_snd'. intros Hx. assert (Hlt : w < nwD) by (apply LDG_lt'; apply in_or_app; right; exact Hx). lia.
  Qed.

  Lemma glueN_bra_open r x : In x (rnodes ts) -> glue_asg GN' r (opD (bid im x)) = r (kopD x).
  Proof.
    intros Hx. apply (glue_asg_in GN' r (kopD x, opD (bid im x))).
    - rewrite GN_snd'. exact (GD_nodup im d s r0 ts k TO).
    - unfold GN. apply (in_map (fun x => (kopDN im d ops x, opD (bid im x)))). exact Hx.
  Qed.

  (* ---- the gluing of the state ------------------------------------------------------------------------------------- *)
  Lemma kopS_range m : In m (akeys (nodes s)) -> kopS m = opS m \/ (nwS <= kopS m /\ kopS m < woff).
  Proof.
    intros _. unfold kopN, factor_index. destruct (index_of m sites) as [i|] eqn:E; [|left; reflexivity].
    right. apply index_of_Some in E. destruct E as [Hlt _]. rewrite map_length in Hlt. lia.
  Qed.

  Lemma sN_glue_open r x : In x (rnodes ts) -> glue_asg OPT r (woff + opS x) = r (kopS x).
  Proof. intros Hx. exact (glueg_open woff aoff s WS Hw0 Hw Ha ts WT HP kopS r x (s_keys s ts HP x Hx)). Qed.

  Lemma sN_glue_up r x : In x (rdesc ts) -> glue_asg OPT r (woff + upS x) = r (woff + upS x).
  Proof.
    intros Hx. apply (glueg_other woff aoff s Hw0 Hw Ha ts kopS r (upS x)). intros y Hy.
    destruct (wires_distinct s WS H1) as (_ & _ & I3). destruct (s_desc_node woff aoff s ts WS WT x Hx) as (nd & p & En & Pn).
    exact (I3 x y nd p En Pn Hy).
  Qed.

  (* ---- the summed wires, pairwise; related assignments ------------------------------------------------------------- *)
  Definition PN : list (wire * wire) := wire_pairs woff im d s ts ++ map (fun i => (nwS + i, nwD + i)) (seq 0 n).

  Definition relatedN (r r' : assignment) : Prop :=
    forall p, In p PN -> r (fst p) < Dm (fst p) /\ r' (snd p) = r (fst p).

  Lemma PN_fst : map fst PN = restS woff s ts ++ new_wires s ops.
  Proof. unfold PN, new_wires. rewrite map_app, wire_pairs_fst, map_map. reflexivity. Qed.
  Lemma PN_snd : map snd PN = restD im d ts ++ new_wires d ops.
  Proof. unfold PN, new_wires. rewrite map_app, wire_pairs_snd, map_map. reflexivity. Qed.

  Lemma restS_range w : In w (restS woff s ts) -> w < nwS \/ woff <= w.
  Proof.
    unfold restS. intros Hin'. apply in_app_or in Hin'. destruct Hin' as [Hin'|Hin'].
    - apply in_flat_map in Hin'. destruct Hin' as (x & Hx & Hin'). pose proof (s1_up_nw woff aoff s ts WS WT HP x Hx).
      destruct Hin' as [E|[E|[]]]; lia.
    - apply in_map_iff in Hin'. destruct Hin' as (x & E & Hx). pose proof (s1_open_nw woff aoff s ts WS WT HP x Hx). lia.
  Qed.

  Lemma Dm_restS w : In w (restS woff s ts) -> Dm w = DmS w.
  Proof. intros Hin'. apply Dm_old. destruct (restS_range w Hin'); [left; assumption|right; lia]. Qed.

  Lemma relN_old r r' : relatedN r r' -> related woff aoff im d s ts r r'.
  Proof.
    intros H p Hp. destruct (H p (in_or_app _ _ _ (or_introl Hp))) as (B & E). split; [|exact E].
    rewrite Dm_restS in B; [exact B|]. rewrite <- (wire_pairs_fst woff im d s ts). apply in_map. exact Hp.
  Qed.

  Lemma relN_new r r' i o : relatedN r r' -> nth_error ops i = Some o -> r' (nwD + i) = r (nwS + i) /\ r (nwS + i) < hd 0 (snd o).
  Proof.
    intros H Ho. assert (Hi : i < n) by (apply nth_error_Some; congruence).
    destruct (H (nwS + i, nwD + i)) as (B & E).
    { unfold PN. apply in_or_app. right. apply (in_map (fun i => (nwS + i, nwD + i))). apply in_seq. lia. }
    cbn [fst snd] in *. rewrite (Dm_op i o Ho) in B. auto.
  Qed.

  Local Notation rel_up' := (rel_up woff aoff im d s ts WS Hw0 Hw Ha WT HP).
  Local Notation rel_open' := (rel_open woff aoff im d s ts WS Hw0 Hw Ha WT HP).

  Lemma relN_kop r r' x : relatedN r r' -> In x (rnodes ts) -> r' (kopD x) = r (kopS x) /\ r (kopS x) < wdim s (opS x).
  Proof.
    intros Hr Hx. unfold kopDN, kopN. destruct (factor_index ops x) as [i|] eqn:E.
    - destruct (fi_ops x i E) as (o & Eo & _ & Ed). rewrite <- Ed. apply (relN_new r r' i o Hr Eo).
    - apply (rel_open' r r' x (relN_old r r' Hr) Hx).
  Qed.

  Lemma idx_ketN q x cs r r' : In (q, x, cs) (tlist None ts) -> relatedN r r' ->
    map (glue_asg GN' r') (map upD (map kid cs) ++ [opD (kid x)]) = map r (map upS cs ++ [opS x]) /\
    (forall w, In w (map upS cs ++ [opS x]) -> r w < wdim s w).
  Proof.
    intros He Hr.
    assert (Hx : In x (rnodes ts)) by (rewrite <- (tlist_nodes ts None); apply (in_map (fun e => snd (fst e)) _ _ He)).
    pose proof (tlist_children ts None q x cs He) as Hcs.
    destruct (idx_ket woff aoff im d s r0 ts k WS Hw0 Hw Ha WT HP TO q x cs r r' He (relN_old r r' Hr)) as (IK & BK).
    split; [|exact BK]. rewrite <- IK. apply map_ext_in. intros w Hin'.
    assert (HL : In w LD0).
    { apply in_app_or in Hin'. destruct Hin' as [Hin'|[<-|[]]].
      - rewrite map_map in Hin'. apply in_map_iff in Hin'. destruct Hin' as (y & <- & Hy). apply in_LD_upK. apply Hcs. exact Hy.
      - apply in_LD_open. exact Hx. }
    rewrite (glueN_LD r' w HL), (glue_LD im d s r0 ts k TO r' w HL). reflexivity.
  Qed.

  Lemma idx_braN q x cs r r' : In (q, x, cs) (tlist None ts) -> relatedN r r' ->
    map (glue_asg GN' r') (map upD (map k2b (map kid cs)) ++ [opD (bid im x)]) = map (gSN r) (map upS cs ++ [opS x]) /\
    (forall w, In w (map upS cs ++ [opS x]) -> gSN r w < wdim s w).
  Proof.
    intros He Hr. pose proof (relN_old r r' Hr) as Hr0.
    assert (Hx : In x (rnodes ts)) by (rewrite <- (tlist_nodes ts None); apply (in_map (fun e => snd (fst e)) _ _ He)).
    pose proof (tlist_children ts None q x cs He) as Hcs. split.
    - rewrite !map_app, !map_map. cbn [map]. f_equal.
      + apply map_ext_in. intros y Hy. change (k2b (kid y)) with (bid im y).
        rewrite (glueN_LD r' _ (in_LD_upB im d r0 ts y (Hcs y Hy))), (sN_glue_up r y (Hcs y Hy)). apply (rel_up' r r' y Hr0 (Hcs y Hy)).
      + rewrite (glueN_bra_open r' x Hx), (sN_glue_open r x Hx). f_equal. apply (relN_kop r r' x Hr Hx).
    - intros w Hin'. apply in_app_or in Hin'. destruct Hin' as [Hin'|[<-|[]]].
      + apply in_map_iff in Hin'. destruct Hin' as (y & <- & Hy). rewrite (sN_glue_up r y (Hcs y Hy)). apply (rel_up' r r' y Hr0 (Hcs y Hy)).
      + rewrite (sN_glue_open r x Hx). apply (relN_kop r r' x Hr Hx).
  Qed.

  (* ---- the contracts read at an assignment, in the world extended by the factors ------------------------------------- *)
  Lemma ket_valN q x cs r : In (q, x, cs) (tlist None ts) -> kentry x (map r (t_axes s x)) = valN (tens s x) r.
  Proof.
    intros He. rewrite (ket_entry_val R zero one add mul woff aoff s ts tblS WS WT q x cs r He). unfold FKS.
    destruct (s_node woff aoff s ts WS WT q x cs He) as (kn & tm & E1 & E2 & V4 & _). rewrite V4.
    apply value_world.
    - intros y Hy. symmetry. apply Wr_old. left. exact (ws_atoms_lt s WS y (F_atom_in s x tm y E2 Hy)).
    - intros w Hw'. symmetry. apply Dm_old. left. exact (F_bnd_nw s WS x tm w E2 Hw').
  Qed.

  Lemma bra_valN q x cs r : In (q, x, cs) (tlist None ts) ->
    bentry x (map (gSN r) (t_axes s x)) = valN (conj_sarr woff aoff (tens s x)) (glue_asg OPT r).
  Proof.
    intros He. destruct (s_node woff aoff s ts WS WT q x cs He) as (kn & tm & E1 & E2 & V4 & _ & _ & PX).
    unfold bra_entry. rewrite V4.
    transitivity (valS (conj_sarr woff aoff tm) (glue_asg OPT r)).
    - apply (val_conj_dep R zero one add mul woff aoff s tblS WS WrS DmS (pw_bra woff aoff s WS Hw Ha) tm x E2).
      intros w Hin'. rewrite <- (map_map (Nat.add woff) (glue_asg OPT r)). apply assign_map_in.
      apply in_map_iff in Hin'. destruct Hin' as (y & <- & Hy). apply in_map. apply (Permutation_in _ (Permutation_sym PX)). exact Hy.
    - apply value_world.
      + intros y Hy. cbn [conj_sarr atoms] in Hy. apply in_map_iff in Hy. destruct Hy as (z & <- & Hz). symmetry. apply Wr_old. right. lia.
      + intros w Hw'. cbn [conj_sarr bnd] in Hw'. apply in_map_iff in Hw'. destruct Hw' as (z & <- & Hz). symmetry. apply Dm_old. right. lia.
  Qed.

  (* ---- the atoms of the network in the world after the absorptions --------------------------------------------------- *)
  Local Notation awN_old' := (awN_old im d s r0 ts k TO ops Hnd Hin Hshp D' HD').
  Local Notation awN_new' := (awN_new im d s r0 ts k TO ops Hnd Hin Hshp D' HD').
  Local Notation fk := (fun x r => valN (tens s x) r).
  Local Notation fb := (fun x r => valN (conj_sarr woff aoff (tens s x)) (glue_asg OPT r)).

  Lemma node_term_descN p x cs r r' : In (Some p, x, cs) (tlist None ts) -> relatedN r r' ->
    avalD' [datom d (kid x); datom d (bid im x)] (glue_asg GN' r') = mul (fk x r) (fb x r).
  Proof.
    intros He Hr. pose proof (relN_old r r' Hr) as Hr0.
    pose proof (tlist_some_desc ts p x cs He) as Hnd'. pose proof (s_desc_in ts x Hnd') as Hx.
    destruct (s_node woff aoff s ts WS WT _ x cs He) as (kn & tm & _ & _ & _ & _ & AS & _). cbn [opt_list] in AS.
    destruct (d_node im d s r0 ts k TO _ x cs He) as (dk & db & dp & dbp & _ & _ & _ & _ & AK & AB & _).
    destruct (plain_ket im d s r0 ts k TO x Hx) as (_ & _ & WK). destruct (plain_bra im d s r0 ts k TO x Hx) as (_ & _ & WB).
    destruct (idx_ketN _ x cs r r' He Hr) as (IK & BK). destruct (idx_braN _ x cs r r' He Hr) as (IB & BB).
    destruct (rel_up' r r' x Hr0 Hnd') as (U1 & U2 & U3 & U4).
    unfold atoms_val. cbn [prod_over]. unfold atom_val.
    rewrite (awN_old' _ _ WK) by (rewrite AK; discriminate). rewrite (awN_old' _ _ WB) by (rewrite AB; discriminate).
    rewrite AK, AB. cbn [map]. rewrite IK, IB.
    rewrite (glueN_LD r' _ (in_LD_upK im d r0 ts x Hnd')), (glueN_LD r' _ (in_LD_upB im d r0 ts x Hnd')), U1, U3.
    destruct (bc_desc _ _ _ _ _ _ _ _ _ _ _ _ _ _ _ BC x Hnd' (map r (t_axes s x))) as (C1 & _).
    { apply forall2_map_r. rewrite AS. intros w [<-|Hin']; [exact U2|apply BK; exact Hin']. }
    destruct (bc_desc _ _ _ _ _ _ _ _ _ _ _ _ _ _ _ BC x Hnd' (map (gSN r) (t_axes s x))) as (_ & C2).
    { apply forall2_map_r. rewrite AS. intros w [<-|Hin']; [rewrite (sN_glue_up r x Hnd'); exact U4|apply BB; exact Hin']. }
    pose proof (eq_trans C1 (ket_valN _ x cs r He)) as C1'. pose proof (eq_trans C2 (bra_valN _ x cs r He)) as C2'.
    rewrite AS in C1', C2'. cbn [map app] in C1', C2'. rewrite (sN_glue_up r x Hnd') in C2'.
    rewrite C1', C2'. rewrite (mul_1_r R zero one add mul SR). reflexivity.
  Qed.

  Lemma node_term_rootN r r' i j : relatedN r r' -> r' (upD (kid (rid ts))) = i -> r' (upD (bid im (rid ts))) = j -> i < k -> j < k ->
    avalD' [datom d (kid (rid ts)); datom d (bid im (rid ts))] (glue_asg GN' r')
    = mul (mul (pad R zero one i) (pad R zero one j)) (mul (fk (rid ts) r) (fb (rid ts) r)).
  Proof.
    intros Hr Ei Ej Hi Hj. pose proof (in_tlist_root ts) as He. set (x := rid ts) in *. set (cs := map rid (rcs ts)) in *.
    assert (Hx : In x (rnodes ts)) by apply rnodes_rid.
    destruct (s_node woff aoff s ts WS WT _ x cs He) as (kn & tm & _ & _ & _ & _ & AS & _). cbn [opt_list app] in AS.
    destruct (d_node im d s r0 ts k TO _ x cs He) as (dk & db & dp & dbp & _ & _ & _ & _ & AK & AB & _).
    destruct (plain_ket im d s r0 ts k TO x Hx) as (_ & _ & WK). destruct (plain_bra im d s r0 ts k TO x Hx) as (_ & _ & WB).
    destruct (idx_ketN _ x cs r r' He Hr) as (IK & BK). destruct (idx_braN _ x cs r r' He Hr) as (IB & BB).
    assert (LK : In (upD (kid x)) LD0) by (unfold LD; right; left; reflexivity).
    assert (LB : In (upD (bid im x)) LD0) by (unfold LD; right; right; left; reflexivity).
    unfold atoms_val. cbn [prod_over]. unfold atom_val.
    rewrite (awN_old' _ _ WK) by (rewrite AK; discriminate). rewrite (awN_old' _ _ WB) by (rewrite AB; discriminate).
    rewrite AK, AB. cbn [map]. rewrite IK, IB.
    rewrite (glueN_LD r' _ LK), (glueN_LD r' _ LB), Ei, Ej.
    destruct (bc_root _ _ _ _ _ _ _ _ _ _ _ _ _ _ _ BC i (map r (t_axes s x)) Hi) as (C1 & _).
    { apply forall2_map_r. rewrite AS. exact BK. }
    destruct (bc_root _ _ _ _ _ _ _ _ _ _ _ _ _ _ _ BC j (map (gSN r) (t_axes s x)) Hj) as (_ & C2).
    { apply forall2_map_r. rewrite AS. exact BB. }
    fold x in C1, C2. rewrite (ket_valN _ x cs r He) in C1. rewrite (bra_valN _ x cs r He) in C2.
    rewrite AS in C1, C2. rewrite C1, C2.
    apply (pad_terms R zero one add mul SR).
  Qed.

  (* the factor atoms: the same entries in both worlds *)
  Lemma op_termN r r' : relatedN r r' -> avalD' (new_atoms d ops) (glue_asg GN' r') = avalN (new_atoms s ops) r.
  Proof.
    intros Hr. unfold atoms_val, new_atoms. rewrite !prod_over_map. apply (prod_over_ext R one mul). intros i Hi. apply in_seq in Hi.
    destruct (nth_ops i) as (o & Eo); [lia|]. unfold atom_val. rewrite (awN_new' i o Eo), (Wr_op i o Eo). cbn [map].
    pose proof (Hin o (nth_error_In _ _ Eo)) as Hc.
    rewrite (glueN_new r' (nwD + i)) by lia. rewrite (glueN_LD r' _ (in_LD_open im d r0 ts (fst o) Hc)).
    destruct (relN_new r r' i o Hr Eo) as (E1 & B1). destruct (rel_open' r r' (fst o) (relN_old r r' Hr) Hc) as (E2 & B2).
    rewrite E1, E2. apply (OC i o Eo); [exact B1|]. rewrite (Hshp o (nth_error_In _ _ Eo)). exact B2.
  Qed.

  (* ---- the summand of the trace diagram of the absorbed network at related assignments -------------------------- *)
  Local Notation prodsN := (prodSN R zero one add mul woff aoff s tblS ops ts Wr Dm).
  Local Notation AN' := (AN im d r0 ts ops).

  Lemma leafN r r' o i j : relatedN r r' -> r' (opD r0) = o -> o < 1 ->
    r' (upD (kid (rid ts))) = i -> r' (upD (bid im (rid ts))) = j -> i < k -> j < k ->
    avalD' AN' (glue_asg GN' r')
    = mul (mul (delta R zero one i j) (mul (pad R zero one i) (pad R zero one j))) (mul (prodsN r) (avalN (new_atoms s ops) r)).
  Proof.
    intros Hr Eo Ho Ei Ej Hi Hj. unfold AN, AD. rewrite (atoms_val_app R zero one add mul SR). rewrite (op_termN r r' Hr).
    rewrite (csr_mul_assoc _ _ _ _ SR). f_equal.
    change (avalD' (datom d r0 :: ?l) ?x) with (mul (atom_val R (atom_wires D') tblD x (datom d r0)) (avalD' l x)).
    rewrite (atoms_val_flat_map R zero one add mul SR). unfold prodSN. rewrite (rnodes_desc ts). cbn [prod_over].
    rewrite (node_term_rootN r r' i j Hr Ei Ej Hi Hj).
    rewrite (prod_over_ext R one mul _ (fun x => mul (fk x r) (fb x r)) (rdesc ts)).
    2:{ intros x Hx. destruct (in_tlist_desc ts x Hx) as (p & cs & He). apply (node_term_descN p x cs r r' He Hr). }
    assert (Er : atom_val R (atom_wires D') tblD (glue_asg GN' r') (datom d r0) = delta R zero one i j).
    { destruct (d_root im d s r0 ts k TO) as (rn & _ & _ & Hch & _ & Ax & _).
      destruct (to_plain _ _ _ _ _ _ TO r0 (or_introl eq_refl)) as (_ & _ & W0).
      assert (L0 : In (opD r0) LD0) by (unfold LD; left; reflexivity).
      assert (LK : In (upD (kid (rid ts))) LD0) by (unfold LD; right; left; reflexivity).
      assert (LB : In (upD (bid im (rid ts))) LD0) by (unfold LD; right; right; left; reflexivity).
      assert (E0 : o = 0) by lia. rewrite E0 in Eo.
      unfold atom_val. rewrite (awN_old' _ _ W0) by (rewrite Ax; destruct (map upD (children rn)); discriminate).
      rewrite Ax. destruct Hch as [-> | ->]; cbn [map app];
        rewrite (glueN_LD r' _ L0), (glueN_LD r' _ LK), (glueN_LD r' _ LB), Eo, Ei, Ej.
      - rewrite (bc_eye _ _ _ _ _ _ _ _ _ _ _ _ _ _ _ BC i j Hi Hj). reflexivity.
      - rewrite (bc_eye _ _ _ _ _ _ _ _ _ _ _ _ _ _ _ BC j i Hj Hi). unfold delta. rewrite Nat.eqb_sym. reflexivity. }
    rewrite Er. rewrite <- (csr_mul_assoc _ _ _ _ SR (mul (pad R zero one i) (pad R zero one j))).
    apply (csr_mul_assoc _ _ _ _ SR).
  Qed.

  (* ---- dimensions, wire by wire --------------------------------------------------------------------------------------- *)
  Local Notation wdimN_old' := (wdimN_old im d s r0 ts k TO ops Hnd Hin Hshp D' HD').
  Local Notation wdimN_new' := (wdimN_new im d s r0 ts k TO ops Hnd Hin Hshp D' HD').
  Local Notation restD_lt' := (restD_lt im d s r0 ts k TO).

  Lemma PN_dims p : In p PN -> Dm (fst p) = wdim D' (snd p).
  Proof.
    unfold PN. intros Hp. apply in_app_or in Hp. destruct Hp as [Hp|Hp].
    - rewrite Dm_restS by (rewrite <- (wire_pairs_fst woff im d s ts); apply in_map; exact Hp).
      rewrite (pairs_dims woff aoff im d s r0 ts k WS Hw0 Hw Ha WT HP TO p Hp). symmetry. apply wdimN_old'.
      apply restD_lt'. rewrite <- (wire_pairs_snd woff im d s ts). apply in_map. exact Hp.
    - apply in_map_iff in Hp. destruct Hp as (i & <- & Hi). apply in_seq in Hi. cbn [fst snd].
      destruct (nth_ops i) as (o & Eo); [lia|]. rewrite (Dm_op i o Eo), (wdimN_new' i o Eo). reflexivity.
  Qed.

  Lemma new_nodup b : NoDup (map (Nat.add b) (seq 0 n)).
  Proof. apply NoDup_map_inj_in; [intros; lia|apply seq_NoDup]. Qed.

  Lemma PN_fst_nodup : NoDup (map fst PN).
  Proof.
    rewrite PN_fst. apply NoDup_app_iff. split; [exact (restS_nodup woff aoff s ts WS H1 Hw0 Hw Ha WT HP)|]. split; [apply new_nodup|].
    intros w Hin1 Hin2. unfold new_wires in Hin2. apply in_map_iff in Hin2. destruct Hin2 as (i & <- & Hi). apply in_seq in Hi.
    destruct (restS_range _ Hin1); lia.
  Qed.

  Lemma PN_snd_nodup : NoDup (map snd PN).
  Proof.
    rewrite PN_snd. apply NoDup_app_iff. split; [exact (restD_nodup im d s r0 ts k TO)|]. split; [apply new_nodup|].
    intros w Hin1 Hin2. unfold new_wires in Hin2. apply in_map_iff in Hin2. destruct Hin2 as (i & <- & Hi).
    pose proof (restD_lt' _ Hin1). lia.
  Qed.

  Lemma not_in_restN w : In w LD0 -> ~ In w (restD im d ts) -> ~ In w (restD im d ts ++ new_wires d ops).
  Proof.
    intros HL Hn Hin'. apply in_app_or in Hin'. destruct Hin' as [Hin'|Hin']; [exact (Hn Hin')|].
    unfold new_wires in Hin'. apply in_map_iff in Hin'. destruct Hin' as (i & E & _). pose proof (LD_lt' w HL). lia.
  Qed.

  Lemma inner_sumN rho rhoS o i j : o < 1 -> i < k -> j < k ->
    sum_bnd R zero add (wdim D') (restD im d ts ++ new_wires d ops) (fun r => avalD' AN' (glue_asg GN' r))
            (upd (upd (upd rho (opD r0) o) (upD (kid (rid ts))) i) (upD (bid im (rid ts))) j)
    = mul (mul (delta R zero one i j) (mul (pad R zero one i) (pad R zero one j)))
          (sum_bnd R zero add Dm (restS woff s ts ++ new_wires s ops) (fun r => mul (prodsN r) (avalN (new_atoms s ops) r)) rhoS).
  Proof.
    intros Ho Hi Hj. destruct (root_wires_distinct im d s r0 ts k TO) as (X1 & X2 & X3 & N1 & N2 & N3).
    assert (M1 : ~ In (opD r0) (restD im d ts ++ new_wires d ops)) by (apply not_in_restN; [unfold LD; left; reflexivity|exact N1]).
    assert (M2 : ~ In (upD (kid (rid ts))) (restD im d ts ++ new_wires d ops)) by (apply not_in_restN; [unfold LD; right; left; reflexivity|exact N2]).
    assert (M3 : ~ In (upD (bid im (rid ts))) (restD im d ts ++ new_wires d ops)) by (apply not_in_restN; [unfold LD; right; right; left; reflexivity|exact N3]).
    set (cf := mul (delta R zero one i j) (mul (pad R zero one i) (pad R zero one j))).
    rewrite <- (sum_bnd_mul_l R zero one add mul SR Dm (restS woff s ts ++ new_wires s ops) (fun _ => cf) (fun r => mul (prodsN r) (avalN (new_atoms s ops) r)))
      by (intros r1 r2 _; reflexivity).
    symmetry. rewrite <- PN_fst, <- PN_snd.
    apply sum_bnd_rename.
    - exact PN_fst_nodup.
    - exact PN_snd_nodup.
    - exact PN_dims.
    - intros r r' Hrel _ Hout. rewrite PN_snd in Hout. symmetry. apply (leafN r r' o i j Hrel); try assumption.
      + rewrite (Hout _ M1). unfold upd. destruct (Nat.eqb_spec (opD r0) (upD (bid im (rid ts)))) as [E|_]; [contradiction|].
        destruct (Nat.eqb_spec (opD r0) (upD (kid (rid ts)))) as [E|_]; [contradiction|]. rewrite Nat.eqb_refl. reflexivity.
      + rewrite (Hout _ M2). unfold upd. destruct (Nat.eqb_spec (upD (kid (rid ts))) (upD (bid im (rid ts)))) as [E|_]; [contradiction|].
        rewrite Nat.eqb_refl. reflexivity.
      + rewrite (Hout _ M3). unfold upd. rewrite Nat.eqb_refl. reflexivity.
  Qed.

  Theorem tpN_value_main : exists ketS gD gS,
    tp_apply s ops = Some ketS /\ atab ketS = atab s ++ tp_rows s ops /\
    trace_ttndo im D' = Some gD /\ tp_expectation woff aoff s ops = Some gS /\
    gaxes gD = [] /\ gaxes gS = [] /\
    forall rho rho', gvalue R zero one add mul (atom_wires D') (wdim D') tblD gD rho
                     = gvalue R zero one add mul Wr Dm tblS gS rho'.
  Proof.
    destruct (D_norm_tpN im d s r0 ts k TO ops Hnd Hin Hshp D' HD' R zero one add mul SR tblD) as (gD & HgD & AxD & HvD).
    destruct (S_value_tpN R zero one add mul SR woff aoff s tblS WS ops Hwn Han Hw0 ts WT HP Hnd Hin Hshp Wr Dm Wr_ketN Wr_braN Wr_op)
      as (ketS & gS & Eap & HgS & AxS & Tab & HvS).
    exists ketS, gD, gS. split; [exact Eap|]. split; [exact Tab|]. split; [exact HgD|]. split; [exact HgS|]. split; [exact AxD|]. split; [exact AxS|].
    intros rho rho'. rewrite HvD, HvS.
    destruct (d_root im d s r0 ts k TO) as (rn & _ & _ & _ & _ & _ & D0). destruct (to_dim_root _ _ _ _ _ _ TO) as (DK & DB).
    unfold LN, LD. rewrite <- app_assoc. rewrite sum_bnd_app. cbn [sum_bnd].
    rewrite !wdimN_old'.
    2:{ apply LD_lt'. unfold LD. right; right; left; reflexivity. }
    2:{ apply LD_lt'. unfold LD. right; left; reflexivity. }
    2:{ apply LD_lt'. unfold LD. left; reflexivity. }
    rewrite D0, DK, DB.
    rewrite <- (root_sums R zero one add mul SR k (sum_bnd R zero add Dm (restS woff s ts ++ new_wires s ops) (fun r => mul (prodsN r) (avalN (new_atoms s ops) r)) rho') Hk) at 1.
    apply sum_upto_ext. intros o Ho. apply sum_upto_ext. intros i Hi. apply sum_upto_ext. intros j Hj.
    apply (inner_sumN rho rho' o i j Ho Hi Hj).
  Qed.
End JoinN.

(* ================================================================================================================ *)
(* 4. the statement with the tree read off the state and the absorptions performed by the model of the code path       *)
(* ================================================================================================================ *)
Theorem tp_value (R : Type) (zero one : R) (add mul : R -> R -> R) :
  comm_semiring zero one add mul ->
  forall (woff aoff : nat) (im : idmaps) (d s : store) (r0 : id) (ts : rt) (k : nat) (tblD tblS : nat -> list nat -> R)
         (ops : list (id * list nat)),
  wfs s -> one_open s -> 0 < woff -> next_wire s + length ops <= woff -> next_atom s + length ops <= aoff ->
  ket_tree s = Some ts -> 1 <= k ->
  ttndo_of im d s r0 ts k ->
  build_contracts R zero one add mul woff aoff im d s r0 ts k tblD tblS ->
  NoDup (map fst ops) ->
  (forall o, In o ops -> In (fst o) (rnodes ts) /\ snd o = [wdim s (open_wire s (fst o)); wdim s (open_wire s (fst o))]) ->
  (forall i o, nth_error ops i = Some o -> forall a b, a < hd 0 (snd o) -> b < hd 0 (snd o) ->
     tblD (next_atom d + i) [a; b] = tblS (next_atom s + i) [a; b]) ->
  exists D' gD gS,
    ttndo_tp_apply im d ops = Some D' /\
    ttndo_tp_expectation im d ops = Some gD /\ tp_expectation woff aoff s ops = Some gS /\
    gaxes gD = [] /\ gaxes gS = [] /\
    forall rho rho', gvalue R zero one add mul (atom_wires D') (wdim D') tblD gD rho
                     = gvalue R zero one add mul (tpN_wiresS woff aoff s ops) (tpN_dimS woff aoff s ops) tblS gS rho'.
Proof.
  intros SR woff aoff im d s r0 ts k tblD tblS ops WS H1 Hw0 Hwn Han Hts Hk TO BC Hnd Hops OC.
  destruct (wf_two_of_wf woff aoff s (ws_wf s WS) H1 Hw0) as (t & Ht & WT & HP). rewrite Hts in Ht. injection Ht as <-.
  assert (Hin : forall o, In o ops -> In (fst o) (rnodes ts)) by (intros o Ho; apply (Hops o Ho)).
  assert (Hshp : forall o, In o ops -> snd o = [wdim s (open_wire s (fst o)); wdim s (open_wire s (fst o))]) by (intros o Ho; apply (Hops o Ho)).
  destruct (tpD_apply im d s r0 ts k TO ops Hnd Hin Hshp) as (D' & tD & HD' & _).
  destruct (tpN_value_main R zero one add mul SR woff aoff im d s r0 ts k tblD tblS ops WS H1 Hw0 Hwn Han WT HP Hk TO BC Hnd Hin Hshp D' HD' OC
              (tpN_wiresS woff aoff s ops) (tpN_dimS woff aoff s ops)
              (tpN_W_old woff aoff s ops) (tpN_W_op woff aoff s ops) (tpN_D_old woff aoff s ops) (tpN_D_op woff aoff s ops))
    as (ketS & gD & gS & _ & _ & E1 & E2 & A1 & A2 & HV).
  exists D', gD, gS.
  assert (EA : ttndo_tp_apply im d ops = Some D') by exact HD'.
  split; [exact EA|]. split; [unfold ttndo_tp_expectation; rewrite EA; exact E1|]. exact (conj E2 (conj A1 (conj A2 HV))).
Qed.

(* the same with every structural hypothesis in executable form *)
Theorem tp_value_b (R : Type) (zero one : R) (add mul : R -> R -> R) :
  comm_semiring zero one add mul ->
  forall (woff aoff : nat) (im : idmaps) (d s : store) (r0 : id) (k : nat) (tblD tblS : nat -> list nat -> R) (ops : list (id * list nat)),
  value_hyp woff aoff im d s r0 k = true -> next_wire s + length ops <= woff -> next_atom s + length ops <= aoff ->
  (forall ts, ket_tree s = Some ts -> build_contracts R zero one add mul woff aoff im d s r0 ts k tblD tblS) ->
  NoDup (map fst ops) ->
  (forall o, In o ops -> In (fst o) (akeys (nodes s)) /\ snd o = [wdim s (open_wire s (fst o)); wdim s (open_wire s (fst o))]) ->
  (forall i o, nth_error ops i = Some o -> forall a b, a < hd 0 (snd o) -> b < hd 0 (snd o) ->
     tblD (next_atom d + i) [a; b] = tblS (next_atom s + i) [a; b]) ->
  exists D' gD gS,
    ttndo_tp_apply im d ops = Some D' /\
    ttndo_tp_expectation im d ops = Some gD /\ tp_expectation woff aoff s ops = Some gS /\
    gaxes gD = [] /\ gaxes gS = [] /\
    forall rho rho', gvalue R zero one add mul (atom_wires D') (wdim D') tblD gD rho
                     = gvalue R zero one add mul (tpN_wiresS woff aoff s ops) (tpN_dimS woff aoff s ops) tblS gS rho'.
Proof.
  intros SR woff aoff im d s r0 k tblD tblS ops H Hwn Han BC Hnd Hops OC. unfold value_hyp in H.
  do 6 (apply andb_prop in H; let H' := fresh "H" in destruct H as [H H']).
  destruct (ket_tree s) as [ts|] eqn:Ets; [|discriminate].
  pose proof (wfsb_wfs s H) as WS.
  pose proof (one_openb_sound s (ws_wf s WS) H5) as HO.
  apply Nat.ltb_lt in H4.
  destruct (wf_two_of_wf woff aoff s (ws_wf s WS) HO H4) as (t & Ht & WT & HP). rewrite Ets in Ht. injection Ht as <-.
  apply (tp_value R zero one add mul SR woff aoff im d s r0 ts k tblD tblS ops WS HO H4 Hwn Han Ets); auto.
  - apply Nat.leb_le. exact H1.
  - apply ttndo_ofb_sound. exact H0.
  - intros o Ho. destruct (Hops o Ho) as (Hk & Hs). split; [|exact Hs]. apply (Permutation_in _ (Permutation_sym HP)). exact Hk.
Qed.

(* the state side in the pair world of (the state after apply_operator, the conjugate copy of the original state) *)
Theorem tp_value_pair_world (R : Type) (zero one : R) (add mul : R -> R -> R) :
  comm_semiring zero one add mul ->
  forall (woff aoff : nat) (im : idmaps) (d s : store) (r0 : id) (ts : rt) (k : nat) (tblD tblS : nat -> list nat -> R)
         (ops : list (id * list nat)),
  wfs s -> one_open s -> 0 < woff -> next_wire s + length ops <= woff -> next_atom s + length ops <= aoff ->
  ket_tree s = Some ts -> 1 <= k ->
  ttndo_of im d s r0 ts k ->
  build_contracts R zero one add mul woff aoff im d s r0 ts k tblD tblS ->
  NoDup (map fst ops) ->
  (forall o, In o ops -> In (fst o) (rnodes ts) /\ snd o = [wdim s (open_wire s (fst o)); wdim s (open_wire s (fst o))]) ->
  (forall i o, nth_error ops i = Some o -> forall a b, a < hd 0 (snd o) -> b < hd 0 (snd o) ->
     tblD (next_atom d + i) [a; b] = tblS (next_atom s + i) [a; b]) ->
  exists D' ketS gD gS,
    ttndo_tp_apply im d ops = Some D' /\ tp_apply s ops = Some ketS /\
    ttndo_tp_expectation im d ops = Some gD /\ tp_expectation woff aoff s ops = Some gS /\
    gaxes gD = [] /\ gaxes gS = [] /\
    forall rho rho', gvalue R zero one add mul (atom_wires D') (wdim D') tblD gD rho
                     = gvalue R zero one add mul (pair_wires ketS (conj_store woff aoff s)) (pair_dim ketS (conj_store woff aoff s)) tblS gS rho'.
Proof.
  intros SR woff aoff im d s r0 ts k tblD tblS ops WS H1 Hw0 Hwn Han Hts Hk TO BC Hnd Hops OC.
  destruct (wf_two_of_wf woff aoff s (ws_wf s WS) H1 Hw0) as (t & Ht & WT & HP). rewrite Hts in Ht. injection Ht as <-.
  assert (Hin : forall o, In o ops -> In (fst o) (rnodes ts)) by (intros o Ho; apply (Hops o Ho)).
  assert (Hshp : forall o, In o ops -> snd o = [wdim s (open_wire s (fst o)); wdim s (open_wire s (fst o))]) by (intros o Ho; apply (Hops o Ho)).
  destruct (tpD_apply im d s r0 ts k TO ops Hnd Hin Hshp) as (D' & tD & HD' & _).
  destruct (tp_expectation_closed woff aoff s ops ts (ws_wf s WS) WT Hnd Hin Hwn Hshp) as (ketS & g0 & Eap & _ & _ & _ & _ & _ & Tab).
  pose proof (tpS_dims woff aoff s ops ts ketS (ws_wf s WS) WT Hnd Hin Hwn Hshp Eap) as Dms.
  destruct (tpN_value_main R zero one add mul SR woff aoff im d s r0 ts k tblD tblS ops WS H1 Hw0 Hwn Han WT HP Hk TO BC Hnd Hin Hshp D' HD' OC
              (pair_wires ketS (conj_store woff aoff s)) (pair_dim ketS (conj_store woff aoff s))
              (pairK_W_old woff aoff s ketS ops Tab) (pairK_W_op woff aoff s ketS ops WS Tab)
              (pairK_D_old woff aoff s ketS ops Dms) (pairK_D_op woff aoff s ketS ops WS Dms))
    as (ketS' & gD & gS & _ & _ & E1 & E2 & A1 & A2 & HV).
  exists D', ketS, gD, gS.
  assert (EA : ttndo_tp_apply im d ops = Some D') by exact HD'.
  split; [exact EA|]. split; [exact Eap|]. split; [unfold ttndo_tp_expectation; rewrite EA; exact E1|]. exact (conj E2 (conj A1 (conj A2 HV))).
Qed.

(* ================================================================================================================ *)
(* 6. example: the four-node tree of Value.v, two non-symmetric factors on two sites                                   *)
(* ================================================================================================================ *)
(* offsets 20 / 10 (next_wire vx_s = 10, next_atom vx_s = 4): the state's atoms 0..3, the factors 4, 5, the conjugate
   copy 10..13; in the network (next_atom = 9) the factors are the atoms 9, 10.  vx_tblD 9 = vx_tblS 4 and
   vx_tblD 10 = vx_tblS 104 by the definition of vx_tblD *)
Definition vx_tblS3 (a : nat) (idx : list nat) : Z :=
  if Nat.ltb a 10 then (if Nat.eqb a 5 then vx_tblS 104 idx else vx_tblS a idx) else vx_tblS (90 + a) idx.
Definition vx_ops (cs : list id) : list (id * list nat) := map (fun c => (c, [vx_opdim c; vx_opdim c])) cs.
Definition vx_tpN_D (k : nat) (cs : list id) : option Z :=
  match ttndo_tp_apply code_maps (vx_d k) (vx_ops cs) with
  | Some D' => option_map (fun g => gvalue Z 0%Z 1%Z Z.add Z.mul (atom_wires D') (wdim D') vx_tblD g (fun _ => 0))
                          (ttndo_tp_expectation code_maps (vx_d k) (vx_ops cs))
  | None => None
  end.
Definition vx_tpN_S (cs : list id) : option Z :=
  match tp_apply vx_s (vx_ops cs) with
  | Some ketS => let bra := conj_store 20 10 vx_s in
      option_map (fun g => gvalue Z 0%Z 1%Z Z.add Z.mul (pair_wires ketS bra) (pair_dim ketS bra) vx_tblS3 g (fun _ => 0))
                 (tp_expectation 20 10 vx_s (vx_ops cs))
  | None => None
  end.

Lemma tpN_example_hyp :
  (next_wire vx_s, next_atom vx_s, next_atom (vx_d 1)) = (10, 4, 9) /\
  value_case vx_bond vx_phys 1 vx_t 20 10 = true /\ value_case vx_bond vx_phys 3 vx_t 20 10 = true /\
  build_contractsb 20 10 code_maps (vx_d 1) vx_s 0 vx_ts 1 vx_tblD vx_tblS3 = true /\
  build_contractsb 20 10 code_maps (vx_d 3) vx_s 0 vx_ts 3 vx_tblD vx_tblS3 = true.
Proof. vm_compute. repeat split; reflexivity. Qed.

Lemma tpN_example_numbers :
  (* both factors are non-symmetric matrices *)
  (vx_tblS3 4 [0; 1], vx_tblS3 4 [1; 0], vx_tblS3 5 [0; 1], vx_tblS3 5 [1; 0]) = (-3, -1, 3, -2)%Z /\
  (* inner node 1 and the root 0 (physical dimensions 2, 2); inner node 1 and its leaf child 3 (dimensions 2, 3) *)
  vx_tpN_S [1; 0] = Some 10484%Z /\ vx_tpN_D 1 [1; 0] = Some 10484%Z /\
  vx_tpN_S [1; 3] = Some (-902)%Z /\ vx_tpN_D 1 [1; 3] = Some (-902)%Z.
Proof. vm_compute. repeat split; reflexivity. Qed.

Lemma vx_opdim_eq c : vx_opdim c = wdim vx_s (open_wire vx_s c).
Proof. unfold vx_opdim. reflexivity. Qed.

(* the theorem applies to the example (k = 3) for the two factors on the sites 1 and 3 *)
Lemma tpN_example_thm : exists D' gD gS,
  ttndo_tp_apply code_maps (vx_d 3) (vx_ops [1; 3]) = Some D' /\
  ttndo_tp_expectation code_maps (vx_d 3) (vx_ops [1; 3]) = Some gD /\
  tp_expectation 20 10 vx_s (vx_ops [1; 3]) = Some gS /\
  forall rho rho',
    gvalue Z 0%Z 1%Z Z.add Z.mul (atom_wires D') (wdim D') vx_tblD gD rho
    = gvalue Z 0%Z 1%Z Z.add Z.mul (tpN_wiresS 20 10 vx_s (vx_ops [1; 3])) (tpN_dimS 20 10 vx_s (vx_ops [1; 3])) vx_tblS3 gS rho'.
Proof.
  destruct tpN_example_hyp as (_ & _ & H3 & _ & C3). destruct value_example_hyp as (Et & _).
  pose proof (tp_value_b Z 0%Z 1%Z Z.add Z.mul Z_semiring 20 10 code_maps (vx_d 3) vx_s 0 3 vx_tblD vx_tblS3 (vx_ops [1; 3]) H3) as T.
  assert (G1 : next_wire vx_s + length (vx_ops [1; 3]) <= 20) by (vm_compute; lia).
  assert (G2 : next_atom vx_s + length (vx_ops [1; 3]) <= 10) by (vm_compute; lia).
  assert (G3 : forall ts, ket_tree vx_s = Some ts -> build_contracts Z 0%Z 1%Z Z.add Z.mul 20 10 code_maps (vx_d 3) vx_s 0 ts 3 vx_tblD vx_tblS3).
  { intros ts Hts. rewrite Et in Hts. injection Hts as <-. apply build_contractsb_sound. exact C3. }
  assert (G4 : NoDup (map fst (vx_ops [1; 3]))).
  { cbn [vx_ops map fst]. constructor; [intros [E|[]]; discriminate|]. constructor; [intros []|constructor]. }
  assert (G5 : forall o, In o (vx_ops [1; 3]) -> In (fst o) (akeys (nodes vx_s)) /\
                 snd o = [wdim vx_s (open_wire vx_s (fst o)); wdim vx_s (open_wire vx_s (fst o))]).
  { intros o Ho. cbn [vx_ops map In] in Ho. destruct Ho as [<-|[<-|[]]]; cbn [fst snd]; (split; [vm_compute; tauto|rewrite vx_opdim_eq; reflexivity]). }
  assert (G6 : forall i o, nth_error (vx_ops [1; 3]) i = Some o -> forall a b, a < hd 0 (snd o) -> b < hd 0 (snd o) ->
                 vx_tblD (next_atom (vx_d 3) + i) [a; b] = vx_tblS3 (next_atom vx_s + i) [a; b]).
  { intros i o Ho a b _ _.
    assert (E9 : next_atom (vx_d 3) = 9) by (vm_compute; reflexivity). assert (E4 : next_atom vx_s = 4) by (vm_compute; reflexivity).
    rewrite E9, E4. destruct i as [|[|i]].
    - reflexivity.
    - unfold vx_tblS3, vx_tblD. cbn [Nat.ltb Nat.leb Nat.eqb Nat.even Nat.div2 Nat.sub Nat.add]. reflexivity.
    - cbn [vx_ops map nth_error] in Ho. destruct i; discriminate Ho. }
  destruct (T G1 G2 G3 G4 G5 G6) as (D' & gD & gS & E0 & E1 & E2 & _ & _ & HV).
  exists D', gD, gS. exact (conj E0 (conj E1 (conj E2 HV))).
Qed.
