(* Proofs about TTNDO/Sym.v. *)
From Coq Require Import List Arith Bool String Ascii Lia.
From PTN Require Import Tree.RTree Tree.RTreeProofs TTNDO.Sym.
Import ListNotations.

(* ================================================================================== *)
(* A. identifiers                                                                     *)
(* ================================================================================== *)
Lemma side_eqb_eq : forall a b, side_eqb a b = true <-> a = b.
Proof. destruct a, b; simpl; split; congruence. Qed.

Lemma did_eqb_eq : forall a b, did_eqb a b = true <-> a = b.
Proof.
  destruct a as [|n s], b as [|m r]; simpl; split; try congruence; auto.
  - intros H. apply andb_true_iff in H. destruct H as [H1 H2].
    apply Nat.eqb_eq in H1. apply side_eqb_eq in H2. congruence.
  - intros H. inversion H; subst. apply andb_true_iff. split; [apply Nat.eqb_refl | apply side_eqb_eq; reflexivity].
Qed.

Lemma did_eqb_refl : forall a, did_eqb a a = true.
Proof. intros a. apply did_eqb_eq. reflexivity. Qed.

Lemma did_eqb_neq : forall a b, did_eqb a b = false <-> a <> b.
Proof.
  intros a b. destruct (did_eqb a b) eqn:E.
  - apply did_eqb_eq in E. split; [discriminate | contradiction].
  - split; auto. intros _ H. apply did_eqb_eq in H. congruence.
Qed.

Lemma reverse_ket_id_ket_id : forall n, reverse_ket_id (ket_id n) = Some n.
Proof. reflexivity. Qed.
Lemma reverse_bra_id_bra_id : forall n, reverse_bra_id (bra_id n) = Some n.
Proof. reflexivity. Qed.
Lemma ket_to_bra_id_ket_id : forall n, ket_to_bra_id (ket_id n) = Some (bra_id n).
Proof. reflexivity. Qed.
Lemma bra_to_ket_id_bra_id : forall n, bra_to_ket_id (bra_id n) = Some (ket_id n).
Proof. reflexivity. Qed.

(* the maps are defined exactly on the identifiers of their side, and are mutually inverse *)
Lemma reverse_ket_id_Some : forall d n, reverse_ket_id d = Some n <-> d = ket_id n.
Proof. intros [|m [|]] n; simpl; split; intros H; inversion H; reflexivity. Qed.
Lemma ket_to_bra_id_Some : forall d e, ket_to_bra_id d = Some e <-> exists n, d = ket_id n /\ e = bra_id n.
Proof.
  intros [|m [|]] e; unfold ket_to_bra_id; simpl; split; try discriminate.
  - intros [n [H _]]; discriminate.
  - intros H. inversion H. exists m. auto.
  - intros [n [H1 H2]]. inversion H1; subst. reflexivity.
  - intros [n [H _]]; discriminate.
Qed.
Lemma ket_bra_roundtrip : forall d e, ket_to_bra_id d = Some e -> bra_to_ket_id e = Some d.
Proof. intros d e H. apply ket_to_bra_id_Some in H. destruct H as [n [-> ->]]. reflexivity. Qed.

Lemma ket_id_inj : forall n m, ket_id n = ket_id m -> n = m.
Proof. intros n m H. inversion H. reflexivity. Qed.
Lemma bra_id_inj : forall n m, bra_id n = bra_id m -> n = m.
Proof. intros n m H. inversion H. reflexivity. Qed.
Lemma ket_bra_distinct : forall n m, ket_id n <> bra_id m.
Proof. discriminate. Qed.

Lemma div2_double : forall n, (2 * n) / 2 = n.
Proof. intros n. rewrite Nat.mul_comm. apply Nat.div_mul. discriminate. Qed.
Lemma div2_double_1 : forall n, (2 * n + 1) / 2 = n.
Proof.
  intros n. rewrite Nat.mul_comm, Nat.div_add_l by discriminate. simpl. lia.
Qed.

Lemma decode_code : forall d, decode (code d) = d.
Proof.
  intros [|n [|]]; [reflexivity| |]; unfold code.
  - replace (2 * n + 1) with (S (2 * n)) by lia. cbn [decode].
    rewrite Nat.even_mul. cbn [Nat.even orb]. rewrite div2_double. reflexivity.
  - replace (2 * n + 2) with (S (2 * n + 1)) by lia. cbn [decode].
    rewrite Nat.even_add, Nat.even_mul. cbn [Nat.even orb Bool.eqb]. rewrite div2_double_1. reflexivity.
Qed.

Lemma code_inj : forall a b, code a = code b -> a = b.
Proof. intros a b H. rewrite <- (decode_code a), <- (decode_code b), H. reflexivity. Qed.

(* ---- strings ------------------------------------------------------------------------ *)
Local Open Scope string_scope.

Lemma prefix_nil : forall s, prefix "" s = true.
Proof. destruct s; reflexivity. Qed.

Lemma prefix_app : forall p s, prefix p (p ++ s) = true.
Proof.
  induction p as [|c p IH]; intros s; [apply prefix_nil|].
  cbn [append prefix]. destruct (ascii_dec c c); [apply IH | congruence].
Qed.

Lemma prefix_refl : forall p, prefix p p = true.
Proof.
  induction p as [|c p IH]; [reflexivity|]. cbn [prefix]. destruct (ascii_dec c c); [exact IH | congruence].
Qed.

Lemma prefix_app_r : forall p s r, prefix p s = true -> prefix p (s ++ r) = true.
Proof.
  induction p as [|a p IH]; intros s r H; [apply prefix_nil|].
  destruct s as [|c s]; [discriminate|]. cbn [append prefix] in *.
  destruct (ascii_dec a c); [apply IH; exact H | discriminate].
Qed.

Lemma has_sub_nil : forall s, has_sub "" s = true.
Proof. destruct s; reflexivity. Qed.

Lemma has_sub_app : forall s p, has_sub p (s ++ p) = true.
Proof.
  induction s as [|c s IH]; intros p.
  - cbn [append]. destruct p as [|a p]; [reflexivity|]. cbn [has_sub]. rewrite prefix_refl. reflexivity.
  - cbn [append has_sub]. destruct (prefix p (String c (s ++ p))); auto.
Qed.

Lemma has_sub_app_r : forall p s r, has_sub p s = true -> has_sub p (s ++ r) = true.
Proof.
  intros p s. induction s as [|c s IH]; intros r H.
  - cbn [has_sub] in H. destruct p; [apply has_sub_nil | discriminate].
  - cbn [has_sub] in H. cbn [append has_sub].
    destruct (prefix p (String c s)) eqn:E.
    + change (String c (s ++ r)) with (String c s ++ r). rewrite (prefix_app_r _ _ _ E). reflexivity.
    + destruct (prefix p (String c (s ++ r))); auto.
Qed.

Lemma length_app : forall a b, length (a ++ b) = length a + length b.
Proof. induction a; intros; simpl; auto. Qed.

Lemma substring_app_l : forall a b, substring 0 (length a) (a ++ b) = a.
Proof.
  induction a as [|c a IH]; intros b; simpl.
  - destruct b; reflexivity.
  - rewrite IH. reflexivity.
Qed.

Lemma substring_app_r : forall a b, substring (length a) (length b) (a ++ b) = b.
Proof.
  induction a as [|c a IH]; intros b; simpl; auto.
  induction b as [|c b IHb]; simpl; auto. f_equal. exact IHb.
Qed.

(* reverse_ket_id(ket_id(n)) = n for every name n and every non-empty suffix *)
Lemma reverse_id_s_app : forall suf s, suf <> "" -> reverse_id_s suf (s ++ suf) = Some s.
Proof.
  intros suf s Hne. unfold reverse_id_s. rewrite has_sub_app.
  destruct (Nat.eqb (length suf) 0) eqn:E.
  - apply Nat.eqb_eq in E. destruct suf; [congruence | discriminate].
  - rewrite length_app. replace (length s + length suf - length suf) with (length s) by lia.
    rewrite substring_app_l. reflexivity.
Qed.

Lemma ket_to_bra_id_s_ket : forall ksuf bsuf s, ksuf <> "" ->
  ket_to_bra_id_s ksuf bsuf (ket_id_s ksuf s) = Some (bra_id_s bsuf s).
Proof. intros. unfold ket_to_bra_id_s, ket_id_s. rewrite reverse_id_s_app; auto. Qed.

Lemma bra_to_ket_id_s_bra : forall ksuf bsuf s, bsuf <> "" ->
  bra_to_ket_id_s ksuf bsuf (bra_id_s bsuf s) = Some (ket_id_s ksuf s).
Proof. intros. unfold bra_to_ket_id_s, bra_id_s. rewrite reverse_id_s_app; auto. Qed.

Lemma ends_with_app : forall suf s, ends_with suf (s ++ suf) = true.
Proof.
  intros suf s. unfold ends_with. rewrite length_app.
  replace (length s + length suf - length suf) with (length s) by lia.
  rewrite substring_app_r, String.eqb_refl.
  apply andb_true_iff. split; auto. apply Nat.leb_le. lia.
Qed.

Lemma app_eq_len : forall a c b d, length a = length c -> a ++ b = c ++ d -> a = c /\ b = d.
Proof.
  induction a as [|x a IH]; intros [|y c] b d Hl H; simpl in *; try discriminate; auto.
  inversion H; subst. destruct (IH c b d) as [-> ->]; auto.
Qed.

Lemma app_inj_r : forall a c suf, a ++ suf = c ++ suf -> a = c.
Proof.
  intros a c suf H. assert (length a = length c).
  { apply (f_equal length) in H. rewrite !length_app in H. lia. }
  destruct (app_eq_len a c suf suf); auto.
Qed.

(* ket and bra names never collide when the two suffixes have equal length and differ *)
Lemma ket_bra_distinct_s : forall ksuf bsuf a c, length ksuf = length bsuf -> ksuf <> bsuf ->
  ket_id_s ksuf a <> bra_id_s bsuf c.
Proof.
  intros ksuf bsuf a c Hl Hne H. unfold ket_id_s, bra_id_s in H.
  assert (length a = length c).
  { apply (f_equal length) in H. rewrite !length_app in H. lia. }
  destruct (app_eq_len a c ksuf bsuf); auto.
Qed.

Lemma name_of_inj : forall root_name ksuf bsuf names,
  (forall n m, names n = names m -> n = m) ->
  length ksuf = length bsuf -> ksuf <> bsuf ->
  (forall n, root_name <> names n ++ ksuf) -> (forall n, root_name <> names n ++ bsuf) ->
  forall d e, name_of root_name ksuf bsuf names d = name_of root_name ksuf bsuf names e -> d = e.
Proof.
  intros rn ksuf bsuf names Hinj Hl Hne Hk Hb [|n [|]] [|m [|]] H; simpl in H; auto;
    unfold ket_id_s, bra_id_s in H.
  - exfalso. eapply Hk; eauto.
  - exfalso. eapply Hb; eauto.
  - exfalso. eapply Hk; eauto.
  - apply app_inj_r in H. f_equal. auto.
  - exfalso. eapply (ket_bra_distinct_s ksuf bsuf); eauto.
  - exfalso. eapply Hb; eauto.
  - exfalso. eapply (ket_bra_distinct_s ksuf bsuf); eauto.
  - apply app_inj_r in H. f_equal. auto.
Qed.

(* the string functions realise the abstract maps on the names of the network's nodes *)
Lemma reverse_ket_id_name : forall rn ksuf bsuf names n, ksuf <> "" ->
  reverse_id_s ksuf (name_of rn ksuf bsuf names (ket_id n)) = option_map names (reverse_ket_id (ket_id n)).
Proof. intros. simpl. unfold ket_id_s. rewrite reverse_id_s_app; auto. Qed.

Lemma ket_to_bra_id_name : forall rn ksuf bsuf names n, ksuf <> "" ->
  ket_to_bra_id_s ksuf bsuf (name_of rn ksuf bsuf names (ket_id n)) =
  option_map (name_of rn ksuf bsuf names) (ket_to_bra_id (ket_id n)).
Proof. intros. simpl. apply ket_to_bra_id_s_ket; auto. Qed.

(* the filter of ttndo_contraction_order keeps every ket name ... *)
Lemma is_ket_s_ket : forall ksuf s, is_ket_s ksuf (ket_id_s ksuf s) = true.
Proof. intros. apply has_sub_app. Qed.
(* ... and also every name that merely contains the suffix: the bra image of such a node *)
Lemma is_ket_s_contains : forall ksuf bsuf s, has_sub ksuf s = true -> is_ket_s ksuf (bra_id_s bsuf s) = true.
Proof. intros. unfold is_ket_s, bra_id_s. apply has_sub_app_r. assumption. Qed.

Local Close Scope string_scope.

(* ================================================================================== *)
(* C. tensor_product_expectation_value                                                *)
(* ================================================================================== *)
Section TPProofs.
  Variables (St Op : Type) (absorb : St -> did -> Op -> St).

  Definition replay (log : list (did * Op)) (s : St) : St :=
    fold_left (fun s a => absorb s (fst a) (snd a)) log s.

  Lemma fold_left_const_last : forall (A B : Type) (g : B -> A) (l : list B) (a0 : A) (d : B),
    l <> [] -> fold_left (fun _ b => g b) l a0 = g (last l d).
  Proof.
    intros A B g l. induction l as [|x l IH]; intros a0 d H; [congruence|].
    destruct l as [|y l]; [reflexivity|].
    change (fold_left (fun _ b => g b) (y :: l) (g x) = g (last (y :: l) d)).
    apply IH. discriminate.
  Qed.

  (* repaired control flow: the trace of the network with every factor absorbed, in order,
     into the ket image of its node; the empty product is the trace of the network itself *)
  Lemma tp_fixed_generic : forall self factors,
    tp_expectation St Op absorb false false self factors =
    (FTrace, replay (map (fun f => (ket_id (fst f), snd f)) factors) self).
  Proof.
    intros self factors. unfold tp_expectation, replay.
    destruct factors as [|f fs]; [reflexivity|]. f_equal.
    generalize (f :: fs) self. clear. induction l as [|x l IH]; intros s; simpl; auto.
  Qed.

  (* the loop defect: only the last factor reaches the traced network *)
  Lemma tp_loop_bug_generic : forall be self factors d, factors <> [] ->
    tp_expectation St Op absorb true be self factors =
    (FTrace, absorb self (ket_id (fst (last factors d))) (snd (last factors d))).
  Proof.
    intros be self factors d H. unfold tp_expectation. destruct factors as [|f fs]; [congruence|]. f_equal.
    apply (fold_left_const_last St (nat * Op) (fun b => absorb self (ket_id (fst b)) (snd b))). discriminate.
  Qed.

  Lemma tp_empty_generic : forall bl be self,
    tp_expectation St Op absorb bl be self [] = (if be then FScalarProduct else FTrace, self).
  Proof. reflexivity. Qed.
End TPProofs.

Lemma replay_log : forall (Op : Type) (log s : list (did * Op)), replay _ Op log_absorb log s = s ++ log.
Proof.
  intros Op log. unfold replay. induction log as [|a log IH]; intros s; cbn [fold_left].
  - rewrite app_nil_r. reflexivity.
  - rewrite IH. unfold log_absorb. rewrite <- app_assoc. destruct a. reflexivity.
Qed.

(* with both defects repaired every factor is applied exactly once, to the ket image of its
   node, in the order of the product; the empty product takes the trace branch *)
Theorem tp_expectation_fixed : forall (Op : Type) (factors : list (nat * Op)),
  tp_log false false factors = (FTrace, map (fun f => (ket_id (fst f), snd f)) factors) /\
  (forall (St : Type) (absorb : St -> did -> Op -> St) (self : St),
     tp_expectation St Op absorb false false self factors =
     (FTrace, replay St Op absorb (snd (tp_log false false factors)) self)).
Proof.
  intros Op factors.
  assert (E : tp_log false false factors = (FTrace, map (fun f => (ket_id (fst f), snd f)) factors)).
  { unfold tp_log. rewrite tp_fixed_generic, replay_log. reflexivity. }
  split; [exact E|]. intros St absorb self. rewrite E. apply tp_fixed_generic.
Qed.

(* the defects, universally: with the copy inside the loop a product of one or more factors
   applies only its last factor; with the empty-product defect the trace branch is not taken *)
Theorem tp_expectation_bug_general : forall (Op : Type) (be : bool) (factors : list (nat * Op)) (d : nat * Op),
  factors <> [] ->
  tp_log true be factors = (FTrace, [(ket_id (fst (last factors d)), snd (last factors d))]) /\
  fst (tp_log (Op := Op) be true []) = FScalarProduct.
Proof.
  intros Op be factors d H. split; [|reflexivity].
  unfold tp_log. rewrite (tp_loop_bug_generic _ _ _ be [] factors d H). reflexivity.
Qed.

(* concrete witnesses *)
Theorem tp_expectation_refuted :
  (exists factors : list (nat * nat),
     List.length factors = 2 /\
     tp_log true false factors <> tp_log false false factors /\
     snd (tp_log true false factors) = [(ket_id (fst (last factors (0, 0))), snd (last factors (0, 0)))]) /\
  fst (tp_log (Op := nat) false true []) <> FTrace.
Proof.
  split.
  - exists [(0, 10); (1, 11)]. vm_compute. repeat split; congruence.
  - vm_compute. congruence.
Qed.

(* ================================================================================== *)
(* B. the doubled tree                                                                *)
(* ================================================================================== *)
Definition both (n : nat) : list did := [ket_id n; bra_id n].

Lemma flat_map_flat_map : forall {A B C} (f : A -> list B) (g : B -> list C) l,
  flat_map g (flat_map f l) = flat_map (fun a => flat_map g (f a)) l.
Proof.
  intros A B C f g l. induction l as [|a l IH]; simpl; auto. rewrite flat_map_app, IH. reflexivity.
Qed.

Lemma map_flat_map : forall {A B C} (f : A -> list B) (g : B -> C) l,
  map g (flat_map f l) = flat_map (fun a => map g (f a)) l.
Proof.
  intros A B C f g l. induction l as [|a l IH]; simpl; auto. rewrite map_app, IH. reflexivity.
Qed.

(* node set and dictionary order *)
Lemma sub_nodes_ids : forall bond phys k t par,
  map dn_id (sub_nodes bond phys k par t) = flat_map both (ids t).
Proof.
  intros bond phys k t. induction t as [i cs IH] using rtree_ind2. intros par.
  cbn [sub_nodes ids map flat_map both app dn_id sym_node]. unfold ket_id, bra_id. do 2 f_equal.
  rewrite map_flat_map, flat_map_flat_map. apply flat_map_ext_in.
  intros c Hc. rewrite Forall_forall in IH. apply IH. exact Hc.
Qed.

Lemma doubled_ids : forall bond phys k t,
  map dn_id (doubled bond phys k t) = DRoot :: flat_map both (ids t).
Proof. intros. unfold doubled. cbn [map root_node dn_id]. rewrite sub_nodes_ids. reflexivity. Qed.

Lemma in_both : forall d l, In d (flat_map both l) <-> exists n s, d = DN n s /\ In n l.
Proof.
  intros d l. rewrite in_flat_map. split.
  - intros [n [Hn [H|[H|[]]]]]; subst; [exists n, Ket | exists n, Bra]; split; auto.
  - intros [n [[|] [-> Hn]]]; exists n; split; auto; simpl; auto.
Qed.

Lemma both_NoDup : forall l, NoDup l -> NoDup (flat_map both l).
Proof.
  induction l as [|n l IH]; intros H; simpl; [constructor|].
  inversion H; subst. constructor; [|constructor].
  - intros [E|Hin]; [discriminate|]. apply in_both in Hin. destruct Hin as [m [s [E Hm]]]. inversion E; subst. contradiction.
  - intros Hin. apply in_both in Hin. destruct Hin as [m [s [E Hm]]]. inversion E; subst. contradiction.
  - auto.
Qed.

Lemma doubled_NoDup : forall bond phys k t, NoDup (ids t) -> NoDup (map dn_id (doubled bond phys k t)).
Proof.
  intros. rewrite doubled_ids. constructor.
  - intros Hin. apply in_both in Hin. destruct Hin as [n [s [E _]]]. discriminate.
  - apply both_NoDup. assumption.
Qed.

(* lookups *)
Lemma find_node_app : forall d l1 l2,
  find_node d (l1 ++ l2) = match find_node d l1 with Some r => Some r | None => find_node d l2 end.
Proof. intros d l1 l2. induction l1 as [|r l1 IH]; simpl; auto. destruct (did_eqb d (dn_id r)); auto. Qed.

Lemma find_node_None : forall d l, ~ In d (map dn_id l) -> find_node d l = None.
Proof.
  intros d l. induction l as [|r l IH]; intros H; simpl; auto.
  destruct (did_eqb d (dn_id r)) eqn:E.
  - apply did_eqb_eq in E. exfalso. apply H. simpl. auto.
  - apply IH. intro Hin. apply H. simpl. auto.
Qed.

(* lookups in the original tree: a node below child c is looked up in c *)
Lemma subtree_in_child : forall i cs c x, NoDup (ids (RNode i cs)) -> In c cs -> In x (ids c) ->
  subtree x (RNode i cs) = subtree x c.
Proof.
  intros i cs c x Hw Hc Hx. destruct (proj1 (subtree_Some_iff x c) Hx) as [s Hs].
  rewrite Hs. destruct (subtree_sound _ _ _ Hs) as [Hr Hsub]. subst x.
  apply subtree_complete; auto. eapply sub_child; eauto.
Qed.

Lemma children_ids_in_child : forall i cs c x, NoDup (ids (RNode i cs)) -> In c cs -> In x (ids c) ->
  children_ids (RNode i cs) x = children_ids c x.
Proof. intros. unfold children_ids. rewrite (subtree_in_child i cs c x); auto. Qed.

Lemma children_ids_root : forall i cs, children_ids (RNode i cs) i = map rid cs.
Proof. intros. unfold children_ids. simpl. rewrite Nat.eqb_refl. reflexivity. Qed.

Lemma parent_of_in_child : forall i cs c x, NoDup (ids (RNode i cs)) -> In c cs -> In x (ids c) ->
  parent_of x (RNode i cs) = match parent_of x c with Some p => Some p | None => Some i end.
Proof.
  intros i cs c x Hw Hc Hx. destruct (parent_of x c) as [p|] eqn:E.
  - apply parent_of_complete; auto. eapply edges_child; eauto. apply parent_of_sound. exact E.
  - assert (x = rid c).
    { destruct (Nat.eq_dec x (rid c)); auto. exfalso.
      destruct (parent_of_nonroot c x Hx n) as [p Hp].
      rewrite (parent_of_complete c p x) in E; [discriminate | eapply wf_child; eauto | exact Hp]. }
    subst x. apply parent_of_complete; auto. apply edges_root. exact Hc.
Qed.

(* the record of the image of node n on side s *)
Definition image_node (bond phys : nat -> nat) (k : nat) (par : option nat) (t : rtree) (n : nat) (s : side) : dnode :=
  let p := match parent_of n t with Some p => Some p | None => par end in
  {| dn_id := DN n s;
     dn_parent := Some (par_id s p);
     dn_children := map (fun c => DN c s) (children_ids t n);
     dn_shape := (match p with None => k | Some _ => bond n end) :: map bond (children_ids t n) ++ [phys n] |}.

Lemma find_sub_nodes : forall bond phys k t par n s,
  NoDup (ids t) -> In n (ids t) ->
  find_node (DN n s) (sub_nodes bond phys k par t) = Some (image_node bond phys k par t n s).
Proof.
  intros bond phys k t. induction t as [i cs IH] using rtree_ind2. intros par n s Hw Hn.
  rewrite Forall_forall in IH.
  destruct (Nat.eq_dec n i) as [->|Hne].
  - (* the node itself: first (ket) or second (bra) record *)
    pose proof (parent_of_root (RNode i cs) Hw) as Hp. cbn [rid] in Hp.
    unfold image_node. rewrite Hp, children_ids_root, !map_map.
    cbn [sub_nodes]. destruct s.
    + cbn [find_node sym_node dn_id did_eqb side_eqb]. rewrite Nat.eqb_refl. reflexivity.
    + cbn [find_node sym_node dn_id did_eqb side_eqb]. rewrite Nat.eqb_refl. cbn [andb]. reflexivity.
  - simpl in Hn. destruct Hn as [Hn|Hn]; [congruence|].
    apply in_flat_map in Hn. destruct Hn as [c [Hc Hn]].
    cbn [sub_nodes find_node sym_node dn_id did_eqb].
    replace (Nat.eqb n i) with false by (symmetry; apply Nat.eqb_neq; exact Hne). cbn [andb].
    destruct (wf_inv _ _ Hw) as [_ [Hnd _]].
    destruct (in_split _ _ Hc) as [l1 [l2 E]].
    assert (Hl1 : find_node (DN n s) (flat_map (sub_nodes bond phys k (Some i)) l1) = None).
    { apply find_node_None. rewrite map_flat_map.
      rewrite (flat_map_ext_in _ (fun c' => flat_map both (ids c'))) by (intros; apply sub_nodes_ids).
      rewrite <- flat_map_flat_map. intro Hin. apply in_both in Hin. destruct Hin as [m [r [Em Hm]]].
      inversion Em; subst m r. rewrite E in Hnd. apply flat_map_NoDup_split in Hnd.
      destruct Hnd as [_ [_ Hd]]. apply (Hd n Hn). rewrite flat_map_app. apply in_or_app. left. exact Hm. }
    rewrite E at 1. rewrite flat_map_app, find_node_app, Hl1. cbn [flat_map]. rewrite find_node_app.
    rewrite (IH c Hc (Some i) n s (wf_child _ _ _ Hw Hc) Hn).
    unfold image_node. rewrite (parent_of_in_child i cs c n Hw Hc Hn), (children_ids_in_child i cs c n Hw Hc Hn).
    destruct (parent_of n c); reflexivity.
Qed.

(* the structure theorem *)
Theorem doubled_tree_structure : forall bond phys k t, NoDup (ids t) ->
  (* node set, in dictionary order: the root, then ket and bra image of every node in pre-order *)
  map dn_id (doubled bond phys k t) = DRoot :: flat_map (fun n => [ket_id n; bra_id n]) (ids t) /\
  (* identifiers stay unique *)
  NoDup (map dn_id (doubled bond phys k t)) /\
  (* the artificial root: no parent, exactly the children (ket root, bra root), shape (k, k, 1) *)
  find_node DRoot (doubled bond phys k t) =
    Some {| dn_id := DRoot; dn_parent := None; dn_children := [ket_id (rid t); bra_id (rid t)]; dn_shape := [k; k; 1] |} /\
  (* the ket and the bra branch are images of the state's tree: parent and ordered children of
     the image are the images of parent and ordered children; the state's root hangs below the
     artificial root; legs are (parent, children, physical), the root's new leg has dimension k *)
  (forall n s, In n (ids t) ->
     find_node (DN n s) (doubled bond phys k t) =
     Some {| dn_id := DN n s;
             dn_parent := Some (match parent_of n t with Some p => DN p s | None => DRoot end);
             dn_children := map (fun c => DN c s) (children_ids t n);
             dn_shape := (match parent_of n t with Some _ => bond n | None => k end)
                         :: map bond (children_ids t n) ++ [phys n] |}).
Proof.
  intros bond phys k t Hw. split; [apply doubled_ids|]. split; [apply doubled_NoDup; exact Hw|]. split; [reflexivity|].
  intros n s Hn. unfold doubled. cbn [find_node root_node dn_id did_eqb].
  rewrite (find_sub_nodes bond phys k t None n s Hw Hn). unfold image_node, par_id.
  destruct (parent_of n t); reflexivity.
Qed.

(* ---- contraction order ------------------------------------------------------------------ *)
Lemma filter_map_ket : forall l, filter is_ket (map ket_id l) = map ket_id l.
Proof. induction l; simpl; congruence. Qed.
Lemma filter_map_bra : forall l, filter is_ket (map bra_id l) = [].
Proof. induction l; simpl; congruence. Qed.

Theorem contraction_order_spec : forall t, contraction_order t = map ket_id (postorder t).
Proof.
  intros t. unfold contraction_order, linearise_doubled.
  rewrite !filter_app, filter_map_ket, filter_map_bra. simpl. rewrite app_nil_r. reflexivity.
Qed.

Lemma postorder_perm_ids : forall t x, In x (postorder t) <-> In x (ids t).
Proof.
  induction t as [i cs IH] using rtree_ind2. intros x. rewrite Forall_forall in IH. simpl.
  rewrite in_app_iff, !in_flat_map. simpl. split.
  - intros [[c [Hc Hx]]|[->|[]]]; auto. right. exists c. split; auto. apply IH; auto.
  - intros [->|[c [Hc Hx]]]; auto. left. exists c. split; auto. apply IH; auto.
Qed.

(* a filter on the names that keeps every ket name, no bra name and not the root selects
   exactly the ket identifiers in post-order *)
Lemma contraction_order_s_gen : forall b root_name ksuf bsuf names t,
  (forall s, ket_filter_s b ksuf (ket_id_s ksuf s) = true) ->
  ket_filter_s b ksuf root_name = false ->
  (forall n, In n (ids t) -> ket_filter_s b ksuf (bra_id_s bsuf (names n)) = false) ->
  contraction_order_s b root_name ksuf bsuf names t = map ket_id (postorder t).
Proof.
  intros b rn ksuf bsuf names t Hk Hr Hb. unfold contraction_order_s, linearise_doubled.
  rewrite !filter_app.
  assert (E1 : forall l, filter (fun d => ket_filter_s b ksuf (name_of rn ksuf bsuf names d)) (map ket_id l) = map ket_id l).
  { induction l as [|n l IH]; simpl; auto. rewrite Hk, IH. reflexivity. }
  assert (E2 : forall l, (forall n, In n l -> In n (ids t)) ->
               filter (fun d => ket_filter_s b ksuf (name_of rn ksuf bsuf names d)) (map bra_id l) = []).
  { induction l as [|n l IH]; intros Hl; simpl; auto. rewrite (Hb n) by (apply Hl; simpl; auto).
    apply IH. intros m Hm. apply Hl. simpl. auto. }
  rewrite E1, E2 by (intros n Hn; apply postorder_perm_ids; exact Hn).
  simpl. rewrite Hr. rewrite app_nil_r. reflexivity.
Qed.

(* the code as it stands: correct when neither the root's name nor any bra name contains the
   ket suffix (in particular when no node name does, for the default suffixes) *)
Theorem contraction_order_s_ok : forall root_name ksuf bsuf names t,
  is_ket_s ksuf root_name = false ->
  (forall n, In n (ids t) -> is_ket_s ksuf (bra_id_s bsuf (names n)) = false) ->
  contraction_order_s true root_name ksuf bsuf names t = map ket_id (postorder t).
Proof.
  intros. apply contraction_order_s_gen; auto. intros s. apply is_ket_s_ket.
Qed.

Local Open Scope string_scope.
Lemma ends_with_other : forall ksuf bsuf s, length ksuf = length bsuf -> ksuf <> bsuf ->
  ends_with ksuf (s ++ bsuf) = false.
Proof.
  intros ksuf bsuf s Hl Hne. unfold ends_with. rewrite length_app, Hl.
  replace (length s + length bsuf - length bsuf) with (length s) by lia.
  rewrite substring_app_r. apply andb_false_iff. right. apply String.eqb_neq. congruence.
Qed.
Local Close Scope string_scope.

(* the repaired filter: correct for all node names, whenever the two suffixes have equal length
   and differ and the root's name does not end with the ket suffix *)
Theorem contraction_order_s_fixed : forall root_name ksuf bsuf names t,
  String.length ksuf = String.length bsuf -> ksuf <> bsuf ->
  ends_with ksuf root_name = false ->
  contraction_order_s false root_name ksuf bsuf names t = map ket_id (postorder t).
Proof.
  intros rn ksuf bsuf names t Hl Hne Hr. apply contraction_order_s_gen; auto.
  - intros s. apply ends_with_app.
  - intros n _. apply ends_with_other; auto.
Qed.

(* ---- the calls ------------------------------------------------------------------------------ *)
(* position of a child in its parent's children list *)
Fixpoint pos (x : nat) (l : list nat) : nat :=
  match l with [] => 0 | y :: r => if Nat.eqb x y then 0 else S (pos x r) end.

Lemma flat_mapi_map : forall {A B C} (f : nat -> A -> list B) (g : B -> C) j l,
  map g (flat_mapi f j l) = flat_mapi (fun j a => map g (f j a)) j l.
Proof.
  intros A B C f g j l. revert j. induction l as [|a l IH]; intros j; cbn [flat_mapi map]; auto.
  rewrite map_app, IH. reflexivity.
Qed.

Lemma flat_mapi_noindex : forall {A B} (f : A -> list B) j l, flat_mapi (fun _ a => f a) j l = flat_map f l.
Proof. intros A B f j l. revert j. induction l as [|a l IH]; intros j; cbn [flat_mapi flat_map]; auto. rewrite IH. reflexivity. Qed.

Lemma flat_mapi_ext_in : forall {A B} (f g : nat -> A -> list B) j l,
  (forall j a, In a l -> f j a = g j a) -> flat_mapi f j l = flat_mapi g j l.
Proof.
  intros A B f g j l. revert j. induction l as [|a l IH]; intros j H; cbn [flat_mapi]; auto.
  rewrite (H j a), IH; auto; simpl; auto. intros. apply H. simpl. auto.
Qed.

Lemma in_flat_mapi : forall {A B} (f : nat -> A -> list B) j l b,
  In b (flat_mapi f j l) -> exists j' a, In a l /\ In b (f j' a).
Proof.
  intros A B f j l. revert j. induction l as [|a l IH]; intros j b H; cbn [flat_mapi] in H; [destruct H|].
  apply in_app_or in H. destruct H as [H|H].
  - exists j, a. simpl. auto.
  - destruct (IH _ _ H) as [j' [a' [Ha Hb]]]. exists j', a'. simpl. auto.
Qed.

Lemma filter_nil : forall {A} (f : A -> bool) l, (forall x, In x l -> f x = false) -> filter f l = [].
Proof.
  intros A f l. induction l as [|x l IH]; intros H; simpl; auto.
  rewrite (H x) by (simpl; auto). apply IH. intros. apply H. simpl. auto.
Qed.

Lemma rec_add_children_children : forall bond phys b t,
  map sc_child (rec_add_children bond phys b t) = flat_map ids (rchildren t).
Proof.
  intros bond phys b t. revert b. induction t as [i cs IH] using rtree_ind2. intros b.
  rewrite Forall_forall in IH. cbn [rec_add_children rchildren]. rewrite flat_mapi_map.
  rewrite (flat_mapi_ext_in _ (fun _ c => ids c)).
  - apply flat_mapi_noindex.
  - intros j c Hc. cbn [map child_call sc_child]. rewrite (IH c Hc false). destruct c. reflexivity.
Qed.

(* every node of the state is added by exactly one call, in pre-order *)
Theorem calls_children : forall bond phys k t,
  map sc_child (from_ttns_calls bond phys k t) = ids t.
Proof.
  intros. unfold from_ttns_calls. cbn [map sc_child]. rewrite rec_add_children_children. destruct t. reflexivity.
Qed.

(* legs: the child is attached with its leg 0, on both sides to the same leg of the parent's image *)
Lemma rec_add_children_legs : forall bond phys b t c,
  In c (rec_add_children bond phys b t) ->
  sc_child_leg c = 0 /\ sc_parent_leg c = sc_parent_bra_leg c /\ 1 <= sc_parent_leg c /\
  exists p, sc_parent c = Some p /\ In p (ids t).
Proof.
  intros bond phys b t. revert b. induction t as [i cs IH] using rtree_ind2. intros b c H.
  rewrite Forall_forall in IH. cbn [rec_add_children] in H.
  apply in_flat_mapi in H. destruct H as [j [x [Hx [H|H]]]].
  - subst c. cbn. repeat split; [destruct b; lia|]. exists i. auto.
  - destruct (IH x Hx false c H) as [H1 [H2 [H3 [p [Hp Hin]]]]]. repeat split; auto.
    exists p. split; auto. simpl. right. apply in_flat_map. exists x. auto.
Qed.

(* child number j (from 0) of node i goes to leg j + 1 of the images of i: the calls whose
   parent is i, in order, are exactly (child, position + 1) *)
Lemma rec_add_children_direct : forall bond phys b i cs,
  ~ In i (flat_map ids cs) ->
  map (fun c => (sc_child c, sc_parent_leg c))
      (filter (fun c => match sc_parent c with Some p => Nat.eqb p i | None => false end)
              (rec_add_children bond phys b (RNode i cs))) =
  combine (map rid cs) (seq 1 (List.length cs)).
Proof.
  intros bond phys b i cs Hni. cbn [rec_add_children].
  assert (G : forall l j, (forall c, In c l -> ~ In i (ids c)) ->
    map (fun c => (sc_child c, sc_parent_leg c))
      (filter (fun c => match sc_parent c with Some p => Nat.eqb p i | None => false end)
         (flat_mapi (fun j c => child_call bond phys b i j c :: rec_add_children bond phys false c) j l)) =
    combine (map rid l) (seq (S j) (List.length l))).
  { induction l as [|c r IHl]; intros j Hl; [reflexivity|].
    cbn [flat_mapi app filter child_call sc_parent]. rewrite Nat.eqb_refl, filter_app.
    rewrite (filter_nil _ (rec_add_children bond phys false c)).
    - cbn [app map sc_child sc_parent_leg List.length seq combine]. f_equal; [f_equal; destruct b; simpl; lia|].
      apply IHl. intros x Hx. apply Hl. simpl. auto.
    - intros x Hx. destruct (rec_add_children_legs _ _ _ _ _ Hx) as [_ [_ [_ [p [Hp Hin]]]]].
      rewrite Hp. apply Nat.eqb_neq. intros ->. apply (Hl c); simpl; auto. }
  apply G. intros c Hc Hin. apply Hni. apply in_flat_map. exists c. auto.
Qed.

(* the call that attaches the state's root: leg 0 of the padded tensor, ket to leg 0 and bra
   to leg 1 of the artificial root *)
Lemma root_call : forall bond phys k t,
  hd_error (from_ttns_calls bond phys k t) =
  Some {| sc_child := rid t; sc_shape := padded_lead k :: ttns_shape bond phys true t; sc_child_leg := 0;
          sc_parent := None; sc_parent_leg := 0; sc_parent_bra_leg := 1 |}.
Proof. reflexivity. Qed.

(* ---- padded legs and the trivial root ---------------------------------------------------------- *)
Lemma padded_lead_eq : forall k, 1 <= k -> padded_lead k = k.
Proof. intros. unfold padded_lead. lia. Qed.

Lemma pad_pattern_length : forall k, 1 <= k -> List.length (pad_pattern k) = k.
Proof. intros. unfold pad_pattern. cbn [List.length]. rewrite repeat_length. lia. Qed.

Lemma pad_pattern_nth : forall k a, nth a (pad_pattern k) false = Nat.eqb a 0.
Proof.
  intros k [|a]; [reflexivity|]. unfold pad_pattern. cbn [nth Nat.eqb].
  generalize (k - 1) as m. revert a. induction a; destruct m; simpl; auto.
Qed.

Lemma list_sum_zero : forall {A} (f : A -> nat) l, (forall x, In x l -> f x = 0) -> list_sum (map f l) = 0.
Proof.
  intros A f l. induction l as [|x l IH]; intros H; simpl; auto.
  rewrite (H x), IH; auto; simpl; auto. intros y Hy. apply H. simpl. auto.
Qed.

Lemma list_sum_only_zero : forall (f : nat -> nat) k, (forall b, 1 <= b -> f b = 0) ->
  list_sum (map f (seq 0 (S k))) = f 0.
Proof.
  intros f k H. cbn [seq map].
  replace (list_sum (f 0 :: map f (seq 1 k))) with (f 0 + list_sum (map f (seq 1 k))) by reflexivity.
  rewrite list_sum_zero; [lia|].
  intros x Hx. apply in_seq in Hx. apply H. lia.
Qed.

(* whatever the bond dimension of the artificial root, it contributes the factor 1 *)
Theorem root_weight_one : forall k, 1 <= k -> root_weight k = 1.
Proof.
  intros k Hk. unfold root_weight. destruct k as [|k]; [lia|].
  rewrite list_sum_only_zero.
  - rewrite list_sum_only_zero; [reflexivity|].
    intros b Hb. rewrite !pad_pattern_nth. destruct b; [lia|]. cbn. lia.
  - intros a Ha. apply list_sum_zero. intros b _. rewrite !pad_pattern_nth. destruct a; [lia|]. cbn. lia.
Qed.

Lemma eye_rows_spec : forall k a b, a < k -> b < k -> nth b (nth a (eye_rows k) []) 0 = if Nat.eqb a b then 1 else 0.
Proof.
  intros k a b Ha Hb. unfold eye_rows.
  rewrite (nth_indep _ [] (map (eye_entry 0) (seq 0 k))) by (rewrite map_length, seq_length; exact Ha).
  rewrite (map_nth (fun a => map (eye_entry a) (seq 0 k)) (seq 0 k) 0 a), seq_nth by exact Ha.
  rewrite (nth_indep _ 0 (eye_entry (0 + a) 0)) by (rewrite map_length, seq_length; exact Hb).
  rewrite (map_nth (eye_entry (0 + a)) (seq 0 k) 0 b), seq_nth by exact Hb. reflexivity.
Qed.

(* ================================================================================== *)
(* D. soundness of the per-instance checker                                           *)
(* ================================================================================== *)
Lemma list_eqb_eq : forall a b, Store.list_eqb a b = true -> a = b.
Proof.
  unfold Store.list_eqb. induction a as [|x a IH]; intros [|y b] H; simpl in H; try discriminate; auto.
  apply andb_true_iff in H. destruct H as [Hl H]. simpl in H. apply andb_true_iff in H. destruct H as [Hx H].
  apply Nat.eqb_eq in Hx. subst y. f_equal. apply IH. apply andb_true_iff. split; assumption.
Qed.

Lemma opt_nat_eqb_eq : forall a b, opt_nat_eqb a b = true -> a = b.
Proof. intros [x|] [y|] H; simpl in H; try discriminate; auto. apply Nat.eqb_eq in H. congruence. Qed.

Lemma rec5_eqb_eq : forall a b, rec5_eqb a b = true -> a = b.
Proof.
  intros [[[[i1 p1] c1] q1] s1] [[[[i2 p2] c2] q2] s2] H. unfold rec5_eqb in H.
  repeat (apply andb_true_iff in H; destruct H as [H ?]).
  apply Nat.eqb_eq in H. apply opt_nat_eqb_eq in H3.
  repeat match goal with X : Store.list_eqb _ _ = true |- _ => apply list_eqb_eq in X end.
  congruence.
Qed.

Lemma all2_eq : forall {A} (f : A -> A -> bool), (forall a b, f a b = true -> a = b) ->
  forall l1 l2, all2 f l1 l2 = true -> l1 = l2.
Proof.
  intros A f Hf. induction l1 as [|a l1 IH]; intros [|b l2] H; simpl in H; try discriminate; auto.
  apply andb_true_iff in H. destruct H as [H1 H2]. f_equal; auto.
Qed.

Theorem store_check_sound : forall bond phys k t, store_check bond phys k t = true ->
  Forall (fun b => b = true) (snd (from_ttns_store bond phys k t)) /\
  store_nodes (fst (from_ttns_store bond phys k t)) = doubled_coded bond phys k t /\
  Store.root (fst (from_ttns_store bond phys k t)) = Some (code DRoot) /\
  map fst (Store.tensors (fst (from_ttns_store bond phys k t))) = map fst (Store.nodes (fst (from_ttns_store bond phys k t))).
Proof.
  intros bond phys k t H. unfold store_check in H.
  repeat (apply andb_true_iff in H; destruct H as [H ?]).
  repeat split.
  - apply Forall_forall. intros b Hb. rewrite forallb_forall in H. apply H. exact Hb.
  - apply (all2_eq rec5_eqb rec5_eqb_eq). assumption.
  - apply opt_nat_eqb_eq. assumption.
  - apply list_eqb_eq. assumption.
Qed.
