(* Property C04 — scalar products, norms, expectation values, as_matrix.  Statements only.
   Model: Contr/Blocks.v over TTN/Store.v (tied to /repo by value and checked per instance by
   harness/props/c04.py). *)
From Coq Require Import List Arith Permutation.
From PTN Require Import TTN.Store Contr.Blocks Contr.BlocksProofs Contr.Closed Contr.ClosedProofs.
From PTN Require Import TTN.Inv Wire.Sem Wire.SemProofs TEBD.Trotter Contr.TensorProd Contr.TensorProdProofs Contr.TensorProdSem.
Import ListNotations.

(* TTNO.as_matrix transposes the contracted operator by evens ++ odds: a permutation of its 2n legs
   whose first n entries are the output legs and last n entries the input legs, both in
   contraction order *)
Theorem C04_as_matrix_perm : forall n : nat, Permutation (as_matrix_perm n) (seq 0 (2 * n)).
Proof. exact evens_odds_perm. Qed.
Print Assumptions C04_as_matrix_perm.
Theorem C04_as_matrix_rows : forall n j : nat, j < n -> nth j (as_matrix_perm n) 0 = 2 * j.
Proof. exact as_matrix_perm_rows. Qed.
Print Assumptions C04_as_matrix_rows.
Theorem C04_as_matrix_cols : forall n j : nat, j < n -> nth (n + j) (as_matrix_perm n) 0 = 2 * j + 1.
Proof. exact as_matrix_perm_cols. Qed.
Print Assumptions C04_as_matrix_cols.

(* a tensordot keeps all atoms, and every contracted axis pair is either bound (the two ends of one
   wire) or recorded as glued: no contracted leg is lost from the diagram *)
Theorem C04_tensordot_atoms : forall (a b : garr) (ia ib : list nat) (r : garr),
  g_tensordot a b ia ib = Some r -> gatoms r = gatoms a ++ gatoms b.
Proof. exact g_tensordot_atoms. Qed.
Print Assumptions C04_tensordot_atoms.
Theorem C04_tensordot_pairs : forall (a b : garr) (ia ib : list nat) (r : garr),
  g_tensordot a b ia ib = Some r ->
  length (gbnd r) + length (gglue r) = length ia + length (gbnd a) + length (gbnd b) + length (gglue a) + length (gglue b).
Proof. exact g_tensordot_pairs. Qed.
Print Assumptions C04_tensordot_pairs.

(* non-vacuity: <phi|psi> on a 3-node tree whose bra has the opposite child order: the block
   recursion closes the network, gluing each ket leg to the same node's bra leg *)
Example C04_example :
  let kops := [AddRoot 0 [2; 2; 3]; AddChild 1 [2; 2] 0 0 0; AddChild 2 [3; 2] 0 0 2] in
  let bops := [AddRoot 0 [3; 2; 2]; AddChild 2 [2; 3] 1 0 0; AddChild 1 [2; 2] 1 0 2] in
  option_map (fun g => (gaxes g, length (gatoms g), length (gbnd g), length (gglue g)))
             (contract_two_ttns (fst (run empty_store kops)) (fst (run (store_at 100 10) bops)))
  = Some ([], 6, 4, 3).
Proof. vm_compute. reflexivity. Qed.
Print Assumptions C04_example.

(* ==== the block recursion closes the network: universal theorems (Contr/Closed.v, Contr/ClosedProofs.v) ============== *)
(* contract_all_but_one_neighbour_block_to_ket: ket legs in neighbouring_nodes order then `rest` (the open leg);
   every neighbour nb other than `next` has a block with legs (ket wire to nb) :: xs nb.  The loop succeeds for any
   position of `next`; result legs: the leg to `next`, `rest`, then the blocks' other legs in neighbour order; exactly
   the wires to the contracted neighbours are bound, nothing is glued *)
Theorem C04_all_but_one_axes : forall (kt : garr) (kn : node) (next : id) (blocks : list (id * garr))
    (w : id -> wire) (xs : id -> list wire) (blk : id -> garr) (wj : wire) (rest : list wire) (pre post : list id),
  neighbouring_nodes kn = pre ++ next :: post ->
  NoDup (pre ++ next :: post) ->
  gaxes kt = map w pre ++ wj :: map w post ++ rest ->
  (forall nb, In nb (pre ++ post) -> aget nb blocks = Some (blk nb) /\ gaxes (blk nb) = w nb :: xs nb) ->
  exists r, all_but_one_to_ket kt kn next blocks = Some r /\
    gaxes r = wj :: rest ++ flat_map xs (pre ++ post) /\
    gatoms r = gatoms kt ++ flat_map (fun nb => gatoms (blk nb)) (pre ++ post) /\
    gbnd r = rev (map w (pre ++ post)) ++ gbnd kt ++ flat_map (fun nb => gbnd (blk nb)) (pre ++ post) /\
    gglue r = gglue kt ++ flat_map (fun nb => gglue (blk nb)) (pre ++ post).
Proof. exact all_but_one_axes. Qed.
Print Assumptions C04_all_but_one_axes.

(* contract_bra_tensor_ignore_one_leg: the bra node may list the same neighbours in ANY order (independent child
   orders); the result has the two legs towards `next`, binds the bra wire to every other neighbour and glues
   exactly (ket open leg, bra open leg) *)
Theorem C04_bra_to_ket_ignore_axes : forall (bt kb : garr) (bn kn : node) (next : id) (x : id -> wire)
    (wj o p : wire) (pre post : list id),
  neighbouring_nodes kn = pre ++ next :: post ->
  NoDup (pre ++ next :: post) ->
  Permutation (neighbouring_nodes bn) (pre ++ next :: post) ->
  gaxes kb = wj :: o :: map x (pre ++ post) ->
  gaxes bt = map x (neighbouring_nodes bn) ++ [p] ->
  o <> p ->
  exists r, bra_to_ket_ignore bt kb bn kn next = Some r /\
    gaxes r = [wj; x next] /\
    gatoms r = gatoms kb ++ gatoms bt /\
    gbnd r = map x (pre ++ post) ++ gbnd kb ++ gbnd bt /\
    gglue r = (o, p) :: gglue kb ++ gglue bt.
Proof. exact bra_to_ket_ignore_axes. Qed.
Print Assumptions C04_bra_to_ket_ignore_axes.

(* the root: contract_all_neighbour_blocks_to_ket and contract_bra_to_ket_and_blocks *)
Theorem C04_all_to_ket_axes : forall (kt : garr) (kn : node) (blocks : list (id * garr))
    (w : id -> wire) (xs : id -> list wire) (blk : id -> garr) (rest : list wire),
  gaxes kt = map w (neighbouring_nodes kn) ++ rest ->
  (forall nb, In nb (neighbouring_nodes kn) -> aget nb blocks = Some (blk nb) /\ gaxes (blk nb) = w nb :: xs nb) ->
  exists r, all_to_ket kt kn blocks = Some r /\
    gaxes r = rest ++ flat_map xs (neighbouring_nodes kn) /\
    gatoms r = gatoms kt ++ flat_map (fun nb => gatoms (blk nb)) (neighbouring_nodes kn) /\
    gbnd r = rev (map w (neighbouring_nodes kn)) ++ gbnd kt ++ flat_map (fun nb => gbnd (blk nb)) (neighbouring_nodes kn) /\
    gglue r = gglue kt ++ flat_map (fun nb => gglue (blk nb)) (neighbouring_nodes kn).
Proof. exact all_to_ket_axes. Qed.
Print Assumptions C04_all_to_ket_axes.

Theorem C04_bra_to_ket_all_axes : forall (bt kb : garr) (bn kn : node) (x : id -> wire) (o p : wire),
  NoDup (neighbouring_nodes kn) ->
  Permutation (neighbouring_nodes bn) (neighbouring_nodes kn) ->
  gaxes kb = o :: map x (neighbouring_nodes kn) ->
  gaxes bt = map x (neighbouring_nodes bn) ++ [p] ->
  o <> p ->
  exists r, bra_to_ket_all bt kb bn kn = Some r /\
    gaxes r = [] /\
    gatoms r = gatoms kb ++ gatoms bt /\
    gbnd r = map x (neighbouring_nodes bn) ++ gbnd kb ++ gbnd bt /\
    gglue r = (o, p) :: gglue kb ++ gglue bt.
Proof. exact bra_to_ket_all_axes. Qed.
Print Assumptions C04_bra_to_ket_all_axes.

(* by induction over the tree: every block of the recursion has exactly the two legs towards the parent and is the
   closed contraction of its subtree (fuel: any number >= the size of the subtree) *)
Theorem C04_block_two_subtree_closed : forall (ket bra : store) (p : id) (t : rt) (fuel : nat),
  wf_sub ket bra (Some p) t -> length (rnodes t) <= fuel ->
  exists g, block_two fuel ket bra (rid t) p = Some g /\
    gaxes g = [up_wire ket (rid t); up_wire bra (rid t)] /\
    Permutation (gatoms g) (all_atoms ket bra (rnodes t)) /\
    Permutation (gbnd g) (edge_wires ket bra (rdesc t) ++ inner_bnd ket bra (rnodes t)) /\
    Permutation (gglue g) (open_pairs ket bra (rnodes t)).
Proof. exact block_two_subtree_closed. Qed.
Print Assumptions C04_block_two_subtree_closed.

(* contract_two_ttns on every consistent pair of states (wf_two: same ids and parent relation, the bra's children in
   any order at every node, one open leg per node, edge wires consistent, ket and bra open wires different): succeeds,
   no axis left, atoms = all atoms of both states, bound wires = all edge wires of both (plus wires already bound
   inside the stored tensors), glued pairs = exactly (ket open leg of n, bra open leg of n) for every node n *)
Theorem C04_contract_two_ttns_closed : forall (ket bra : store) (t : rt),
  wf_two ket bra t ->
  exists g, contract_two_ttns ket bra = Some g /\
    gaxes g = [] /\
    Permutation (gatoms g) (all_atoms ket bra (rnodes t)) /\
    Permutation (gbnd g) (edge_wires ket bra (rdesc t) ++ inner_bnd ket bra (rnodes t)) /\
    Permutation (gglue g) (open_pairs ket bra (rnodes t)).
Proof. exact contract_two_ttns_closed. Qed.
Print Assumptions C04_contract_two_ttns_closed.

(* the same with a decidable hypothesis: whenever the executable checker accepts the two stores *)
Theorem C04_two_ok_closed : forall (ket bra : store),
  two_ok ket bra = true ->
  exists t g, ket_tree ket = Some t /\ contract_two_ttns ket bra = Some g /\
    gaxes g = [] /\
    Permutation (gatoms g) (all_atoms ket bra (rnodes t)) /\
    Permutation (gbnd g) (edge_wires ket bra (rdesc t) ++ inner_bnd ket bra (rnodes t)) /\
    Permutation (gglue g) (open_pairs ket bra (rnodes t)).
Proof. exact two_ok_closed. Qed.
Print Assumptions C04_two_ok_closed.

Theorem C04_wf_two_covers : forall (ket bra : store) (t : rt),
  wf_two ket bra t -> length (nodes ket) <= length (rnodes t) -> Permutation (rnodes t) (akeys (nodes ket)).
Proof. exact wf_two_covers. Qed.
Print Assumptions C04_wf_two_covers.

(* three layers <psi|O|psi>: leaf, inner node and root steps *)
Theorem C04_sandwich_leaf_axes : forall (kt ot bt : garr) (kn on bn : node) (w y x o oo oi bo : wire),
  nvirt kn = 1 -> nvirt on = 1 -> nvirt bn = 1 ->
  gaxes kt = [w; o] -> gaxes ot = [y; oo; oi] -> gaxes bt = [x; bo] ->
  o <> oi -> oo <> bo ->
  sandwich_leaf kt ot bt kn on bn =
  Some {| gaxes := [w; y; x];
          gatoms := gatoms kt ++ gatoms ot ++ gatoms bt;
          gbnd := gbnd kt ++ gbnd ot ++ gbnd bt;
          gglue := (o, oi) :: gglue kt ++ (oo, bo) :: gglue ot ++ gglue bt |}.
Proof. exact sandwich_leaf_axes. Qed.
Print Assumptions C04_sandwich_leaf_axes.

Theorem C04_sandwich_subtree_axes : forall (kt ot bt : garr) (kn on bn : node) (next : id) (blocks : list (id * garr))
    (w y x : id -> wire) (blk : id -> garr) (wj o oo oi bo : wire) (pre post : list id),
  neighbouring_nodes kn = pre ++ next :: post ->
  NoDup (pre ++ next :: post) ->
  Permutation (neighbouring_nodes on) (pre ++ next :: post) ->
  Permutation (neighbouring_nodes bn) (pre ++ next :: post) ->
  gaxes kt = map w pre ++ wj :: map w post ++ [o] ->
  gaxes ot = map y (neighbouring_nodes on) ++ [oo; oi] ->
  gaxes bt = map x (neighbouring_nodes bn) ++ [bo] ->
  (forall nb, In nb (pre ++ post) -> aget nb blocks = Some (blk nb) /\ gaxes (blk nb) = [w nb; y nb; x nb]) ->
  o <> oi -> oo <> bo ->
  exists r, sandwich_subtree kt ot bt kn on bn next blocks = Some r /\
    gaxes r = [wj; y next; x next] /\
    gatoms r = ((gatoms kt ++ flat_map (fun nb => gatoms (blk nb)) (pre ++ post)) ++ gatoms ot) ++ gatoms bt /\
    gbnd r = map x (pre ++ post) ++
             (map y (pre ++ post) ++
              (rev (map w (pre ++ post)) ++ gbnd kt ++ flat_map (fun nb => gbnd (blk nb)) (pre ++ post)) ++ gbnd ot) ++ gbnd bt /\
    gglue r = (oo, bo) :: ((o, oi) :: (gglue kt ++ flat_map (fun nb => gglue (blk nb)) (pre ++ post)) ++ gglue ot) ++ gglue bt.
Proof. exact sandwich_subtree_axes. Qed.
Print Assumptions C04_sandwich_subtree_axes.

Theorem C04_root_three_axes : forall (ckt kt ot : garr) (kn on : node) (blocks : list (id * garr))
    (w y x : id -> wire) (blk : id -> garr) (o oo oi bo : wire),
  NoDup (neighbouring_nodes kn) ->
  Permutation (neighbouring_nodes on) (neighbouring_nodes kn) ->
  gaxes kt = map w (neighbouring_nodes kn) ++ [o] ->
  gaxes ot = map y (neighbouring_nodes on) ++ [oo; oi] ->
  gaxes ckt = map x (neighbouring_nodes kn) ++ [bo] ->
  (forall nb, In nb (neighbouring_nodes kn) -> aget nb blocks = Some (blk nb) /\ gaxes (blk nb) = [w nb; y nb; x nb]) ->
  o <> oi -> bo <> oo ->
  exists r, root_three ckt kt ot kn on blocks = Some r /\
    gaxes r = [] /\
    gatoms r = gatoms ckt ++ ((gatoms kt ++ flat_map (fun nb => gatoms (blk nb)) (neighbouring_nodes kn)) ++ gatoms ot) /\
    gbnd r = map x (neighbouring_nodes kn) ++ gbnd ckt ++
             (map y (neighbouring_nodes kn) ++
              (rev (map w (neighbouring_nodes kn)) ++ gbnd kt ++ flat_map (fun nb => gbnd (blk nb)) (neighbouring_nodes kn)) ++ gbnd ot) /\
    gglue r = (bo, oo) :: gglue ckt ++
              ((o, oi) :: (gglue kt ++ flat_map (fun nb => gglue (blk nb)) (neighbouring_nodes kn)) ++ gglue ot).
Proof. exact root_three_axes. Qed.
Print Assumptions C04_root_three_axes.

(* expectation_value's root step is root_three applied to the conjugated root tensor *)
Theorem C04_expectation_value_root : forall (woff aoff : nat) (ket op : store) (r : id) (kn on : node) (kt ot : garr),
  root ket = Some r -> root op = Some r ->
  aget r (nodes ket) = Some kn -> aget r (nodes op) = Some on -> tensor_of ket r = Some kt -> tensor_of op r = Some ot ->
  expectation_value woff aoff ket op =
  match all_some (map (fun c => option_map (fun b => (c, b)) (block_three (length (nodes ket)) woff aoff ket op c r)) (children kn)) with
  | None => None
  | Some blocks => root_three (conj_arr woff aoff kt) kt ot kn on blocks
  end.
Proof. exact expectation_value_root. Qed.
Print Assumptions C04_expectation_value_root.

Theorem C04_block_three_subtree_closed : forall (woff aoff : nat) (ket op : store) (p : id) (t : rt) (fuel : nat),
  wf_sub3 woff ket op (Some p) t -> length (rnodes t) <= fuel ->
  exists g, block_three fuel woff aoff ket op (rid t) p = Some g /\
    gaxes g = [up_wire ket (rid t); up_wire op (rid t); woff + up_wire ket (rid t)] /\
    Permutation (gatoms g) (all_atoms3 aoff ket op (rnodes t)) /\
    Permutation (gbnd g) (edge_wires3 woff ket op (rdesc t) ++ inner_bnd3 woff ket op (rnodes t)) /\
    Permutation (gglue g) (open_pairs3 woff ket op (rnodes t)).
Proof. exact block_three_subtree_closed. Qed.
Print Assumptions C04_block_three_subtree_closed.

(* expectation_value on every consistent (state, operator) pair: the closed three-layer network; at every node the
   ket's open leg is glued to the operator's input leg and the operator's output leg to the conjugate copy's open leg *)
Theorem C04_expectation_value_closed : forall (woff aoff : nat) (ket op : store) (t : rt),
  wf_three woff ket op t ->
  exists g, expectation_value woff aoff ket op = Some g /\
    gaxes g = [] /\
    Permutation (gatoms g) (all_atoms3 aoff ket op (rnodes t)) /\
    Permutation (gbnd g) (edge_wires3 woff ket op (rdesc t) ++ inner_bnd3 woff ket op (rnodes t)) /\
    Permutation (gglue g)
      ([(open_wire ket (rid t), in_wire op (rid t)); (woff + open_wire ket (rid t), out_wire op (rid t))]
       ++ open_pairs3 woff ket op (rdesc t)).
Proof. exact expectation_value_closed. Qed.
Print Assumptions C04_expectation_value_closed.

Theorem C04_three_ok_closed : forall (woff aoff : nat) (ket op : store),
  three_ok woff ket op = true ->
  exists t g, ket_tree ket = Some t /\ expectation_value woff aoff ket op = Some g /\
    gaxes g = [] /\
    Permutation (gatoms g) (all_atoms3 aoff ket op (rnodes t)) /\
    Permutation (gbnd g) (edge_wires3 woff ket op (rdesc t) ++ inner_bnd3 woff ket op (rnodes t)) /\
    Permutation (gglue g)
      ([(open_wire ket (rid t), in_wire op (rid t)); (woff + open_wire ket (rid t), out_wire op (rid t))]
       ++ open_pairs3 woff ket op (rdesc t)).
Proof. exact three_ok_closed. Qed.
Print Assumptions C04_three_ok_closed.

(* non-vacuity of the hypotheses: the checker accepts a 3-node pair whose bra has the opposite child order, and a
   4-node (state, operator) pair whose operator lists the root's children in the opposite order *)
Example C04_two_ok_example :
  let kops := [AddRoot 0 [2; 2; 3]; AddChild 1 [2; 2] 0 0 0; AddChild 2 [3; 2] 0 0 2] in
  let bops := [AddRoot 0 [3; 2; 2]; AddChild 2 [2; 3] 1 0 0; AddChild 1 [2; 2] 1 0 2] in
  two_ok (fst (run empty_store kops)) (fst (run (store_at 100 10) bops)) = true.
Proof. vm_compute. reflexivity. Qed.
Print Assumptions C04_two_ok_example.

Example C04_three_ok_example :
  let kops := [AddRoot 0 [2; 2; 3]; AddChild 1 [2; 2; 2] 0 0 0; AddChild 2 [3; 2] 0 0 2; AddChild 3 [2; 2] 0 1 1] in
  let oops := [AddRoot 0 [3; 2; 2; 2]; AddChild 2 [3; 2; 2] 0 0 0; AddChild 1 [2; 2; 2; 2] 0 0 1; AddChild 3 [2; 2; 2] 0 1 1] in
  three_ok 2000 (fst (run empty_store kops)) (fst (run (store_at 1000 100) oops)) = true.
Proof. vm_compute. reflexivity. Qed.
Print Assumptions C04_three_ok_example.

(* ==== completely_contract_tree / as_matrix, tensor products, centre shortcuts (Contr/TensorProd*.v) ========================= *)
(* completely_contract_tree as a program over the store (pre-order recursion, each child contracted into its parent under
   the parent's identifier): on EVERY well-formed store it succeeds; the returned order is the pre-order; exactly one node
   (the root) is left; its tensor has the atoms of the whole network, as open axes the open wires of the nodes in pre-order
   (each node's open legs in node order) and every other wire end bound -- in particular every tree edge *)
Theorem C04_complete_contraction : forall s : store, wfb s = true ->
  exists r s' t, root s = Some r /\ complete_contraction s = Some (s', t, preorder s) /\
    wfb s' = true /\ akeys (nodes s') = [r] /\
    axes t = flat_map (ow s) (preorder s) /\
    Permutation (atoms t) (total_atoms s) /\
    Permutation (axes t ++ bnd t ++ bnd t) (total_ends s) /\
    (forall m w, In w (pw s m) -> In w (bnd t)) /\
    Permutation (preorder s) (akeys (nodes s)).
Proof. exact complete_contraction_spec. Qed.
Print Assumptions C04_complete_contraction.

(* TTNO.as_matrix (two open legs (output, input) per node): the transposition evens ++ odds of the full contraction has
   first the output wires of the nodes in contraction (pre-) order, then the input wires in the same order *)
Theorem C04_as_matrix_is_full_contraction : forall (s : store) (o i : id -> wire), wfb s = true ->
  (forall m, In m (akeys (nodes s)) -> ow s m = [o m; i m]) ->
  exists s' t, complete_contraction s = Some (s', t, preorder s) /\
    as_matrix s = Some (s_transpose (evens_odds (length (axes t))) t, preorder s) /\
    axes (s_transpose (evens_odds (length (axes t))) t) = map o (preorder s) ++ map i (preorder s) /\
    Permutation (atoms t) (total_atoms s) /\
    Permutation (axes t ++ bnd t ++ bnd t) (total_ends s) /\
    (forall m w, In w (pw s m) -> In w (bnd t)).
Proof. exact as_matrix_spec. Qed.
Print Assumptions C04_as_matrix_is_full_contraction.

Theorem C04_evens_odds_even : forall n : nat, evens_odds (2 * n) = as_matrix_perm n.
Proof. exact evens_odds_even. Qed.
Print Assumptions C04_evens_odds_even.

(* absorb_into_open_legs at a site of a consistent pair of states: the factor is a fresh atom on (fresh output wire, the
   site's open wire); the site's tensor keeps its virtual legs, gets the output wire as its open leg and binds the old one *)
Theorem C04_absorb_site : forall (ket bra : store) (p : option id) (a : id) (cs : list id) (gshape : list nat) (ket' : store),
  Closed.node_ok ket bra p a cs -> absorb_open ket a gshape = Some ket' ->
  exists kn, aget a (nodes ket) = Some kn /\ aget a (nodes ket') = Some (reset_permutation kn) /\
    (forall m, m <> a -> aget m (nodes ket') = aget m (nodes ket) /\ tensor_of ket' m = tensor_of ket m) /\
    t_axes ket' a = opt_list p (up_wire ket a) ++ map (up_wire ket) cs ++ [next_wire ket] /\
    t_atoms ket' a = t_atoms ket a ++ [next_atom ket] /\
    t_bnd ket' a = open_wire ket a :: t_bnd ket a /\
    root ket' = root ket /\ next_wire ket' = S (next_wire ket) /\ next_atom ket' = S (next_atom ket) /\
    (exists d, dims ket' = dims ket ++ [(next_wire ket, d)]) /\
    atab ket' = atab ket ++ [(next_atom ket, [next_wire ket; open_wire ket a])].
Proof. exact absorb_site. Qed.
Print Assumptions C04_absorb_site.

(* tensor_product_expectation_value, general path (deep copy, conjugate of the ORIGINAL state, apply_operator,
   contract_two_ttns), for every well-formed state with one open leg per node and every product of single-site operators
   on distinct sites (0 .. N of them): the closed network in which each factor site's open wire is bound to the factor's
   input, the factor's output wire is glued to the conjugate copy's open wire, the other sites have ket and conjugate open
   wires glued directly, and every edge wire of both copies is bound once *)
Theorem C04_tp_expectation_closed : forall (woff aoff : nat) (s : store) (ops : list (id * list nat)) (t : rt),
  wf s -> wf_two s (conj_store woff aoff s) t ->
  NoDup (map fst ops) -> (forall o, In o ops -> In (fst o) (rnodes t)) ->
  next_wire s + length ops <= woff ->
  (forall o, In o ops -> snd o = [wdim s (open_wire s (fst o)); wdim s (open_wire s (fst o))]) ->
  let bra := conj_store woff aoff s in
  exists ket g, tp_apply s ops = Some ket /\ tp_expectation woff aoff s ops = Some g /\ gaxes g = [] /\
    Permutation (gatoms g) (all_atoms s bra (rnodes t) ++ seq (next_atom s) (length ops)) /\
    Permutation (gbnd g) (Closed.edge_wires s bra (rdesc t) ++ inner_bnd s bra (rnodes t) ++ map (fun o => open_wire s (fst o)) ops) /\
    Permutation (gglue g) (map (tp_pair woff s ops) (rnodes t)) /\
    atab ket = atab s ++ tp_rows s ops.
Proof. exact tp_expectation_closed. Qed.
Print Assumptions C04_tp_expectation_closed.

(* the same with the decidable hypothesis evaluated per explored instance *)
Theorem C04_tp_hyp_closed : forall (woff aoff : nat) (s : store) (ops : list (id * list nat)), tp_hyp woff aoff s ops = true ->
  let bra := conj_store woff aoff s in
  exists t ket g, ket_tree s = Some t /\ tp_apply s ops = Some ket /\ tp_expectation woff aoff s ops = Some g /\ gaxes g = [] /\
    Permutation (gatoms g) (all_atoms s bra (rnodes t) ++ seq (next_atom s) (length ops)) /\
    Permutation (gbnd g) (Closed.edge_wires s bra (rdesc t) ++ inner_bnd s bra (rnodes t) ++ map (fun o => open_wire s (fst o)) ops) /\
    Permutation (gglue g) (map (tp_pair woff s ops) (rnodes t)) /\
    atab ket = atab s ++ tp_rows s ops.
Proof. exact tp_hyp_closed. Qed.
Print Assumptions C04_tp_hyp_closed.

(* the empty product is exactly scalar_product(): the same diagram as <psi|psi>, or the centre shortcut *)
Theorem C04_tp_expectation_empty : forall (woff aoff : nat) (s : store),
  tp_expectation woff aoff s [] = contract_two_ttns s (conj_store woff aoff s) /\
  tp_expectation_value woff aoff s None [] = contract_two_ttns s (conj_store woff aoff s) /\
  forall c, tp_expectation_value woff aoff s (Some c) [] = center_norm woff aoff s c.
Proof. exact tp_expectation_empty. Qed.
Print Assumptions C04_tp_expectation_empty.

(* which path tensor_product_expectation_value takes *)
Theorem C04_tp_expectation_value_dispatch : forall (woff aoff : nat) (s : store) (ctr : option id) (ops : list (id * list nat)),
  tp_expectation_value woff aoff s ctr ops =
  match ops, ctr with
  | [], Some c => center_norm woff aoff s c
  | [(n, _)], Some c => if Nat.eqb c n then center_single_site woff aoff s n else tp_expectation woff aoff s ops
  | _, _ => tp_expectation woff aoff s ops
  end.
Proof. exact tp_expectation_value_dispatch. Qed.
Print Assumptions C04_tp_expectation_value_dispatch.

(* the diagrams of the two orthogonality-centre shortcuts *)
Theorem C04_center_norm_diagram : forall (woff aoff : nat) (s : store) (c : id) (t : sarr), 0 < woff -> logical s c = Some t ->
  center_norm woff aoff s c =
  Some {| gaxes := []; gatoms := atoms t ++ map (Nat.add aoff) (atoms t); gbnd := bnd t ++ map (Nat.add woff) (bnd t);
          gglue := map (fun w => (w, woff + w)) (axes t) |}.
Proof. exact center_norm_diagram. Qed.
Print Assumptions C04_center_norm_diagram.

Theorem C04_center_single_site_diagram : forall (woff aoff : nat) (s : store) (c : id) (t : sarr) (X : list wire) (o : wire),
  0 < woff -> logical s c = Some t -> axes t = X ++ [o] ->
  S (next_wire s) <> o -> next_wire s <> woff + o ->
  center_single_site woff aoff s c =
  Some {| gaxes := []; gatoms := (atoms t ++ [next_atom s]) ++ map (Nat.add aoff) (atoms t);
          gbnd := bnd t ++ map (Nat.add woff) (bnd t);
          gglue := (map (fun w => (w, woff + w)) X ++ [(next_wire s, woff + o)]) ++ [(o, S (next_wire s))] |}.
Proof. exact center_single_site_diagram. Qed.
Print Assumptions C04_center_single_site_diagram.

(* ---- the semantic bridge for the centre shortcut, over any commutative semiring (Wire/Sem.v) ---------------------------- *)
(* ONE isometry pair (Q on bond copy b, its conjugate twin Q' on bond copy b', sharing the summed wires S, contract:
   SUM_S Q.Q' = delta(b, b') for in-range bond indices) is removed from a sum of products: the rest F of the network is
   left with b' renamed to b *)
Theorem C04_iso_pair_remove : forall (R : Type) (zero one : R) (add mul : R -> R -> R), comm_semiring zero one add mul ->
  forall (dim : wire -> nat) (Q Q' : assignment -> R) (b b' : wire) (S : list wire) (F : (wire -> nat) -> R) (rho : wire -> nat),
  iso_pair R zero one add mul dim Q Q' b b' S -> SemProofs.ext R F -> SemProofs.indep R F S ->
  b <> b' -> dim b' = dim b -> rho b < dim b ->
  sum_bnd R zero add dim (b' :: S) (fun r => mul (mul (Q r) (Q' r)) (F r)) rho = F (upd rho b' (rho b)).
Proof. exact iso_pair_remove. Qed.
Print Assumptions C04_iso_pair_remove.

(* from the leaves toward the centre: the closed block of a subtree all of whose tensors are isometries toward the centre
   is the identity on the two copies of its bond *)
Theorem C04_block_delta : forall (R : Type) (zero one : R) (add mul : R -> R -> R), comm_semiring zero one add mul ->
  forall (dim : wire -> nat) (u u' : id -> wire) (o : id -> list wire) (KA KB : id -> assignment -> R) (t : rt),
  scoped R dim u u' o KA KB t -> NoDup (dsub u u' o t) -> isos R zero one add mul dim u u' o KA KB t ->
  block R zero one add mul dim u u' o KA KB t.
Proof. exact block_delta. Qed.
Print Assumptions C04_block_delta.

(* under the kernel contract "every tensor off the centre is an isometry from its bond toward the centre" (iso_atom, a
   hypothesis on the atom table), the value of the closed network <psi|psi> (open legs of ket and conjugate copy
   identified) equals the value of the local diagram at the centre: the centre atom against its conjugate twin read at
   the same indices, summed over all the centre's legs *)
Theorem C04_canonical_norm_is_local : forall (R : Type) (zero one : R) (add mul : R -> R -> R), comm_semiring zero one add mul ->
  forall (wires_of : nat -> list wire) (dim : wire -> nat) (tbl : nat -> list nat -> R) (u u' : id -> wire) (o : id -> list wire)
         (ka kb : id -> nat) (n : id) (cs : list rt),
  atoms_ok wires_of dim u u' o ka kb (RN n cs) -> NoDup (dsub u u' o (RN n cs)) -> ~ In (u n) (wires_of (ka n)) ->
  (forall x, In x cs -> atoms_iso R zero one add mul wires_of dim tbl u u' o ka kb x) ->
  forall rho,
    value R zero one add mul wires_of dim tbl (full_diagram u u' o ka kb (RN n cs)) rho
    = sum_bnd R zero add dim (o n ++ cu u cs)
        (fun r => mul (tbl (ka n) (map r (wires_of (ka n)))) (tbl (kb n) (map r (wires_of (ka n))))) rho.
Proof. exact canonical_norm_is_local. Qed.
Print Assumptions C04_canonical_norm_is_local.

(* non-vacuity: a 4-node operator is contracted completely (result checker and wfb), a 4-node state takes two factors
   (hypothesis and result checkers), and the isometry contract is satisfiable (two-node state over Z, value 46) *)
Example C04_complete_contraction_example :
  let oops := [AddRoot 0 [3; 2; 2; 2]; AddChild 2 [3; 2; 2] 0 0 0; AddChild 1 [2; 2; 2; 2] 0 0 1; AddChild 3 [2; 2; 2] 0 1 1] in
  let s := fst (run empty_store oops) in
  andb (wfb s) (complete_contraction_ok s) = true /\ option_map snd (as_matrix s) = Some [0; 2; 1; 3].
Proof. vm_compute. split; reflexivity. Qed.
Print Assumptions C04_complete_contraction_example.

Example C04_tp_example :
  let kops := [AddRoot 0 [2; 2; 3]; AddChild 1 [2; 2; 2] 0 0 0; AddChild 2 [3; 2] 0 0 2; AddChild 3 [2; 2] 0 1 1] in
  let s := fst (run empty_store kops) in
  andb (tp_hyp 2000 200 s [(1, [2; 2]); (0, [2; 2])]) (tp_result_ok 2000 200 s [(1, [2; 2]); (0, [2; 2])]) = true.
Proof. vm_compute. reflexivity. Qed.
Print Assumptions C04_tp_example.

Example C04_iso_example :
  atoms_ok ex_wires ex_dim ex_u ex_u' ex_o ex_ka ex_kb ex_tree /\
  NoDup (dsub ex_u ex_u' ex_o ex_tree) /\ ~ In (ex_u 0) (ex_wires (ex_ka 0)) /\
  atoms_iso BinNums.Z BinNums.Z0 (BinNums.Zpos BinNums.xH) BinInt.Z.add BinInt.Z.mul ex_wires ex_dim ex_tblZ ex_u ex_u' ex_o ex_ka ex_kb (RN 1 []).
Proof. exact ex_iso_hypotheses. Qed.
Print Assumptions C04_iso_example.

(* ==== the bridge from the STORE to the isometry theorem (Contr/TensorProdBridge*.v) ================================================ *)
From PTN Require Import TTN.InvSem TTN.Canon Contr.TensorProdBridge Contr.TensorProdBridgeProofs Contr.TensorProdBridgeStore
  Contr.TensorProdBridgeCanon.

(* (b) the denotation of a glued diagram (gvalue: SUM over the bound wires and over one index per glued pair of the product of
   the atoms, the second wire of a pair reading the index of the first) depends only on the multisets of atoms, bound wires
   and glued pairs, and on a diagram without glued pairs it is the denotation of Wire/Sem.v *)
Theorem C04_gvalue_perm : forall (R : Type) (zero one : R) (add mul : R -> R -> R), comm_semiring zero one add mul ->
  forall (wires_of : nat -> list wire) (dim : wire -> nat) (tbl : nat -> list nat -> R) (g g' : garr) (rho : wire -> nat),
  Permutation (gatoms g) (gatoms g') -> Permutation (gbnd g) (gbnd g') -> Permutation (gglue g) (gglue g') ->
  NoDup (map snd (gglue g)) ->
  gvalue R zero one add mul wires_of dim tbl g rho = gvalue R zero one add mul wires_of dim tbl g' rho.
Proof. exact gvalue_perm. Qed.
Print Assumptions C04_gvalue_perm.

Theorem C04_gvalue_plain : forall (R : Type) (zero one : R) (add mul : R -> R -> R)
    (wires_of : nat -> list wire) (dim : wire -> nat) (tbl : nat -> list nat -> R) (t : sarr) (rho : wire -> nat),
  gvalue R zero one add mul wires_of dim tbl (of_sarr t) rho = value R zero one add mul wires_of dim tbl t rho.
Proof. exact gvalue_plain. Qed.
Print Assumptions C04_gvalue_plain.

(* a tensordot of glued diagrams denotes np.tensordot: when the two diagrams do not interfere (td_ok: the atoms of one do not
   touch the summed / redirected wires of the other, the sources of the gluings are not summed on the other side, the contracted
   axes are summed on neither side) the value of Blocks.g_tensordot a b ia ib is the sum, over one index per contracted axis pair
   (equal wires: the common wire; different wires: the index lives on a's wire and b reads it through the gluing), of
   value(a) . value(b) *)
Theorem C04_gvalue_g_tensordot : forall (R : Type) (zero one : R) (add mul : R -> R -> R), comm_semiring zero one add mul ->
  forall (wires_of : nat -> list wire) (dim : wire -> nat) (tbl : nat -> list nat -> R) (a b : garr) (ia ib : list nat) (c : garr),
  g_tensordot a b ia ib = Some c ->
  let pairs := combine (map (fun i => nth i (gaxes a) 0) ia) (map (fun i => nth i (gaxes b) 0) ib) in
  let same := map fst (filter (fun p => Nat.eqb (fst p) (snd p)) pairs) in
  let diff := filter (fun p => negb (Nat.eqb (fst p) (snd p))) pairs in
  td_ok wires_of a b diff ->
  forall rho, gvalue R zero one add mul wires_of dim tbl c rho
              = sum_bnd R zero add dim (same ++ map fst diff)
                  (fun r => mul (gvalue R zero one add mul wires_of dim tbl a r)
                                (gvalue R zero one add mul wires_of dim tbl b (glue_asg diff r))) rho.
Proof. exact gvalue_g_tensordot. Qed.
Print Assumptions C04_gvalue_g_tensordot.

Example C04_td_ok_example :
  g_tensordot tdx_a tdx_b [1] [1] = Some {| gaxes := [0; 10]; gatoms := [0; 1]; gbnd := []; gglue := [(1, 11)] |} /\
  td_ok tdx_wires tdx_a tdx_b [(1, 11)].
Proof. exact tdx_ok. Qed.
Print Assumptions C04_td_ok_example.

(* the tree of a store re-rooted at the centre (the DFS of distance_to_node returning the tree): every node once; the
   children of a node are its neighbours other than the one it was entered from, which is one step closer to the centre *)
Theorem C04_centre_tree : forall (s : store) (c : id), CanonTree.tstruct (nodes s) -> amem c (nodes s) = true ->
  rid (centre_tree s c) = c /\
  ct_ok (nodes s) (dget (distance_to_node s c)) None (centre_tree s c) /\
  NoDup (rnodes (centre_tree s c)) /\
  Permutation (rnodes (centre_tree s c)) (akeys (nodes s)).
Proof. exact centre_tree_ok. Qed.
Print Assumptions C04_centre_tree.

(* (d) a well-formed state with one open leg per node and its conjugate copy are a consistent pair over the tree of the
   store: the hypothesis wf_two of the closed-network theorems is a consequence of the store invariant *)
Theorem C04_wf_two_of_wf : forall (woff aoff : nat) (s : store), wf s -> one_open s -> 0 < woff ->
  exists t, ket_tree s = Some t /\ wf_two s (conj_store woff aoff s) t /\ Permutation (rnodes t) (akeys (nodes s)).
Proof. exact wf_two_of_wf. Qed.
Print Assumptions C04_wf_two_of_wf.

(* (a) THE BRIDGE.  For a state s (extended store invariant wfs, one open leg per node) whose recorded centre c passes the
   executable canonical-form attribute iso_check (established by canonical_form / move_center: C03), whose off-centre
   tensors are plain atoms (plain_off), under the KERNEL CONTRACT qr_contracts -- the Q factor of every recorded QR call
   that is still in the network is an isometry from its bond, Q^dagger Q = 1, a statement about the atom table only --
   the closed diagram produced by the full contraction contract_two_ttns(s, conj s) and the diagram produced by the centre
   shortcut of scalar_product (centre tensor against its conjugate over all legs) have the same value, over any
   commutative semiring, in the world of the two stores (atom wires and dimensions of s and of its conjugate copy). *)
Theorem C04_canonical_norm_is_full_contraction : forall (R : Type) (zero one : R) (add mul : R -> R -> R),
  comm_semiring zero one add mul ->
  forall (woff aoff : nat) (s : store) (tbl : nat -> list nat -> R) (c : id),
  wfs s -> one_open s -> 0 < woff -> next_wire s <= woff -> next_atom s <= aoff -> amem c (nodes s) = true ->
  iso_check (s, Some c) = true -> plain_off s c -> qr_contracts R zero one add mul aoff s tbl ->
  let bra := conj_store woff aoff s in
  exists g gl, scalar_product woff aoff s None = Some g /\ scalar_product woff aoff s (Some c) = Some gl /\
    forall rho, gvalue R zero one add mul (pair_wires s bra) (pair_dim s bra) tbl g rho
                = gvalue R zero one add mul (pair_wires s bra) (pair_dim s bra) tbl gl rho.
Proof. exact canonical_norm_is_full_contraction. Qed.
Print Assumptions C04_canonical_norm_is_full_contraction.

(* (c) the single-site shortcut.  Same hypotheses; the operator is the atom next_atom s, put by apply_operator on (fresh output
   wire next_wire s, the centre's open wire) and by the shortcut diagram on (next_wire s, S (next_wire s)); the two worlds W1, W2
   extend the world of the pair by that atom, the two fresh wires get the dimension of the centre's open leg.  The diagram of the
   general path (conjugate copy, apply_operator, contract_two_ttns) and the diagram of the shortcut
   (tensordot(tensordot(A, O, (-1, 1)), conj A, all legs)) have the same value. *)
Theorem C04_single_site_is_full_contraction : forall (R : Type) (zero one : R) (add mul : R -> R -> R),
  comm_semiring zero one add mul ->
  forall (woff aoff : nat) (s : store) (tbl : nat -> list nat -> R) (c : id),
  wfs s -> one_open s -> next_wire s + 2 <= woff -> next_atom s < aoff -> amem c (nodes s) = true ->
  iso_check (s, Some c) = true -> plain_off s c -> qr_contracts R zero one add mul aoff s tbl ->
  let bra := conj_store woff aoff s in
  let na := next_atom s in
  let nw := next_wire s in
  let oc := open_wire s c in
  let dd := wdim s oc in
  let W1 := ext_wires (pair_wires s bra) na [nw; oc] in
  let W2 := ext_wires (pair_wires s bra) na [nw; S nw] in
  let D := ext_dim (pair_dim s bra) [nw; S nw] dd in
  exists g gl, tp_expectation_value woff aoff s None [(c, [dd; dd])] = Some g /\
               tp_expectation_value woff aoff s (Some c) [(c, [dd; dd])] = Some gl /\
    forall rho, gvalue R zero one add mul W1 D tbl g rho = gvalue R zero one add mul W2 D tbl gl rho.
Proof. exact single_site_is_full_contraction. Qed.
Print Assumptions C04_single_site_is_full_contraction.

(* the structural hypotheses are CONSEQUENCES of having been produced by canonical_form / move_orthogonalization_center: the
   extended store invariant and "one open leg per node" are preserved, the recorded centre is c, and every tensor off the centre is
   a plain atom (exactly the Q factor of the QR call that produced it, on exactly its axes); with C03's iso_check theorem *)
Theorem C04_canonical_form_plain : forall (s : store) (oc : option id) (c : id) (m : mode) (rid : id) (cs' : cstore),
  wfs s -> aget rid (nodes s) = None -> canonical_form (s, oc) c m rid = Some cs' ->
  wfs (fst cs') /\ snd cs' = Some c /\ amem c (nodes (fst cs')) = true /\ plain_off (fst cs') c /\ iso_check cs' = true /\
  (one_open s -> one_open (fst cs')).
Proof. exact canonical_form_plain. Qed.
Print Assumptions C04_canonical_form_plain.

Theorem C04_move_center_plain : forall (cs : cstore) (c : id) (m : mode) (rid : id) (cs' : cstore) (c0 : id),
  wfs (fst cs) -> aget rid (nodes (fst cs)) = None -> snd cs = Some c0 -> plain_off (fst cs) c0 ->
  move_center cs c m rid = Some cs' ->
  wfs (fst cs') /\ (one_open (fst cs) -> one_open (fst cs')) /\ exists c', snd cs' = Some c' /\ plain_off (fst cs') c'.
Proof. exact move_center_plain. Qed.
Print Assumptions C04_move_center_plain.

(* END TO END.  After canonical_form(c) on ANY state (one open leg per node) satisfying the extended store invariant (every store
   built by the model's operations does: C02), under the kernel contract on the recorded QR calls of the result, the centre
   shortcuts of scalar_product() and of single_site_operator_expectation_value compute the full contractions.  The only other
   hypotheses are the offsets of the conjugate copy (beyond the wires / atoms of the result). *)
Theorem C04_canonical_form_shortcuts : forall (R : Type) (zero one : R) (add mul : R -> R -> R),
  comm_semiring zero one add mul ->
  forall (woff aoff : nat) (s : store) (oc : option id) (c : id) (m : mode) (rid : id) (cs' : cstore) (tbl : nat -> list nat -> R),
  wfs s -> one_open s -> aget rid (nodes s) = None -> canonical_form (s, oc) c m rid = Some cs' ->
  let s' := fst cs' in
  next_wire s' + 2 <= woff -> next_atom s' < aoff -> qr_contracts R zero one add mul aoff s' tbl ->
  let bra := conj_store woff aoff s' in
  snd cs' = Some c /\
  (exists g gl, scalar_product woff aoff s' None = Some g /\ scalar_product woff aoff s' (snd cs') = Some gl /\
     forall rho, gvalue R zero one add mul (pair_wires s' bra) (pair_dim s' bra) tbl g rho
                 = gvalue R zero one add mul (pair_wires s' bra) (pair_dim s' bra) tbl gl rho) /\
  (let na := next_atom s' in
   let nw := next_wire s' in
   let oc' := open_wire s' c in
   let dd := wdim s' oc' in
   let W1 := ext_wires (pair_wires s' bra) na [nw; oc'] in
   let W2 := ext_wires (pair_wires s' bra) na [nw; S nw] in
   let D := ext_dim (pair_dim s' bra) [nw; S nw] dd in
   exists g gl, tp_expectation_value woff aoff s' None [(c, [dd; dd])] = Some g /\
                tp_expectation_value woff aoff s' (snd cs') [(c, [dd; dd])] = Some gl /\
     forall rho, gvalue R zero one add mul W1 D tbl g rho = gvalue R zero one add mul W2 D tbl gl rho).
Proof. exact canonical_form_shortcuts. Qed.
Print Assumptions C04_canonical_form_shortcuts.

Theorem C04_move_center_shortcuts : forall (R : Type) (zero one : R) (add mul : R -> R -> R),
  comm_semiring zero one add mul ->
  forall (woff aoff : nat) (cs : cstore) (c0 c : id) (m : mode) (rid : id) (cs' : cstore) (tbl : nat -> list nat -> R),
  wfs (fst cs) -> aget rid (nodes (fst cs)) = None -> snd cs = Some c0 -> amem c0 (nodes (fst cs)) = true ->
  amem c (nodes (fst cs)) = true -> iso_check cs = true -> plain_off (fst cs) c0 -> one_open (fst cs) ->
  move_center cs c m rid = Some cs' ->
  let s' := fst cs' in
  next_wire s' + 2 <= woff -> next_atom s' < aoff -> qr_contracts R zero one add mul aoff s' tbl ->
  let bra := conj_store woff aoff s' in
  snd cs' = Some c /\
  (exists g gl, scalar_product woff aoff s' None = Some g /\ scalar_product woff aoff s' (snd cs') = Some gl /\
     forall rho, gvalue R zero one add mul (pair_wires s' bra) (pair_dim s' bra) tbl g rho
                 = gvalue R zero one add mul (pair_wires s' bra) (pair_dim s' bra) tbl gl rho) /\
  (let na := next_atom s' in
   let nw := next_wire s' in
   let oc' := open_wire s' c in
   let dd := wdim s' oc' in
   let W1 := ext_wires (pair_wires s' bra) na [nw; oc'] in
   let W2 := ext_wires (pair_wires s' bra) na [nw; S nw] in
   let D := ext_dim (pair_dim s' bra) [nw; S nw] dd in
   exists g gl, tp_expectation_value woff aoff s' None [(c, [dd; dd])] = Some g /\
                tp_expectation_value woff aoff s' (snd cs') [(c, [dd; dd])] = Some gl /\
     forall rho, gvalue R zero one add mul W1 D tbl g rho = gvalue R zero one add mul W2 D tbl gl rho).
Proof. exact move_center_shortcuts. Qed.
Print Assumptions C04_move_center_shortcuts.

(* the structural hypotheses in executable form (evaluated per instance) *)
Theorem C04_canon_hyp_sound : forall (woff aoff : nat) (s : store) (c : id), canon_hyp woff aoff s c = true ->
  wfs s /\ one_open s /\ 0 < woff /\ next_wire s <= woff /\ next_atom s <= aoff /\ amem c (nodes s) = true /\
  iso_check (s, Some c) = true /\ plain_off s c.
Proof. exact canon_hyp_sound. Qed.
Print Assumptions C04_canon_hyp_sound.

(* non-vacuity: the three-node chain of C03_example brought into canonical form at its middle node satisfies the structural
   hypotheses; over Z with (rectangular) identity matrices as Q factors the kernel contract holds; the shortcut values (norm:
   bx_val, single-site operator at the centre: bx_ss) are computed, the values of the full contractions follow from the theorems *)
From Coq Require Import ZArith.
Example C04_bridge_example :
  canon_hyp 1000 100 bx_s 1 = true /\
  qr_contracts BinNums.Z BinNums.Z0 (BinNums.Zpos BinNums.xH) BinInt.Z.add BinInt.Z.mul 100 bx_s bx_tbl /\
  bx_val (Some 1) = Some 751260730%Z /\ bx_val None = Some 751260730%Z /\
  bx_ss (Some 1) = Some 12867863162%Z /\ bx_ss None = Some 12867863162%Z.
Proof.
  split; [exact bx_hyp|]. split; [exact bx_contracts|]. split; [exact bx_local_value|]. split; [exact bx_full_value|].
  split; [exact bx_ss_local|exact bx_ss_full].
Qed.
Print Assumptions C04_bridge_example.

(* ==== the VALUE of the three-layer diagram <psi| H |psi> (Contr/ThreeLayerValue*.v) ================================================ *)
From PTN Require Import Contr.ThreeLayerValue Contr.ThreeLayerValueProofs.

(* THE FUSED FLAT FORM.  State s (extended store invariant wfs; wf_three says: one open leg per node), operator store op on the same
   tree t (wf_three: same parent relation, children of every operator node ANY rearrangement of the state's, two open legs
   (output, input) last), the three wire ranges separated (state wires < next_wire s <= operator wires < woff <= conjugate copy),
   any world Wr/Dm that reads the atoms of the state, of the operator and of the conjugate copy on their own wires.  Then the model
   of expectation_value(state, ttno) succeeds with a CLOSED diagram whose value, over any commutative semiring, is
     three_flat = SUM over the three copies (ket, operator, conjugate) of every tree edge and over one index per glued pair of
                  physical wires (ket physical ~ operator input, operator output ~ conjugate physical; at the root the second pair
                  is recorded from the conjugate side) of PROD over the nodes of (ket tensor)(operator tensor)(conjugate ket tensor),
   every tensor read through the gluing.  Nothing in three_flat depends on a child order. *)
Theorem C04_ttno_expectation_value_flat : forall (R : Type) (zero one : R) (add mul : R -> R -> R),
  comm_semiring zero one add mul ->
  forall (woff aoff : nat) (s op : store) (t : rt) (tbl : nat -> list nat -> R) (Wr : nat -> list wire) (Dm : wire -> nat),
  wfs s -> wfs op -> next_wire s <= woff -> op_above (next_wire s) op -> next_wire op <= woff ->
  wf_three woff s op t ->
  (forall a, In a (total_atoms s) -> Wr a = atom_wires s a) ->
  (forall a, In a (total_atoms op) -> Wr a = atom_wires op a) ->
  (forall a, In a (total_atoms s) -> Wr (aoff + a) = map (Nat.add woff) (atom_wires s a)) ->
  exists g, expectation_value woff aoff s op = Some g /\ gaxes g = [] /\
    forall rho, gvalue R zero one add mul Wr Dm tbl g rho = three_flat R zero one add mul Wr Dm tbl woff aoff s op t rho.
Proof. exact ttno_expectation_value_flat. Qed.
Print Assumptions C04_ttno_expectation_value_flat.

(* the same in the world of the three stores (atom tables and dimensions of s, op and the conjugate copy), the tree read off the
   state and the pairing hypothesis through the executable checker three_ok *)
Theorem C04_ttno_expectation_value_flat_world : forall (R : Type) (zero one : R) (add mul : R -> R -> R),
  comm_semiring zero one add mul ->
  forall (woff aoff : nat) (s op : store) (tbl : nat -> list nat -> R),
  wfs s -> wfs op -> next_wire s <= woff -> op_above (next_wire s) op -> next_wire op <= woff ->
  next_atom s <= aoff -> next_atom op <= aoff -> (forall a, In a (total_atoms op) -> next_atom s <= a) ->
  three_ok woff s op = true ->
  exists t g, ket_tree s = Some t /\ expectation_value woff aoff s op = Some g /\ gaxes g = [] /\
    forall rho, gvalue R zero one add mul (three_world woff aoff s op) (three_dim woff aoff s op) tbl g rho
                = three_flat R zero one add mul (three_world woff aoff s op) (three_dim woff aoff s op) tbl woff aoff s op t rho.
Proof. exact ttno_expectation_value_flat_world. Qed.
Print Assumptions C04_ttno_expectation_value_flat_world.

(* the fusion step behind it: a family of tensors whose summed wires are private (not an axis of any member, not summed in another
   member) under a gluing that only touches axes -- the sums inside the tensors move out of the product *)
Theorem C04_fuse_items : forall (R : Type) (zero one : R) (add mul : R -> R -> R), comm_semiring zero one add mul ->
  forall (Wr : nat -> list wire) (Dm : wire -> nat) (tbl : nat -> list nat -> R)
         (A : Type) (d : A -> sarr) (G : list (wire * wire)) (items : list A),
  NoDup items ->
  (forall i a y, In i items -> In a (atoms (d i)) -> In y (Wr a) -> In y (axes (d i)) \/ In y (bnd (d i))) ->
  (forall i j b, In i items -> In j items -> In b (bnd (d i)) -> ~ In b (axes (d j))) ->
  (forall i j b, In i items -> In j items -> i <> j -> In b (bnd (d i)) -> ~ In b (bnd (d j))) ->
  (forall p, In p G -> (exists i, In i items /\ In (fst p) (axes (d i))) /\ (exists j, In j items /\ In (snd p) (axes (d j)))) ->
  forall rho,
  sum_bnd R zero add Dm (flat_map (fun i => bnd (d i)) items)
    (fun r => atoms_val R one mul Wr tbl (flat_map (fun i => atoms (d i)) items) (glue_asg G r)) rho
  = prod_over R one mul (fun i => value R zero one add mul Wr Dm tbl (d i) (glue_asg G rho)) items.
Proof. exact fuse_items. Qed.
Print Assumptions C04_fuse_items.

(* COROLLARY: the value does not depend on the child orders of the state (hence of its conjugate copy) and of the operator.  Two
   (state, operator) pairs over trees with the same root and the same nodes that hold the same data at every node (atoms, inner
   sums, edge wires, physical wires), in any child orders: both contractions succeed and the closed diagrams have the same value *)
Theorem C04_ttno_expectation_child_orders : forall (R : Type) (zero one : R) (add mul : R -> R -> R),
  comm_semiring zero one add mul ->
  forall (woff aoff : nat) (s op s' op' : store) (t t' : rt) (tbl : nat -> list nat -> R) (Wr : nat -> list wire) (Dm : wire -> nat),
  wfs s -> wfs op -> next_wire s <= woff -> next_wire op <= woff ->
  wf_three woff s op t -> wf_three woff s' op' t' ->
  rid t = rid t' -> Permutation (rnodes t) (rnodes t') ->
  (forall m, In m (rnodes t) ->
     t_atoms s m = t_atoms s' m /\ t_bnd s m = t_bnd s' m /\ up_wire s m = up_wire s' m /\ open_wire s m = open_wire s' m /\
     t_atoms op m = t_atoms op' m /\ t_bnd op m = t_bnd op' m /\ up_wire op m = up_wire op' m /\
     out_wire op m = out_wire op' m /\ in_wire op m = in_wire op' m) ->
  exists g g', expectation_value woff aoff s op = Some g /\ expectation_value woff aoff s' op' = Some g' /\
    forall rho, gvalue R zero one add mul Wr Dm tbl g rho = gvalue R zero one add mul Wr Dm tbl g' rho.
Proof. exact ttno_expectation_child_orders. Qed.
Print Assumptions C04_ttno_expectation_child_orders.

(* non-vacuity and both sides evaluated: root 0 with children 1, 2, bond dimensions 2 and 3 (state) / 2 and 3 (operator, the root's
   children in the OPPOSITE order), physical dimension 2, arbitrary non-symmetric integer tensors (tx_tbl).  The hypotheses hold
   (tx_hyp); the diagram of expectation_value (12 summed wires, 13824 terms) and the flat form evaluate to the same integer *)
Example C04_ttno_flat_example :
  tx_hyp tx_op = true /\
  tx_lhs tx_op = Some (-732275630062126920)%Z /\ tx_rhs tx_op = Some (-732275630062126920)%Z.
Proof. split; [exact tx_hyp_ok|]. split; [exact tx_lhs_value|exact tx_rhs_value]. Qed.
Print Assumptions C04_ttno_flat_example.

(* the pairing hypothesis wf_three is a CONSEQUENCE of the store invariants: a wfs state with one open leg per node, a wfs operator
   store with two open legs per node, the same root, at every node the same parent and the state's children in ANY order, the
   operator's wires allocated above the state's and below woff *)
Theorem C04_wf_three_of_wf : forall (woff : nat) (s op : store),
  wfs s -> wfs op -> one_open s -> two_open op -> root op = root s ->
  (forall k n, aget k (nodes s) = Some n ->
     exists on, aget k (nodes op) = Some on /\ parent on = parent n /\ Permutation (children on) (children n)) ->
  op_above (next_wire s) op -> next_wire op <= woff -> 0 < woff ->
  exists t, ket_tree s = Some t /\ wf_three woff s op t /\ Permutation (rnodes t) (akeys (nodes s)).
Proof. exact wf_three_of_wf. Qed.
Print Assumptions C04_wf_three_of_wf.

(* ... so the flat form holds with every hypothesis stated on the two stores *)
Theorem C04_ttno_expectation_value_flat_wf : forall (R : Type) (zero one : R) (add mul : R -> R -> R),
  comm_semiring zero one add mul ->
  forall (woff aoff : nat) (s op : store) (tbl : nat -> list nat -> R) (Wr : nat -> list wire) (Dm : wire -> nat),
  wfs s -> one_open s -> wfs op -> two_open op -> root op = root s ->
  (forall k n, aget k (nodes s) = Some n ->
     exists on, aget k (nodes op) = Some on /\ parent on = parent n /\ Permutation (children on) (children n)) ->
  0 < woff -> next_wire s <= woff -> op_above (next_wire s) op -> next_wire op <= woff ->
  (forall a, In a (total_atoms s) -> Wr a = atom_wires s a) ->
  (forall a, In a (total_atoms op) -> Wr a = atom_wires op a) ->
  (forall a, In a (total_atoms s) -> Wr (aoff + a) = map (Nat.add woff) (atom_wires s a)) ->
  exists t g, ket_tree s = Some t /\ Permutation (rnodes t) (akeys (nodes s)) /\
    expectation_value woff aoff s op = Some g /\ gaxes g = [] /\
    forall rho, gvalue R zero one add mul Wr Dm tbl g rho = three_flat R zero one add mul Wr Dm tbl woff aoff s op t rho.
Proof. exact ttno_expectation_value_flat_wf. Qed.
Print Assumptions C04_ttno_expectation_value_flat_wf.
