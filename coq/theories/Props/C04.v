(* Property C04 — scalar products, norms, expectation values, as_matrix.  Statements only.
   Model: Contr/Blocks.v over TTN/Store.v (tied to /repo by value and checked per instance by
   harness/props/c04.py). *)
From Coq Require Import List Arith Permutation.
From PTN Require Import TTN.Store Contr.Blocks Contr.BlocksProofs.
Import ListNotations.

(* TTNO.as_matrix transposes the contracted operator by evens ++ odds: a permutation of its 2n legs
   whose first n entries are the output legs and last n entries the input legs, both in
   contraction order *)
Theorem C04_as_matrix_perm : forall n : nat, Permutation (as_matrix_perm n) (seq 0 (2 * n)).
Proof. exact evens_odds_perm. Qed.
Print Assumptions C04_as_matrix_perm.
Theorem C04_as_matrix_rows : forall n j : nat, j < n -> nth j (as_matrix_perm n) 0 = 2 * j.
Proof. exact as_matrix_perm_rows. Qed.
Print Assumptions C04_as_matrix_rows.
Theorem C04_as_matrix_cols : forall n j : nat, j < n -> nth (n + j) (as_matrix_perm n) 0 = 2 * j + 1.
Proof. exact as_matrix_perm_cols. Qed.
Print Assumptions C04_as_matrix_cols.

(* a tensordot keeps all atoms, and every contracted axis pair is either bound (the two ends of one
   wire) or recorded as glued: no contracted leg is lost from the diagram *)
Theorem C04_tensordot_atoms : forall (a b : garr) (ia ib : list nat) (r : garr),
  g_tensordot a b ia ib = Some r -> gatoms r = gatoms a ++ gatoms b.
Proof. exact g_tensordot_atoms. Qed.
Print Assumptions C04_tensordot_atoms.
Theorem C04_tensordot_pairs : forall (a b : garr) (ia ib : list nat) (r : garr),
  g_tensordot a b ia ib = Some r ->
  length (gbnd r) + length (gglue r) = length ia + length (gbnd a) + length (gbnd b) + length (gglue a) + length (gglue b).
Proof. exact g_tensordot_pairs. Qed.
Print Assumptions C04_tensordot_pairs.

(* non-vacuity: <phi|psi> on a 3-node tree whose bra has the opposite child order: the block
   recursion closes the network, gluing each ket leg to the same node's bra leg *)
Example C04_example :
  let kops := [AddRoot 0 [2; 2; 3]; AddChild 1 [2; 2] 0 0 0; AddChild 2 [3; 2] 0 0 2] in
  let bops := [AddRoot 0 [3; 2; 2]; AddChild 2 [2; 3] 1 0 0; AddChild 1 [2; 2] 1 0 2] in
  option_map (fun g => (gaxes g, length (gatoms g), length (gbnd g), length (gglue g)))
             (contract_two_ttns (fst (run empty_store kops)) (fst (run (store_at 100 10) bops)))
  = Some ([], 6, 4, 3).
Proof. vm_compute. reflexivity. Qed.
Print Assumptions C04_example.
