(* Property C11 — tensor QR / SVD reproduce the tensor for every leg bipartition and mode.
   Statements only; each is closed by `exact`.  np.linalg.qr / np.linalg.svd / truncate_singular_values /
   np.sqrt are universally quantified function arguments constrained by explicit contracts (tag O);
   the values live in an arbitrary commutative ring (R, rO, rI, radd, rmul, rsub, ropp, ring_theory). *)
From Coq Require Import List Arith Bool Ring ZArith.
From PTN Require Import Index.Flat Index.FlatProofs.
Import ListNotations.

(* ---- F: row-major flat index <-> multi-index, any shape (dimension-1 legs, empty shape included) ---- *)
Theorem C11_flatten_unflatten : forall (s : list nat) (f : nat), f < size s ->
  flatten s (unflatten s f) = f /\ in_box s (unflatten s f) = true.
Proof. exact flatten_unflatten_box. Qed.
Print Assumptions C11_flatten_unflatten.

Theorem C11_unflatten_flatten : forall (s idx : list nat), in_box s idx = true ->
  unflatten s (flatten s idx) = idx /\ flatten s idx < size s.
Proof. exact unflatten_flatten_lt. Qed.
Print Assumptions C11_unflatten_flatten.

(* the lexicographic enumeration of the box is mapped onto 0, 1, ..., size s - 1 in this order *)
Theorem C11_flatten_bijection : forall s : list nat,
  map (flatten s) (box s) = seq 0 (size s) /\
  (forall idx, In idx (box s) <-> in_box s idx = true) /\
  (forall i j, in_box s i = true -> in_box s j = true -> flatten s i = flatten s j -> i = j).
Proof. exact flatten_bijection. Qed.
Print Assumptions C11_flatten_bijection.

(* ---- F: axis permutation (np.transpose by first_legs ++ last_legs) ---- *)
(* the accepted leg lists are exactly the permutations of 0..n-1 *)
Theorem C11_legs_ok_permutation : forall (n : nat) (legs : list nat),
  legs_ok n legs = true <-> Permutation.Permutation legs (seq 0 n).
Proof. exact legs_ok_perm. Qed.
Print Assumptions C11_legs_ok_permutation.

(* original axis perm[j] is addressed by component j of the transposed multi-index; the map is a
   bijection between the two index boxes *)
Theorem C11_transpose_index_map : forall (s perm : list nat), legs_ok (length s) perm = true ->
  (forall idx j, j < length s -> nth (nth j perm 0) (scatter perm idx) 0 = nth j idx 0) /\
  (forall idx, in_box (dims s perm) idx = true ->
     in_box s (scatter perm idx) = true /\ gather perm (scatter perm idx) = idx) /\
  (forall orig, in_box s orig = true ->
     in_box (dims s perm) (gather perm orig) = true /\ scatter perm (gather perm orig) = orig) /\
  size (dims s perm) = size s.
Proof. exact transpose_index_map. Qed.
Print Assumptions C11_transpose_index_map.

Theorem C11_transpose_by_leg_list : forall A (t : tensor A) (fl ll : list nat),
  (legs_ok (length (tshape t)) (fl ++ ll) = true ->
   exists T, transpose_by_leg_list t fl ll = Some T /\
     tshape T = dims (tshape t) fl ++ dims (tshape t) ll /\
     forall idx, tent T idx = tent t (scatter (fl ++ ll) idx)) /\
  (legs_ok (length (tshape t)) (fl ++ ll) = false -> transpose_by_leg_list t fl ll = None).
Proof. exact transpose_by_leg_list_spec. Qed.
Print Assumptions C11_transpose_by_leg_list.

(* ---- F: the matricisation index map, every ordered bipartition (either side may be empty) ---- *)
Theorem C11_matricize_entry : forall A (t : tensor A) (ql rl : list nat),
  legs_ok (length (tshape t)) (ql ++ rl) = true ->
  exists M, matricize t ql rl = Some M /\
    tshape M = [size (dims (tshape t) ql); size (dims (tshape t) rl)] /\
    size (dims (tshape t) ql) * size (dims (tshape t) rl) = size (tshape t) /\
    forall r c, r < size (dims (tshape t) ql) -> c < size (dims (tshape t) rl) ->
      tent M [r; c] =
      tent t (scatter (ql ++ rl) (unflatten (dims (tshape t) ql) r ++ unflatten (dims (tshape t) rl) c)).
Proof. exact matricize_entry. Qed.
Print Assumptions C11_matricize_entry.

Theorem C11_matricize_rejects : forall A (t : tensor A) (ql rl : list nat),
  legs_ok (length (tshape t)) (ql ++ rl) = false -> matricize t ql rl = None.
Proof. exact matricize_none. Qed.
Print Assumptions C11_matricize_rejects.

(* ---- F: shapes of the factors per mode ---- *)
(* Q : dims(q_legs) ++ [k], R : [k] ++ dims(r_legs), k = m (FULL), min m n (REDUCED), n (KEEP, r_legs <> []);
   KEEP with an empty second side is rejected (TypeError in np.pad) *)
Theorem C11_qr_shapes : forall (md : mode) (s ql rl : list nat), legs_ok (length s) (ql ++ rl) = true ->
  let k := qr_bond md (size (dims s ql)) (size (dims s rl)) in
  qr_shapes md s ql rl =
  match md, rl with
  | KEEP, [] => None
  | _, _ => Some (dims s ql ++ [k], k :: dims s rl)
  end.
Proof. exact qr_shapes_spec. Qed.
Print Assumptions C11_qr_shapes.

(* the same for the tensor-level model with an arbitrary kernel and arbitrary entries *)
Theorem C11_tensor_qr_shapes : forall A (zero : A) qr (md : mode) (t : tensor A) (ql rl : list nat),
  legs_ok (length (tshape t)) (ql ++ rl) = true ->
  let k := qr_bond md (size (dims (tshape t) ql)) (size (dims (tshape t) rl)) in
  match tensor_qr zero qr md t ql rl with
  | Some (q, r) => (md = KEEP -> rl <> []) /\ tshape q = dims (tshape t) ql ++ [k] /\ tshape r = k :: dims (tshape t) rl
  | None => md = KEEP /\ rl = []
  end.
Proof. exact tensor_qr_shapes. Qed.
Print Assumptions C11_tensor_qr_shapes.

Theorem C11_qr_rejects : forall (md : mode) (s ql rl : list nat),
  legs_ok (length s) (ql ++ rl) = false -> qr_shapes md s ql rl = None /\ forall md', svd_shapes md' s ql rl = None.
Proof. exact shapes_reject. Qed.
Print Assumptions C11_qr_rejects.

(* KEEP with a single split-off leg: Q has the input's shape with the legs reordered as q_legs ++ r_legs *)
Theorem C11_qr_keep_single_leg : forall (s ql : list nat) (a : nat), legs_ok (length s) (ql ++ [a]) = true ->
  exists rshape, qr_shapes KEEP s ql [a] = Some (dims s (ql ++ [a]), rshape).
Proof. exact qr_keep_single_leg. Qed.
Print Assumptions C11_qr_keep_single_leg.

(* U : dims(u_legs) ++ [ku], len(S) = min m n, Vh : [kv] ++ dims(v_legs);
   (ku, kv) = (min, min) for REDUCED and (m, n) for FULL and KEEP (numpy_svd_mode is `not REDUCED`) *)
Theorem C11_svd_shapes : forall (md : mode) (s ul vl : list nat), legs_ok (length s) (ul ++ vl) = true ->
  let m := size (dims s ul) in let n := size (dims s vl) in
  svd_shapes md s ul vl =
  Some (dims s ul ++ [fst (svd_bonds md m n)], Nat.min m n, snd (svd_bonds md m n) :: dims s vl).
Proof. exact svd_shapes_spec. Qed.
Print Assumptions C11_svd_shapes.

(* ---- O: values in a commutative ring; kernels constrained by contracts ---- *)
(* KEEP zero padding on matrices: padding Q with zero columns and R with zero rows keeps the product *)
Theorem C11_keep_padding : forall (R : Type) (rO rI : R) (radd rmul rsub : R -> R -> R) (ropp : R -> R),
  ring_theory rO rI radd rmul rsub ropp eq ->
  forall (k d : nat) (A B : matrix R) (i j : nat),
  mmul rO radd rmul (k + d) (pad_cols rO k A) (pad_rows rO k B) i j = mmul rO radd rmul k A B i j.
Proof. exact keep_padding. Qed.
Print Assumptions C11_keep_padding.

(* contracting the reshaped factors over the bond = the matrix product, entrywise *)
Theorem C11_factors_contract : forall (R : Type) (rO : R) (radd rmul : R -> R -> R)
  (m n k : nat) (Qm Rm : matrix R) (dq dr iq ir : list nat),
  size dq = m -> size dr = n -> in_box dq iq = true -> in_box dr ir = true ->
  tent (contract_bond rO radd rmul (reshape (mat_tensor m k Qm) (dq ++ [k])) (reshape (mat_tensor k n Rm) (k :: dr)))
       (iq ++ ir)
  = mmul rO radd rmul k Qm Rm (flatten dq iq) (flatten dr ir).
Proof. exact factors_contract. Qed.
Print Assumptions C11_factors_contract.

(* contract: Q R = A entrywise  ==>  tensordot(Q, R, (-1, 0)) is the input transposed to q_legs ++ r_legs,
   in every mode (KEEP included: the padding does not change the contraction) *)
Theorem C11_qr_reconstruct : forall (R : Type) (rO rI : R) (radd rmul rsub : R -> R -> R) (ropp : R -> R),
  ring_theory rO rI radd rmul rsub ropp eq ->
  forall qr : mode -> nat -> nat -> matrix R -> matrix R * matrix R,
  (forall (md : mode) (m n : nat) (A : matrix R) (r c : nat), r < m -> c < n ->
     mmul rO radd rmul (snd (fst (qr_kernel_shapes md m n))) (fst (qr md m n A)) (snd (qr md m n A)) r c = A r c) ->
  forall (md : mode) (t : tensor R) (ql rl : list nat) (q r : tensor R),
  legs_ok (length (tshape t)) (ql ++ rl) = true ->
  tensor_qr rO qr md t ql rl = Some (q, r) ->
  tshape (contract_bond rO radd rmul q r) = dims (tshape t) (ql ++ rl) /\
  (forall idx, in_box (dims (tshape t) (ql ++ rl)) idx = true ->
     tent (contract_bond rO radd rmul q r) idx = tent t (scatter (ql ++ rl) idx)).
Proof. exact qr_reconstruct. Qed.
Print Assumptions C11_qr_reconstruct.

(* contract: U[:, :p] diag(s) Vh[:p, :] = A  ==>  (u[..., :p] * s) . vh[:p] is the transposed input
   (FULL / KEEP: the leading p = len(s) columns and rows) *)
Theorem C11_svd_reconstruct : forall (R : Type) (rO : R) (radd rmul : R -> R -> R)
  (svd : mode -> nat -> nat -> matrix R -> matrix R * (nat -> R) * matrix R),
  (forall (md : mode) (m n : nat) (A : matrix R) (r c : nat), r < m -> c < n ->
     sum_n rO radd (fun l => rmul (rmul (fst (fst (svd md m n A)) r l) (snd (fst (svd md m n A)) l))
                                  (snd (svd md m n A) l c)) (Nat.min m n) = A r c) ->
  forall (md : mode) (t : tensor R) (ul vl : list nat) (u : tensor R) (p : nat) (sv : nat -> R) (vh : tensor R),
  legs_ok (length (tshape t)) (ul ++ vl) = true ->
  tensor_svd svd md t ul vl = Some (u, (p, sv), vh) ->
  let us := scale_last rmul (slice_last u p) sv in
  let vs := slice_first vh p in
  tshape (contract_bond rO radd rmul us vs) = dims (tshape t) (ul ++ vl) /\
  (forall idx, in_box (dims (tshape t) (ul ++ vl)) idx = true ->
     tent (contract_bond rO radd rmul us vs) idx = tent t (scatter (ul ++ vl) idx)).
Proof. exact svd_reconstruct. Qed.
Print Assumptions C11_svd_reconstruct.

(* truncated_tensor_svd: U and Vh are cut to the same p' = len(new_s) leading columns / rows and their
   contraction with new_s is the truncated product of the kernel's factors *)
Theorem C11_truncated_product : forall (R : Type) (rO : R) (radd rmul : R -> R -> R)
  (svd : mode -> nat -> nat -> matrix R -> matrix R * (nat -> R) * matrix R)
  (trunc : nat -> (nat -> R) -> nat * (nat -> R))
  (t : tensor R) (ul vl : list nat) (u' : tensor R) (p' : nat) (s' : nat -> R) (vh' : tensor R),
  legs_ok (length (tshape t)) (ul ++ vl) = true ->
  truncated_tensor_svd svd trunc t ul vl = Some (u', (p', s'), vh') ->
  let s := tshape t in let m := size (dims s ul) in let n := size (dims s vl) in
  p' <= Nat.min m n ->
  exists M, matricize t ul vl = Some M /\
    tshape u' = dims s ul ++ [p'] /\ tshape vh' = p' :: dims s vl /\
    (forall iq ir, in_box (dims s ul) iq = true -> in_box (dims s vl) ir = true ->
       tent (contract_bond rO radd rmul (scale_last rmul u' s') vh') (iq ++ ir) =
       sum_n rO radd (fun l => rmul (rmul (fst (fst (svd REDUCED m n (tensor_mat M))) (flatten (dims s ul) iq) l) (s' l))
                                    (snd (svd REDUCED m n (tensor_mat M)) l (flatten (dims s vl) ir))) p').
Proof. exact truncated_product. Qed.
Print Assumptions C11_truncated_product.

(* UCONTR / VCONTR / EQUAL: the two returned factors have the prescribed shapes and contract to
   U diag(s) Vh; contract for EQUAL: sqrt(s) * sqrt(s) = s *)
Theorem C11_contr_modes : forall (R : Type) (rO rI : R) (radd rmul rsub : R -> R -> R) (ropp : R -> R),
  ring_theory rO rI radd rmul rsub ropp eq ->
  forall (cm : cmode) (u vh : tensor R) (dq dr : list nat) (p : nat) (s rs : nat -> R) (iq ir : list nat),
  tshape u = dq ++ [p] -> tshape vh = p :: dr -> length iq = length dq ->
  (forall l, l < p -> rmul (rs l) (rs l) = s l) ->
  let ab := contr_split rO radd rmul cm u p s rs vh in
  tshape (fst ab) = dq ++ [p] /\ tshape (snd ab) = p :: dr /\
  tshape (contract_bond rO radd rmul (fst ab) (snd ab)) = dq ++ dr /\
  tent (contract_bond rO radd rmul (fst ab) (snd ab)) (iq ++ ir) =
  tent (contract_bond rO radd rmul (scale_last rmul u s) vh) (iq ++ ir).
Proof. exact contr_modes. Qed.
Print Assumptions C11_contr_modes.

(* contract: orthonormal columns of the kernel's Q  ==>  Q^H Q over the kept legs is the identity;
   in the KEEP mode it is diag(1_k, 0), k = min m n (zero-padded partial isometry) *)
Theorem C11_qr_isometry : forall (R : Type) (rO rI : R) (radd rmul rsub : R -> R -> R) (ropp : R -> R),
  ring_theory rO rI radd rmul rsub ropp eq ->
  forall cj : R -> R, cj rO = rO ->
  forall qr : mode -> nat -> nat -> matrix R -> matrix R * matrix R,
  (forall (md : mode) (m n : nat) (A : matrix R) (a b : nat),
     a < snd (fst (qr_kernel_shapes md m n)) -> b < snd (fst (qr_kernel_shapes md m n)) ->
     gram_cols rO radd rmul cj m (fst (qr md m n A)) a b = (if a =? b then rI else rO)) ->
  forall (md : mode) (t : tensor R) (ql rl : list nat) (q r : tensor R),
  legs_ok (length (tshape t)) (ql ++ rl) = true ->
  tensor_qr rO qr md t ql rl = Some (q, r) ->
  let m := size (dims (tshape t) ql) in let n := size (dims (tshape t) rl) in
  let kq := snd (fst (qr_kernel_shapes md m n)) in
  forall a b, a < qr_bond md m n -> b < qr_bond md m n ->
    gram_last rO radd rmul cj q a b = (if (a <? kq) && (b <? kq) then if a =? b then rI else rO else rO).
Proof. exact qr_isometry. Qed.
Print Assumptions C11_qr_isometry.

Theorem C11_svd_isometry : forall (R : Type) (rO rI : R) (radd rmul rsub : R -> R -> R) (ropp : R -> R),
  ring_theory rO rI radd rmul rsub ropp eq ->
  forall (cj : R -> R) (svd : mode -> nat -> nat -> matrix R -> matrix R * (nat -> R) * matrix R),
  (forall (md : mode) (m n : nat) (A : matrix R) (a b : nat),
     a < snd (fst (fst (svd_kernel_shapes md m n))) -> b < snd (fst (fst (svd_kernel_shapes md m n))) ->
     gram_cols rO radd rmul cj m (fst (fst (svd md m n A))) a b = (if a =? b then rI else rO)) ->
  (forall (md : mode) (m n : nat) (A : matrix R) (a b : nat),
     a < fst (snd (svd_kernel_shapes md m n)) -> b < fst (snd (svd_kernel_shapes md m n)) ->
     gram_rows rO radd rmul cj n (snd (svd md m n A)) a b = (if a =? b then rI else rO)) ->
  forall (md : mode) (t : tensor R) (ul vl : list nat) (u : tensor R) (psv : nat * (nat -> R)) (vh : tensor R),
  legs_ok (length (tshape t)) (ul ++ vl) = true ->
  tensor_svd svd md t ul vl = Some (u, psv, vh) ->
  let m := size (dims (tshape t) ul) in let n := size (dims (tshape t) vl) in
  (forall a b, a < fst (svd_bonds md m n) -> b < fst (svd_bonds md m n) ->
     gram_last rO radd rmul cj u a b = (if a =? b then rI else rO)) /\
  (forall a b, a < snd (svd_bonds md m n) -> b < snd (svd_bonds md m n) ->
     gram_first rO radd rmul cj vh a b = (if a =? b then rI else rO)).
Proof. exact svd_isometry. Qed.
Print Assumptions C11_svd_isometry.

(* ---- non-vacuity ---- *)
(* the product contract is satisfiable: a kernel over Z whose one factor is the identity *)
Theorem C11_contract_satisfiable : forall (md : mode) (m n : nat) (A : matrix Z) (r c : nat), r < m -> c < n ->
  mmul 0%Z Z.add Z.mul (snd (fst (qr_kernel_shapes md m n))) (fst (idqr md m n A)) (snd (idqr md m n A)) r c = A r c.
Proof. exact idqr_contract. Qed.
Print Assumptions C11_contract_satisfiable.

(* KEEP, wide matricisation 2 x 6: Q is padded from 2 to 6 columns, R from 2 to 6 rows; round trip exact *)
Example C11_example_keep_wide :
  qr_roundtrip KEEP ex_tensor [0] [2; 1] =
  Some ([2; 6], [6; 2; 3], tabulate (transpose ex_tensor [0; 2; 1])).
Proof. vm_compute. reflexivity. Qed.
Print Assumptions C11_example_keep_wide.

(* permuted legs, tall matricisation 4 x 3, single split-off leg: Q has the transposed input's shape *)
Example C11_example_keep_tall :
  qr_roundtrip KEEP ex_tensor [2; 0] [1] =
  Some ([2; 2; 3], [3; 3], tabulate (transpose ex_tensor [2; 0; 1])).
Proof. vm_compute. reflexivity. Qed.
Print Assumptions C11_example_keep_tall.

Example C11_example_matricize :
  matricize_enc [2; 3; 4] [2; 0] [1] =
  Some ([8; 3], [0; 4; 8; 12; 16; 20; 1; 5; 9; 13; 17; 21; 2; 6; 10; 14; 18; 22; 3; 7; 11; 15; 19; 23]).
Proof. vm_compute. reflexivity. Qed.
Print Assumptions C11_example_matricize.
