(* Property C08 — a TEBD step equals the ordered product of its Trotter gates and SWAPs.
   Statements only; each is closed by `exact`.  Model: TEBD/Trotter.v (splitting and swap_gate as
   list / arithmetic programs, gate application as programs over TTN/Store.v), tied to /repo by
   harness/props/c08.py after every sub-operation of every gate. *)
From Coq Require Import List Arith Bool ZArith Permutation.
From PTN Require Import TTN.Store TTN.StoreProofs TTN.Inv TTN.InvSplit TTN.CanonTree TEBD.Trotter TEBD.TrotterProofs TEBD.GateTree.
Import ListNotations.

(* ---- 1. exponentiate_splitting ------------------------------------------------------------------- *)
(* for every splitting: the gate list is the concatenation over the steps of
   swaps_before ++ [exp(-i f dt A(x)B)] ++ swaps_after; a SWAP carries its pair in pair order, the
   factor carries the TensorProduct keys in key order and the step's factor *)
Theorem C08_exponents_order : forall (F M : Type) (mdim : M -> nat) (ds : dimsrc) (l : list (tstep F M)) (gs : list (gate F M)),
  exponentiate_splitting mdim ds l = Some gs ->
  map gsig gs
  = flat_map (fun st => map (fun p => (KSwap, [fst p; snd p], None)) (ts_before st)
                        ++ [(KExp, akeys (ts_op st), Some (ts_factor st))]
                        ++ map (fun p => (KSwap, [fst p; snd p], None)) (ts_after st)) l.
Proof. exact @exponents_order. Qed.
Print Assumptions C08_exponents_order.

(* every gate tensor: outputs first, inputs second, each half in identifier order *)
Theorem C08_gate_axes_layout : forall (F M : Type) (mdim : M -> nat) (ds : dimsrc) (l : list (tstep F M)) (gs : list (gate F M)) (g : gate F M),
  exponentiate_splitting mdim ds l = Some gs -> In g gs ->
  (exists hs, g_shape g = hs ++ hs /\ length hs = length (g_ids g)) /\
  gate_axes g = map (fun i => (i, true)) (g_ids g) ++ map (fun i => (i, false)) (g_ids g).
Proof. exact @gate_axes_layout. Qed.
Print Assumptions C08_gate_axes_layout.

(* TensorProduct.exp / into_operator(): factors multiplied in key order *)
Theorem C08_into_operator_keyorder : forall (M : Type) (tp : list (id * M)), NoDup (akeys tp) -> tp <> [] ->
  into_operator tp None = Some (map snd tp, akeys tp).
Proof. exact @into_operator_keyorder. Qed.
Print Assumptions C08_into_operator_keyorder.

(* into_operator(order=...): the factors follow `order`, the identifiers returned do not *)
Theorem C08_into_operator_order : forall (M : Type) (tp : list (id * M)) (order : list id) (ms : list M) (ids : list id),
  into_operator tp (Some order) = Some (ms, ids) ->
  ids = akeys tp /\ Forall2 (fun i m => aget i tp = Some m) order ms.
Proof. exact @into_operator_order. Qed.
Print Assumptions C08_into_operator_order.

Theorem C08_from_lists_default : forall (F M : Type) (one : F) (tps : list (list (id * M))),
  from_lists one tps None None None
  = Some (map (fun tp => {| ts_op := tp; ts_factor := one; ts_before := []; ts_after := [] |}) tps).
Proof. exact @from_lists_default. Qed.
Print Assumptions C08_from_lists_default.

Theorem C08_from_lists_spec : forall (F M : Type) (one : F) (tps : list (list (id * M))) (sp : list (split_item F))
    (sb sa : option (list (list (id * id)))) (steps : list (tstep F M)),
  from_lists one tps (Some sp) sb sa = Some steps ->
  Forall2 (fun it st => nth_error tps (item_index it) = Some (ts_op st) /\ ts_factor st = item_factor one it /\
                        prepare_swap_list (item_index it) sb = Some (ts_before st) /\
                        prepare_swap_list (item_index it) sa = Some (ts_after st)) sp steps.
Proof. exact @from_lists_spec. Qed.
Print Assumptions C08_from_lists_spec.

(* ---- 2. swap_gate ------------------------------------------------------------------------------------ *)
(* the matrix the two loops build: row i, column j (both < d*d) *)
Theorem C08_swap_matrix_entry : forall d i j : nat, i < d * d -> j < d * d ->
  nth j (nth i (swap_matrix d) []) false = swap_entry d i j.
Proof. exact swap_matrix_entry. Qed.
Print Assumptions C08_swap_matrix_entry.

(* as a (d,d,d,d) tensor: entry ((a,b),(c,e)) = [a = e /\ b = c], every dimension *)
Theorem C08_swap_tensor_entries : forall d a b c e : nat, a < d -> b < d -> c < d -> e < d ->
  swap_tensor_entry d a b c e = true <-> (a = e /\ b = c).
Proof. exact swap_tensor_entry_spec. Qed.
Print Assumptions C08_swap_tensor_entries.

(* it is the permutation matrix of sigma(i) = (i mod d) * d + i / d, an involution of [0, d*d) *)
Theorem C08_swap_is_permutation : forall d i j : nat, i < d * d -> j < d * d ->
  (swap_entry d i j = true <-> j = swap_sigma d i) /\ swap_sigma d i < d * d /\ swap_sigma d (swap_sigma d i) = i.
Proof. intros d i j Hi Hj. exact (conj (swap_entry_sigma d i j Hi Hj) (conj (swap_sigma_lt d i Hi) (swap_sigma_involutive d i Hi))). Qed.
Print Assumptions C08_swap_is_permutation.

(* the gate exchanges the two sites of any amplitude table *)
Theorem C08_swap_exchanges_sites : forall (d : nat) (psi : nat -> nat -> Z) (a b : nat), a < d -> b < d ->
  swap_apply d psi a b = psi b a.
Proof. exact swap_apply_exchanges. Qed.
Print Assumptions C08_swap_exchanges_sites.

Theorem C08_swap_squared_identity : forall d i j : nat, i < d * d -> j < d * d ->
  swap_sq_entry d i j = if Nat.eqb i j then 1%Z else 0%Z.
Proof. exact swap_squared_identity. Qed.
Print Assumptions C08_swap_squared_identity.

(* ---- 3. the two-site gate on the store ------------------------------------------------------------------ *)
(* what legs_before_combination records, for either orientation *)
Theorem C08_lbc_names : forall (a : id) (na : node) (b : id) (nb : node) (u v : legspec),
  pair_ok a na b nb -> lbc_nodes a na b nb = Some (u, v) ->
  ls_open u = seq (nvirt na + nvirt nb - 2) (nopen na) /\
  ls_open v = seq (nvirt na + nvirt nb - 2 + nopen na) (nopen nb) /\
  ((In b (children na) /\
    ls_parent u = parent na /\ ls_children u = remove_first b (children na) /\ ls_root u = is_root na /\
    ls_parent v = None /\ ls_children v = children nb /\ ls_root v = false)
   \/
   (In a (children nb) /\
    ls_parent u = None /\ ls_children u = children na /\ ls_root u = false /\
    ls_parent v = parent nb /\ ls_children v = remove_first a (children nb) /\ ls_root v = is_root nb)).
Proof. exact lbc_names. Qed.
Print Assumptions C08_lbc_names.

(* the specifications recorded before the contraction partition the legs of the node that
   contract_nodes stores under the temporary identifier *)
Theorem C08_contract_specs_partition : forall (s : store) (a b c : id) (s1 : store) (na nb : node) (u v : legspec),
  aget a (nodes s) = Some na -> aget b (nodes s) = Some nb -> pair_ok a na b nb ->
  legs_before_combination s a b = Some (u, v) -> contract_nodes s a b c = Some s1 ->
  exists nn lu lv, aget c (nodes s1) = Some nn /\ find_leg_values nn u = Some lu /\ find_leg_values nn v = Some lv /\
                   Permutation (lu ++ lv) (seq 0 (nlegs na + nlegs nb - 2)).
Proof. exact contract_specs_partition. Qed.
Print Assumptions C08_contract_specs_partition.

(* split_nodes gives the two new nodes exactly the parent and children the specifications name *)
Theorem C08_split_nodes_structure : forall (s : store) (n : id) (o i : legspec) (oid iid : id) (kind : nat) (m : mode) (rb : nat) (s' : store),
  split_nodes s n o i oid iid kind m rb = Some s' ->
  n <> oid -> n <> iid ->
  ~ In oid (find_all_neighbour_ids o ++ find_all_neighbour_ids i) ->
  ~ In iid (find_all_neighbour_ids o ++ find_all_neighbour_ids i) ->
  let in_above := ls_root i || (match ls_parent i with Some _ => true | None => false end) in
  exists on inn,
    aget oid (nodes s') = Some on /\ aget iid (nodes s') = Some inn /\ oid <> iid /\
    parent inn = (match ls_parent i with Some p => Some p | None => if ls_root i then None else Some oid end) /\
    children inn = (if in_above then [oid] else []) ++ ls_children i /\
    parent on = (match ls_parent o with Some p => Some p | None => if ls_root o then None else Some iid end) /\
    children on = (if in_above then [] else [iid]) ++ ls_children o /\
    root s' = (if ls_root i then Some iid else if ls_root o then Some oid else root s).
Proof. exact split_nodes_structure. Qed.
Print Assumptions C08_split_nodes_structure.

(* ... and it rewires exactly the neighbours the specifications name (pointer to the split node ->
   pointer to the new node on that side); no other node record changes *)
Theorem C08_split_nodes_neighbours : forall (s : store) (n : id) (o i : legspec) (oid iid : id) (kind : nat) (m : mode) (rb : nat) (s' : store),
  split_nodes s n o i oid iid kind m rb = Some s' ->
  n <> oid -> n <> iid ->
  NoDup (find_all_neighbour_ids o ++ find_all_neighbour_ids i) ->
  ~ In n (find_all_neighbour_ids o ++ find_all_neighbour_ids i) ->
  ~ In oid (find_all_neighbour_ids o ++ find_all_neighbour_ids i) ->
  ~ In iid (find_all_neighbour_ids o ++ find_all_neighbour_ids i) ->
  (forall x xn, In x (find_all_neighbour_ids o) -> aget x (nodes s) = Some xn ->
     exists xn', replace_neighbour xn n oid = Some xn' /\ aget x (nodes s') = Some xn') /\
  (forall x xn, In x (find_all_neighbour_ids i) -> aget x (nodes s) = Some xn ->
     exists xn', replace_neighbour xn n iid = Some xn' /\ aget x (nodes s') = Some xn') /\
  (forall k, k <> n -> k <> oid -> k <> iid -> ~ In k (find_all_neighbour_ids o ++ find_all_neighbour_ids i) ->
     aget k (nodes s') = aget k (nodes s)).
Proof. exact split_nodes_neighbours. Qed.
Print Assumptions C08_split_nodes_neighbours.

(* TEBD._apply_one_trotter_step_two_site, either orientation, any gate, any SVD outcome: both nodes
   come back under their identifiers with their parent and their children (as sets; the partner
   is moved to the front of the upper node's child list), the root stays where it was *)
Theorem C08_two_site_gate_restores : forall (contr : id) (s : store) (a b : id) (g : tgate) (s1 s2 s3 : store) (na nb : node),
  aget a (nodes s) = Some na -> aget b (nodes s) = Some nb -> pair_ok a na b nb ->
  contr <> a -> contr <> b ->
  two_site_stages contr s a b g = Some (s1, s2, s3) ->
  exists na' nb', aget a (nodes s3) = Some na' /\ aget b (nodes s3) = Some nb' /\
    parent na' = parent na /\ Permutation (children na') (children na) /\
    parent nb' = parent nb /\ Permutation (children nb') (children nb) /\
    root s3 = (if is_root na then Some a else if is_root nb then Some b else root s2).
Proof. exact two_site_gate_restores. Qed.
Print Assumptions C08_two_site_gate_restores.

(* the gate is one fresh atom: inputs on the node's old open wires in order, outputs in their place *)
Theorem C08_absorb_open_spec : forall (s : store) (n : id) (gshape : list nat) (s' : store),
  absorb_open s n gshape = Some s' ->
  exists s1 nd t,
    access s n = Some (s1, nd, t) /\
    length gshape = 2 * nopen nd /\ firstn (nopen nd) gshape = skipn (nopen nd) gshape /\
    map (wdim s) (skipn (nvirt nd) (axes t)) = skipn (nopen nd) gshape /\
    let oldw := skipn (nvirt nd) (axes t) in
    let neww := seq (next_wire s1) (nopen nd) in
    nodes s' = nodes s1 /\ root s' = root s1 /\
    aget n (tensors s') = Some {| axes := firstn (nvirt nd) (axes t) ++ neww; atoms := atoms t ++ [next_atom s1]; bnd := oldw ++ bnd t |} /\
    (forall k, k <> n -> aget k (tensors s') = aget k (tensors s1)) /\
    atab s' = atab s1 ++ [(next_atom s1, neww ++ oldw)].
Proof. exact absorb_open_spec. Qed.
Print Assumptions C08_absorb_open_spec.

(* one step is the ordered composition of its gates; several steps are the gate list repeated *)
Theorem C08_tebd_step_ordered : forall (contr : id) (gs1 gs2 : list tgate) (s : store),
  tebd_step contr s (gs1 ++ gs2) = match tebd_step contr s gs1 with Some s' => tebd_step contr s' gs2 | None => None end.
Proof. exact tebd_step_app. Qed.
Print Assumptions C08_tebd_step_ordered.

Theorem C08_tebd_steps_repeat : forall (contr : id) (gs : list tgate) (n : nat) (s : store),
  tebd_step contr s (repeat_list n gs) = tebd_steps contr n s gs.
Proof. exact tebd_steps_repeat. Qed.
Print Assumptions C08_tebd_steps_repeat.

(* truncation (model of truncate_singular_values from C10): with max_bond_dim = m >= 1 the new bond
   has between 1 and m values, and never more than the spectrum has *)
Theorem C08_bond_bounded : forall (p : Trunc.Select.params) (s : list QArith_base.Q) (m : nat),
  s <> [] -> Trunc.SelectProofs.descending s -> Trunc.SelectProofs.bond_ok (Trunc.Select.max_bond p) ->
  Trunc.Select.max_bond p = Trunc.Select.BFin m ->
  1 <= length (fst (Trunc.Select.select p s)) <= m /\ length (fst (Trunc.Select.select p s)) <= length s.
Proof. exact bond_bounded. Qed.
Print Assumptions C08_bond_bounded.

(* ---- 6. the two-site gate on a well-formed store (TEBD/GateTree.v, over the store invariant wfb) ------- *)
(* acceptance and restoration together: on two neighbouring nodes of a well-formed store, with a fresh
   temporary identifier and a gate tensor whose shape is (open dimensions of node1 ++ node2) twice, no
   sub-operation raises; the result is well-formed, it is the same tree (same identifiers, same parents,
   children up to order), the root is where it was, the temporary identifier is gone from both
   dictionaries, and every node other than the pair has exactly its old record and its old tensor *)
Theorem C08_two_site_gate_total : forall (contr : id) (s : store) (a b : id) (g : tgate) (na nb : node),
  wfb s = true -> aget a (nodes s) = Some na -> aget b (nodes s) = Some nb -> In b (neighbouring_nodes na) ->
  aget contr (nodes s) = None ->
  t_shape g = map (wdim s) (open_of na (tens s a) ++ open_of nb (tens s b)) ++
              map (wdim s) (open_of na (tens s a) ++ open_of nb (tens s b)) ->
  exists s1 s2 s3, two_site_stages contr s a b g = Some (s1, s2, s3) /\
    wfb s3 = true /\ same_tree (nodes s) (nodes s3) /\ root s3 = root s /\
    aget contr (nodes s3) = None /\ aget contr (tensors s3) = None /\
    (forall k, k <> a -> k <> b -> aget k (nodes s3) = aget k (nodes s) /\ aget k (tensors s3) = aget k (tensors s)).
Proof. exact two_site_gate_total. Qed.
Print Assumptions C08_two_site_gate_total.

(* the same restoration for ANY accepted gate application (whatever the shape / SVD kind): acceptance
   already implies that the two nodes are neighbours *)
Theorem C08_two_site_gate_same_tree : forall (contr : id) (s : store) (a b : id) (g : tgate) (s1 s2 s3 : store) (na : node),
  wfb s = true -> aget a (nodes s) = Some na -> aget contr (nodes s) = None ->
  two_site_stages contr s a b g = Some (s1, s2, s3) ->
  In b (neighbouring_nodes na) /\ wfb s3 = true /\
  same_tree (nodes s) (nodes s3) /\ root s3 = root s /\
  aget contr (nodes s3) = None /\ aget contr (tensors s3) = None /\
  (forall k, k <> a -> k <> b -> aget k (nodes s3) = aget k (nodes s) /\ aget k (tensors s3) = aget k (tensors s)).
Proof. exact two_site_gate_same_tree. Qed.
Print Assumptions C08_two_site_gate_same_tree.

(* the exact child order of the restored pair: the lower node gets its old child list back, in the upper
   node the partner is moved to the front and the other children keep their order *)
Theorem C08_two_site_gate_children : forall (contr : id) (s : store) (a b : id) (g : tgate) (s1 s2 s3 : store) (na : node),
  wfb s = true -> aget a (nodes s) = Some na -> aget contr (nodes s) = None ->
  two_site_stages contr s a b g = Some (s1, s2, s3) ->
  exists p c pn0 cn0 pn3 cn3,
    ((p = a /\ c = b) \/ (p = b /\ c = a)) /\
    aget p (nodes s) = Some pn0 /\ aget c (nodes s) = Some cn0 /\ parent cn0 = Some p /\ In c (children pn0) /\
    aget p (nodes s3) = Some pn3 /\ aget c (nodes s3) = Some cn3 /\
    parent pn3 = parent pn0 /\ children pn3 = c :: remove_first c (children pn0) /\
    parent cn3 = Some p /\ children cn3 = children cn0.
Proof. exact two_site_gate_children. Qed.
Print Assumptions C08_two_site_gate_children.

(* the three sub-operations never raise under their structural preconditions, and keep the invariant *)
Theorem C08_contract_accepts : forall (s : store) (a b new : id) (na nb : node),
  wfb s = true -> aget a (nodes s) = Some na -> aget b (nodes s) = Some nb -> In b (neighbouring_nodes na) ->
  ~ In new (akeys (nodes s)) ->
  exists s', contract_nodes s a b new = Some s' /\ wfb s' = true.
Proof. exact contract_accepts. Qed.
Print Assumptions C08_contract_accepts.

Theorem C08_absorb_accepts : forall (s : store) (a : id) (gshape : list nat) (na : node),
  wfb s = true -> aget a (nodes s) = Some na ->
  gshape = map (wdim s) (open_of na (tens s a)) ++ map (wdim s) (open_of na (tens s a)) ->
  exists s', absorb_open s a gshape = Some s' /\ wfb s' = true.
Proof. exact one_site_gate_succeeds. Qed.
Print Assumptions C08_absorb_accepts.

Theorem C08_absorb_preserves_wfb : forall (s : store) (n : id) (gshape : list nat) (s' : store),
  wfb s = true -> absorb_open s n gshape = Some s' -> wfb s' = true.
Proof. exact absorb_preserves_wfb. Qed.
Print Assumptions C08_absorb_preserves_wfb.

Theorem C08_split_accepts : forall (s : store) (n : id) (nd0 : node) (o i : legspec) (oid iid : id) (kind : nat) (m : mode) (rb : nat)
    (ol il : list nat),
  wfb s = true -> aget n (nodes s) = Some nd0 ->
  find_leg_values nd0 o = Some ol -> find_leg_values nd0 i = Some il ->
  Permutation (ol ++ il) (seq 0 (nlegs nd0)) ->
  oid <> iid -> (kind = 0 -> m = Keep -> il <> []) ->
  sp_asserts o i = true ->
  leg_ok nd0 o -> leg_ok nd0 i -> ids_ok s n oid iid ->
  NoDup (find_all_neighbour_ids o ++ find_all_neighbour_ids i) ->
  exists s', split_nodes s n o i oid iid kind m rb = Some s' /\ wfb s' = true.
Proof. exact split_accepts. Qed.
Print Assumptions C08_split_accepts.

(* the diagram the gate folds into the network.  pt, ct: the logical tensors of the upper / lower node
   of the pair, nt their contraction over the bond (np.tensordot); nn the contracted node; G: nt in the
   contracted node's leg order with the gate atom `ga` attached — its input axes on the old open wires of
   node1 then node2 (now summed), its fresh output wires in their place.  The SVD kernel receives G
   transposed to (legs of the first specification ++ legs of the second); the two new tensors are the
   two fresh atoms of that kernel call over the fresh bond wire; node1's open legs are the gate's first
   output wires in order, node2's the remaining ones *)
Theorem C08_two_site_gate_diagram : forall (contr : id) (s : store) (a b : id) (g : tgate) (s1 s2 s3 : store) (na : node),
  wfb s = true -> aget a (nodes s) = Some na -> aget contr (nodes s) = None ->
  two_site_stages contr s a b g = Some (s1, s2, s3) ->
  exists nb u v p c pn0 cn0 pt ct ax nt nn lu lv,
    aget b (nodes s) = Some nb /\ lbc_nodes a na b nb = Some (u, v) /\
    ((p = a /\ c = b) \/ (p = b /\ c = a)) /\
    aget p (nodes s) = Some pn0 /\ aget c (nodes s) = Some cn0 /\ parent cn0 = Some p /\
    logical s p = Some pt /\ logical s c = Some ct /\ neighbour_index pn0 c = Some ax /\
    s_tensordot pt ct ax 0 = Some nt /\
    aget contr (nodes s1) = Some nn /\ aget contr (tensors s1) = Some nt /\
    find_leg_values nn u = Some lu /\ find_leg_values nn v = Some lv /\
    Permutation (lu ++ lv) (seq 0 (nlegs nn)) /\
    let ga := next_atom s in
    let opa := open_of na (tens s a) in
    let opb := open_of nb (tens s b) in
    let outw := seq (next_wire s) (nopen na + nopen nb) in
    let bw := next_wire s + (nopen na + nopen nb) in
    let G := gate_folded nn nt ga outw in
    skipn (nvirt nn) (laxes nn nt) = opa ++ opb /\
    atab s3 = atab s ++ [(ga, outw ++ opa ++ opb); (S ga, permute 0 lu (axes G) ++ [bw]); (S (S ga), bw :: permute 0 lv (axes G))] /\
    defs s3 = defs s ++ [{| kq := S ga; kr := S (S ga); kbond := bw; kinput := s_transpose (lu ++ lv) G;
                            kkind := t_kind g; kmode := match t_kind g with 0 => Some Reduced | _ => None end |}] /\
    aget a (tensors s3) = Some {| axes := permute 0 lu (axes G) ++ [bw]; atoms := [S ga]; bnd := [] |} /\
    aget b (tensors s3) = Some {| axes := bw :: permute 0 lv (axes G); atoms := [S (S ga)]; bnd := [] |} /\
    next_atom s3 = S (S (S ga)) /\ next_wire s3 = S bw /\
    (exists bd, dims s3 = (dims s ++ combine outw (firstn (nopen na + nopen nb) (t_shape g))) ++ [(bw, bd)]) /\
    exists na' nb', aget a (nodes s3) = Some na' /\ aget b (nodes s3) = Some nb' /\
      open_of na' (tens s3 a) = seq (next_wire s) (nopen na) /\
      open_of nb' (tens s3 b) = seq (next_wire s + nopen na) (nopen nb).
Proof. exact two_site_gate_diagram. Qed.
Print Assumptions C08_two_site_gate_diagram.

(* ---- 7. whole steps ---------------------------------------------------------------------------------- *)
(* every accepted gate application / step / sequence of steps keeps the invariant, the tree and the root *)
Theorem C08_apply_gate_preserves_wfb : forall (contr : id) (s : store) (g : tgate) (s' : store),
  wfb s = true -> aget contr (nodes s) = None -> apply_gate contr s g = Some s' ->
  wfb s' = true /\ aget contr (nodes s') = None /\ same_tree (nodes s) (nodes s') /\ root s' = root s.
Proof. exact apply_gate_preserves_wfb. Qed.
Print Assumptions C08_apply_gate_preserves_wfb.

Theorem C08_tebd_step_preserves_wfb : forall (contr : id) (gs : list tgate) (s s' : store),
  wfb s = true -> aget contr (nodes s) = None -> tebd_step contr s gs = Some s' ->
  wfb s' = true /\ aget contr (nodes s') = None /\ same_tree (nodes s) (nodes s') /\ root s' = root s.
Proof. exact tebd_step_preserves_wfb. Qed.
Print Assumptions C08_tebd_step_preserves_wfb.

Theorem C08_tebd_steps_preserve_wfb : forall (contr : id) (gs : list tgate) (n : nat) (s s' : store),
  wfb s = true -> aget contr (nodes s) = None -> tebd_steps contr n s gs = Some s' ->
  wfb s' = true /\ aget contr (nodes s') = None /\ same_tree (nodes s) (nodes s') /\ root s' = root s.
Proof. exact tebd_steps_preserve_wfb. Qed.
Print Assumptions C08_tebd_steps_preserve_wfb.

(* acceptance of a whole step: every list of gates that fit the tree (one node, or two neighbouring
   nodes; tensor shape = their open dimensions twice) is executed without an exception; the open
   dimensions of every node are kept, so the same list fits again *)
Theorem C08_tebd_step_accepts : forall (contr : id) (gs : list tgate) (s : store),
  wfb s = true -> aget contr (nodes s) = None -> Forall (gate_fits s) gs ->
  exists s', tebd_step contr s gs = Some s' /\ wfb s' = true /\ aget contr (nodes s') = None /\
             same_tree (nodes s) (nodes s') /\ root s' = root s /\ forall k, odims s' k = odims s k.
Proof. exact tebd_step_accepts_wfb. Qed.
Print Assumptions C08_tebd_step_accepts.

Example C08_example_gates_fit :
  let s := fst (run empty_store [AddRoot 0 [2; 3]; AddChild 1 [3; 2; 2] 0 0 1; AddChild 2 [2; 2] 1 1 1]) in
  Forall (gate_fits s) [ {| t_ids := [1; 0]; t_shape := [2; 2; 2; 2]; t_kind := 1; t_bond := 0 |};
                         {| t_ids := [1; 2]; t_shape := [2; 2; 2; 2]; t_kind := 1; t_bond := 0 |};
                         {| t_ids := [2]; t_shape := [2; 2]; t_kind := 1; t_bond := 0 |} ].
Proof. exact gate_fits_example. Qed.
Print Assumptions C08_example_gates_fit.

(* ---- non-vacuity ------------------------------------------------------------------------------------- *)
(* a splitting with keys given child-first, a factor, SWAPs before and after, via from_lists *)
Example C08_example_splitting :
  (let mdim := fun m : nat => nth m [2; 3; 2] 0 in
   let ds := {| d_const := None; d_ttn := Some [(0, 2); (1, 3); (2, 2)] |} in
   match @from_lists nat nat 0 [[(1, 1); (0, 0)]; [(2, 2)]] (Some [SPair 0 7; SIdx 1]) (Some [[(2, 0)]; []]) (Some [[]; [(0, 2)]]) with
   | Some steps => option_map (map gate_obs) (@exponentiate_splitting nat nat mdim ds steps)
   | None => None
   end)
  = Some [(1, [2; 0], [2; 2; 2; 2], [], [], 2, [(2, true); (0, true); (2, false); (0, false)]);
          (0, [1; 0], [3; 2; 3; 2], [1; 0], [7], 0, [(1, true); (0, true); (1, false); (0, false)]);
          (0, [2], [2; 2], [2], [0], 0, [(2, true); (2, false)]);
          (1, [0; 2], [2; 2; 2; 2], [], [], 2, [(0, true); (2, true); (0, false); (2, false)])].
Proof. vm_compute. reflexivity. Qed.
Print Assumptions C08_example_splitting.

(* a 3-node store 0 - 1 - 2 (root 0) built through Store.run; gates: (1,0) child-first, (1,2)
   parent-first, a single-site gate on 2: every gate is accepted, the structure is kept, and the
   hypotheses of the universal theorems hold for the pair (1, 0) of this store *)
Definition ex_ops := [AddRoot 0 [2; 3]; AddChild 1 [3; 2; 2] 0 0 1; AddChild 2 [2; 2] 1 1 1].
Definition ex_gates := [ {| t_ids := [1; 0]; t_shape := [2; 2; 2; 2]; t_kind := 1; t_bond := 0 |};
                         {| t_ids := [1; 2]; t_shape := [2; 2; 2; 2]; t_kind := 1; t_bond := 0 |};
                         {| t_ids := [2]; t_shape := [2; 2]; t_kind := 1; t_bond := 0 |} ].
Example C08_example_chain :
  snd (run empty_store ex_ops) = [true; true; true] /\
  (let r := build_and_step 99 ex_ops ex_gates in
   (map fst (snd (fst r)), snd r)) = ([true; true; true], Some true) /\
  (match tebd_step 99 (fst (run empty_store ex_ops)) ex_gates with
   | Some s' => map (fun kn => (fst kn, parent (snd kn), children (snd kn))) (nodes s')
   | None => []
   end) = [(0, None, [1]); (1, Some 0, [2]); (2, Some 1, [])].
Proof. vm_compute. auto. Qed.
Print Assumptions C08_example_chain.

(* the hypotheses of the universal theorems are decidable; the harness evaluates this checker before
   every two-site gate of every explored instance *)
Theorem C08_pair_okb_sound : forall (a : id) (na : node) (b : id) (nb : node),
  pair_okb a na b nb = true -> pair_ok a na b nb.
Proof. exact pair_okb_sound. Qed.
Print Assumptions C08_pair_okb_sound.

Definition ex_pair_check : bool :=
  build_and_hyps 99 ex_ops ex_gates &&
  (let s := fst (run empty_store ex_ops) in
   match aget 1 (nodes s), aget 0 (nodes s) with
   | Some na, Some nb => pair_okb 1 na 0 nb
   | _, _ => false
   end).
Example C08_example_pair_ok : ex_pair_check = true.
Proof. vm_compute. reflexivity. Qed.
Print Assumptions C08_example_pair_ok.

(* ---- 8. the VALUE of the network under the gates (TEBD/GateValue.v, over the semantic bridge of C02) -------------- *)
(* net_value s tbl rho: the value of the whole network over any commutative semiring, for an atom table tbl, at
   an assignment rho of indices to the open wires (TTN/InvSem.v).  wfsb: the extended executable invariant of C02.
   gate_action dim G outw inw V rho = SUM_{j over the wires inw} G (rho(outw) ++ j) * V (rho[inw := j])
   (sum_bnd of Wire/Sem.v): the action of a gate tensor G, axes = outputs then inputs, on a value function. *)
From PTN Require Import Wire.Sem Wire.SemInst TTN.InvSem TEBD.GateValue.

(* absorb_into_open_legs (what is new relative to C02: it CHANGES the value).  The operator is the fresh atom
   ga = next_atom s, on (fresh output wires ++ the node's old open wires); the new network's value is the sum,
   over the indices j of the old open wires, of  tbl ga (rho(new open wires) ++ j) * (old value at rho[old := j]);
   the node's open legs become the fresh wires, everything else is untouched, the invariant is kept *)
Theorem C08_absorb_value : forall (R : Type) (zero one : R) (add mul : R -> R -> R), comm_semiring zero one add mul ->
  forall (tbl : nat -> list nat -> R) (s : store) (n : id) (gshape : list nat) (s' : store) (nd0 : node),
  wfsb s = true -> aget n (nodes s) = Some nd0 -> absorb_open s n gshape = Some s' ->
  let inw := open_of nd0 (tens s n) in
  let outw := seq (next_wire s) (nopen nd0) in
  let ga := next_atom s in
  wfsb s' = true /\ atom_wires s' ga = outw ++ inw /\
  aget n (nodes s') = Some (reset_permutation nd0) /\ open_of (reset_permutation nd0) (tens s' n) = outw /\
  (forall k, k <> n -> aget k (nodes s') = aget k (nodes s) /\ aget k (tensors s') = aget k (tensors s)) /\
  forall rho, net_value zero one add mul s' tbl rho
              = sum_bnd R zero add (wdim s) inw
                  (fun r => mul (tbl ga (map r (outw ++ inw))) (net_value zero one add mul s tbl r)) rho.
Proof. exact absorb_value_stmt. Qed.
Print Assumptions C08_absorb_value.

Theorem C08_absorb_preserves_wfsb : forall (s : store) (n : id) (gshape : list nat) (s' : store),
  wfsb s = true -> absorb_open s n gshape = Some s' -> wfsb s' = true.
Proof. exact absorb_preserves_wfsb. Qed.
Print Assumptions C08_absorb_preserves_wfsb.

(* the single-site gate of TEBD (open_ws s k: the open wires of node k) *)
Theorem C08_single_site_gate_value : forall (R : Type) (zero one : R) (add mul : R -> R -> R), comm_semiring zero one add mul ->
  forall (tbl : nat -> list nat -> R) (s : store) (a : id) (gshape : list nat) (s' : store),
  wfsb s = true -> absorb_open s a gshape = Some s' ->
  let inw := open_ws s a in
  let outw := seq (next_wire s) (length inw) in
  let ga := next_atom s in
  wfsb s' = true /\ akeys (nodes s') = akeys (nodes s) /\
  open_ws s' a = outw /\ (forall k, k <> a -> open_ws s' k = open_ws s k) /\
  atom_wires s' ga = outw ++ inw /\
  forall rho, net_value zero one add mul s' tbl rho
              = gate_action R zero add mul (wdim s) (tbl ga) outw inw (net_value zero one add mul s tbl) rho.
Proof. exact single_site_gate_value_stmt. Qed.
Print Assumptions C08_single_site_gate_value.

(* the two-site gate (contract_nodes, absorb_into_open_legs, split_node_svd), either orientation of the pair, any
   number of open legs per node: under the kernel contract of the final split — the two factors recorded in
   last (defs s3) (C08_two_site_gate_diagram: U on node1's legs ++ bond, S.Vh on bond ++ node2's legs), summed over
   the new bond, give back the tensor the kernel received, i.e. the contracted pair with the gate applied; nothing
   truncated — the value of the network is the gate atom ga = next_atom s applied through the open wires of node1
   then node2.  The gate's output wires (the next fresh wires, node1's first) are the new open wires of the pair;
   every other node keeps its open wires; the temporary identifier is gone; the invariant is kept *)
Theorem C08_two_site_gate_value : forall (R : Type) (zero one : R) (add mul : R -> R -> R), comm_semiring zero one add mul ->
  forall (tbl : nat -> list nat -> R) (contr : id) (s : store) (a b : id) (g : tgate) (s1 s2 s3 : store),
  wfsb s = true -> aget contr (nodes s) = None ->
  two_site_stages contr s a b g = Some (s1, s2, s3) ->
  def_holds zero one add mul s3 tbl (last (defs s3) dflt_def) ->
  let inw := open_ws s a ++ open_ws s b in
  let outw := seq (next_wire s) (length inw) in
  let ga := next_atom s in
  wfsb s3 = true /\ aget contr (nodes s3) = None /\
  open_ws s3 a = seq (next_wire s) (length (open_ws s a)) /\
  open_ws s3 b = seq (next_wire s + length (open_ws s a)) (length (open_ws s b)) /\
  (forall k, k <> a -> k <> b -> open_ws s3 k = open_ws s k) /\
  atom_wires s3 ga = outw ++ inw /\
  forall rho, net_value zero one add mul s3 tbl rho
              = gate_action R zero add mul (wdim s) (tbl ga) outw inw (net_value zero one add mul s tbl) rho.
Proof. exact two_site_gate_value_stmt. Qed.
Print Assumptions C08_two_site_gate_value.

(* the usual case, one physical leg per node, written out: new state [x, y] = SUM_{ja, jb} G[x, y, ja, jb] * old state [ja, jb] *)
Theorem C08_two_site_gate_value_one_leg : forall (R : Type) (zero one : R) (add mul : R -> R -> R), comm_semiring zero one add mul ->
  forall (tbl : nat -> list nat -> R) (contr : id) (s : store) (a b : id) (g : tgate) (s1 s2 s3 : store) (wa wb : wire),
  wfsb s = true -> aget contr (nodes s) = None -> two_site_stages contr s a b g = Some (s1, s2, s3) ->
  def_holds zero one add mul s3 tbl (last (defs s3) dflt_def) ->
  open_ws s a = [wa] -> open_ws s b = [wb] ->
  open_ws s3 a = [next_wire s] /\ open_ws s3 b = [S (next_wire s)] /\
  forall rho, net_value zero one add mul s3 tbl rho
              = sum_upto R zero add (wdim s wa) (fun ja => sum_upto R zero add (wdim s wb) (fun jb =>
                  mul (tbl (next_atom s) [rho (next_wire s); rho (S (next_wire s)); ja; jb])
                      (net_value zero one add mul s tbl (upd (upd rho wa ja) wb jb)))).
Proof. exact two_site_gate_value_1_stmt. Qed.
Print Assumptions C08_two_site_gate_value_one_leg.

Theorem C08_single_site_gate_value_one_leg : forall (R : Type) (zero one : R) (add mul : R -> R -> R), comm_semiring zero one add mul ->
  forall (tbl : nat -> list nat -> R) (s : store) (a : id) (gshape : list nat) (s' : store) (w : wire),
  wfsb s = true -> absorb_open s a gshape = Some s' -> open_ws s a = [w] ->
  open_ws s' a = [next_wire s] /\
  forall rho, net_value zero one add mul s' tbl rho
              = sum_upto R zero add (wdim s w)
                  (fun j => mul (tbl (next_atom s) [rho (next_wire s); j]) (net_value zero one add mul s tbl (upd rho w j))).
Proof. exact single_site_gate_value_1_stmt. Qed.
Print Assumptions C08_single_site_gate_value_one_leg.

(* a SWAP is the two-site gate whose tensor is swap_gate(d) reshaped (C08_swap_tensor_entries): the network after
   it, read at indices (x, y) of the pair, is the network before read at (y, x) *)
Theorem C08_swap_gate_value : forall (R : Type) (zero one : R) (add mul : R -> R -> R), comm_semiring zero one add mul ->
  forall (tbl : nat -> list nat -> R) (contr : id) (s : store) (a b : id) (g : tgate) (s1 s2 s3 : store) (wa wb : wire) (d : nat),
  wfsb s = true -> aget contr (nodes s) = None -> two_site_stages contr s a b g = Some (s1, s2, s3) ->
  def_holds zero one add mul s3 tbl (last (defs s3) dflt_def) ->
  open_ws s a = [wa] -> open_ws s b = [wb] -> wdim s wa = d -> wdim s wb = d ->
  (forall o1 o2 j1 j2, tbl (next_atom s) [o1; o2; j1; j2] = if swap_tensor_entry d o1 o2 j1 j2 then one else zero) ->
  forall rho, rho (next_wire s) < d -> rho (S (next_wire s)) < d ->
    net_value zero one add mul s3 tbl rho
    = net_value zero one add mul s tbl (upd (upd rho wa (rho (S (next_wire s)))) wb (rho (next_wire s))).
Proof. exact swap_gate_value_stmt. Qed.
Print Assumptions C08_swap_gate_value.

(* one TEBD step (several steps: the gate list repeated, C08_tebd_steps_repeat): the value of the network after the
   step is the composition of the gate actions in list order (C08_tebd_step_ordered), applied to the value before.
   act_on tbl dim V {ga_atom; ga_out; ga_in} = gate_action dim (tbl ga_atom) ga_out ga_in V.
   track_acts computes the actions from the initial wire state (next fresh wire / atom, open wires of every node) and
   the identifier lists of the gates alone: a single-site gate allocates its output wires and one atom, a two-site
   gate its output wires, the bond wire and three atoms (gate, U, S.Vh); the outputs become the open wires of the
   node(s).  tebd_contracts: the kernel contract (def_holds on the newest record) after every two-site gate *)
Theorem C08_tebd_step_value : forall (R : Type) (zero one : R) (add mul : R -> R -> R), comm_semiring zero one add mul ->
  forall (tbl : nat -> list nat -> R) (contr : id) (gs : list tgate) (s s' : store),
  wfsb s = true -> aget contr (nodes s) = None -> tebd_step contr s gs = Some s' ->
  tebd_contracts R zero one add mul tbl contr s gs ->
  wfsb s' = true /\ aget contr (nodes s') = None /\
  tebd_acts contr s gs = track_acts (next_wire s) (next_atom s) (open_ws s) (map t_ids gs) /\
  forall rho, net_value zero one add mul s' tbl rho
              = fold_left (act_on R zero add mul tbl (wdim s'))
                  (track_acts (next_wire s) (next_atom s) (open_ws s) (map t_ids gs)) (net_value zero one add mul s tbl) rho.
Proof. exact tebd_step_value_stmt. Qed.
Print Assumptions C08_tebd_step_value.

(* non-vacuity over Z: nodes 0 - 1 with one physical leg each, a two-site gate G on (0, 1) then a single-site gate H
   on 1; atoms 0, 1 the node tensors, 2 = G, (3, 4) = a valid factorisation of the gate-applied pair (U := G.psi,
   S.Vh := identity: the kernel contract is proved for every assignment), 5 = H.  The hypotheses of
   C08_tebd_step_value hold, its conclusion is the two actions below, and the tensor the final network denotes is
   the dense  H . G . psi  entry by entry *)
Example C08_example_value_hyps :
  wfsb exg_s0 = true /\ aget 99 (nodes exg_s0) = None /\
  tebd_step 99 exg_s0 [exg_g1; exg_g2] = Some exg_s2 /\
  tebd_contracts Z 0%Z 1%Z Z.add Z.mul exg_tbl 99 exg_s0 [exg_g1; exg_g2].
Proof. exact exg_hyps. Qed.
Print Assumptions C08_example_value_hyps.

Example C08_example_value_conclusion : forall rho,
  net_value 0%Z 1%Z Z.add Z.mul exg_s2 exg_tbl rho
  = fold_left (act_on Z 0%Z Z.add Z.mul exg_tbl (wdim exg_s2))
      [ {| ga_atom := 2; ga_out := [4; 5]; ga_in := [1; 3] |}; {| ga_atom := 5; ga_out := [7]; ga_in := [5] |} ]
      (net_value 0%Z 1%Z Z.add Z.mul exg_s0 exg_tbl) rho.
Proof. exact exg_conclusion. Qed.
Print Assumptions C08_example_value_conclusion.

Example C08_example_value_dense :
  forallb (fun x => forallb (fun y =>
     Z.eqb (net_entry 0%Z 1%Z Z.add Z.mul exg_s2 exg_tbl (fun _ => 0) [x; y])
           (exg_sum2 (fun y' => exg_H y y' * exg_M x y')%Z)) [0; 1]) [0; 1] = true.
Proof. vm_compute. reflexivity. Qed.
Print Assumptions C08_example_value_dense.
