(* Property C20 — the local propagator.  Statements only; each is closed by `exact`. *)
From Coq Require Import ZArith QArith List Bool Arith String.
From PTN Require Import Evolve.Dispatch Evolve.DispatchProofs.
Import ListNotations.
Local Close Scope Q_scope.
Local Open Scope string_scope.

(* ---- the finite part: modes and the dispatch ------------------------------------------- *)
(* is_scipy terminates (the fuel of the model is enough) and is true exactly on the four ODE modes *)
Theorem C20_is_scipy : forall m : mode,
  is_scipy m = Some (match m with RK45 | RK23 | DOP853 | BDF => true | _ => false end).
Proof. exact is_scipy_table. Qed.
Print Assumptions C20_is_scipy.

Theorem C20_is_scipy_fuel : forall (fuel : nat) (m : mode), 2 <= fuel -> is_scipy_fuel fuel m = is_scipy m.
Proof. exact is_scipy_fuel_enough. Qed.
Print Assumptions C20_is_scipy_fuel.

(* every mode, in every dimension, reaches the kernel of this table (never NotImplementedError) *)
Theorem C20_dispatch_table : forall (m : mode) (n : nat),
  time_evolve_kernel m n =
  Some (match m with
        | RK45 => SolveIvp "RK45" | RK23 => SolveIvp "RK23" | DOP853 => SolveIvp "DOP853" | BDF => SolveIvp "BDF"
        | EXPM => Expm
        | EIGSH => if Nat.ltb n 4 then Expm else Eigsh (Nat.min (n - 2) 8)
        | CHEBYSHEV | FASTEST => ExpmMultiply
        | SPARSE => ExpmSparse
        end).
Proof. exact dispatch_table. Qed.
Print Assumptions C20_dispatch_table.

Theorem C20_dispatch_unique : forall (m : mode) (n : nat), exists! k, time_evolve_kernel m n = Some k.
Proof. exact dispatch_unique. Qed.
Print Assumptions C20_dispatch_unique.

(* solve_ivp is reached exactly by the is_scipy modes, with the enum value as method name *)
Theorem C20_ode_iff_is_scipy : forall (m : mode) (n : nat),
  (exists me, time_evolve_kernel m n = Some (SolveIvp me)) <-> is_scipy m = Some true.
Proof. exact ode_iff_is_scipy. Qed.
Print Assumptions C20_ode_iff_is_scipy.

Theorem C20_ode_method : forall (m : mode) (n : nat) (me : string),
  time_evolve_kernel m n = Some (SolveIvp me) -> me = value m.
Proof. exact ode_method_is_value. Qed.
Print Assumptions C20_ode_method.

(* eigsh is only reached from dimension 4 on, and then with 2 <= k = min(n-2, 8) < n eigenpairs:
   the spectral sum is always truncated (finding C20-eigsh-dim>=4) *)
Theorem C20_eigsh_k : forall n k : nat,
  time_evolve_kernel EIGSH n = Some (Eigsh k) -> 4 <= n /\ k = Nat.min (n - 2) 8 /\ 2 <= k < n.
Proof. exact eigsh_k. Qed.
Print Assumptions C20_eigsh_k.

(* fast_exp_action accepts exactly six mode strings *)
Theorem C20_fast_exp_action_modes : forall (md : string) (n : nat),
  fast_exp_action_kernel md n <> None <->
  In md ["fastest"; "expm"; "eigsh"; "chebyshev"; "sparse"; "none"].
Proof. exact fast_exp_action_kernel_domain. Qed.
Print Assumptions C20_fast_exp_action_modes.

(* FASTEST behaves as CHEBYSHEV, for any kernels *)
Theorem C20_fastest_as_chebyshev :
  forall (X M : Type) (gscale : gi -> M -> M) (tscale : M -> Q -> M) (dim : M -> nat)
         (k_solve_ivp : string -> M -> Q * Q -> list Q -> list X -> list (list X))
         (k_expm : M -> M) (matvec : M -> list X -> list X) (k_eigsh : nat -> M -> list X -> list X)
         (k_expm_multiply k_expm_sparse : M -> list X -> list X)
         (psi : tensor X) (H : M) (t : Q) (f : bool),
  time_evolve X M gscale tscale dim k_solve_ivp k_expm matvec k_eigsh k_expm_multiply k_expm_sparse psi H t f FASTEST =
  time_evolve X M gscale tscale dim k_solve_ivp k_expm matvec k_eigsh k_expm_multiply k_expm_sparse psi H t f CHEBYSHEV.
Proof. exact fastest_as_chebyshev. Qed.
Print Assumptions C20_fastest_as_chebyshev.

(* ---- sign algebra -------------------------------------------------------------------------- *)
Theorem C20_sign : sign true = (-1)%Z /\ sign false = 1%Z.
Proof. exact (conj sign_forward sign_backward). Qed.
Print Assumptions C20_sign.

(* sign * 1.0j is -i forward and +i backward; the two are negatives; each squares to -1 *)
Theorem C20_rhs_coeff : forall f : bool,
  rhs_coeff f = (0%Z, sign f) /\ rhs_coeff (negb f) = gi_neg (rhs_coeff f) /\
  gi_mul (rhs_coeff f) (rhs_coeff f) = (-1, 0)%Z.
Proof. exact (fun f => conj (rhs_coeff_sign f) (conj (rhs_coeff_neg f) (rhs_coeff_square f))). Qed.
Print Assumptions C20_rhs_coeff.

(* exponent = (sign * t) i H; forward and backward exponents are negatives; zero for t = 0 *)
Theorem C20_exponent_coeff : forall (f : bool) (t : Q),
  gq_eq (exponent_coeff f t) (0%Q, (inject_Z (sign f) * t)%Q) /\
  gq_eq (exponent_coeff (negb f) t) (gq_neg (exponent_coeff f t)) /\
  ((t == 0)%Q -> gq_eq (exponent_coeff f t) (0%Q, 0%Q)).
Proof. exact (fun f t => conj (exponent_coeff_value f t) (conj (exponent_coeff_negb f t) (exponent_coeff_zero f t))). Qed.
Print Assumptions C20_exponent_coeff.

(* ---- what the harness observes is the table: for accepted inputs the symbolic run returns psi's
   shape and every entry of the result comes from the one call of the table's kernel (a single run
   of the run-length encoding, C20_rle_repeat), made with
   rhs = sign i H, t_span = (0, t), no t_eval (solve_ivp) or exponent = sign i t H (others);
   when solve_ivp returns no column, time_evolve raises ---- *)
Theorem C20_observe_table : forall (m : mode) (f : bool) (n : nat) (s : list nat) (t : Q) (ncols : nat),
  prod_shape s = n ->
  observe m f n s t ncols =
  match time_evolve_kernel m n with
  | Some k =>
      match k, ncols with
      | SolveIvp _, O => None
      | _, _ => Some (s, rle (repeat (call_print (kernel_call k f t)) n))
      end
  | None => None
  end.
Proof. exact observe_table. Qed.
Print Assumptions C20_observe_table.

Theorem C20_rle_repeat : forall (c : call_out) (n : nat), rle (repeat c (S n)) = [(c, S n)].
Proof. exact rle_repeat. Qed.
Print Assumptions C20_rle_repeat.

(* ---- shape: whatever the kernels return, a result has psi's shape ------------------------------- *)
Theorem C20_shape_preserved :
  forall (X M : Type) (gscale : gi -> M -> M) (tscale : M -> Q -> M) (dim : M -> nat)
         (k_solve_ivp : string -> M -> Q * Q -> list Q -> list X -> list (list X))
         (k_expm : M -> M) (matvec : M -> list X -> list X) (k_eigsh : nat -> M -> list X -> list X)
         (k_expm_multiply k_expm_sparse : M -> list X -> list X)
         (psi : tensor X) (H : M) (t : Q) (f : bool) (m : mode) (r : tensor X),
  time_evolve X M gscale tscale dim k_solve_ivp k_expm matvec k_eigsh k_expm_multiply k_expm_sparse psi H t f m = Some r ->
  shape r = shape psi /\ wf r.
Proof. exact time_evolve_shape. Qed.
Print Assumptions C20_shape_preserved.

Theorem C20_reshape_flatten : forall (X : Type) (t : tensor X), wf t -> reshape (flatten t) (shape t) = Some t.
Proof. exact @reshape_flatten. Qed.
Print Assumptions C20_reshape_flatten.

(* ---- semantics under the kernel contracts (Dispatch.v, Section Contracts) ------------------------ *)
(* every mode returns exp(sign i H t) applied to the flattened psi, in psi's shape *)
Theorem C20_evolve_semantics :
  forall (X M : Type) (gscale : gi -> M -> M) (tscale : M -> Q -> M) (dim : M -> nat)
         (k_solve_ivp : string -> M -> Q * Q -> list Q -> list X -> list (list X))
         (k_expm : M -> M) (matvec : M -> list X -> list X) (k_eigsh : nat -> M -> list X -> list X)
         (k_expm_multiply k_expm_sparse : M -> list X -> list X)
         (mzero mone : M) (mmul : M -> M -> M) (E : M -> M),
  module_laws X M gscale tscale matvec mzero mone mmul ->
  kernel_contracts X M tscale k_solve_ivp k_expm matvec k_eigsh k_expm_multiply k_expm_sparse E ->
  forall (psi : tensor X) (H : M) (t : Q) (f : bool) (m : mode), wf psi ->
  time_evolve X M gscale tscale dim k_solve_ivp k_expm matvec k_eigsh k_expm_multiply k_expm_sparse psi H t f m =
  Some (mkT (shape psi) (matvec (E (tscale (gscale (rhs_coeff f) H) t)) (flatten psi))).
Proof. exact evolve_semantics_b. Qed.
Print Assumptions C20_evolve_semantics.

(* one direction followed by the other (in any two modes) is the identity *)
Theorem C20_forward_backward_id :
  forall (X M : Type) (gscale : gi -> M -> M) (tscale : M -> Q -> M) (dim : M -> nat)
         (k_solve_ivp : string -> M -> Q * Q -> list Q -> list X -> list (list X))
         (k_expm : M -> M) (matvec : M -> list X -> list X) (k_eigsh : nat -> M -> list X -> list X)
         (k_expm_multiply k_expm_sparse : M -> list X -> list X)
         (mzero mone : M) (mmul : M -> M -> M) (E : M -> M),
  module_laws X M gscale tscale matvec mzero mone mmul ->
  exp_laws M gscale mzero mone mmul E ->
  kernel_contracts X M tscale k_solve_ivp k_expm matvec k_eigsh k_expm_multiply k_expm_sparse E ->
  forall (psi : tensor X) (H : M) (t : Q) (f : bool) (m1 m2 : mode) (r : tensor X), wf psi ->
  time_evolve X M gscale tscale dim k_solve_ivp k_expm matvec k_eigsh k_expm_multiply k_expm_sparse psi H t f m1 = Some r ->
  time_evolve X M gscale tscale dim k_solve_ivp k_expm matvec k_eigsh k_expm_multiply k_expm_sparse r H t (negb f) m2 = Some psi.
Proof. exact forward_backward_id_b. Qed.
Print Assumptions C20_forward_backward_id.

Theorem C20_zero_duration_id :
  forall (X M : Type) (gscale : gi -> M -> M) (tscale : M -> Q -> M) (dim : M -> nat)
         (k_solve_ivp : string -> M -> Q * Q -> list Q -> list X -> list (list X))
         (k_expm : M -> M) (matvec : M -> list X -> list X) (k_eigsh : nat -> M -> list X -> list X)
         (k_expm_multiply k_expm_sparse : M -> list X -> list X)
         (mzero mone : M) (mmul : M -> M -> M) (E : M -> M),
  module_laws X M gscale tscale matvec mzero mone mmul ->
  exp_laws M gscale mzero mone mmul E ->
  kernel_contracts X M tscale k_solve_ivp k_expm matvec k_eigsh k_expm_multiply k_expm_sparse E ->
  forall (psi : tensor X) (H : M) (t : Q) (f : bool) (m : mode), wf psi -> (t == 0)%Q ->
  time_evolve X M gscale tscale dim k_solve_ivp k_expm matvec k_eigsh k_expm_multiply k_expm_sparse psi H t f m = Some psi.
Proof. exact zero_duration_id_b. Qed.
Print Assumptions C20_zero_duration_id.

(* Hermitian H (adj H = H): the inner product of the state with itself is preserved *)
Theorem C20_hermitian_norm :
  forall (X M : Type) (gscale : gi -> M -> M) (tscale : M -> Q -> M) (dim : M -> nat)
         (k_solve_ivp : string -> M -> Q * Q -> list Q -> list X -> list (list X))
         (k_expm : M -> M) (matvec : M -> list X -> list X) (k_eigsh : nat -> M -> list X -> list X)
         (k_expm_multiply k_expm_sparse : M -> list X -> list X)
         (mzero mone : M) (mmul : M -> M -> M) (E : M -> M),
  module_laws X M gscale tscale matvec mzero mone mmul ->
  exp_laws M gscale mzero mone mmul E ->
  kernel_contracts X M tscale k_solve_ivp k_expm matvec k_eigsh k_expm_multiply k_expm_sparse E ->
  forall (S : Type) (ip : list X -> list X -> S) (adj : M -> M),
  adjoint_laws X M gscale tscale matvec E S ip adj ->
  forall (psi : tensor X) (H : M) (t : Q) (f : bool) (m : mode) (r : tensor X), wf psi -> adj H = H ->
  time_evolve X M gscale tscale dim k_solve_ivp k_expm matvec k_eigsh k_expm_multiply k_expm_sparse psi H t f m = Some r ->
  ip (flatten r) (flatten r) = ip (flatten psi) (flatten psi).
Proof. exact hermitian_norm_b. Qed.
Print Assumptions C20_hermitian_norm.

(* ---- non-vacuity -------------------------------------------------------------------------------- *)
(* the contracts are consistent: the toy instance of Dispatch.v satisfies all of them *)
Theorem C20_contracts_satisfiable :
  module_laws Z tM toy_gscale toy_tscale toy_matvec toy_zero toy_one toy_mul /\
  exp_laws tM toy_gscale toy_zero toy_one toy_mul toy_E /\
  kernel_contracts Z tM toy_tscale toy_solve_ivp toy_expm toy_matvec toy_eigsh toy_expm_multiply toy_expm_sparse toy_E /\
  adjoint_laws Z tM toy_gscale toy_tscale toy_matvec toy_E (list Z) toy_ip toy_adj.
Proof. exact toy_contracts. Qed.
Print Assumptions C20_contracts_satisfiable.

(* a concrete observation: EIGSH, backward, dimension 5, psi of shape (5,1), t = 3/10 *)
Example C20_example_observe :
  observe EIGSH false 5 [5; 1] (3 # 10)%Q 0 =
  Some ([5; 1], [(OEigsh 3 [0; 1; 3; 10]%Z, 5)]).
Proof. vm_compute. reflexivity. Qed.
Print Assumptions C20_example_observe.

(* the toy instance run forward with RK45 and back with EIGSH gives the input back *)
Example C20_example_roundtrip :
  match toy_time_evolve (mkT [2; 2] [1; 2; 3; 4]%Z) (7, 3)%Z (2 # 1)%Q true RK45 with
  | Some r => (r, toy_time_evolve r (7, 3)%Z (2 # 1)%Q false EIGSH)
  | None => (mkT [] [], None)
  end = (mkT [2; 2] [-13; -12; -11; -10]%Z, Some (mkT [2; 2] [1; 2; 3; 4]%Z)).
Proof. vm_compute. reflexivity. Qed.
Print Assumptions C20_example_roundtrip.
