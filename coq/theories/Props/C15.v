(* placeholder while developing *)
From PTN Require Import Lindblad.Sym.
Example C15_placeholder : 1 = 1. Proof. reflexivity. Qed.
Print Assumptions C15_placeholder.
