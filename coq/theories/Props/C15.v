(* Property C15 — generated Lindbladians are the GKSL generator on the doubled space.
   Statements only; each is closed by `exact`.  Model: Lindblad/Sym.v (generate_lindbladian with
   the boolean `bug_sign`: true = the code as it stands, `new_frac = -1 * frac`; false = GKSL sign).

   Reading guide.  `generate_struct b i` is the model of generate_lindbladian on input `i` (terms
   with the ket and bra copies kept apart, every dictionary assignment in order); `generate b i`
   renders it into exactly what the code returns (suffixed identifiers, final dictionaries) and is
   what the correspondence check compares with /repo.  `denote_gen A .. g rho` applies the generated
   term list to rho in the algebra A, reading labels and coefficients through the generated
   dictionaries: a term (f, c, K (x) B) is rho |-> f*c * K rho B^T.  `alg_laws A` are laws of matrix
   algebra; `wf_input`, `sound_flags`, `functional_tables` are defined in Sym.v. *)
From Coq Require Import String List QArith Qcanon.
From PTN Require Import Lindblad.Sym Lindblad.SymProofs.
Import ListNotations.
Local Close Scope Q_scope.

(* ---- the GKSL form (bug_sign = false) -------------------------------------------------------- *)
(* for all Hamiltonians, any number of jump operators on any sites, any sound classifier flags,
   rational prefactors, symbolic rates: the generated superoperator is
   H rho - rho H + i sum_k f_k gamma_k (L_k rho L_k^+ - 1/2 L_k^+ L_k rho - 1/2 rho L_k^+ L_k) *)
Theorem C15_gksl_form_fixed : forall (A : alg), alg_laws A ->
  forall (hval jval : label -> aL A) (hcoef jcoef : cname -> aC A) (i : input) (g : gen) (rho : aM A),
  generate_struct false i = Ok g ->
  wf_input i -> sound_flags A hval jval i -> functional_tables A hval jval hcoef jcoef g ->
  denote_gen A hval jval hcoef jcoef g rho
  = lindblad_rhs A hval jval hcoef jcoef false (h_terms i) (map deal (j_ops i)) rho.
Proof. exact gksl_form_fixed. Qed.
Print Assumptions C15_gksl_form_fixed.

(* lindblad_rhs with sign `false` is literally the GKSL right-hand side *)
Theorem C15_rhs_is_gksl : forall (A : alg) hval jval hcoef jcoef hs js rho,
  lindblad_rhs A hval jval hcoef jcoef false hs js rho
  = let H := ham_op A hval hcoef hs in
    let half := qC A (1 # 2) in
    madd A (madd A (mmul A H rho) (mopp A (mmul A rho H)))
      (smul A (ci A)
         (msum A (map (fun t : term =>
            let gamma := cmul A (qC A (fst (fst t))) (jcoef (snd (fst t))) in
            let Lk := tpval A jval (snd t) in
            let LdL := mmul A (mH A Lk) Lk in
            smul A gamma
              (madd A (madd A (mmul A (mmul A Lk rho) (mH A Lk))
                              (mopp A (smul A half (mmul A LdL rho))))
                      (mopp A (smul A half (mmul A rho LdL))))) js))).
Proof. exact rhs_is_gksl. Qed.
Print Assumptions C15_rhs_is_gksl.

(* both sign variants, for any valuation that agrees with every dictionary assignment: with
   bug_sign = true the last term of every dissipator carries +1/2 (lindblad_rhs .. true ..) *)
Theorem C15_lindblad_form_any_sign : forall (A : alg), alg_laws A ->
  forall (hval jval : label -> aL A) (hcoef jcoef : cname -> aC A) (val : label -> aL A) (cval : cname -> aC A)
         (sgn : bool) (i : input) (g : gen) (rho : aM A),
  generate_struct sgn i = Ok g ->
  wf_input i -> sound_flags A hval jval i ->
  (forall l e, In (l, e) (g_log g) -> val l = meval A hval jval e) ->
  (forall c e, In (c, e) (g_cwrites g) -> cval c = ceval A hcoef jcoef e) ->
  denote_all A val cval (g_terms g) rho
  = lindblad_rhs A hval jval hcoef jcoef sgn (h_terms i) (map deal (j_ops i)) rho.
Proof. exact lindblad_form_val. Qed.
Print Assumptions C15_lindblad_form_any_sign.

(* ---- trace ------------------------------------------------------------------------------------ *)
Theorem C15_gksl_trace_zero : forall (A : alg), alg_laws A ->
  forall hval jval hcoef jcoef hs js rho,
  tr A (lindblad_rhs A hval jval hcoef jcoef false hs js rho) = c0 A.
Proof. exact gksl_trace_zero_laws. Qed.
Print Assumptions C15_gksl_trace_zero.

Theorem C15_generated_trace_zero_fixed : forall (A : alg), alg_laws A ->
  forall (hval jval : label -> aL A) (hcoef jcoef : cname -> aC A) (i : input) (g : gen) (rho : aM A),
  generate_struct false i = Ok g ->
  wf_input i -> sound_flags A hval jval i -> functional_tables A hval jval hcoef jcoef g ->
  tr A (denote_gen A hval jval hcoef jcoef g rho) = c0 A.
Proof. exact generated_trace_zero_fixed. Qed.
Print Assumptions C15_generated_trace_zero_fixed.

(* ---- the current code is refuted (known finding C15-anticommutator-sign) ---------------------- *)
(* one site of dimension 1, H = 0, L = 1, rate 1, over Q(i): the input satisfies every hypothesis
   of the theorems above, and the generated superoperator applied to rho = 1 has trace i <> 0 *)
Theorem C15_gksl_refuted_current :
  exists (i : input) (g : gen),
    generate_struct true i = Ok g /\
    wf_input i /\
    sound_flags Galg (fun _ => G1) (fun _ => G1) i /\
    functional_tables Galg (fun _ => G1) (fun _ => G1) (fun _ => G1) (fun _ => G1) g /\
    tr Galg (denote_gen Galg (fun _ => G1) (fun _ => G1) (fun _ => G1) (fun _ => G1) g (m1 Galg)) <> c0 Galg.
Proof. exact gksl_refuted_current_full. Qed.
Print Assumptions C15_gksl_refuted_current.

Theorem C15_witness_values :
  G_apply true witness_input G1 = Some Gi /\ G_apply false witness_input G1 = Some G0 /\ Gi <> G0.
Proof. exact (conj witness_value_current (conj witness_value_fixed Gi_neq_G0)). Qed.
Print Assumptions C15_witness_values.

(* ---- closure of the generated dictionaries ------------------------------------------------------ *)
Theorem C15_label_closure : forall sgn i ts conv co,
  generate sgn i = Ok (ts, conv, co) ->
  forall t, In t ts -> forall k l, In (k, l) (snd t) -> dmem l conv = true.
Proof. exact label_closure. Qed.
Print Assumptions C15_label_closure.

Theorem C15_coeff_closure : forall sgn i ts conv co,
  generate sgn i = Ok (ts, conv, co) -> wf_input i ->
  forall t, In t ts -> dmem (snd (fst t)) co = true.
Proof. exact coeff_closure. Qed.
Print Assumptions C15_coeff_closure.

Theorem C15_dictionaries_sign_independent : forall i ts conv co,
  generate true i = Ok (ts, conv, co) -> exists ts', generate false i = Ok (ts', conv, co).
Proof. exact dictionaries_sign_independent. Qed.
Print Assumptions C15_dictionaries_sign_independent.

(* the label-freshness hypothesis has a computable sufficient condition (evaluated for every case of
   the correspondence check): no label is assigned two different symbolic values *)
Theorem C15_tables_check_sound : forall (A : alg) (hval jval : label -> aL A) (hcoef jcoef : cname -> aC A) sgn i g,
  generate_struct sgn i = Ok g -> tables_check sgn i = true ->
  (forall l, hval l = jval l) -> hcoef "1"%string = c1 A ->
  functional_tables A hval jval hcoef jcoef g.
Proof. exact tables_check_sound. Qed.
Print Assumptions C15_tables_check_sound.

(* ---- symbolic = dense under rate = coefficient^2 (same sign variant on both sides) ------------- *)
Theorem C15_symbolic_eq_dense : forall (A : alg), alg_laws A ->
  forall hval jval hcoef jcoef (sgn : bool) hs js (cls : list (aC A * aM A)) rho,
  Forall2 (fun (t : term) cl =>
             snd cl = tpval A jval (snd t) /\
             cmul A (fst cl) (fst cl) = cmul A (qC A (fst (fst t))) (jcoef (snd (fst t)))) js cls ->
  lindblad_rhs A hval jval hcoef jcoef sgn hs js rho
  = exact_lindbladian A sgn (ham_op A hval hcoef hs) cls rho.
Proof. exact symbolic_eq_dense_laws. Qed.
Print Assumptions C15_symbolic_eq_dense.

(* ---- non-vacuity ------------------------------------------------------------------------------- *)
(* the laws are satisfiable: 1x1 matrices over Q(i) *)
Example C15_laws_satisfiable : alg_laws Galg.
Proof. exact Galg_laws. Qed.
Print Assumptions C15_laws_satisfiable.

(* a concrete run of the model (tests/test_lindbladian.py style input, two sites) *)
Example C15_example_run :
  generate true
    {| h_terms := [((1 # 2)%Q, "g", [("n1", "A"); ("n2", "D")])];
       h_conv := [("A", false); ("D", true)]; h_coeffs := ["1"; "g"];
       j_ops := [JTerm (1 # 3)%Q "k" [("n1", "Aj"); ("n2", "Bj")]];
       j_dict := [("Aj", {| f_real := false; f_herm := false; f_id := false |});
                  ("Bj", {| f_real := true; f_herm := true; f_id := true |})];
       j_coeffs := ["k"];
       j_sym := [(MBase SJump "Aj", false); (MBase SJump "Bj", true); (MH (MBase SJump "Aj"), false);
                 (MMul (MH (MBase SJump "Aj")) (MBase SJump "Aj"), false)];
       ket_suffix := "_ket"; bra_suffix := "_bra" |}%string
  = Ok ([((1 # 2)%Q, "g", [("n1_ket", "A"); ("n2_ket", "D")]);
         ((-1 # 2)%Q, "g", [("n1_bra", "A_T"); ("n2_bra", "D")]);
         ((1 # 3)%Q, "k*j", [("n1_ket", "Aj"); ("n2_ket", "Bj"); ("n1_bra", "Aj_conj"); ("n2_bra", "Bj")]);
         ((-1 # 6)%Q, "k*j", [("n1_ket", "Aj_H_mult_Aj"); ("n2_ket", "Bj")]);
         ((1 # 6)%Q, "k*j", [("n1_bra", "Aj_H_mult_Aj_T"); ("n2_bra", "Bj")])],
        [("A", MBase SHam "A"); ("D", MBase SHam "D"); ("A_T", MT (MBase SHam "A"));
         ("Aj_conj", MConj (MBase SJump "Aj")); ("Aj", MBase SJump "Aj"); ("Bj", MBase SJump "Bj");
         ("Aj_H", MH (MBase SJump "Aj"));
         ("Aj_H_mult_Aj", MMul (MH (MBase SJump "Aj")) (MBase SJump "Aj"));
         ("Aj_T", MT (MBase SJump "Aj")); ("Aj_H_T", MT (MH (MBase SJump "Aj")));
         ("Aj_H_mult_Aj_T", MT (MMul (MH (MBase SJump "Aj")) (MBase SJump "Aj")))],
        [("1", CBase SHam "1"); ("g", CBase SHam "g"); ("k*j", CI (CBase SJump "k"))])%string.
Proof. vm_compute. reflexivity. Qed.
Print Assumptions C15_example_run.

(* ---- Hermiticity (Lindblad/Herm.v) ------------------------------------------------------------- *)
(* The library evolves with exp(-i t LL), LL = lindblad_rhs: d/dt rho = D(rho) := -i LL(rho)
   (`ddt A LL rho` = smul (-i) (LL rho)); written out,
     D(rho) = -i (H rho - rho H) + sum_k gamma_k (L_k rho L_k^+ - 1/2 L_k^+L_k rho - 1/2 rho L_k^+L_k).
   `adj_laws A cconj` are the laws of the adjoint missing from alg_laws (which has anti-
   multiplicativity and involutivity): additivity, conjugate-linearity mH (a x) = cconj a (mH x),
   cconj multiplicative, cconj i = -i, cconj q = q for rational q.  Laws of matrices, not of the code. *)
From PTN Require Import Lindblad.Herm.

(* GKSL sign, H Hermitian, real rates:  D(rho)^+ = D(rho^+); Hermitian rho stays Hermitian *)
Theorem C15_gksl_hermiticity : forall (A : alg), alg_laws A ->
  forall (cconj : aC A -> aC A), adj_laws A cconj ->
  forall (hval jval : label -> aL A) (hcoef jcoef : cname -> aC A) (hs js : list term),
  mH A (ham_op A hval hcoef hs) = ham_op A hval hcoef hs ->
  (forall t, In t js -> cconj (jcoef (snd (fst t))) = jcoef (snd (fst t))) ->
  forall rho : aM A,
  mH A (smul A (copp A (ci A)) (lindblad_rhs A hval jval hcoef jcoef false hs js rho))
  = smul A (copp A (ci A)) (lindblad_rhs A hval jval hcoef jcoef false hs js (mH A rho)).
Proof. exact gksl_hermiticity. Qed.
Print Assumptions C15_gksl_hermiticity.

(* the same fact on the generator as the library writes it: LL(rho)^+ = - LL(rho^+) *)
Theorem C15_gksl_generator_adjoint : forall (A : alg), alg_laws A ->
  forall (cconj : aC A -> aC A), adj_laws A cconj ->
  forall (hval jval : label -> aL A) (hcoef jcoef : cname -> aC A) (hs js : list term),
  mH A (ham_op A hval hcoef hs) = ham_op A hval hcoef hs ->
  (forall t, In t js -> cconj (jcoef (snd (fst t))) = jcoef (snd (fst t))) ->
  forall rho : aM A,
  mH A (lindblad_rhs A hval jval hcoef jcoef false hs js rho)
  = mopp A (lindblad_rhs A hval jval hcoef jcoef false hs js (mH A rho)).
Proof. exact gksl_adjoint. Qed.
Print Assumptions C15_gksl_generator_adjoint.

(* ... and on what generate_lindbladian (repaired sign) produces, read through its dictionaries *)
Theorem C15_generated_hermiticity_fixed : forall (A : alg), alg_laws A ->
  forall (cconj : aC A -> aC A), adj_laws A cconj ->
  forall (hval jval : label -> aL A) (hcoef jcoef : cname -> aC A) (i : input) (g : gen) (rho : aM A),
  generate_struct false i = Ok g ->
  wf_input i -> sound_flags A hval jval i -> functional_tables A hval jval hcoef jcoef g ->
  mH A (ham_op A hval hcoef (h_terms i)) = ham_op A hval hcoef (h_terms i) ->
  (forall t, In t (map deal (j_ops i)) -> cconj (jcoef (snd (fst t))) = jcoef (snd (fst t))) ->
  mH A (ddt A (denote_gen A hval jval hcoef jcoef g) rho)
  = ddt A (denote_gen A hval jval hcoef jcoef g) (mH A rho).
Proof. exact generated_hermiticity_fixed. Qed.
Print Assumptions C15_generated_hermiticity_fixed.

(* H is Hermitian when its coefficients are real and its terms Hermitian *)
Theorem C15_ham_op_hermitian : forall (A : alg), alg_laws A ->
  forall (cconj : aC A -> aC A), adj_laws A cconj ->
  forall (hval : label -> aL A) (hcoef : cname -> aC A) (hs : list term),
  (forall t, In t hs -> cconj (hcoef (snd (fst t))) = hcoef (snd (fst t))) ->
  (forall t, In t hs -> mH A (tpval A hval (snd t)) = tpval A hval (snd t)) ->
  mH A (ham_op A hval hcoef hs) = ham_op A hval hcoef hs.
Proof. exact ham_op_hermitian. Qed.
Print Assumptions C15_ham_op_hermitian.

(* The CURRENT sign (bug_sign = true) does NOT preserve Hermiticity.  Witness in M2alg = 2x2
   matrices over Q(i) (a lawful instance, next two statements): one two-level site, H = 0,
   L = sigma^- = [[0,1],[0,0]], rate 1; the input satisfies every hypothesis of the theorems above,
   rho = [[1,1],[1,1]] is Hermitian, and D(rho)^+ <> D(rho^+) = D(rho).  (No 1x1 instance can show
   this: the defect is the commutator [L^+L, rho].) *)
Theorem C15_hermiticity_current_sign :
  exists (i : input) (g : gen) (rho : aM M2alg),
    generate_struct true i = Ok g /\
    wf_input i /\
    sound_flags M2alg wval wval i /\
    functional_tables M2alg wval wval wcoef wcoef g /\
    mH M2alg (ham_op M2alg wval wcoef (h_terms i)) = ham_op M2alg wval wcoef (h_terms i) /\
    (forall t, In t (map deal (j_ops i)) -> Gconj (wcoef (snd (fst t))) = wcoef (snd (fst t))) /\
    mH M2alg rho = rho /\
    mH M2alg (ddt M2alg (denote_gen M2alg wval wval wcoef wcoef g) rho)
    <> ddt M2alg (denote_gen M2alg wval wval wcoef wcoef g) (mH M2alg rho).
Proof. exact hermiticity_refuted_current. Qed.
Print Assumptions C15_hermiticity_current_sign.

(* the values: entries (re, im) of D(rho) in row-major order, current sign / GKSL sign *)
Theorem C15_hermiticity_witness_values :
  M2_show (M2_ddt true herm_witness rho_w) = Some [(1, 0); (1 # 2, 0); (-1 # 2, 0); (0, 0)]%Q /\
  M2_show (M2_ddt false herm_witness rho_w) = Some [(1, 0); (-1 # 2, 0); (-1 # 2, 0); (-1, 0)]%Q.
Proof. exact herm_witness_values. Qed.
Print Assumptions C15_hermiticity_witness_values.

(* non-vacuity: the laws (including the adjoint laws) hold in a non-commutative algebra *)
Example C15_laws_satisfiable_M2 : alg_laws M2alg /\ adj_laws M2alg Gconj.
Proof. exact (conj M2alg_laws M2alg_adj_laws). Qed.
Print Assumptions C15_laws_satisfiable_M2.
