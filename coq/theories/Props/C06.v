(* Property C06 — one-site TDVP runs on every tree, conserves norm/energy and is reversible.
   Schedule level: the traces of Sched/TDVP.v (trace1 = FirstOrderOneSiteTDVP, trace2 =
   SecondOrderOneSiteTDVP); a trace is `Some _` exactly when no IndexError/KeyError-type
   failure occurs, and the assertions of the classes are events checked by `run`.
   Layer A: the algebra of one local update.  Statements only. *)
From Coq Require Import List Arith ZArith.
From PTN Require Import TTN.Store TTN.Canon TTN.Inv TTN.CanonTree Evo.TDVPStore Evo.TDVPStoreEffects Evo.TDVPStoreProofs.   (* store level, see the end *)
From PTN Require Import Tree.RTree Tree.Nav Tree.UpdatePath Tree.CachePath Tree.Enum Tree.EnumProofs
     Sched.TDVP Sched.TDVPProofs Sched.TDVPMore Sched.TDVPFresh Sched.TDVPBounded Sched.TDVPFreshU.
Import ListNotations.

(* ---- both variants run on every tree (first order: also a single node) ------------------ *)
Theorem C06_first_order_runs : forall t, NoDup (ids t) -> exists tr, trace1 t = Some tr.
Proof. exact trace1_defined. Qed.
Print Assumptions C06_first_order_runs.

Theorem C06_second_order_runs : forall t, NoDup (ids t) -> 2 <= size t -> exists tr, trace2 t = Some tr.
Proof. exact trace2_defined. Qed.
Print Assumptions C06_second_order_runs.

(* ---- trace_no_failing_assert: the structural assertions of the first-order class --------- *)
(* _assert_leaf_node on the first node, nneighbours() <= 1 on the last node (incl. a root with
   a single child); the second-order class has no structural assertion *)
Theorem C06_trace_no_failing_assert : forall t t' tr, NoDup (ids t) -> trace1_gen t t' = Some tr ->
  (forall n, In (AssertLeaf n) tr -> is_leaf t n = true) /\
  (forall n, In (AssertEnd n) tr -> degree t n <= 1).
Proof. exact trace1_asserts. Qed.
Print Assumptions C06_trace_no_failing_assert.

(* every node is updated for one full step *)
Theorem C06_first_order_visits_every_node : forall t t' tr, NoDup (ids t) -> trace1_gen t t' = Some tr ->
  forall x, In x (ids t) -> node_dur x tr = 2%Z.
Proof. exact trace1_site_durations. Qed.
Print Assumptions C06_first_order_visits_every_node.

Theorem C06_second_order_visits_every_node : forall t tr, NoDup (ids t) -> trace2 t = Some tr ->
  forall x, In x (ids t) -> node_dur x tr = 2%Z.
Proof. exact trace2_site_durations. Qed.
Print Assumptions C06_second_order_visits_every_node.

(* ---- all assertions (incl. the orthogonality-centre ones), connectivity of every split,
        freshness of every block read, and the centre back on update_path[0] after each of two
        consecutive steps: bounded ------------------------------------------------------------ *)
Theorem C06_schedule_ok_bounded_9 : forall t, In t (trees_upto 9) -> 2 <= size t ->
  (exists tr, trace1 t = Some tr /\ sched_ok t tr) /\
  (exists tr, trace2 t = Some tr /\ sched_ok t tr).
Proof. intros t H1 H2. destruct (cache_fresh_bounded_9 t H1 H2) as [A [B _]]. exact (conj A B). Qed.
Print Assumptions C06_schedule_ok_bounded_9.

(* ... and the UNIVERSAL statement (every tree with unique identifiers; Sched/TDVPFreshU.v) *)
Theorem C06_schedule_ok : forall t, NoDup (ids t) -> 2 <= size t ->
  (exists tr, trace1 t = Some tr /\ sched_ok t tr) /\
  (exists tr, trace2 t = Some tr /\ sched_ok t tr).
Proof. intros t H1 H2. exact (conj (trace1_sched_ok t H1 H2) (trace2_sched_ok t H1 H2)). Qed.
Print Assumptions C06_schedule_ok.

(* sched_ok unfolded: the step ends with the centre on the first node of the sweep *)
Theorem C06_sched_ok_meaning : forall t tr, sched_ok t tr ->
  exists u l ini s0 s1 s2,
    update_path t = Some (u :: l) /\ init_trace t = Some ini /\
    run t (mk_cst u None [] []) ini = Some s0 /\
    run t s0 tr = Some s1 /\ centre s1 = u /\ pend s1 = None /\
    run t s1 tr = Some s2 /\ centre s2 = u /\ pend s2 = None.
Proof. intros t tr H. exact H. Qed.
Print Assumptions C06_sched_ok_meaning.

(* ---- second_order_palindrome: the (object, signed factor) sequence reads the same backwards on
        EVERY tree, so the step with -H applies the inverse local updates in reverse order ----- *)
Theorem C06_second_order_palindrome : forall t tr, NoDup (ids t) -> trace2 t = Some tr -> objs tr = rev (objs tr).
Proof. exact trace2_palindrome. Qed.
Print Assumptions C06_second_order_palindrome.

(* the turning point: the last two nodes of the update path are adjacent (the first backward
   link update acts on an edge) *)
Theorem C06_turning_point_on_edge : forall t, NoDup (ids t) -> 2 <= size t ->
  exists l y z, update_path t = Some (l ++ [y; z]) /\ adjacent t y z.
Proof. exact update_path_last_two. Qed.
Print Assumptions C06_turning_point_on_edge.

Theorem C06_enumeration_complete : forall t n, size t <= n -> In (relabel (erase t)) (trees_upto n).
Proof. exact trees_upto_complete. Qed.
Print Assumptions C06_enumeration_complete.

(* ---- Layer A: one local update conserves norm and energy ----------------------------------- *)
(* M a b: a x b matrices with product, adjoint, identities (laws of matrix algebra as
   hypotheses).  E: embedding of the local tensor given all other tensors (isometry by C03),
   H = H^+, K = E^+ H E.  K is Hermitian; a unitary U commuting with K (U = exp(-+iKt))
   leaves <psi|psi> and <psi|H|psi> of psi = E A unchanged. *)
Theorem C06_projected_hamiltonian_hermitian :
  forall (M : nat -> nat -> Type) (mul : forall a b c : nat, M a b -> M b c -> M a c)
         (adj : forall a b : nat, M a b -> M b a),
  (forall (a b c d : nat) (x : M a b) (y : M b c) (z : M c d), mul a b d x (mul b c d y z) = mul a c d (mul a b c x y) z) ->
  (forall (a b c : nat) (x : M a b) (y : M b c), adj a c (mul a b c x y) = mul c b a (adj b c y) (adj a b x)) ->
  (forall (a b : nat) (x : M a b), adj b a (adj a b x) = x) ->
  forall (D N : nat) (E : M D N) (H : M D D), adj D D H = H ->
  adj N N (mul N D N (adj D N E) (mul D D N H E)) = mul N D N (adj D N E) (mul D D N H E).
Proof. exact Keff_hermitian. Qed.
Print Assumptions C06_projected_hamiltonian_hermitian.

Theorem C06_local_update_conserves :
  forall (M : nat -> nat -> Type) (mul : forall a b c : nat, M a b -> M b c -> M a c)
         (adj : forall a b : nat, M a b -> M b a) (one : forall n : nat, M n n),
  (forall (a b c d : nat) (x : M a b) (y : M b c) (z : M c d), mul a b d x (mul b c d y z) = mul a c d (mul a b c x y) z) ->
  (forall (a b : nat) (x : M a b), mul a a b (one a) x = x) ->
  (forall (a b c : nat) (x : M a b) (y : M b c), adj a c (mul a b c x y) = mul c b a (adj b c y) (adj a b x)) ->
  forall (D N : nat) (E : M D N) (H : M D D),
  mul N D N (adj D N E) E = one N ->
  forall U : M N N,
  mul N N N (adj N N U) U = one N ->
  mul N N N U (mul N D N (adj D N E) (mul D D N H E)) = mul N N N (mul N D N (adj D N E) (mul D D N H E)) U ->
  forall A : M N 1,
  mul 1 D 1 (adj D 1 (mul D N 1 E (mul N N 1 U A))) (mul D N 1 E (mul N N 1 U A)) =
  mul 1 D 1 (adj D 1 (mul D N 1 E A)) (mul D N 1 E A) /\
  mul 1 D 1 (adj D 1 (mul D N 1 E (mul N N 1 U A))) (mul D D 1 H (mul D N 1 E (mul N N 1 U A))) =
  mul 1 D 1 (adj D 1 (mul D N 1 E A)) (mul D D 1 H (mul D N 1 E A)).
Proof. exact local_update_conserves. Qed.
Print Assumptions C06_local_update_conserves.

(* ---- non-vacuity: a root with a single child (the tree the unfixed class failed on) --------- *)
Definition C06_ex : rtree := RNode 0 [RNode 1 [RNode 2 []]].

Example C06_example : option_map calls (trace1 C06_ex) =
    Some [(0, 2, 2, 2%Z); (1, 2, 1, (-2)%Z); (0, 1, 1, 2%Z); (1, 1, 0, (-2)%Z); (0, 0, 0, 2%Z)] /\
  fresh_check1 C06_ex = true /\ fresh_check2 C06_ex = true /\ opt_check palindromeb (trace2 C06_ex) = true /\
  NoDup (ids C06_ex).
Proof. repeat split; try (vm_compute; reflexivity). repeat constructor; simpl; intuition discriminate. Qed.
Print Assumptions C06_example.

(* ==== Store level (Layer W): one time step as a program over the symbolic store ============================== *)
(* Evo/TDVPStore.v interprets the trace events as the store operations the Python performs (site update = read +
   raw replacement by an opaque tensor of the same shape; link update = split_node_qr(KEEP) with the link identifier,
   cache read, link evolution, contract_nodes(link, next); centre moves = move_orthogonalization_center(KEEP)); the
   harness compares the structure after the constructor and after every step with the real classes (c06w.py).
   tmatch t l: every edge of the schedule's tree t is a parent pointer of the node dictionary l, every identifier of t a
   key (the child ORDER of the store is free: it drifts during a run while the paths stay those of the initial tree).
   Conclusions: the step SUCCEEDS, the store invariant holds again, identifiers / parent pointers / children sets are
   those of the start (same_tree), the root is unchanged, the recorded centre is update_path[0] and every other node
   is a single QR-Q atom whose bond sits on its leg toward the centre (iso_check): canonical at the first node. *)
Theorem C06_first_order_step_on_store : forall lk tmp t s u rest,
  NoDup (ids t) -> 2 <= size t -> tmatch t (nodes s) -> wfb s = true -> update_path t = Some (u :: rest) ->
  iso_check (s, Some u) = true ->
  amem tmp (nodes s) = false -> (forall a b, amem (lk a b) (nodes s) = false) ->
  exists cs', tdvp1_step_t lk tmp t (s, Some u) = Some cs' /\
    wfb (fst cs') = true /\ same_tree (nodes s) (nodes (fst cs')) /\ root (fst cs') = root s /\
    snd cs' = Some u /\ iso_check cs' = true /\ tmatch t (nodes (fst cs')).
Proof. exact tdvp1_step_t_ok. Qed.
Print Assumptions C06_first_order_step_on_store.

Theorem C06_second_order_step_on_store : forall lk tmp t s u rest,
  NoDup (ids t) -> 2 <= size t -> tmatch t (nodes s) -> wfb s = true -> update_path t = Some (u :: rest) ->
  iso_check (s, Some u) = true ->
  amem tmp (nodes s) = false -> (forall a b, amem (lk a b) (nodes s) = false) ->
  exists cs', tdvp2_step_t lk tmp t (s, Some u) = Some cs' /\
    wfb (fst cs') = true /\ same_tree (nodes s) (nodes (fst cs')) /\ root (fst cs') = root s /\
    snd cs' = Some u /\ iso_check cs' = true /\ tmatch t (nodes (fst cs')).
Proof. exact tdvp2_step_t_ok. Qed.
Print Assumptions C06_second_order_step_on_store.

(* tensor shapes (KEEP mode): after the step every node has, toward every neighbour, the dimension it had before, and
   the same open-leg dimensions in the same order (Node.shape = node_shape; the leg ORDER may change with the child order) *)
Theorem C06_first_order_step_keeps_shapes : forall lk tmp t s u rest cs',
  NoDup (ids t) -> 2 <= size t -> tmatch t (nodes s) -> wfb s = true -> update_path t = Some (u :: rest) ->
  iso_check (s, Some u) = true ->
  amem tmp (nodes s) = false -> (forall a b, amem (lk a b) (nodes s) = false) ->
  tdvp1_step_t lk tmp t (s, Some u) = Some cs' ->
  forall k nk nk', aget k (nodes s) = Some nk -> aget k (nodes (fst cs')) = Some nk' ->
    skipn (nvirt nk') (node_shape nk') = skipn (nvirt nk) (node_shape nk) /\
    forall x i i', neighbour_index nk x = Some i -> neighbour_index nk' x = Some i' ->
                   nth i' (node_shape nk') 0 = nth i (node_shape nk) 0.
Proof. exact tdvp1_step_t_shapes. Qed.
Print Assumptions C06_first_order_step_keeps_shapes.

Theorem C06_second_order_step_keeps_shapes : forall lk tmp t s u rest cs',
  NoDup (ids t) -> 2 <= size t -> tmatch t (nodes s) -> wfb s = true -> update_path t = Some (u :: rest) ->
  iso_check (s, Some u) = true ->
  amem tmp (nodes s) = false -> (forall a b, amem (lk a b) (nodes s) = false) ->
  tdvp2_step_t lk tmp t (s, Some u) = Some cs' ->
  forall k nk nk', aget k (nodes s) = Some nk -> aget k (nodes (fst cs')) = Some nk' ->
    skipn (nvirt nk') (node_shape nk') = skipn (nvirt nk) (node_shape nk) /\
    forall x i i', neighbour_index nk x = Some i -> neighbour_index nk' x = Some i' ->
                   nth i' (node_shape nk') 0 = nth i (node_shape nk) 0.
Proof. exact tdvp2_step_t_shapes. Qed.
Print Assumptions C06_second_order_step_keeps_shapes.

(* any number of consecutive steps with the paths of the initial tree *)
Theorem C06_steps_on_store : forall (first_order : bool) lk tmp t u rest,
  NoDup (ids t) -> 2 <= size t -> update_path t = Some (u :: rest) ->
  forall k s, tmatch t (nodes s) -> wfb s = true -> iso_check (s, Some u) = true ->
  amem tmp (nodes s) = false -> (forall a b, amem (lk a b) (nodes s) = false) ->
  exists cs', iter_step (if first_order then tdvp1_step_t lk tmp t else tdvp2_step_t lk tmp t) k (s, Some u) = Some cs' /\
    wfb (fst cs') = true /\ same_tree (nodes s) (nodes (fst cs')) /\ root (fst cs') = root s /\
    snd cs' = Some u /\ iso_check cs' = true /\ tmatch t (nodes (fst cs')).
Proof. exact tdvp_steps_ok. Qed.
Print Assumptions C06_steps_on_store.

(* the tree read off a well-formed store with >= 2 nodes is a legitimate schedule tree ... *)
Theorem C06_tree_of_store : forall s, wfb s = true -> 2 <= length (nodes s) ->
  exists t, tree_of s = Some t /\ NoDup (ids t) /\ 2 <= size t /\ tmatch t (nodes s).
Proof. exact tree_of_ok. Qed.
Print Assumptions C06_tree_of_store.

(* ... hence the steps that extract their tree from the store itself *)
Theorem C06_first_order_step_own_tree : forall lk tmp s t u,
  wfb s = true -> 2 <= length (nodes s) -> tree_of s = Some t -> first_of t = Some u ->
  iso_check (s, Some u) = true -> amem tmp (nodes s) = false -> (forall a b, amem (lk a b) (nodes s) = false) ->
  exists cs', tdvp1_step lk tmp (s, Some u) = Some cs' /\
    wfb (fst cs') = true /\ same_tree (nodes s) (nodes (fst cs')) /\ root (fst cs') = root s /\
    snd cs' = Some u /\ iso_check cs' = true /\ tmatch t (nodes (fst cs')).
Proof. exact tdvp1_step_ok. Qed.
Print Assumptions C06_first_order_step_own_tree.

Theorem C06_second_order_step_own_tree : forall lk tmp s t u,
  wfb s = true -> 2 <= length (nodes s) -> tree_of s = Some t -> first_of t = Some u ->
  iso_check (s, Some u) = true -> amem tmp (nodes s) = false -> (forall a b, amem (lk a b) (nodes s) = false) ->
  exists cs', tdvp2_step lk tmp (s, Some u) = Some cs' /\
    wfb (fst cs') = true /\ same_tree (nodes s) (nodes (fst cs')) /\ root (fst cs') = root s /\
    snd cs' = Some u /\ iso_check cs' = true /\ tmatch t (nodes (fst cs')).
Proof. exact tdvp2_step_ok. Qed.
Print Assumptions C06_second_order_step_own_tree.

(* the link update along an edge (a the centre, b a neighbour, lid the fresh link identifier): succeeds, keeps the
   invariant, leaves a as the fresh Q atom with its bond toward b, touches no third node, removes the link node *)
Theorem C06_link_update_on_store : forall s a b lid nd,
  Inv.wf s -> aget a (nodes s) = Some nd -> In b (neighbouring_nodes nd) -> aget lid (nodes s) = None ->
  exists s', link_update s a b lid = Some s' /\ Inv.wf s' /\ weffect s a b s' nd /\ aget lid (nodes s') = None.
Proof.
  intros s a b lid nd W Ea Hin Hl. destruct (link_update_some s a b lid nd W Ea Hin Hl) as [s' H].
  exists s'. split; [exact H|]. exact (link_update_effect s a b lid s' nd W Ea Hin Hl H).
Qed.
Print Assumptions C06_link_update_on_store.

(* the site update is TTN/Canon.v's `scramble` (read = transpose + permutation reset, then raw replacement) *)
Theorem C06_site_update_is_scramble : forall s n, site_update s n = scramble s n.
Proof. exact site_update_scramble. Qed.
Print Assumptions C06_site_update_is_scramble.

(* non-vacuity: a chain of three nodes rooted at an end, canonicalised at the first node of the sweep (node 2);
   both steps run, end at node 2 and satisfy the isometry attribute; all hypotheses of the theorems hold *)
Definition C06_store_ex : option cstore :=
  let s0 := fst (Store.run empty_store [AddRoot 0 [2; 2]; AddChild 1 [2; 3; 2] 0 0 0; AddChild 2 [3; 2] 0 1 1]) in
  canonical_form (s0, None) 2 Keep 99.

Example C06_store_example :
  match C06_store_ex with
  | Some (s, c) =>
      c = Some 2 /\ wfb s = true /\ iso_check (s, c) = true /\ tree_of s = Some C06_ex /\ first_of C06_ex = Some 2 /\
      amem 99 (nodes s) = false /\
      match tdvp1_step (fun a b => 100 + 10 * a + b) 99 (s, c), tdvp2_step (fun a b => 100 + 10 * a + b) 99 (s, c) with
      | Some c1, Some c2 => snd c1 = Some 2 /\ iso_check c1 = true /\ snd c2 = Some 2 /\ iso_check c2 = true /\
                            akeys (nodes (fst c1)) = [0; 1; 2]
      | _, _ => False
      end
  | None => False
  end.
Proof. vm_compute. repeat split; reflexivity. Qed.
Print Assumptions C06_store_example.
