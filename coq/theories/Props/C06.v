(* Property C06 — one-site TDVP runs on every tree, conserves norm/energy and is reversible.
   Schedule level: the traces of Sched/TDVP.v (trace1 = FirstOrderOneSiteTDVP, trace2 =
   SecondOrderOneSiteTDVP); a trace is `Some _` exactly when no IndexError/KeyError-type
   failure occurs, and the assertions of the classes are events checked by `run`.
   Layer A: the algebra of one local update.  Statements only. *)
From Coq Require Import List Arith ZArith.
From PTN Require Import TTN.Store TTN.Canon TTN.Inv TTN.CanonTree Evo.TDVPStore Evo.TDVPStoreEffects Evo.TDVPStoreProofs.   (* store level, see the end *)
From PTN Require Import Tree.RTree Tree.Nav Tree.UpdatePath Tree.CachePath Tree.Enum Tree.EnumProofs
     Sched.TDVP Sched.TDVPProofs Sched.TDVPMore Sched.TDVPFresh Sched.TDVPBounded Sched.TDVPFreshU.
Import ListNotations.

(* ---- both variants run on every tree (first order: also a single node) ------------------ *)
Theorem C06_first_order_runs : forall t, NoDup (ids t) -> exists tr, trace1 t = Some tr.
Proof. exact trace1_defined. Qed.
Print Assumptions C06_first_order_runs.

Theorem C06_second_order_runs : forall t, NoDup (ids t) -> 2 <= size t -> exists tr, trace2 t = Some tr.
Proof. exact trace2_defined. Qed.
Print Assumptions C06_second_order_runs.

(* ---- trace_no_failing_assert: the structural assertions of the first-order class --------- *)
(* _assert_leaf_node on the first node, nneighbours() <= 1 on the last node (incl. a root with
   a single child); the second-order class has no structural assertion *)
Theorem C06_trace_no_failing_assert : forall t t' tr, NoDup (ids t) -> trace1_gen t t' = Some tr ->
  (forall n, In (AssertLeaf n) tr -> is_leaf t n = true) /\
  (forall n, In (AssertEnd n) tr -> degree t n <= 1).
Proof. exact trace1_asserts. Qed.
Print Assumptions C06_trace_no_failing_assert.

(* every node is updated for one full step *)
Theorem C06_first_order_visits_every_node : forall t t' tr, NoDup (ids t) -> trace1_gen t t' = Some tr ->
  forall x, In x (ids t) -> node_dur x tr = 2%Z.
Proof. exact trace1_site_durations. Qed.
Print Assumptions C06_first_order_visits_every_node.

Theorem C06_second_order_visits_every_node : forall t tr, NoDup (ids t) -> trace2 t = Some tr ->
  forall x, In x (ids t) -> node_dur x tr = 2%Z.
Proof. exact trace2_site_durations. Qed.
Print Assumptions C06_second_order_visits_every_node.

(* ---- all assertions (incl. the orthogonality-centre ones), connectivity of every split,
        freshness of every block read, and the centre back on update_path[0] after each of two
        consecutive steps: bounded ------------------------------------------------------------ *)
Theorem C06_schedule_ok_bounded_9 : forall t, In t (trees_upto 9) -> 2 <= size t ->
  (exists tr, trace1 t = Some tr /\ sched_ok t tr) /\
  (exists tr, trace2 t = Some tr /\ sched_ok t tr).
Proof. intros t H1 H2. destruct (cache_fresh_bounded_9 t H1 H2) as [A [B _]]. exact (conj A B). Qed.
Print Assumptions C06_schedule_ok_bounded_9.

(* ... and the UNIVERSAL statement (every tree with unique identifiers; Sched/TDVPFreshU.v) *)
Theorem C06_schedule_ok : forall t, NoDup (ids t) -> 2 <= size t ->
  (exists tr, trace1 t = Some tr /\ sched_ok t tr) /\
  (exists tr, trace2 t = Some tr /\ sched_ok t tr).
Proof. intros t H1 H2. exact (conj (trace1_sched_ok t H1 H2) (trace2_sched_ok t H1 H2)). Qed.
Print Assumptions C06_schedule_ok.

(* sched_ok unfolded: the step ends with the centre on the first node of the sweep *)
Theorem C06_sched_ok_meaning : forall t tr, sched_ok t tr ->
  exists u l ini s0 s1 s2,
    update_path t = Some (u :: l) /\ init_trace t = Some ini /\
    run t (mk_cst u None [] []) ini = Some s0 /\
    run t s0 tr = Some s1 /\ centre s1 = u /\ pend s1 = None /\
    run t s1 tr = Some s2 /\ centre s2 = u /\ pend s2 = None.
Proof. intros t tr H. exact H. Qed.
Print Assumptions C06_sched_ok_meaning.

(* ---- second_order_palindrome: the (object, signed factor) sequence reads the same backwards on
        EVERY tree, so the step with -H applies the inverse local updates in reverse order ----- *)
Theorem C06_second_order_palindrome : forall t tr, NoDup (ids t) -> trace2 t = Some tr -> objs tr = rev (objs tr).
Proof. exact trace2_palindrome. Qed.
Print Assumptions C06_second_order_palindrome.

(* the turning point: the last two nodes of the update path are adjacent (the first backward
   link update acts on an edge) *)
Theorem C06_turning_point_on_edge : forall t, NoDup (ids t) -> 2 <= size t ->
  exists l y z, update_path t = Some (l ++ [y; z]) /\ adjacent t y z.
Proof. exact update_path_last_two. Qed.
Print Assumptions C06_turning_point_on_edge.

Theorem C06_enumeration_complete : forall t n, size t <= n -> In (relabel (erase t)) (trees_upto n).
Proof. exact trees_upto_complete. Qed.
Print Assumptions C06_enumeration_complete.

(* ---- Layer A: one local update conserves norm and energy ----------------------------------- *)
(* M a b: a x b matrices with product, adjoint, identities (laws of matrix algebra as
   hypotheses).  E: embedding of the local tensor given all other tensors (isometry by C03),
   H = H^+, K = E^+ H E.  K is Hermitian; a unitary U commuting with K (U = exp(-+iKt))
   leaves <psi|psi> and <psi|H|psi> of psi = E A unchanged. *)
Theorem C06_projected_hamiltonian_hermitian :
  forall (M : nat -> nat -> Type) (mul : forall a b c : nat, M a b -> M b c -> M a c)
         (adj : forall a b : nat, M a b -> M b a),
  (forall (a b c d : nat) (x : M a b) (y : M b c) (z : M c d), mul a b d x (mul b c d y z) = mul a c d (mul a b c x y) z) ->
  (forall (a b c : nat) (x : M a b) (y : M b c), adj a c (mul a b c x y) = mul c b a (adj b c y) (adj a b x)) ->
  (forall (a b : nat) (x : M a b), adj b a (adj a b x) = x) ->
  forall (D N : nat) (E : M D N) (H : M D D), adj D D H = H ->
  adj N N (mul N D N (adj D N E) (mul D D N H E)) = mul N D N (adj D N E) (mul D D N H E).
Proof. exact Keff_hermitian. Qed.
Print Assumptions C06_projected_hamiltonian_hermitian.

Theorem C06_local_update_conserves :
  forall (M : nat -> nat -> Type) (mul : forall a b c : nat, M a b -> M b c -> M a c)
         (adj : forall a b : nat, M a b -> M b a) (one : forall n : nat, M n n),
  (forall (a b c d : nat) (x : M a b) (y : M b c) (z : M c d), mul a b d x (mul b c d y z) = mul a c d (mul a b c x y) z) ->
  (forall (a b : nat) (x : M a b), mul a a b (one a) x = x) ->
  (forall (a b c : nat) (x : M a b) (y : M b c), adj a c (mul a b c x y) = mul c b a (adj b c y) (adj a b x)) ->
  forall (D N : nat) (E : M D N) (H : M D D),
  mul N D N (adj D N E) E = one N ->
  forall U : M N N,
  mul N N N (adj N N U) U = one N ->
  mul N N N U (mul N D N (adj D N E) (mul D D N H E)) = mul N N N (mul N D N (adj D N E) (mul D D N H E)) U ->
  forall A : M N 1,
  mul 1 D 1 (adj D 1 (mul D N 1 E (mul N N 1 U A))) (mul D N 1 E (mul N N 1 U A)) =
  mul 1 D 1 (adj D 1 (mul D N 1 E A)) (mul D N 1 E A) /\
  mul 1 D 1 (adj D 1 (mul D N 1 E (mul N N 1 U A))) (mul D D 1 H (mul D N 1 E (mul N N 1 U A))) =
  mul 1 D 1 (adj D 1 (mul D N 1 E A)) (mul D D 1 H (mul D N 1 E A)).
Proof. exact local_update_conserves. Qed.
Print Assumptions C06_local_update_conserves.

(* ---- non-vacuity: a root with a single child (the tree the unfixed class failed on) --------- *)
Definition C06_ex : rtree := RNode 0 [RNode 1 [RNode 2 []]].

Example C06_example : option_map calls (trace1 C06_ex) =
    Some [(0, 2, 2, 2%Z); (1, 2, 1, (-2)%Z); (0, 1, 1, 2%Z); (1, 1, 0, (-2)%Z); (0, 0, 0, 2%Z)] /\
  fresh_check1 C06_ex = true /\ fresh_check2 C06_ex = true /\ opt_check palindromeb (trace2 C06_ex) = true /\
  NoDup (ids C06_ex).
Proof. repeat split; try (vm_compute; reflexivity). repeat constructor; simpl; intuition discriminate. Qed.
Print Assumptions C06_example.

(* ==== Store level (Layer W): one time step as a program over the symbolic store ============================== *)
(* Evo/TDVPStore.v interprets the trace events as the store operations the Python performs (site update = read +
   raw replacement by an opaque tensor of the same shape; link update = split_node_qr(KEEP) with the link identifier,
   cache read, link evolution, contract_nodes(link, next); centre moves = move_orthogonalization_center(KEEP)); the
   harness compares the structure after the constructor and after every step with the real classes (c06w.py).
   tmatch t l: every edge of the schedule's tree t is a parent pointer of the node dictionary l, every identifier of t a
   key (the child ORDER of the store is free: it drifts during a run while the paths stay those of the initial tree).
   Conclusions: the step SUCCEEDS, the store invariant holds again, identifiers / parent pointers / children sets are
   those of the start (same_tree), the root is unchanged, the recorded centre is update_path[0] and every other node
   is a single QR-Q atom whose bond sits on its leg toward the centre (iso_check): canonical at the first node. *)
Theorem C06_first_order_step_on_store : forall lk tmp t s u rest,
  NoDup (ids t) -> 2 <= size t -> tmatch t (nodes s) -> wfb s = true -> update_path t = Some (u :: rest) ->
  iso_check (s, Some u) = true ->
  amem tmp (nodes s) = false -> (forall a b, amem (lk a b) (nodes s) = false) ->
  exists cs', tdvp1_step_t lk tmp t (s, Some u) = Some cs' /\
    wfb (fst cs') = true /\ same_tree (nodes s) (nodes (fst cs')) /\ root (fst cs') = root s /\
    snd cs' = Some u /\ iso_check cs' = true /\ tmatch t (nodes (fst cs')).
Proof. exact tdvp1_step_t_ok. Qed.
Print Assumptions C06_first_order_step_on_store.

Theorem C06_second_order_step_on_store : forall lk tmp t s u rest,
  NoDup (ids t) -> 2 <= size t -> tmatch t (nodes s) -> wfb s = true -> update_path t = Some (u :: rest) ->
  iso_check (s, Some u) = true ->
  amem tmp (nodes s) = false -> (forall a b, amem (lk a b) (nodes s) = false) ->
  exists cs', tdvp2_step_t lk tmp t (s, Some u) = Some cs' /\
    wfb (fst cs') = true /\ same_tree (nodes s) (nodes (fst cs')) /\ root (fst cs') = root s /\
    snd cs' = Some u /\ iso_check cs' = true /\ tmatch t (nodes (fst cs')).
Proof. exact tdvp2_step_t_ok. Qed.
Print Assumptions C06_second_order_step_on_store.

(* tensor shapes (KEEP mode): after the step every node has, toward every neighbour, the dimension it had before, and
   the same open-leg dimensions in the same order (Node.shape = node_shape; the leg ORDER may change with the child order) *)
Theorem C06_first_order_step_keeps_shapes : forall lk tmp t s u rest cs',
  NoDup (ids t) -> 2 <= size t -> tmatch t (nodes s) -> wfb s = true -> update_path t = Some (u :: rest) ->
  iso_check (s, Some u) = true ->
  amem tmp (nodes s) = false -> (forall a b, amem (lk a b) (nodes s) = false) ->
  tdvp1_step_t lk tmp t (s, Some u) = Some cs' ->
  forall k nk nk', aget k (nodes s) = Some nk -> aget k (nodes (fst cs')) = Some nk' ->
    skipn (nvirt nk') (node_shape nk') = skipn (nvirt nk) (node_shape nk) /\
    forall x i i', neighbour_index nk x = Some i -> neighbour_index nk' x = Some i' ->
                   nth i' (node_shape nk') 0 = nth i (node_shape nk) 0.
Proof. exact tdvp1_step_t_shapes. Qed.
Print Assumptions C06_first_order_step_keeps_shapes.

Theorem C06_second_order_step_keeps_shapes : forall lk tmp t s u rest cs',
  NoDup (ids t) -> 2 <= size t -> tmatch t (nodes s) -> wfb s = true -> update_path t = Some (u :: rest) ->
  iso_check (s, Some u) = true ->
  amem tmp (nodes s) = false -> (forall a b, amem (lk a b) (nodes s) = false) ->
  tdvp2_step_t lk tmp t (s, Some u) = Some cs' ->
  forall k nk nk', aget k (nodes s) = Some nk -> aget k (nodes (fst cs')) = Some nk' ->
    skipn (nvirt nk') (node_shape nk') = skipn (nvirt nk) (node_shape nk) /\
    forall x i i', neighbour_index nk x = Some i -> neighbour_index nk' x = Some i' ->
                   nth i' (node_shape nk') 0 = nth i (node_shape nk) 0.
Proof. exact tdvp2_step_t_shapes. Qed.
Print Assumptions C06_second_order_step_keeps_shapes.

(* any number of consecutive steps with the paths of the initial tree *)
Theorem C06_steps_on_store : forall (first_order : bool) lk tmp t u rest,
  NoDup (ids t) -> 2 <= size t -> update_path t = Some (u :: rest) ->
  forall k s, tmatch t (nodes s) -> wfb s = true -> iso_check (s, Some u) = true ->
  amem tmp (nodes s) = false -> (forall a b, amem (lk a b) (nodes s) = false) ->
  exists cs', iter_step (if first_order then tdvp1_step_t lk tmp t else tdvp2_step_t lk tmp t) k (s, Some u) = Some cs' /\
    wfb (fst cs') = true /\ same_tree (nodes s) (nodes (fst cs')) /\ root (fst cs') = root s /\
    snd cs' = Some u /\ iso_check cs' = true /\ tmatch t (nodes (fst cs')).
Proof. exact tdvp_steps_ok. Qed.
Print Assumptions C06_steps_on_store.

(* the tree read off a well-formed store with >= 2 nodes is a legitimate schedule tree ... *)
Theorem C06_tree_of_store : forall s, wfb s = true -> 2 <= length (nodes s) ->
  exists t, tree_of s = Some t /\ NoDup (ids t) /\ 2 <= size t /\ tmatch t (nodes s).
Proof. exact tree_of_ok. Qed.
Print Assumptions C06_tree_of_store.

(* ... hence the steps that extract their tree from the store itself *)
Theorem C06_first_order_step_own_tree : forall lk tmp s t u,
  wfb s = true -> 2 <= length (nodes s) -> tree_of s = Some t -> first_of t = Some u ->
  iso_check (s, Some u) = true -> amem tmp (nodes s) = false -> (forall a b, amem (lk a b) (nodes s) = false) ->
  exists cs', tdvp1_step lk tmp (s, Some u) = Some cs' /\
    wfb (fst cs') = true /\ same_tree (nodes s) (nodes (fst cs')) /\ root (fst cs') = root s /\
    snd cs' = Some u /\ iso_check cs' = true /\ tmatch t (nodes (fst cs')).
Proof. exact tdvp1_step_ok. Qed.
Print Assumptions C06_first_order_step_own_tree.

Theorem C06_second_order_step_own_tree : forall lk tmp s t u,
  wfb s = true -> 2 <= length (nodes s) -> tree_of s = Some t -> first_of t = Some u ->
  iso_check (s, Some u) = true -> amem tmp (nodes s) = false -> (forall a b, amem (lk a b) (nodes s) = false) ->
  exists cs', tdvp2_step lk tmp (s, Some u) = Some cs' /\
    wfb (fst cs') = true /\ same_tree (nodes s) (nodes (fst cs')) /\ root (fst cs') = root s /\
    snd cs' = Some u /\ iso_check cs' = true /\ tmatch t (nodes (fst cs')).
Proof. exact tdvp2_step_ok. Qed.
Print Assumptions C06_second_order_step_own_tree.

(* the link update along an edge (a the centre, b a neighbour, lid the fresh link identifier): succeeds, keeps the
   invariant, leaves a as the fresh Q atom with its bond toward b, touches no third node, removes the link node *)
Theorem C06_link_update_on_store : forall s a b lid nd,
  Inv.wf s -> aget a (nodes s) = Some nd -> In b (neighbouring_nodes nd) -> aget lid (nodes s) = None ->
  exists s', link_update s a b lid = Some s' /\ Inv.wf s' /\ weffect s a b s' nd /\ aget lid (nodes s') = None.
Proof.
  intros s a b lid nd W Ea Hin Hl. destruct (link_update_some s a b lid nd W Ea Hin Hl) as [s' H].
  exists s'. split; [exact H|]. exact (link_update_effect s a b lid s' nd W Ea Hin Hl H).
Qed.
Print Assumptions C06_link_update_on_store.

(* the site update is TTN/Canon.v's `scramble` (read = transpose + permutation reset, then raw replacement) *)
Theorem C06_site_update_is_scramble : forall s n, site_update s n = scramble s n.
Proof. exact site_update_scramble. Qed.
Print Assumptions C06_site_update_is_scramble.

(* non-vacuity: a chain of three nodes rooted at an end, canonicalised at the first node of the sweep (node 2);
   both steps run, end at node 2 and satisfy the isometry attribute; all hypotheses of the theorems hold *)
Definition C06_store_ex : option cstore :=
  let s0 := fst (Store.run empty_store [AddRoot 0 [2; 2]; AddChild 1 [2; 3; 2] 0 0 0; AddChild 2 [3; 2] 0 1 1]) in
  canonical_form (s0, None) 2 Keep 99.

Example C06_store_example :
  match C06_store_ex with
  | Some (s, c) =>
      c = Some 2 /\ wfb s = true /\ iso_check (s, c) = true /\ tree_of s = Some C06_ex /\ first_of C06_ex = Some 2 /\
      amem 99 (nodes s) = false /\
      match tdvp1_step (fun a b => 100 + 10 * a + b) 99 (s, c), tdvp2_step (fun a b => 100 + 10 * a + b) 99 (s, c) with
      | Some c1, Some c2 => snd c1 = Some 2 /\ iso_check c1 = true /\ snd c2 = Some 2 /\ iso_check c2 = true /\
                            akeys (nodes (fst c1)) = [0; 1; 2]
      | _, _ => False
      end
  | None => False
  end.
Proof. vm_compute. repeat split; reflexivity. Qed.
Print Assumptions C06_store_example.

(* [ext-C06R] ==== from local updates to whole steps: reversibility and conservation over the LITERAL traces ============ *)
(* Sched/TDVPGlobal.v, Sched/TDVPGlobalProofs.v.  An abstract state type X; `actE e` is the action of the literal event
   e of the trace, `act (o, s)` the action of a timed update of the object o (node / edge) with SIGNED factor s (half
   units of dt); run_trace / run_steps fold the actions over a trace / over k consecutive steps.
   Contracts (hypotheses, nothing is axiomatised):
     factors_through act actE   an event acts through its (object, signed factor) only; events without time evolution
                                (Split, Absorb, Move, Cache, Reinit, assertions) leave the abstract state unchanged
                                (gauge moves do not change the represented state, C03);
     good                       the set of states on which the local contract is claimed, closed under the updates (for
                                the real classes: every bond at its full Schmidt rank);
     act_inverse                on good states the update with factor -s undoes the update with factor s (true for the
                                exact local flows exp(-i K s dt/2) when the tangent-space projectors are functions of the
                                represented state, i.e. on full-rank bonds).  It FAILS on rank-deficient bonds, where the
                                QR completion is arbitrary: the recorded known finding C06-reversal-rank-deficient.
   "A step with -H" in the model is `neg_trace tr`: the same object (same update path, same orthogonalisation paths,
   functions of the initial tree only) with H replaced by -H performs the same events with every signed factor negated
   (K is linear in H); this is what the harness does (algo.hamiltonian := -H, cache rebuilt).  The theorem also states
   that this second step starts from the end configuration of the first: the first step ends with the centre on
   update_path[0] and no pending link tensor, and the negated trace passes the schedule checker FROM THAT
   CONFIGURATION (assertions, adjacency, freshness) and ends on update_path[0] again. *)
From PTN Require Import Sched.TDVPGlobal Sched.TDVPGlobalProofs.

Theorem C06_second_order_reversible :
  forall (X : Type) (act : obj * Z -> X -> X) (actE : ev -> X -> X) (good : X -> Prop),
  factors_through act actE ->
  (forall o f x, good x -> good (act (o, f) x)) ->
  (forall o f x, good x -> act (o, (- f)%Z) (act (o, f) x) = x) ->
  forall t, NoDup (ids t) -> 2 <= size t ->
  exists tr, trace2 t = Some tr /\
    (exists u l ini s0 s1 s2,
       update_path t = Some (u :: l) /\ init_trace t = Some ini /\
       run t (mk_cst u None [] []) ini = Some s0 /\
       run t s0 tr = Some s1 /\ centre s1 = u /\ pend s1 = None /\
       run t s1 (neg_trace tr) = Some s2 /\ centre s2 = u /\ pend s2 = None) /\
    (forall x, good x -> run_trace X actE (neg_trace tr) (run_trace X actE tr x) = x) /\
    (forall k x, good x -> run_steps X actE k (neg_trace tr) (run_steps X actE k tr x) = x).
Proof. exact trace2_reversible_full. Qed.
Print Assumptions C06_second_order_reversible.

(* the two ingredients: the list lemma (any palindromic trace), and what negation does to the (object, factor) sequence *)
Theorem C06_palindrome_reversible :
  forall (X : Type) (act : obj * Z -> X -> X) (actE : ev -> X -> X) (good : X -> Prop),
  factors_through act actE ->
  (forall o f x, good x -> good (act (o, f) x)) ->
  (forall o f x, good x -> act (o, (- f)%Z) (act (o, f) x) = x) ->
  forall tr, objs tr = rev (objs tr) ->
  forall x, good x -> run_trace X actE (neg_trace tr) (run_trace X actE tr x) = x.
Proof. exact palindrome_reversible. Qed.
Print Assumptions C06_palindrome_reversible.

Theorem C06_negated_step : forall tr,
  objs (neg_trace tr) = map neg_obj (objs tr) /\ total_dur (neg_trace tr) = (- total_dur tr)%Z /\
  (forall t s, run t s (neg_trace tr) = run t s tr).
Proof. intros tr. split; [apply objs_neg|split; [apply total_dur_neg|intros; apply run_neg]]. Qed.
Print Assumptions C06_negated_step.

(* non-vacuity, and NOTHING is claimed for the first-order scheme: in the shear model (X = Z x Z, node updates are
   non-commuting shears, edge updates translations; it satisfies the three contracts with good = all states) the
   second-order step on the chain of C06_example moves (2, 1) and the negated step brings it back, whereas the
   first-order trace is not a palindrome and its negated step does not return to (2, 1) *)
Example C06_reversible_example :
  factors_through shear_act shear_actE /\
  (forall o f x, shear_act (o, (- f)%Z) (shear_act (o, f) x) = x) /\
  option_map (fun tr => (run_trace _ shear_actE tr (2, 1)%Z,
                         run_trace _ shear_actE (neg_trace tr) (run_trace _ shear_actE tr (2, 1)%Z))) (trace2 C06_ex)
    = Some ((6, 17)%Z, (2, 1)%Z).
Proof. split; [exact shear_factors|]. split; [exact shear_inverse|]. vm_compute. reflexivity. Qed.
Print Assumptions C06_reversible_example.

Example C06_first_order_not_reversible_example :
  option_map (fun tr => list_eqb obj_eqb (objs tr) (rev (objs tr))) (trace1 C06_ex) = Some false /\
  option_map objs (trace1 C06_ex) =
    Some [(ONode 2, 2%Z); (OEdge 1 2, (-2)%Z); (ONode 1, 2%Z); (OEdge 0 1, (-2)%Z); (ONode 0, 2%Z)] /\
  option_map (fun tr => (run_trace _ shear_actE tr (2, 1)%Z,
                         run_trace _ shear_actE (neg_trace tr) (run_trace _ shear_actE tr (2, 1)%Z))) (trace1 C06_ex)
    = Some ((8, 5)%Z, (74, -31)%Z).
Proof. repeat split; vm_compute; reflexivity. Qed.
Print Assumptions C06_first_order_not_reversible_example.

(* ---- conservation over a whole step and over any number of steps -------------------------------------------------- *)
(* a quantity q conserved by every event that occurs in the trace is conserved by k consecutive steps (both classes;
   first order with any tree t' for the reset) *)
Theorem C06_step_conserves :
  forall (X Q : Type) (actE : ev -> X -> X) (q : X -> Q) t t' tr,
  trace1_gen t t' = Some tr \/ trace2 t = Some tr ->
  (forall e x, In e tr -> q (actE e x) = q x) ->
  forall k x, q (run_steps X actE k tr x) = q x.
Proof.
  intros X Q actE q t t' tr H. apply (steps_conserve X actE Q q t t' tr). destruct H as [H|H]; [left|right; left]; exact H.
Qed.
Print Assumptions C06_step_conserves.

(* the instantiation with C06_local_update_conserves: states are columns of the full space; contract `local_form e`:
   for every state x there are an isometric embedding E (E^+E = 1), a local tensor A with x = E A, and a unitary U
   commuting with K = E^+ H E such that the event maps x to E (U A) (U = exp(-+iKt) for a timed update with Hermitian
   H -- unitarity of U is where Hermiticity enters --, U = 1 for gauge events).  Then <x|x> and <x|H|x> are conserved
   by k steps of either class on every tree. *)
Theorem C06_step_conserves_norm_energy :
  forall (M : nat -> nat -> Type) (mul : forall a b c : nat, M a b -> M b c -> M a c)
         (adj : forall a b : nat, M a b -> M b a) (one : forall n : nat, M n n),
  (forall (a b c d : nat) (x : M a b) (y : M b c) (z : M c d), mul a b d x (mul b c d y z) = mul a c d (mul a b c x y) z) ->
  (forall (a b : nat) (x : M a b), mul a a b (one a) x = x) ->
  (forall (a b c : nat) (x : M a b) (y : M b c), adj a c (mul a b c x y) = mul c b a (adj b c y) (adj a b x)) ->
  forall (D : nat) (H : M D D) (actE : ev -> M D 1 -> M D 1) t t' tr,
  trace1_gen t t' = Some tr \/ trace2 t = Some tr ->
  (forall e, In e tr -> local_form M mul adj one D H actE e) ->
  forall k x,
    norm2 M mul adj D (run_steps (M D 1) actE k tr x) = norm2 M mul adj D x /\
    energy M mul adj D H (run_steps (M D 1) actE k tr x) = energy M mul adj D H x.
Proof.
  intros M mul adj one A1 A2 A3 D H actE t t' tr Ht. apply (steps_conserve_norm_energy M mul adj one A1 A2 A3 D H actE t t' tr).
  destruct Ht as [Ht|Ht]; [left|right; left]; exact Ht.
Qed.
Print Assumptions C06_step_conserves_norm_energy.

(* local_form, norm2, energy unfolded *)
Theorem C06_local_form_meaning :
  forall (M : nat -> nat -> Type) (mul : forall a b c : nat, M a b -> M b c -> M a c)
         (adj : forall a b : nat, M a b -> M b a) (one : forall n : nat, M n n) D (H : M D D) (actE : ev -> M D 1 -> M D 1) e,
  (local_form M mul adj one D H actE e <->
   forall x : M D 1, exists (N : nat) (E : M D N) (U : M N N) (A : M N 1),
      mul N D N (adj D N E) E = one N /\
      mul N N N (adj N N U) U = one N /\
      mul N N N U (mul N D N (adj D N E) (mul D D N H E)) = mul N N N (mul N D N (adj D N E) (mul D D N H E)) U /\
      x = mul D N 1 E A /\ actE e x = mul D N 1 E (mul N N 1 U A)) /\
  (forall x, norm2 M mul adj D x = mul 1 D 1 (adj D 1 x) x) /\
  (forall x, energy M mul adj D H x = mul 1 D 1 (adj D 1 x) (mul D D 1 H x)).
Proof. intros. split; [reflexivity|split; reflexivity]. Qed.
Print Assumptions C06_local_form_meaning.

(* non-vacuity: 1 x 1 matrices over the Gaussian integers, every timed event multiplies by the unit i: laws and contract
   hold; three second-order steps on the chain of C06_example turn (1 + 2i) into (2 - i) (27 = 3 mod 4 timed events), norm
   and energy (H = 3) unchanged *)
Example C06_conserves_example :
  (forall e, local_form gM gmul gadj gone 1 (3, 0)%Z gactE e) /\
  option_map (fun tr => let y := run_steps (gM 1 1) gactE 3 tr (1, 2)%Z in
                        (y, norm2 gM gmul gadj 1 y, energy gM gmul gadj 1 (3, 0)%Z y)) (trace2 C06_ex)
    = Some ((2, -1)%Z, (5, 0)%Z, (15, 0)%Z) /\
  (norm2 gM gmul gadj 1 (1, 2)%Z, energy gM gmul gadj 1 (3, 0)%Z (1, 2)%Z) = ((5, 0)%Z, (15, 0)%Z).
Proof. split; [exact (g_local_form (3, 0)%Z)|]. split; vm_compute; reflexivity. Qed.
Print Assumptions C06_conserves_example.
(* ---- two nodes with a saturated bond: one step is the exact flow over the full time step (PARTIAL) ------------------- *)
(* flow s = exp(-i H s dt/2) on the whole space, an abstract one-parameter group: flow (s + t) = flow s o flow t, flow 0 =
   id (s in half units of dt).  Contract `saturated` (ASSUMED, this is what makes the theorem partial): on the two-node
   tree the update of each of the three objects (node a, node b, the link tensor on the edge) with signed factor f IS
   flow f.  Justification (not formalised: it needs the functional calculus E exp(-i E^+HE t) E^+ = exp(-iHt) for a
   unitary E): when the bond dimension equals both physical dimensions the isometric environment E of every object is
   square, hence unitary, the tangent-space projector E E^+ is the identity, and the forward site flow exp(-iHt) and the
   backward link flow exp(+iHt) are flows of the SAME H on the whole space (C07_two_node_projection is the case E = 1).
   Conclusion over the LITERAL traces: site b, link, site a (first order: +2, -2, +2; second order: +1, -1, +2, -1, +1)
   compose to flow 2 = exp(-iH dt); k steps to exp(-iH k dt). *)
Theorem C06_two_node_saturated_exact_partial :
  forall (X : Type) (act : obj * Z -> X -> X) (actE : ev -> X -> X) (flow : Z -> X -> X),
  factors_through act actE ->
  (forall s t x, flow (s + t)%Z x = flow s (flow t x)) -> (forall x, flow 0%Z x = x) ->
  forall a b, a <> b ->
  (forall o f x, o = ONode a \/ o = ONode b \/ o = mk_edge a b -> act (o, f) x = flow f x) ->
  forall x,
  (exists tr, trace1 (RNode a [RNode b []]) = Some tr /\
     objs tr = [(ONode b, 2); (mk_edge a b, -2); (ONode a, 2)]%Z /\
     run_trace X actE tr x = flow 2%Z x /\ forall k, run_steps X actE k tr x = flow (2 * Z.of_nat k)%Z x) /\
  (exists tr, trace2 (RNode a [RNode b []]) = Some tr /\
     objs tr = [(ONode b, 1); (mk_edge a b, -1); (ONode a, 2); (mk_edge a b, -1); (ONode b, 1)]%Z /\
     run_trace X actE tr x = flow 2%Z x /\ forall k, run_steps X actE k tr x = flow (2 * Z.of_nat k)%Z x).
Proof.
  intros X act actE flow G FA F0 a b Hne S x. split.
  - destruct (two_node_first_order_exact X act actE flow G FA F0 a b Hne S x) as [tr [H1 [H2 _]]].
    exists tr. split; [exact H1|]. split; [exact H2|].
    assert (Hs : forall y, run_trace X actE tr y = flow 2%Z y).
    { intros y. destruct (two_node_first_order_exact X act actE flow G FA F0 a b Hne S y) as [tr' [H1' [_ H3']]].
      assert (tr' = tr) by congruence. subst tr'. exact H3'. }
    split; [apply Hs|]. intros k. apply (run_steps_flow X actE flow FA F0). exact Hs.
  - destruct (two_node_second_order_exact X act actE flow G FA F0 a b Hne S x) as [tr [H1 [H2 _]]].
    exists tr. split; [exact H1|]. split; [exact H2|].
    assert (Hs : forall y, run_trace X actE tr y = flow 2%Z y).
    { intros y. destruct (two_node_second_order_exact X act actE flow G FA F0 a b Hne S y) as [tr' [H1' [_ H3']]].
      assert (tr' = tr) by congruence. subst tr'. exact H3'. }
    split; [apply Hs|]. intros k. apply (run_steps_flow X actE flow FA F0). exact Hs.
Qed.
Print Assumptions C06_two_node_saturated_exact_partial.

(* the general form: ANY trace all of whose timed updates are exact flows acts as the flow over its total signed duration
   (= 2 half units = dt for the three classes on every tree: C07_total_duration and its one-site analogues) *)
Theorem C06_exact_trace :
  forall (X : Type) (act : obj * Z -> X -> X) (actE : ev -> X -> X) (flow : Z -> X -> X),
  factors_through act actE ->
  (forall s t x, flow (s + t)%Z x = flow s (flow t x)) -> (forall x, flow 0%Z x = x) ->
  forall tr, (forall o f, In (o, f) (objs tr) -> forall x, act (o, f) x = flow f x) ->
  forall x, run_trace X actE tr x = flow (total_dur tr) x.
Proof. exact exact_trace. Qed.
Print Assumptions C06_exact_trace.

(* non-vacuity: X = Z x Z, flow s (p, q) = (p + s q, q) (a one-parameter group), every update acts as the flow *)
Definition C06_flow (s : Z) (x : Z * Z) : Z * Z := (fst x + s * snd x, snd x)%Z.
Definition C06_flow_act (p : obj * Z) (x : Z * Z) : Z * Z := C06_flow (snd p) x.
Definition C06_flow_actE (e : ev) (x : Z * Z) : Z * Z := run_objs _ C06_flow_act (obj_of e) x.

Example C06_two_node_example :
  factors_through C06_flow_act C06_flow_actE /\
  (forall s t x, C06_flow (s + t)%Z x = C06_flow s (C06_flow t x)) /\ (forall x, C06_flow 0%Z x = x) /\
  option_map (fun tr => run_steps _ C06_flow_actE 3 tr (1, 1)%Z) (trace2 (RNode 0 [RNode 1 []])) = Some (7, 1)%Z /\
  option_map (fun tr => run_steps _ C06_flow_actE 3 tr (1, 1)%Z) (trace1 (RNode 0 [RNode 1 []])) = Some (7, 1)%Z.
Proof.
  split; [intros e x; reflexivity|]. split; [intros s t [p q]; unfold C06_flow; cbn [fst snd]; f_equal; ring|].
  split; [intros [p q]; unfold C06_flow; cbn [fst snd]; f_equal; ring|]. split; vm_compute; reflexivity.
Qed.
Print Assumptions C06_two_node_example.
(* [/ext-C06R] *)
