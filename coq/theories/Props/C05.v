(* Property C05 — every TDVP local update uses the projected Hamiltonian and the right duration.
   Schedule level (Sched/TDVP.v): the event traces of one time step of the three classes.
   Factors are in half units of the time step (2 = dt, 1 = dt/2); node_dur / edge_dur /
   total_dur are signed sums (Link events count negative: the link tensor is evolved backward,
   SiteBack events count negative).  Statements only; each is closed by `exact`.
   Universal statements quantify over every rtree with unique identifiers; *_bounded_N over
   the complete enumeration trees_upto N (kernel-evaluated). *)
From Coq Require Import List Arith ZArith.
From PTN Require Import Tree.RTree Tree.Nav Tree.UpdatePath Tree.CachePath Tree.Enum Tree.EnumProofs
     Sched.TDVP Sched.TDVPProofs Sched.TDVPFresh Sched.TDVPBounded Sched.TDVPUniversal Sched.TDVPFreshU.
Import ListNotations.

(* ---- the three traces are defined on every tree with >= 2 nodes ---------------------- *)
Theorem C05_trace1_defined : forall t, NoDup (ids t) -> exists tr, trace1 t = Some tr.
Proof. exact trace1_defined. Qed.
Print Assumptions C05_trace1_defined.

Theorem C05_trace2_defined : forall t, NoDup (ids t) -> 2 <= size t -> exists tr, trace2 t = Some tr.
Proof. exact trace2_defined. Qed.
Print Assumptions C05_trace2_defined.

Theorem C05_trace2s_defined : forall t, NoDup (ids t) -> 2 <= size t -> exists tr, trace2s t = Some tr.
Proof. exact trace2s_defined. Qed.
Print Assumptions C05_trace2s_defined.

(* ---- site durations of the one-site schemes: +dt in total on every node --------------- *)
(* first order; t' = the state's tree (children lists re-ordered) at the re-initialisation *)
Theorem C05_site_durations_first_order : forall t t' tr, NoDup (ids t) -> trace1_gen t t' = Some tr ->
  forall x, In x (ids t) -> node_dur x tr = 2%Z.
Proof. exact trace1_site_durations. Qed.
Print Assumptions C05_site_durations_first_order.

Theorem C05_site_durations_second_order : forall t tr, NoDup (ids t) -> trace2 t = Some tr ->
  forall x, In x (ids t) -> node_dur x tr = 2%Z.
Proof. exact trace2_site_durations. Qed.
Print Assumptions C05_site_durations_second_order.

(* ---- the signed durations of a step always sum to dt ----------------------------------- *)
Theorem C05_total_duration_first_order : forall t t' tr, NoDup (ids t) -> trace1_gen t t' = Some tr ->
  total_dur tr = 2%Z.
Proof. exact trace1_total_duration. Qed.
Print Assumptions C05_total_duration_first_order.

Theorem C05_total_duration_second_order : forall t tr, NoDup (ids t) -> trace2 t = Some tr -> total_dur tr = 2%Z.
Proof. exact trace2_total_duration. Qed.
Print Assumptions C05_total_duration_second_order.

Theorem C05_total_duration_two_site : forall t tr, trace2s t = Some tr -> total_dur tr = 2%Z.
Proof. exact trace2s_total_duration. Qed.
Print Assumptions C05_total_duration_two_site.

(* first order: every link update is on a tree edge with factor 1, applied backward *)
Theorem C05_link_events_first_order : forall t t' tr, NoDup (ids t) -> trace1_gen t t' = Some tr ->
  forall a b f, In (Link a b f) tr -> adjacent t a b /\ f = 2%Z.
Proof. exact trace1_links_on_edges. Qed.
Print Assumptions C05_link_events_first_order.

(* ---- link / two-site durations per edge, node durations of the two-site scheme: bounded -- *)
(* one-site: node +2, edge -2; two-site: edge +2, node 2 - 2*degree = -2(degree-1); every
   Link/TwoSite event on a tree edge *)
Theorem C05_durations_bounded_10 : forall t, In t (trees_upto 10) -> 2 <= size t ->
  (exists tr, trace1 t = Some tr /\
     (forall x, In x (ids t) -> node_dur x tr = 2%Z) /\
     (forall p c, In (p, c) (edges t) -> edge_dur p c tr = (-2)%Z) /\
     (forall a b f, In (Link a b f) tr \/ In (TwoSite a b f) tr -> adjacent t a b)) /\
  (exists tr, trace2 t = Some tr /\
     (forall x, In x (ids t) -> node_dur x tr = 2%Z) /\
     (forall p c, In (p, c) (edges t) -> edge_dur p c tr = (-2)%Z) /\
     (forall a b f, In (Link a b f) tr \/ In (TwoSite a b f) tr -> adjacent t a b)) /\
  (exists tr, trace2s t = Some tr /\
     (forall x, In x (ids t) -> node_dur x tr = (2 - 2 * Z.of_nat (degree t x))%Z) /\
     (forall p c, In (p, c) (edges t) -> edge_dur p c tr = 2%Z) /\
     (forall a b f, In (Link a b f) tr \/ In (TwoSite a b f) tr -> adjacent t a b)).
Proof. exact durations_bounded_10. Qed.
Print Assumptions C05_durations_bounded_10.

(* ---- ... and the UNIVERSAL statements (every tree with unique identifiers; Sched/TDVPUniversal.v,
   Tree/EdgeBlock.v): the Link factors of every tree edge sum to one full step, backward ---- *)
Theorem C05_link_durations_first_order : forall t t' tr, NoDup (ids t) -> trace1_gen t t' = Some tr ->
  forall p c, In (p, c) (edges t) -> edge_dur p c tr = (-2)%Z.
Proof. exact trace1_link_durations. Qed.
Print Assumptions C05_link_durations_first_order.

Theorem C05_link_durations_second_order : forall t tr, NoDup (ids t) -> trace2 t = Some tr ->
  forall p c, In (p, c) (edges t) -> edge_dur p c tr = (-2)%Z.
Proof. exact trace2_link_durations. Qed.
Print Assumptions C05_link_durations_second_order.

(* two-site scheme: +dt in total on every edge, -(degree-1)*dt on every node *)
Theorem C05_two_site_durations : forall t tr, NoDup (ids t) -> trace2s t = Some tr ->
  forall p c, In (p, c) (edges t) -> edge_dur p c tr = 2%Z.
Proof. exact trace2s_two_site_durations. Qed.
Print Assumptions C05_two_site_durations.

Theorem C05_site_durations_two_site : forall t tr, NoDup (ids t) -> trace2s t = Some tr ->
  forall x, In x (ids t) -> node_dur x tr = (2 - 2 * Z.of_nat (degree t x))%Z.
Proof. exact trace2s_site_durations. Qed.
Print Assumptions C05_site_durations_two_site.

(* the statement of C05_durations_bounded_10 for ALL trees *)
Theorem C05_durations : forall t, NoDup (ids t) -> 2 <= size t ->
  (exists tr, trace1 t = Some tr /\
     (forall x, In x (ids t) -> node_dur x tr = 2%Z) /\
     (forall p c, In (p, c) (edges t) -> edge_dur p c tr = (-2)%Z) /\
     (forall a b f, In (Link a b f) tr \/ In (TwoSite a b f) tr -> adjacent t a b)) /\
  (exists tr, trace2 t = Some tr /\
     (forall x, In x (ids t) -> node_dur x tr = 2%Z) /\
     (forall p c, In (p, c) (edges t) -> edge_dur p c tr = (-2)%Z) /\
     (forall a b f, In (Link a b f) tr \/ In (TwoSite a b f) tr -> adjacent t a b)) /\
  (exists tr, trace2s t = Some tr /\
     (forall x, In x (ids t) -> node_dur x tr = (2 - 2 * Z.of_nat (degree t x))%Z) /\
     (forall p c, In (p, c) (edges t) -> edge_dur p c tr = 2%Z) /\
     (forall a b f, In (Link a b f) tr \/ In (TwoSite a b f) tr -> adjacent t a b)).
Proof. exact durations_universal. Qed.
Print Assumptions C05_durations.

(* ---- cache_fresh: version-stamp invariant, centre, assertions: bounded ------------------ *)
(* sched_ok t tr: from the constructor's cache (centre on update_path[0]) the trace runs
   twice in a row in the checker `run`, each time ending with the centre on update_path[0] *)
Theorem C05_cache_fresh_bounded_9 : forall t, In t (trees_upto 9) -> 2 <= size t ->
  (exists tr, trace1 t = Some tr /\ sched_ok t tr) /\
  (exists tr, trace2 t = Some tr /\ sched_ok t tr) /\
  (exists tr, trace2s t = Some tr /\ sched_ok t tr).
Proof. exact cache_fresh_bounded_9. Qed.
Print Assumptions C05_cache_fresh_bounded_9.

(* ... and the UNIVERSAL statement (every tree with unique identifiers; Sched/TDVPFreshU.v): the
   invariant is "no link tensor pending and every block pointing towards the centre is
   stamped with the current versions of everything behind it" *)
Theorem C05_cache_fresh : forall t, NoDup (ids t) -> 2 <= size t ->
  (exists tr, trace1 t = Some tr /\ sched_ok t tr) /\
  (exists tr, trace2 t = Some tr /\ sched_ok t tr) /\
  (exists tr, trace2s t = Some tr /\ sched_ok t tr).
Proof. exact cache_fresh_universal. Qed.
Print Assumptions C05_cache_fresh.

(* what a successful run means: every event finds, in the state it is executed in, the centre
   on the updated object and every environment block it reads stamped with the current
   versions of all tensors behind it (`requires`, `block_fresh`) *)
Theorem C05_run_meaning : forall t tr s s', run t s tr = Some s' ->
  forall pre e post, tr = pre ++ e :: post ->
  exists sk, run t s pre = Some sk /\
    match e with
    | Site n _ | SiteBack n _ =>
        centre sk = n /\ pend sk = None /\
        forall y, In y (neighbours t n) -> find_block (y, n) (blocks sk) = Some (stamp t (vers sk) y n)
    | Split a b => centre sk = a /\ pend sk = None /\ adjacent t a b
    | Link a b _ =>
        pend sk = Some (a, b) /\ find_block (a, b) (blocks sk) = Some (stamp t (vers sk) a b) /\
        find_block (b, a) (blocks sk) = Some (stamp t (vers sk) b a)
    | Absorb a b => pend sk = Some (a, b)
    | TwoSite a b _ =>
        centre sk = a /\ pend sk = None /\ adjacent t a b /\
        (forall y, In y (neighbours t a) -> y <> b -> find_block (y, a) (blocks sk) = Some (stamp t (vers sk) y a)) /\
        (forall y, In y (neighbours t b) -> y <> a -> find_block (y, b) (blocks sk) = Some (stamp t (vers sk) y b))
    | Move a b => centre sk = a /\ pend sk = None /\ adjacent t a b
    | Cache n m => adjacent t n m /\
        forall y, In y (neighbours t n) -> y <> m -> find_block (y, n) (blocks sk) = Some (stamp t (vers sk) y n)
    | Reinit => True
    | AssertCentre n => centre sk = n /\ pend sk = None
    | AssertLeaf n => is_leaf t n = true
    | AssertEnd n => degree t n <= 1
    end.
Proof. exact run_sound. Qed.
Print Assumptions C05_run_meaning.

(* the stamp of a block covers exactly the nodes on its side of the edge *)
Theorem C05_behind_child_side : forall t p c s, NoDup (ids t) -> In (p, c) (edges t) -> subtree c t = Some s ->
  behind t c p = ids s.
Proof. exact behind_child_side. Qed.
Print Assumptions C05_behind_child_side.

Theorem C05_behind_parent_side : forall t p c s, NoDup (ids t) -> In (p, c) (edges t) -> subtree c t = Some s ->
  forall x, In x (behind t p c) <-> In x (ids t) /\ ~ In x (ids s).
Proof. exact behind_parent_side. Qed.
Print Assumptions C05_behind_parent_side.

(* the bounded statements range over every tree shape up to the bound *)
Theorem C05_enumeration_complete : forall t n, size t <= n -> In (relabel (erase t)) (trees_upto n).
Proof. exact trees_upto_complete. Qed.
Print Assumptions C05_enumeration_complete.

(* ---- non-vacuity ------------------------------------------------------------------------- *)
Definition C05_ex : rtree := RNode 0 [RNode 1 [RNode 2 []; RNode 3 []]; RNode 4 []].

Example C05_example_calls : option_map calls (trace2s C05_ex) =
  Some [(2, 2, 1, 1%Z); (0, 1, 1, (-1)%Z); (2, 3, 1, 1%Z); (0, 1, 1, (-1)%Z); (2, 1, 0, 1%Z); (0, 0, 0, (-1)%Z);
        (2, 0, 4, 1%Z); (2, 4, 0, 1%Z); (0, 0, 0, (-1)%Z); (2, 0, 1, 1%Z); (0, 1, 1, (-1)%Z); (2, 1, 3, 1%Z);
        (0, 1, 1, (-1)%Z); (2, 1, 2, 1%Z)].
Proof. vm_compute. reflexivity. Qed.
Print Assumptions C05_example_calls.

Example C05_example_checks : (fresh_check C05_ex, dur_check C05_ex, In C05_ex (trees_upto 5)) = (true, true, In C05_ex (trees_upto 5)) /\
  NoDup (ids C05_ex) /\ 2 <= size C05_ex.
Proof. split; [vm_compute; reflexivity|]. split; [repeat constructor; simpl; intuition discriminate|simpl; repeat constructor]. Qed.
Print Assumptions C05_example_checks.

(* ==== Layer W: the effective site Hamiltonian is E^dagger H E at the diagram level (Contr/Heff.v) ==========================
   Symbolic arrays carry one wire per axis; tensordot binds equal wires and records glued pairs; the conjugated copy of
   the state has wires / atoms offset by woff / aoff.  `wf_env woff ket op (Some p) t`: t is the part of the tree behind
   rid t seen from its neighbour p, state and operator have the same neighbours there (in independent orders), legs =
   (neighbour legs in the node's own order, open legs), both ends of an edge carry the same wire.  `wf_heff woff ket op t`:
   the same for the whole tree re-rooted at the updated node rid t.  heff_expected = the <psi|H|psi> network with the ket
   tensor of the updated node and its conjugate twin removed; rows = conjugate-side legs, columns = ket-side legs, both in
   the leg order of the updated tensor. *)
From PTN Require Import TTN.Store Contr.Blocks Contr.Closed Contr.Heff Contr.HeffProofs.

(* every sandwich cache entry (n -> p) built from fresh entries, for children AND parent directions *)
Theorem C05_env_block_closed : forall woff aoff ket op p t fuel,
  wf_env woff ket op (Some p) t -> length (rnodes t) <= fuel ->
  exists g, env_block fuel woff aoff ket op (rid t) p = Some g /\
    diagram_is g (edge3 woff ket op (rid t, p),
                  all_atoms3 aoff ket op (rnodes t),
                  flat_map (edge3 woff ket op) (sub_edges t) ++ inner_bnd3 woff ket op (rnodes t),
                  open_pairs3 woff ket op (rnodes t)).
Proof. exact env_block_subtree_closed. Qed.
Print Assumptions C05_env_block_closed.

(* contract_all_except_node + find_tensor_leg_permutation, given blocks with legs (ket, operator, conjugate):
   the operator's neighbour order drives the contractions, the state's neighbour order the final leg order *)
Theorem C05_heff_site_with_axes : forall kn on ot blocks (w y x : id -> wire) (blk : id -> garr) oo oi,
  NoDup (neighbouring_nodes kn) ->
  Permutation.Permutation (neighbouring_nodes on) (neighbouring_nodes kn) ->
  gaxes ot = map y (neighbouring_nodes on) ++ [oo; oi] ->
  (forall nb, In nb (neighbouring_nodes on) -> aget nb blocks = Some (blk nb) /\ gaxes (blk nb) = [w nb; y nb; x nb]) ->
  exists g, heff_site_with kn on ot blocks = Some g /\
    gaxes g = map x (neighbouring_nodes kn) ++ [oo] ++ map w (neighbouring_nodes kn) ++ [oi] /\
    gatoms g = gatoms ot ++ flat_map (fun nb => gatoms (blk nb)) (neighbouring_nodes on) /\
    gbnd g = rev (map y (neighbouring_nodes on)) ++ gbnd ot ++ flat_map (fun nb => gbnd (blk nb)) (neighbouring_nodes on) /\
    gglue g = gglue ot ++ flat_map (fun nb => gglue (blk nb)) (neighbouring_nodes on).
Proof. exact heff_site_with_axes. Qed.
Print Assumptions C05_heff_site_with_axes.

(* the site clause of C05: for every tree, every updated node and independent neighbour orders of state and operator *)
Theorem C05_heff_site_diagram : forall woff aoff ket op t,
  wf_heff woff ket op t ->
  exists g, heff_site woff aoff ket op (rid t) = Some g /\ diagram_is g (heff_expected woff aoff ket op t).
Proof. exact heff_site_correct. Qed.
Print Assumptions C05_heff_site_diagram.

(* the same with the decidable hypothesis that the harness evaluates on every explored update *)
Theorem C05_heff_site_checked : forall woff aoff ket op n,
  wf_heffb woff ket op n = true ->
  exists t g, tree_at ket n = Some t /\ rid t = n /\ heff_site woff aoff ket op n = Some g /\
              diagram_is g (heff_expected woff aoff ket op t).
Proof. exact wf_heffb_correct. Qed.
Print Assumptions C05_heff_site_checked.

(* the result checker evaluated per instance means the diagram statement *)
Theorem C05_heff_ok_sound : forall woff aoff ket op n,
  heff_ok woff aoff ket op n = true ->
  exists t g, tree_at ket n = Some t /\ heff_site woff aoff ket op n = Some g /\
              diagram_is g (heff_expected woff aoff ket op t).
Proof. exact heff_ok_sound. Qed.
Print Assumptions C05_heff_ok_sound.

Theorem C05_diagram_matches_sound : forall g e, diagram_matches g e = true -> diagram_is g e.
Proof. exact diagram_matches_sound. Qed.
Print Assumptions C05_diagram_matches_sound.

(* the link clause, per instance: `link_ok` evaluated on an explored link update (the state holds the link node l between
   a and b, the operator does not) means that heff_link is the complete network of both sides of the edge with the
   operator wire of the edge bound and axes = (conjugate copies of the link tensor's legs, the link tensor's legs) *)
Theorem C05_link_ok_sound : forall woff aoff ket op a b l,
  link_ok woff aoff ket op a b l = true ->
  exists ta tb g,
    tree_from (S (length (nodes ket))) ket (Some l) a = Some ta /\
    tree_from (S (length (nodes ket))) ket (Some l) b = Some tb /\
    heff_link woff aoff ket op a b l = Some g /\
    ewire ket a l = ewire ket l a /\ ewire ket b l = ewire ket l b /\ ewire op a b = ewire op b a /\
    diagram_is g (map (Nat.add woff) (t_axes ket l) ++ t_axes ket l,
                  all_atoms3 aoff ket op (rnodes ta ++ rnodes tb),
                  ewire op a b :: flat_map (edge3 woff ket op) (sub_edges ta ++ sub_edges tb) ++
                    inner_bnd3 woff ket op (rnodes ta ++ rnodes tb),
                  open_pairs3 woff ket op (rnodes ta ++ rnodes tb)).
Proof. exact link_ok_sound. Qed.
Print Assumptions C05_link_ok_sound.

(* the link clause, universal: wf_link = the state holds the link node l (not the root, one child, two legs, no open leg)
   between a and b, the operator does not; ta / tb = what lies behind a / b; independent neighbour orders everywhere *)
Theorem C05_heff_link_diagram : forall woff aoff ket op a b l ta tb,
  wf_link woff ket op a b l ta tb ->
  exists g, heff_link woff aoff ket op a b l = Some g /\ diagram_is g (link_expected woff aoff ket op a b l ta tb).
Proof. exact heff_link_correct. Qed.
Print Assumptions C05_heff_link_diagram.

Theorem C05_heff_link_checked : forall woff aoff ket op a b l,
  wf_linkb woff ket op a b l = true ->
  exists ta tb g,
    tree_from (S (length (nodes ket))) ket (Some l) a = Some ta /\
    tree_from (S (length (nodes ket))) ket (Some l) b = Some tb /\
    heff_link woff aoff ket op a b l = Some g /\ diagram_is g (link_expected woff aoff ket op a b l ta tb).
Proof. exact wf_linkb_correct. Qed.
Print Assumptions C05_heff_link_checked.

(* non-vacuity: a 4-node tree, the operator with another child order at the root; every node as target *)
Definition C05_w_kops := [AddRoot 0 [2;3;2]; AddChild 1 [2;2] 0 0 0; AddChild 2 [3;2;2] 0 0 1; AddChild 3 [2;2] 0 2 1].
Definition C05_w_oops := [AddRoot 0 [4;5;2;2]; AddChild 2 [4;6;2;2] 0 0 0; AddChild 1 [5;2;2] 0 0 1; AddChild 3 [6;2;2] 0 2 1].
Example C05_heff_example :
  let ket := fst (run empty_store C05_w_kops) in
  let op := fst (run (store_at 1000 100) C05_w_oops) in
  forallb (fun n => andb (wf_heffb 2000 ket op n) (heff_ok 2000 200 ket op n)) [0; 1; 2; 3] = true /\
  option_map gaxes (heff_site 2000 200 ket op 2) = Some [2001; 2006; 1006; 1; 6; 1007].
Proof. vm_compute. split; reflexivity. Qed.
Print Assumptions C05_heff_example.

(* the same state after a QR split of node 2 towards its parent 0: link node 9 between them (no open leg) *)
Definition C05_w_kops_link := [AddRoot 0 [2;3;2]; AddChild 1 [2;2] 0 0 0; AddChild 9 [3;3] 0 0 1; AddChild 2 [3;2;2] 0 9 1; AddChild 3 [2;2] 0 2 1].
Example C05_heff_link_example :
  let ket := fst (run empty_store C05_w_kops_link) in
  let op := fst (run (store_at 1000 100) C05_w_oops) in
  andb (wf_linkb 2000 ket op 2 0 9) (link_ok 2000 200 ket op 2 0 9) = true /\
  option_map gaxes (heff_link 2000 200 ket op 2 0 9) = Some [2001; 2006; 1; 6].
Proof. vm_compute. split; reflexivity. Qed.
Print Assumptions C05_heff_link_example.

(* ==== the TWO-SITE effective Hamiltonian at the diagram level (Contr/Heff2.v) ============================================= *)
(* _update_two_site_nodes(target = a, next = b) contracts the pair in the state first (two-site node l, legs: parent of
   the upper node, a's other children, b's other children, a's open leg, b's open leg - C02_contract_open_rule) and then
   builds H_eff from the TTNO (which still has a and b) and the cache; `ket` is that state.  tsa / tsb = what lies behind
   the neighbours of a other than b / of b other than a (operator order). *)
From Coq Require Import Permutation.
From PTN Require Import Contr.Heff2 Contr.Heff2Proofs.

(* universal: for every tree, every adjacent pair (either one the parent), independent neighbour orders of state and
   operator and any order of the two-site node's neighbours, _contract_all_except_two_nodes built from fresh blocks is
   the <psi|H|psi> network with the two ket atoms of the pair and their conjugate twins removed; rows = conjugate-side
   legs, columns = ket-side legs, in the leg order of the two-site tensor (virtual legs in its own order, then a, b) *)
Theorem C05_heff_two_diagram : forall woff aoff ket op a b l tsa tsb,
  wf_twosite woff ket op a b l tsa tsb ->
  exists g, heff_two woff aoff ket op a b l = Some g /\ diagram_is g (two_expected woff aoff ket op a b l tsa tsb).
Proof. exact heff_two_correct. Qed.
Print Assumptions C05_heff_two_diagram.

(* the same with the decidable hypothesis evaluated per explored two-site call *)
Theorem C05_heff_two_checked : forall woff aoff ket op a b l,
  wf_twositeb woff ket op a b l = true ->
  exists tsa tsb g,
    side_trees ket l (side_ids op a b) = Some tsa /\ side_trees ket l (side_ids op b a) = Some tsb /\
    heff_two woff aoff ket op a b l = Some g /\ diagram_is g (two_expected woff aoff ket op a b l tsa tsb).
Proof. exact wf_twositeb_correct. Qed.
Print Assumptions C05_heff_two_checked.

(* the result checker evaluated per explored two-site call is the diagram statement *)
Theorem C05_heff_two_ok_sound : forall woff aoff ket op a b l,
  heff_two_ok woff aoff ket op a b l = true ->
  exists tsa tsb g,
    side_trees ket l (side_ids op a b) = Some tsa /\ side_trees ket l (side_ids op b a) = Some tsb /\
    heff_two woff aoff ket op a b l = Some g /\ diagram_is g (two_expected woff aoff ket op a b l tsa tsb).
Proof. exact heff_two_ok_sound. Qed.
Print Assumptions C05_heff_two_ok_sound.

(* the loop of contract_all_but_one_neighbour_block_to_hamiltonian and the transposition of
   _determine_two_site_leg_permutation, given blocks with legs (ket, operator, conjugate) *)
Theorem C05_heff_two_legs : forall oa ob ln ta tb a b ba bb (w ya yb x : id -> wire) (blka blkb : id -> garr)
    ooa oia oob oib preA postA preB postB,
  neighbouring_nodes oa = preA ++ b :: postA -> NoDup (preA ++ b :: postA) ->
  neighbouring_nodes ob = preB ++ a :: postB -> NoDup (preB ++ a :: postB) ->
  NoDup (neighbouring_nodes ln) ->
  Permutation (neighbouring_nodes ln) ((preA ++ postA) ++ (preB ++ postB)) ->
  ~ In b (neighbouring_nodes ln) ->
  gaxes ta = map ya (neighbouring_nodes oa) ++ [ooa; oia] ->
  gaxes tb = map yb (neighbouring_nodes ob) ++ [oob; oib] ->
  ya b = yb a ->
  (forall nb, In nb (preA ++ postA) -> aget nb ba = Some (blka nb) /\ gaxes (blka nb) = [w nb; ya nb; x nb]) ->
  (forall nb, In nb (preB ++ postB) -> aget nb bb = Some (blkb nb) /\ gaxes (blkb nb) = [w nb; yb nb; x nb]) ->
  exists g, heff_two_with oa ob ln ta tb a b ba bb = Some g /\
    gaxes g = map x (neighbouring_nodes ln) ++ [ooa; oob] ++ map w (neighbouring_nodes ln) ++ [oia; oib] /\
    gatoms g = (gatoms ta ++ flat_map (fun nb => gatoms (blka nb)) (preA ++ postA)) ++
               (gatoms tb ++ flat_map (fun nb => gatoms (blkb nb)) (preB ++ postB)) /\
    gbnd g = ya b :: (rev (map ya (preA ++ postA)) ++ gbnd ta ++ flat_map (fun nb => gbnd (blka nb)) (preA ++ postA)) ++
                     (rev (map yb (preB ++ postB)) ++ gbnd tb ++ flat_map (fun nb => gbnd (blkb nb)) (preB ++ postB)) /\
    gglue g = (gglue ta ++ flat_map (fun nb => gglue (blka nb)) (preA ++ postA)) ++
              (gglue tb ++ flat_map (fun nb => gglue (blkb nb)) (preB ++ postB)).
Proof. exact heff_two_with_axes. Qed.
Print Assumptions C05_heff_two_legs.

(* non-vacuity: the 4-node state of C05_w_kops with the pair contracted by the store model's contract_nodes (node 9),
   the operator with another child order at the root.  Pair (2, 0): the child is the target; pair (0, 2): the parent is;
   the two-site tensor's legs are (to 3, to 1, open of 2, open of 0) = wires [6; 0; 7; 2] resp. (to 1, to 3, open of 0,
   open of 2) = [0; 6; 2; 7]; pairs (0, 1) and (3, 2) have a leaf end *)
Example C05_heff_two_example :
  let op := fst (run (store_at 1000 100) C05_w_oops) in
  let ket := fun a b => fst (run empty_store (C05_w_kops ++ [Contract a b 9])) in
  forallb (fun ab => andb (wf_twositeb 2000 (ket (fst ab) (snd ab)) op (fst ab) (snd ab) 9)
                          (heff_two_ok 2000 200 (ket (fst ab) (snd ab)) op (fst ab) (snd ab) 9))
          [(2, 0); (0, 2); (0, 1); (1, 0); (3, 2); (2, 3)] = true /\
  t_axes (ket 2 0) 9 = [6; 0; 7; 2] /\
  option_map gaxes (heff_two 2000 200 (ket 2 0) op 2 0 9) = Some [2006; 2000; 1006; 1002; 6; 0; 1007; 1003] /\
  t_axes (ket 0 2) 9 = [0; 6; 2; 7] /\
  option_map gaxes (heff_two 2000 200 (ket 0 2) op 0 2 9) = Some [2000; 2006; 1002; 1006; 0; 6; 1003; 1007].
Proof. vm_compute. repeat split; reflexivity. Qed.
Print Assumptions C05_heff_two_example.
