(* Property C05 — every TDVP local update uses the projected Hamiltonian and the right duration.
   Schedule level (Sched/TDVP.v): the event traces of one time step of the three classes.
   Factors are in half units of the time step (2 = dt, 1 = dt/2); node_dur / edge_dur /
   total_dur are signed sums (Link events count negative: the link tensor is evolved backward,
   SiteBack events count negative).  Statements only; each is closed by `exact`.
   Universal statements quantify over every rtree with unique identifiers; *_bounded_N over
   the complete enumeration trees_upto N (kernel-evaluated). *)
From Coq Require Import List Arith ZArith.
From PTN Require Import Tree.RTree Tree.Nav Tree.UpdatePath Tree.CachePath Tree.Enum Tree.EnumProofs
     Sched.TDVP Sched.TDVPProofs Sched.TDVPFresh Sched.TDVPBounded.
Import ListNotations.

(* ---- the three traces are defined on every tree with >= 2 nodes ---------------------- *)
Theorem C05_trace1_defined : forall t, NoDup (ids t) -> exists tr, trace1 t = Some tr.
Proof. exact trace1_defined. Qed.
Print Assumptions C05_trace1_defined.

Theorem C05_trace2_defined : forall t, NoDup (ids t) -> 2 <= size t -> exists tr, trace2 t = Some tr.
Proof. exact trace2_defined. Qed.
Print Assumptions C05_trace2_defined.

Theorem C05_trace2s_defined : forall t, NoDup (ids t) -> 2 <= size t -> exists tr, trace2s t = Some tr.
Proof. exact trace2s_defined. Qed.
Print Assumptions C05_trace2s_defined.

(* ---- site durations of the one-site schemes: +dt in total on every node --------------- *)
(* first order; t' = the state's tree (children lists re-ordered) at the re-initialisation *)
Theorem C05_site_durations_first_order : forall t t' tr, NoDup (ids t) -> trace1_gen t t' = Some tr ->
  forall x, In x (ids t) -> node_dur x tr = 2%Z.
Proof. exact trace1_site_durations. Qed.
Print Assumptions C05_site_durations_first_order.

Theorem C05_site_durations_second_order : forall t tr, NoDup (ids t) -> trace2 t = Some tr ->
  forall x, In x (ids t) -> node_dur x tr = 2%Z.
Proof. exact trace2_site_durations. Qed.
Print Assumptions C05_site_durations_second_order.

(* ---- the signed durations of a step always sum to dt ----------------------------------- *)
Theorem C05_total_duration_first_order : forall t t' tr, NoDup (ids t) -> trace1_gen t t' = Some tr ->
  total_dur tr = 2%Z.
Proof. exact trace1_total_duration. Qed.
Print Assumptions C05_total_duration_first_order.

Theorem C05_total_duration_second_order : forall t tr, NoDup (ids t) -> trace2 t = Some tr -> total_dur tr = 2%Z.
Proof. exact trace2_total_duration. Qed.
Print Assumptions C05_total_duration_second_order.

Theorem C05_total_duration_two_site : forall t tr, trace2s t = Some tr -> total_dur tr = 2%Z.
Proof. exact trace2s_total_duration. Qed.
Print Assumptions C05_total_duration_two_site.

(* first order: every link update is on a tree edge with factor 1, applied backward *)
Theorem C05_link_events_first_order : forall t t' tr, NoDup (ids t) -> trace1_gen t t' = Some tr ->
  forall a b f, In (Link a b f) tr -> adjacent t a b /\ f = 2%Z.
Proof. exact trace1_links_on_edges. Qed.
Print Assumptions C05_link_events_first_order.

(* ---- link / two-site durations per edge, node durations of the two-site scheme: bounded -- *)
(* one-site: node +2, edge -2; two-site: edge +2, node 2 - 2*degree = -2(degree-1); every
   Link/TwoSite event on a tree edge *)
Theorem C05_durations_bounded_10 : forall t, In t (trees_upto 10) -> 2 <= size t ->
  (exists tr, trace1 t = Some tr /\
     (forall x, In x (ids t) -> node_dur x tr = 2%Z) /\
     (forall p c, In (p, c) (edges t) -> edge_dur p c tr = (-2)%Z) /\
     (forall a b f, In (Link a b f) tr \/ In (TwoSite a b f) tr -> adjacent t a b)) /\
  (exists tr, trace2 t = Some tr /\
     (forall x, In x (ids t) -> node_dur x tr = 2%Z) /\
     (forall p c, In (p, c) (edges t) -> edge_dur p c tr = (-2)%Z) /\
     (forall a b f, In (Link a b f) tr \/ In (TwoSite a b f) tr -> adjacent t a b)) /\
  (exists tr, trace2s t = Some tr /\
     (forall x, In x (ids t) -> node_dur x tr = (2 - 2 * Z.of_nat (degree t x))%Z) /\
     (forall p c, In (p, c) (edges t) -> edge_dur p c tr = 2%Z) /\
     (forall a b f, In (Link a b f) tr \/ In (TwoSite a b f) tr -> adjacent t a b)).
Proof. exact durations_bounded_10. Qed.
Print Assumptions C05_durations_bounded_10.

(* ---- cache_fresh: version-stamp invariant, centre, assertions: bounded ------------------ *)
(* sched_ok t tr: from the constructor's cache (centre on update_path[0]) the trace runs
   twice in a row in the checker `run`, each time ending with the centre on update_path[0] *)
Theorem C05_cache_fresh_bounded_9 : forall t, In t (trees_upto 9) -> 2 <= size t ->
  (exists tr, trace1 t = Some tr /\ sched_ok t tr) /\
  (exists tr, trace2 t = Some tr /\ sched_ok t tr) /\
  (exists tr, trace2s t = Some tr /\ sched_ok t tr).
Proof. exact cache_fresh_bounded_9. Qed.
Print Assumptions C05_cache_fresh_bounded_9.

(* what a successful run means: every event finds, in the state it is executed in, the centre
   on the updated object and every environment block it reads stamped with the current
   versions of all tensors behind it (`requires`, `block_fresh`) *)
Theorem C05_run_meaning : forall t tr s s', run t s tr = Some s' ->
  forall pre e post, tr = pre ++ e :: post ->
  exists sk, run t s pre = Some sk /\
    match e with
    | Site n _ | SiteBack n _ =>
        centre sk = n /\ pend sk = None /\
        forall y, In y (neighbours t n) -> find_block (y, n) (blocks sk) = Some (stamp t (vers sk) y n)
    | Split a b => centre sk = a /\ pend sk = None /\ adjacent t a b
    | Link a b _ =>
        pend sk = Some (a, b) /\ find_block (a, b) (blocks sk) = Some (stamp t (vers sk) a b) /\
        find_block (b, a) (blocks sk) = Some (stamp t (vers sk) b a)
    | Absorb a b => pend sk = Some (a, b)
    | TwoSite a b _ =>
        centre sk = a /\ pend sk = None /\ adjacent t a b /\
        (forall y, In y (neighbours t a) -> y <> b -> find_block (y, a) (blocks sk) = Some (stamp t (vers sk) y a)) /\
        (forall y, In y (neighbours t b) -> y <> a -> find_block (y, b) (blocks sk) = Some (stamp t (vers sk) y b))
    | Move a b => centre sk = a /\ pend sk = None /\ adjacent t a b
    | Cache n m => adjacent t n m /\
        forall y, In y (neighbours t n) -> y <> m -> find_block (y, n) (blocks sk) = Some (stamp t (vers sk) y n)
    | Reinit => True
    | AssertCentre n => centre sk = n /\ pend sk = None
    | AssertLeaf n => is_leaf t n = true
    | AssertEnd n => degree t n <= 1
    end.
Proof. exact run_sound. Qed.
Print Assumptions C05_run_meaning.

(* the stamp of a block covers exactly the nodes on its side of the edge *)
Theorem C05_behind_child_side : forall t p c s, NoDup (ids t) -> In (p, c) (edges t) -> subtree c t = Some s ->
  behind t c p = ids s.
Proof. exact behind_child_side. Qed.
Print Assumptions C05_behind_child_side.

Theorem C05_behind_parent_side : forall t p c s, NoDup (ids t) -> In (p, c) (edges t) -> subtree c t = Some s ->
  forall x, In x (behind t p c) <-> In x (ids t) /\ ~ In x (ids s).
Proof. exact behind_parent_side. Qed.
Print Assumptions C05_behind_parent_side.

(* the bounded statements range over every tree shape up to the bound *)
Theorem C05_enumeration_complete : forall t n, size t <= n -> In (relabel (erase t)) (trees_upto n).
Proof. exact trees_upto_complete. Qed.
Print Assumptions C05_enumeration_complete.

(* ---- non-vacuity ------------------------------------------------------------------------- *)
Definition C05_ex : rtree := RNode 0 [RNode 1 [RNode 2 []; RNode 3 []]; RNode 4 []].

Example C05_example_calls : option_map calls (trace2s C05_ex) =
  Some [(2, 2, 1, 1%Z); (0, 1, 1, (-1)%Z); (2, 3, 1, 1%Z); (0, 1, 1, (-1)%Z); (2, 1, 0, 1%Z); (0, 0, 0, (-1)%Z);
        (2, 0, 4, 1%Z); (2, 4, 0, 1%Z); (0, 0, 0, (-1)%Z); (2, 0, 1, 1%Z); (0, 1, 1, (-1)%Z); (2, 1, 3, 1%Z);
        (0, 1, 1, (-1)%Z); (2, 1, 2, 1%Z)].
Proof. vm_compute. reflexivity. Qed.
Print Assumptions C05_example_calls.

Example C05_example_checks : (fresh_check C05_ex, dur_check C05_ex, In C05_ex (trees_upto 5)) = (true, true, In C05_ex (trees_upto 5)) /\
  NoDup (ids C05_ex) /\ 2 <= size C05_ex.
Proof. split; [vm_compute; reflexivity|]. split; [repeat constructor; simpl; intuition discriminate|simpl; repeat constructor]. Qed.
Print Assumptions C05_example_checks.
