(* Property C13 -- symbolic Gaussian elimination returns an exact factorisation of its input.
   Statements only; each is closed by `exact`.  Model: SGE/Model.v (tied to
   pytreenet/ttno/symbolic_gaussian_elimination_fraction.py by harness/props/c13.py).

   Vocabulary (all from SGE/Model.v):
     ent = Num q | Sym q s          an entry: a rational, or a rational multiple of ONE symbol s
     coef e x                       coefficient of the constant (x = None) / of symbol t (x = Some t)
     prod3 m' n' L M' R i j x       coefficient of x in entry (i,j) of L * M' * R  (M' is m' x n')
     rectE n M / rectQ n L          every row has length n
     mat_wf M                       every Sym coefficient is non-zero
   Rationals are canonical (Qc), so `=` is exact equality of fractions. *)
From Coq Require Import ZArith QArith Qcanon List Arith.
From PTN Require Import SGE.Model SGE.ModelProofs.
Import ListNotations.
Local Close Scope Q_scope.
Local Open Scope nat_scope.

(* ---- the whole algorithm, for every non-empty rectangular matrix (all sizes) ---- *)

(* the fuel of the three while loops suffices and no `matrix[0]` of an empty matrix is taken:
   gaussian_elimination returns a triple; shapes are compatible and non-empty; the reduced
   matrix is not larger than the input; L * M' * R equals the input entry by entry as
   polynomials (coefficient functions) over the rationals *)
Theorem C13_exact_factorisation : forall (m n : nat) (M : mat),
  length M = m /\ rectE n M -> 1 <= m -> 1 <= n ->
  exists (L : qmat) (M' : mat) (R : qmat) (m' n' : nat),
    gaussian_elimination M = Some (L, M', R) /\
    m' <= m /\ n' <= n /\ 1 <= m' /\ 1 <= n' /\
    (length L = m /\ rectQ m' L) /\ (length M' = m' /\ rectE n' M') /\ (length R = n' /\ rectQ n R) /\
    forall i j x, i < m -> j < n -> prod3 m' n' L M' R i j x = coef (get M i j) x.
Proof. exact ge_correct. Qed.
Print Assumptions C13_exact_factorisation.

(* no entry of the reduced matrix mixes symbols: an entry is `Num q` or `Sym q s` by
   construction of the model (which is tied exactly to the code), and on well-formed input
   every symbolic coefficient of the result is non-zero -- in particular no elimination
   factor was computed by dividing by a zero pivot coefficient *)
Theorem C13_entries_single_symbol : forall (M : mat) (L : qmat) (M' : mat) (R : qmat),
  mat_wf M -> gaussian_elimination M = Some (L, M', R) -> mat_wf M'.
Proof. exact ge_wf. Qed.
Print Assumptions C13_entries_single_symbol.

(* ---- the primitives (paired operations keep L * M * R) ---- *)

(* row_add: target row += f * source row, or nothing at all when two different symbols (or a
   symbol and a non-zero number) would meet; Op_l gets the inverse column operation *)
Theorem C13_row_add_product : forall p m n L M tgt src f M' L' z,
  (length L = p /\ rectQ m L) -> (length M = m /\ rectE n M) -> tgt < m -> src < m -> tgt <> src ->
  row_add M L tgt src f = (M', L', z) ->
  (length L' = p /\ rectQ m L') /\ (length M' = m /\ rectE n M') /\
  (forall R i j x, i < p -> prod3 m n L' M' R i j x = prod3 m n L M R i j x) /\
  (forall k, k <> tgt -> nth k M' [] = nth k M []) /\
  (z = true -> forall l x, coef (get M' tgt l) x = Q2Qc 0).
Proof. exact row_add_spec. Qed.
Print Assumptions C13_row_add_product.

Theorem C13_col_add_product : forall m n q M R tgt src f M' R' z,
  (length M = m /\ rectE n M) -> (length R = n /\ rectQ q R) -> tgt < n -> src < n -> tgt <> src ->
  col_add M R tgt src f = (M', R', z) ->
  (length M' = m /\ rectE n M') /\ (length R' = n /\ rectQ q R') /\
  (forall L i j x, prod3 m n L M' R' i j x = prod3 m n L M R i j x) /\
  (forall k l, l <> tgt -> get M' k l = get M k l) /\
  (z = true -> forall k x, coef (get M' k tgt) x = Q2Qc 0).
Proof. exact col_add_spec. Qed.
Print Assumptions C13_col_add_product.

Theorem C13_row_swap_product : forall p m n L M i j,
  (length L = p /\ rectQ m L) -> (length M = m /\ rectE n M) -> i < m -> j < m ->
  forall R i0 j0 x, prod3 m n (snd (row_swap M L i j)) (fst (row_swap M L i j)) R i0 j0 x
                    = prod3 m n L M R i0 j0 x.
Proof. exact row_swap_prod. Qed.
Print Assumptions C13_row_swap_product.

Theorem C13_col_swap_product : forall m n q M R i j,
  (length M = m /\ rectE n M) -> (length R = n /\ rectQ q R) -> i < n -> j < n ->
  forall L i0 j0 x, prod3 m n L (fst (col_swap M R i j)) (snd (col_swap M R i j)) i0 j0 x
                    = prod3 m n L M R i0 j0 x.
Proof. exact col_swap_prod. Qed.
Print Assumptions C13_col_swap_product.

(* deleting lines that are zero as linear forms, from the matrix and from the operator *)
Theorem C13_delete_zero_rows_product : forall p m n L M Z R i j x,
  (length L = p /\ rectQ m L) -> (length M = m /\ rectE n M) -> i < p ->
  (forall z, In z Z -> forall l y, coef (get M z l) y = Q2Qc 0) ->
  prod3 (length (del_idx Z M)) n (map (del_idx Z) L) (del_idx Z M) R i j x = prod3 m n L M R i j x.
Proof. exact del_rows_prod. Qed.
Print Assumptions C13_delete_zero_rows_product.

Theorem C13_delete_zero_cols_product : forall m n q L M Z R i j x,
  (length M = m /\ rectE n M) -> (length R = n /\ rectQ q R) ->
  (forall z, In z Z -> forall k y, coef (get M k z) y = Q2Qc 0) ->
  prod3 m (length (del_idx Z R)) L (map (del_idx Z) M) (del_idx Z R) i j x = prod3 m n L M R i j x.
Proof. exact del_cols_prod. Qed.
Print Assumptions C13_delete_zero_cols_product.

(* a non-zero result of are_parallel_row / are_parallel_col is a true proportionality factor *)
Theorem C13_parallel_rows_sound : forall r1 r2, are_parallel_row r1 r2 <> Q2Qc 0 -> length r1 = length r2 ->
  forall l x, coef (nth l r2 (Num (Q2Qc 0))) x = (are_parallel_row r1 r2 * coef (nth l r1 (Num (Q2Qc 0))) x)%Qc.
Proof. exact par_row_spec. Qed.
Print Assumptions C13_parallel_rows_sound.

Theorem C13_parallel_cols_sound : forall M c1 c2, are_parallel_col M c1 c2 <> Q2Qc 0 ->
  forall k x, coef (get M k c2) x = (are_parallel_col M c1 c2 * coef (get M k c1) x)%Qc.
Proof. exact par_col_spec. Qed.
Print Assumptions C13_parallel_cols_sound.

(* deparallelisation folds parallel lines into the operator matrices *)
Theorem C13_deparallelize_rows_product : forall p m n L M,
  (length L = p /\ rectQ m L) -> (length M = m /\ rectE n M) -> 1 <= m ->
  exists m', m' <= m /\ 1 <= m' /\
    (length (fst (deparallelize_rows L M)) = p /\ rectQ m' (fst (deparallelize_rows L M))) /\
    (length (snd (deparallelize_rows L M)) = m' /\ rectE n (snd (deparallelize_rows L M))) /\
    forall R i j x, i < p ->
      prod3 m' n (fst (deparallelize_rows L M)) (snd (deparallelize_rows L M)) R i j x = prod3 m n L M R i j x.
Proof. exact deparallelize_rows_ok. Qed.
Print Assumptions C13_deparallelize_rows_product.

Theorem C13_deparallelize_cols_product : forall m n q R M,
  (length M = m /\ rectE n M) -> (length R = n /\ rectQ q R) -> 1 <= m -> 1 <= n ->
  exists n', n' <= n /\ 1 <= n' /\
    (length (snd (deparallelize_cols R M)) = m /\ rectE n' (snd (deparallelize_cols R M))) /\
    (length (fst (deparallelize_cols R M)) = n' /\ rectQ q (fst (deparallelize_cols R M))) /\
    forall L i j x,
      prod3 m n' L (snd (deparallelize_cols R M)) (fst (deparallelize_cols R M)) i j x = prod3 m n L M R i j x.
Proof. exact deparallelize_cols_ok. Qed.
Print Assumptions C13_deparallelize_cols_product.

(* ---- non-vacuity: concrete runs (results as the harness encoding / as sizes) ---- *)

Definition ex_sym : mat :=       (* tests/test_gaussian_elimination.py::test_row_eliminated_gamma_matrix *)
  let a := Sym (Q2Qc 1) 0 in let b := Sym (Q2Qc 1) 1 in let c := Sym (Q2Qc 1) 2 in let d := Sym (Q2Qc 1) 3 in
  let z := Num (Q2Qc 0) in
  [[a; b; z; z]; [z; b; c; z]; [a; z; z; d]; [z; z; c; d]].

Example C13_example_sizes :
  option_map (fun r => match r with (L, M', R) => (length L, length M', ncols M', length R) end)
             (gaussian_elimination ex_sym) = Some (4, 3, 4, 4).
Proof. vm_compute. reflexivity. Qed.
Print Assumptions C13_example_sizes.

Definition ex_mixed : mat :=     (* rank-deficient numeric block, a parallel row, two symbols *)
  [[Num (Q2Qc 2); Num (Q2Qc 1); Sym (Q2Qc (1 # 2)) 0];
   [Num (Q2Qc 4); Num (Q2Qc 2); Sym (Q2Qc 1) 0];
   [Num (Q2Qc 1); Num (Q2Qc 3); Sym (Q2Qc 2) 1]].

Example C13_example_result :
  enc_result (gaussian_elimination ex_mixed) =
  [3; 2; 1; 1; 0; 1; 2; 2; 1; 0; 1; 2; 0; 1; 1; 1; 2; 3; 0; 2; 1; 0; 0; 0; 1; 0; 1; 1; 2; 0; 3; 0; 0;
   1; 0; 0; 5; 2; 0; 1; 2; 1; 1; 3; 3; 1; 1; 1; 2; 0; 1; 3; 2; 5; 6; 5; 0; 1; 3; 0; 1; 0; 1; 1; 1]%Z.
Proof. vm_compute. reflexivity. Qed.
Print Assumptions C13_example_result.

(* ---- the deletion loops, literally (SGE/DelEquiv.v) ------------------------------------------- *)
(* Model.v writes `for z in sorted(Z, reverse=True): del x[z]` as the position filter `del_idx Z x`.
   del_at z l            `del l[z]` (totalised: out of range = no change; del_at_chk returns None = IndexError)
   del_loop S l          `for z in S: del l[z]`, one deletion at a time on the shrinking list
   sort_desc Z           `sorted(Z, reverse=True)`
   del_sorted_loop Z l   = del_loop (sort_desc Z) l *)
From Coq Require Import Sorted Permutation.
From PTN Require Import SGE.DelEquiv.

(* for duplicate-free Z the literal descending loop deletes exactly the positions in Z *)
Theorem C13_descending_del_is_filter : forall (A : Type) (Z : list nat) (l : list A),
  NoDup Z -> del_loop (sort_desc Z) l = del_idx Z l.
Proof. exact descending_del_is_filter. Qed.
Print Assumptions C13_descending_del_is_filter.

(* ... independently of the sorting algorithm: any non-increasing arrangement S of Z *)
Theorem C13_descending_del_is_filter_any_sort : forall (A : Type) (Z S : list nat) (l : list A),
  NoDup Z -> Permutation S Z -> StronglySorted ge S ->
  fold_left (fun acc z => del_at z acc) S l = del_idx Z l.
Proof. exact descending_del_is_filter_gen. Qed.
Print Assumptions C13_descending_del_is_filter_any_sort.

(* ... and no `del` raises IndexError when the indices are in range of the original list *)
Theorem C13_descending_del_no_index_error : forall (A : Type) (Z : list nat) (l : list A),
  NoDup Z -> (forall z, In z Z -> z < length l) ->
  del_loop_chk (sort_desc Z) l = Some (del_idx Z l).
Proof. exact descending_del_no_index_error. Qed.
Print Assumptions C13_descending_del_no_index_error.

(* the two-container form of the code: `for z in S: del X[z]; for row in Y: del row[z]` *)
Theorem C13_descending_del_lines_is_filter : forall (A B : Type) (Z : list nat) (X : list A) (Y : list (list B)),
  NoDup Z ->
  fold_left (fun st z => (del_at z (fst st), map (del_at z) (snd st))) (sort_desc Z) (X, Y)
  = (del_idx Z X, map (del_idx Z) Y).
Proof. exact del_lines_is_filter. Qed.
Print Assumptions C13_descending_del_lines_is_filter.

(* with duplicates the idealisation would be wrong: the filter ignores a repeated index, the loop
   deletes once per occurrence (a second element, or IndexError) *)
Theorem C13_del_with_duplicates : forall (A : Type) (Z : list nat) (l : list A),
  del_idx Z l = del_loop (sort_desc (nodup Nat.eq_dec Z)) l.
Proof. exact del_idx_is_loop_on_nodup. Qed.
Print Assumptions C13_del_with_duplicates.

Theorem C13_del_duplicate_index : forall (A : Type) (z : nat) (l : list A), S z < length l ->
  del_loop [z; z] l = del_idx [z; S z] l /\ del_idx [z; z] l = del_idx [z] l.
Proof. exact dup_two. Qed.
Print Assumptions C13_del_duplicate_index.

Example C13_del_duplicates_differ :
  del_loop (sort_desc [1; 1]) [10; 20; 30] = [10] /\ del_idx [1; 1] [10; 20; 30] = [10; 30] /\
  del_loop_chk (sort_desc [2; 2]) [10; 20; 30] = None.
Proof. vm_compute. auto. Qed.
Print Assumptions C13_del_duplicates_differ.

(* every index list the algorithm hands to a deletion loop is duplicate-free and in range:
   zero_rows/zero_cols of deparallelize_rows/_cols (any operator L/R, any matrix M) and of one pass
   of the inner while loop of row_elimination/column_elimination (any pivot, any state) *)
Theorem C13_reachable_Z_duplicate_free :
  (forall L M, let Z := snd (depar_rows_outer M (seq 0 (length M)) L []) in
               NoDup Z /\ forall z, In z Z -> z < length M) /\
  (forall R M, let Z := snd (depar_cols_outer M (seq 0 (ncols M)) R []) in
               NoDup Z /\ forall z, In z Z -> z < ncols M) /\
  (forall pivot i M L, let Z := snd (fold_left (row_elim_target pivot i) (seq 0 (length M)) (M, L, [])) in
               NoDup Z /\ forall z, In z Z -> z < length M) /\
  (forall pivot j M R, let Z := snd (fold_left (col_elim_target pivot j) (seq 0 (ncols M)) (M, R, [])) in
               NoDup Z /\ forall z, In z Z -> z < ncols M).
Proof.
  exact (conj deparallelize_rows_Z_ok (conj deparallelize_cols_Z_ok (conj row_elim_Z_ok col_elim_Z_ok))).
Qed.
Print Assumptions C13_reachable_Z_duplicate_free.

(* hence the algorithm written with the literal loops at all four reachable deletion sites is the model *)
Theorem C13_literal_loops_eq_model : forall M : mat,
  gaussian_elimination_lit M = gaussian_elimination M.
Proof. exact gaussian_elimination_lit_eq. Qed.
Print Assumptions C13_literal_loops_eq_model.
