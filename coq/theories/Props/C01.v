(* Property C01 — Hamiltonian-to-TTNO conversion is exact.  Statements only; each is closed by
   `exact`.  Model: SD/Model.v (state diagrams, polynomials, the checker), proofs:
   SD/ModelProofs.v. *)
From Coq Require Import List Arith Bool QArith.
From PTN Require Import Tree.RTree SD.Model SD.ModelProofs.
Import ListNotations.
Local Close Scope Q_scope.

(* The checker is sound, for every tree, term list and diagram: if the normal forms agree,
   the diagram's denotation (sum over selections of one hyperedge per node that agree on the
   vertex of every edge, of prod(lambda) * prod(gamma) (x) labels) and
   sum_k lambda_k * gamma_k (x) labels_k have the same coefficient on every key. *)
Theorem C01_sd_check_sound : forall (t : rtree) (H : list pterm) (d : sd),
  sd_check t H d = true ->
  forall k : key, (coef (sd_denote t d) k == coef (ham_denote t H) k)%Q.
Proof. exact sd_check_sound. Qed.
Print Assumptions C01_sd_check_sound.

(* What sd_denote is: the list of the weights prod(lambda) * prod(gamma) (x) labels of the
   consistent selections (one hyperedge per node, agreeing with the parent's hyperedge on the
   vertex of the connecting edge), selection by selection; `sels` enumerates exactly those. *)
Theorem C01_denote_is_selection_sum : forall (t : rtree) (d : sd),
  sd_denote t d = map wt (sels (hes d) t None).
Proof. exact (fun t d => val_selections t (hes d) None). Qed.
Print Assumptions C01_denote_is_selection_sum.

Theorem C01_selections_spec : forall (t : rtree) (s : list he) (pv : option oid) (sg : stree),
  In sg (sels s t pv) <-> sel_ok s t pv sg.
Proof. exact sels_spec. Qed.
Print Assumptions C01_selections_spec.

(* ... and the refuter too: it answers true only with a key on which the two sums differ, so a
   diagram it rejects is not exact (used for the instances of the recorded findings). *)
Theorem C01_sd_refute_sound : forall (t : rtree) (H : list pterm) (d : sd),
  sd_refute t H d = true ->
  ~ (forall k : key, (coef (sd_denote t d) k == coef (ham_denote t H) k)%Q).
Proof. exact sd_refute_sound. Qed.
Print Assumptions C01_sd_refute_sound.

(* SingleTermDiagram.from_single_term: one hyperedge per node, one vertex per edge, the
   coefficient on the root hyperedge; for every tree with distinct identifiers it denotes
   exactly the term (list-wise, coefficients up to ==). *)
Theorem C01_single_term_exact : forall (j : nat) (t : rtree) (tm : pterm), NoDup (ids t) ->
  Forall2 (fun a b => (fst a == fst b)%Q /\ snd a = snd b)
          (sd_denote t (single_term j t tm)) [term_poly t tm].
Proof. exact single_term_exact. Qed.
Print Assumptions C01_single_term_exact.

(* StateDiagram.sum_states: concatenating the collections of two diagrams that share no
   vertex adds the denotations. *)
Theorem C01_sum_states_adds : forall (t : rtree) (a b : sd),
  (forall x, In x (flat_map hverts (hes a)) -> ~ In x (flat_map hverts (hes b))) ->
  sd_denote t (sd_sum a b) = sd_denote t a ++ sd_denote t b.
Proof. exact sum_states_adds. Qed.
Print Assumptions C01_sum_states_adds.

(* StateDiagram.from_hamiltonian_base: exact for every tree with distinct identifiers and
   every list of terms — duplicates and proportional terms included. *)
Theorem C01_base_exact : forall (t : rtree) (H : list pterm), NoDup (ids t) ->
  forall k : key, (coef (sd_denote t (sd_base t H)) k == coef (ham_denote t H) k)%Q.
Proof. exact base_exact_peq. Qed.
Print Assumptions C01_base_exact.

Theorem C01_base_exact_listwise : forall (t : rtree) (H : list pterm), NoDup (ids t) ->
  Forall2 (fun a b => (fst a == fst b)%Q /\ snd a = snd b) (sd_denote t (sd_base t H)) (ham_denote t H).
Proof. exact base_exact. Qed.
Print Assumptions C01_base_exact_listwise.

(* pad_with_identities: a padded term keeps its own labels and has the identity label of the
   node's open dimension everywhere else; accepted terms only touch nodes of the tree. *)
Theorem C01_padding_identity : forall (idlab : nat -> nat) (dims : list (nat * nat)) (t : rtree)
    (H : list uterm) (Hp : list pterm),
  pad_ham idlab dims t H = Some Hp ->
  length Hp = length H /\
  forall k lam gam tm, nth_error H k = Some (lam, gam, tm) ->
    exists f, nth_error Hp k = Some (lam, gam, f) /\
      (forall v l, lookup v tm = Some l -> f v = l) /\
      (forall v, lookup v tm = None ->
                 f v = idlab (match lookup v dims with Some d => d | None => 0 end)) /\
      (forall v l, lookup v tm = Some l -> In v (ids t)).
Proof. exact padding_identity. Qed.
Print Assumptions C01_padding_identity.

Theorem C01_padding_rejects : forall (idlab : nat -> nat) (dims : list (nat * nat)) (t : rtree) (H : list uterm),
  pad_ham idlab dims t H = None <->
  exists lam gam tm v l, In (lam, gam, tm) H /\ In (v, l) tm /\ ~ In v (ids t).
Proof. exact padding_rejects. Qed.
Print Assumptions C01_padding_rejects.

(* The two recorded findings, on the diagrams the implementation builds today (regenerated and
   re-refuted by the harness on every run): the duplicate term is lost by SGE, the TREE method
   drops the prefactor 2. *)
Theorem C01_refuted_duplicate_terms :
  ~ (forall k, (coef (sd_denote wit_dup_tree wit_dup_sd) k == coef (ham_denote wit_dup_tree wit_dup_ham) k)%Q).
Proof. exact wit_dup_refuted. Qed.
Print Assumptions C01_refuted_duplicate_terms.

Theorem C01_refuted_tree_coefficients :
  ~ (forall k, (coef (sd_denote wit_tree_tree wit_tree_sd) k == coef (ham_denote wit_tree_tree wit_tree_ham) k)%Q).
Proof. exact wit_tree_refuted. Qed.
Print Assumptions C01_refuted_tree_coefficients.

(* non-vacuity: a diagram built by the SGE pipeline (five terms, rational and symbolic
   coefficients, a dimension-1 node) is well-formed and certified; the BASE construction of the
   same Hamiltonian is certified too *)
Example C01_example_sge : sd_wf wit_ok_tree wit_ok_sd && sd_check wit_ok_tree wit_ok_ham wit_ok_sd = true.
Proof. vm_compute. reflexivity. Qed.
Print Assumptions C01_example_sge.

Example C01_example_base :
  sd_wf wit_ok_tree (sd_base wit_ok_tree wit_ok_ham) && sd_check wit_ok_tree wit_ok_ham (sd_base wit_ok_tree wit_ok_ham) = true.
Proof. vm_compute. reflexivity. Qed.
Print Assumptions C01_example_base.
