(* Property C01 — Hamiltonian-to-TTNO conversion is exact.  Statements only; each is closed by
   `exact`.  Model: SD/Model.v (state diagrams, polynomials, the checker), proofs:
   SD/ModelProofs.v. *)
From Coq Require Import List Arith Bool QArith Qcanon Ring.
From PTN Require SGE.Model.
From PTN Require Import Tree.RTree SD.Model SD.ModelProofs SD.Core SD.CoreProofs SD.Pipeline SD.PipelineProofs SD.PipelineInv.
Import ListNotations.
Local Close Scope Qc_scope.
Local Close Scope Q_scope.

(* The checker is sound, for every tree, term list and diagram: if the normal forms agree,
   the diagram's denotation (sum over selections of one hyperedge per node that agree on the
   vertex of every edge, of prod(lambda) * prod(gamma) (x) labels) and
   sum_k lambda_k * gamma_k (x) labels_k have the same coefficient on every key. *)
Theorem C01_sd_check_sound : forall (t : rtree) (H : list pterm) (d : sd),
  sd_check t H d = true ->
  forall k : key, (coef (sd_denote t d) k == coef (ham_denote t H) k)%Q.
Proof. exact sd_check_sound. Qed.
Print Assumptions C01_sd_check_sound.

(* What sd_denote is: the list of the weights prod(lambda) * prod(gamma) (x) labels of the
   consistent selections (one hyperedge per node, agreeing with the parent's hyperedge on the
   vertex of the connecting edge), selection by selection; `sels` enumerates exactly those. *)
Theorem C01_denote_is_selection_sum : forall (t : rtree) (d : sd),
  sd_denote t d = map wt (sels (hes d) t None).
Proof. exact (fun t d => val_selections t (hes d) None). Qed.
Print Assumptions C01_denote_is_selection_sum.

Theorem C01_selections_spec : forall (t : rtree) (s : list he) (pv : option oid) (sg : stree),
  In sg (sels s t pv) <-> sel_ok s t pv sg.
Proof. exact sels_spec. Qed.
Print Assumptions C01_selections_spec.

(* ... and the refuter too: it answers true only with a key on which the two sums differ, so a
   diagram it rejects is not exact (used for the instances of the recorded findings). *)
Theorem C01_sd_refute_sound : forall (t : rtree) (H : list pterm) (d : sd),
  sd_refute t H d = true ->
  ~ (forall k : key, (coef (sd_denote t d) k == coef (ham_denote t H) k)%Q).
Proof. exact sd_refute_sound. Qed.
Print Assumptions C01_sd_refute_sound.

(* SingleTermDiagram.from_single_term: one hyperedge per node, one vertex per edge, the
   coefficient on the root hyperedge; for every tree with distinct identifiers it denotes
   exactly the term (list-wise, coefficients up to ==). *)
Theorem C01_single_term_exact : forall (j : nat) (t : rtree) (tm : pterm), NoDup (ids t) ->
  Forall2 (fun a b => (fst a == fst b)%Q /\ snd a = snd b)
          (sd_denote t (single_term j t tm)) [term_poly t tm].
Proof. exact single_term_exact. Qed.
Print Assumptions C01_single_term_exact.

(* StateDiagram.sum_states: concatenating the collections of two diagrams that share no
   vertex adds the denotations. *)
Theorem C01_sum_states_adds : forall (t : rtree) (a b : sd),
  (forall x, In x (flat_map hverts (hes a)) -> ~ In x (flat_map hverts (hes b))) ->
  sd_denote t (sd_sum a b) = sd_denote t a ++ sd_denote t b.
Proof. exact sum_states_adds. Qed.
Print Assumptions C01_sum_states_adds.

(* StateDiagram.from_hamiltonian_base: exact for every tree with distinct identifiers and
   every list of terms — duplicates and proportional terms included. *)
Theorem C01_base_exact : forall (t : rtree) (H : list pterm), NoDup (ids t) ->
  forall k : key, (coef (sd_denote t (sd_base t H)) k == coef (ham_denote t H) k)%Q.
Proof. exact base_exact_peq. Qed.
Print Assumptions C01_base_exact.

Theorem C01_base_exact_listwise : forall (t : rtree) (H : list pterm), NoDup (ids t) ->
  Forall2 (fun a b => (fst a == fst b)%Q /\ snd a = snd b) (sd_denote t (sd_base t H)) (ham_denote t H).
Proof. exact base_exact. Qed.
Print Assumptions C01_base_exact_listwise.

(* pad_with_identities: a padded term keeps its own labels and has the identity label of the
   node's open dimension everywhere else; accepted terms only touch nodes of the tree. *)
Theorem C01_padding_identity : forall (idlab : nat -> nat) (dims : list (nat * nat)) (t : rtree)
    (H : list uterm) (Hp : list pterm),
  pad_ham idlab dims t H = Some Hp ->
  length Hp = length H /\
  forall k lam gam tm, nth_error H k = Some (lam, gam, tm) ->
    exists f, nth_error Hp k = Some (lam, gam, f) /\
      (forall v l, lookup v tm = Some l -> f v = l) /\
      (forall v, lookup v tm = None ->
                 f v = idlab (match lookup v dims with Some d => d | None => 0 end)) /\
      (forall v l, lookup v tm = Some l -> In v (ids t)).
Proof. exact padding_identity. Qed.
Print Assumptions C01_padding_identity.

Theorem C01_padding_rejects : forall (idlab : nat -> nat) (dims : list (nat * nat)) (t : rtree) (H : list uterm),
  pad_ham idlab dims t H = None <->
  exists lam gam tm v l, In (lam, gam, tm) H /\ In (v, l) tm /\ ~ In v (ids t).
Proof. exact padding_rejects. Qed.
Print Assumptions C01_padding_rejects.

(* The two recorded findings, on the diagrams the implementation builds today (regenerated and
   re-refuted by the harness on every run): the duplicate term is lost by SGE, the TREE method
   drops the prefactor 2. *)
Theorem C01_refuted_duplicate_terms :
  ~ (forall k, (coef (sd_denote wit_dup_tree wit_dup_sd) k == coef (ham_denote wit_dup_tree wit_dup_ham) k)%Q).
Proof. exact wit_dup_refuted. Qed.
Print Assumptions C01_refuted_duplicate_terms.

Theorem C01_refuted_tree_coefficients :
  ~ (forall k, (coef (sd_denote wit_tree_tree wit_tree_sd) k == coef (ham_denote wit_tree_tree wit_tree_ham) k)%Q).
Proof. exact wit_tree_refuted. Qed.
Print Assumptions C01_refuted_tree_coefficients.

(* non-vacuity: a diagram built by the SGE pipeline (five terms, rational and symbolic
   coefficients, a dimension-1 node) is well-formed and certified; the BASE construction of the
   same Hamiltonian is certified too *)
Example C01_example_sge : sd_wf wit_ok_tree wit_ok_sd && sd_check wit_ok_tree wit_ok_ham wit_ok_sd = true.
Proof. vm_compute. reflexivity. Qed.
Print Assumptions C01_example_sge.

Example C01_example_base :
  sd_wf wit_ok_tree (sd_base wit_ok_tree wit_ok_ham) && sd_check wit_ok_tree wit_ok_ham (sd_base wit_ok_tree wit_ok_ham) = true.
Proof. vm_compute. reflexivity. Qed.
Print Assumptions C01_example_base.

(* ---------------------------------------------------------------------------------------
   Algebraic core of the compressing pipelines (SD/Core.v, SD/CoreProofs.v)
   --------------------------------------------------------------------------------------- *)

(* equality of coefficient functions is a congruence for the product of polynomials (hence for
   every contraction `val` is built from) *)
Theorem C01_pmul_congruence : forall (p p' q q' : poly),
  (forall k, (coef p k == coef p' k)%Q) -> (forall k, (coef q k == coef q' k)%Q) ->
  forall k, (coef (pmul p q) k == coef (pmul p' q') k)%Q.
Proof. exact pmul_peq. Qed.
Print Assumptions C01_pmul_congruence.

(* StateDiagram.combine_subtrees, step 1 (the sub-diagram below x2 is kept, unreachable): if the
   sub-diagrams hanging below two vertices x1, x2 of the edge (parent(c), c) denote the same
   polynomial, letting every hyperedge of the parent node that sits on x2 sit on x1 instead keeps
   the denotation of the whole diagram -- every tree, every diagram. *)
Theorem C01_merge_redirect_sound : forall (t : rtree) (c : nat) (x1 x2 : oid) (d : sd), NoDup (ids t) ->
  (forall k, (coef (child_side t d c x1) k == coef (child_side t d c x2) k)%Q) ->
  forall k, (coef (sd_denote t (mkSd (merge_redirect t c x1 x2 (hes d)) (vxs d))) k == coef (sd_denote t d) k)%Q.
Proof. exact merge_redirect_sound. Qed.
Print Assumptions C01_merge_redirect_sound.

(* ... and the whole step (redirect, then erase_subtree below x2, vertex collections updated):
   `merge` keeps the denotation provided no surviving hyperedge of another node touches an erased
   vertex (what erase_subtree silently relies on; decided by `privateb`). *)
Theorem C01_merge_equal_subtrees_sound : forall (t : rtree) (c : nat) (x1 x2 : oid) (d : sd), NoDup (ids t) ->
  (forall k, (coef (child_side t d c x1) k == coef (child_side t d c x2) k)%Q) ->
  (forall h k y, In h (merge_redirect t c x1 x2 (hes d)) ->
     is_dead (merge_dead t c x2 (merge_redirect t c x1 x2 (hes d))) h = false -> hnode h <> k -> In y (hverts h) ->
     ~ In y (dead_of (merge_dead t c x2 (merge_redirect t c x1 x2 (hes d))) k)) ->
  forall k, (coef (sd_denote t (merge t c x1 x2 d)) k == coef (sd_denote t d) k)%Q.
Proof. exact merge_equal_subtrees_sound. Qed.
Print Assumptions C01_merge_equal_subtrees_sound.

Theorem C01_merge_keeps_exact : forall (t : rtree) (H : list pterm) (c : nat) (x1 x2 : oid) (d : sd), NoDup (ids t) ->
  (forall k, (coef (child_side t d c x1) k == coef (child_side t d c x2) k)%Q) ->
  privateb (merge_dead t c x2 (merge_redirect t c x1 x2 (hes d))) (merge_redirect t c x1 x2 (hes d)) = true ->
  (forall k, (coef (sd_denote t d) k == coef (ham_denote t H) k)%Q) ->
  forall k, (coef (sd_denote t (merge t c x1 x2 d)) k == coef (ham_denote t H) k)%Q.
Proof. exact merge_keeps_exact. Qed.
Print Assumptions C01_merge_keeps_exact.

(* StateDiagram.cut_and_optimise / _reconnect_hyperedges, over any commutative ring: if
   Gamma = L * Gamma_u * R entry by entry, `supp` contains the non-zero entries of Gamma_u and
   (Cu, Cv) is a vertex cover of supp, then the cut sum_ij u_i Gamma_ij v_j equals the sum over
   the new vertices: for a in Cu  (sum_i L_ia u_i) * sum_{b in adj(a)} Gamma_u[a][b] (sum_j R_bj v_j),
   for b in Cv  (sum_{a in adj(b), a not in Cu} Gamma_u[a][b] (sum_i L_ia u_i)) * (sum_j R_bj v_j). *)
Theorem C01_cut_regroup_sound : forall (R : Type) (r0 r1 : R) (radd rmul rsub : R -> R -> R) (ropp : R -> R),
  ring_theory r0 r1 radd rmul rsub ropp eq ->
  forall (m n m' n' : nat) (L Gu Rr G : nat -> nat -> R) (u v : nat -> R)
         (supp : nat -> nat -> bool) (Cu Cv : list nat),
  (forall i j, i < m -> j < n -> G i j = mprod3 R r0 radd rmul m' n' L Gu Rr i j) ->
  (forall a b, a < m' -> b < n' -> supp a b = false -> Gu a b = r0) ->
  (forall a b, a < m' -> b < n' -> supp a b = true -> In a Cu \/ In b Cv) ->
  NoDup Cu /\ (forall a, In a Cu -> a < m') ->
  NoDup Cv /\ (forall b, In b Cv -> b < n') ->
  bilform R r0 radd rmul m n G u v = regrouped R r0 radd rmul m n m' n' L Gu Rr u v supp Cu Cv.
Proof. exact cut_regroup_sound. Qed.
Print Assumptions C01_cut_regroup_sound.

(* every covered entry of Gamma_u is used by exactly one of the new vertices (rows first) *)
Theorem C01_cover_assignment_unique : forall (Cu Cv : list nat) (a b : nat),
  NoDup Cu -> NoDup Cv -> In a Cu \/ In b Cv ->
  length (filter (uses Cu a b) (new_vertices Cu Cv)) = 1.
Proof. exact cover_assignment_unique. Qed.
Print Assumptions C01_cover_assignment_unique.

(* composed with C13: for every non-empty rectangular Gamma the triple gaussian_elimination
   returns can be regrouped along any vertex cover of the non-zero entries of Gamma_u, for the
   constant part (x = None) and for every symbol (x = Some s) *)
Theorem C01_cut_regroup_sge : forall (m n : nat) (M : SGE.Model.mat),
  length M = m /\ SGE.Model.rectE n M -> 1 <= m -> 1 <= n ->
  exists (L : SGE.Model.qmat) (M' : SGE.Model.mat) (Rr : SGE.Model.qmat) (m' n' : nat),
    SGE.Model.gaussian_elimination M = Some (L, M', Rr) /\
    (length M' = m' /\ SGE.Model.rectE n' M') /\
    forall (supp : nat -> nat -> bool) (Cu Cv : list nat),
      (forall a b, a < m' -> b < n' -> supp a b = false ->
                   forall x, SGE.Model.coef (SGE.Model.get M' a b) x = Q2Qc 0) ->
      (forall a b, a < m' -> b < n' -> supp a b = true -> In a Cu \/ In b Cv) ->
      (NoDup Cu /\ forall a, In a Cu -> a < m') -> (NoDup Cv /\ forall b, In b Cv -> b < n') ->
      forall (x : option nat) (u v : nat -> Qc),
        bilform Qc (Q2Qc 0) Qcplus Qcmult m n (fun i j => SGE.Model.coef (SGE.Model.get M i j) x) u v
        = regrouped Qc (Q2Qc 0) Qcplus Qcmult m n m' n'
            (SGE.Model.qget L) (fun a b => SGE.Model.coef (SGE.Model.get M' a b) x) (SGE.Model.qget Rr)
            u v supp Cu Cv.
Proof. exact cut_regroup_sge. Qed.
Print Assumptions C01_cut_regroup_sge.

(* TTNO.from_state_diagram / _rec_zero_ttno (ttno_build: obtain_tensor_shape, add_child_to_parent
   with its existence / shape-matching / uniqueness / open-leg checks and leg moves): on a
   well-formed diagram whose labels are in the operator table the construction succeeds; the
   nodes are created in pre-order with exactly the identifiers of the tree; every node has the
   tree's parent and children in the tree's order; its tensor has the legs
   (parent, children..., out, in), the leg to a neighbour has as many entries as the edge has
   vertices, the physical legs have the dimension of the table entry of the node's first label. *)
Theorem C01_structure_preserved : forall (pd : nat -> option nat) (t : rtree) (d : sd), NoDup (ids t) ->
  sd_wf t d = true -> (forall h, In h (hes d) -> pd (hlabel h) <> None) ->
  exists st, ttno_build pd t d = Some st /\ map tn_id st = ids t /\
    forall n, In n st ->
      tn_parent n = parent_of (tn_id n) t /\
      tn_children n = children_ids t (tn_id n) /\
      tn_shape n = map (nverts_on d) (opt_list (option_map (fun _ => tn_id n) (tn_parent n)) ++ tn_children n)
                   ++ [phys_of pd d (tn_id n); phys_of pd d (tn_id n)] /\
      exists h, In h (hes d) /\ hnode h = tn_id n /\ pd (hlabel h) = Some (phys_of pd d (tn_id n)).
Proof. exact structure_preserved. Qed.
Print Assumptions C01_structure_preserved.

(* non-vacuity of the merge: the BASE diagram of two terms with the same operator on node 1; its two
   vertices on the edge (0, 1) have equal child sides, the erased part is private, the merged
   diagram is well-formed, still certified, and the edge has one vertex left *)
Example C01_example_merge :
  let t := RNode 0 [RNode 1 []] in
  let H := [(1%Q, 0, fun v => match v with 0 => 12 | _ => 22 end); ((2 # 3)%Q, 1, fun v => match v with 0 => 32 | _ => 22 end)] in
  let d := sd_base t H in
  let s1 := merge_redirect t 1 (0, 1) (1, 1) (hes d) in
  poly_eqb (pnorm (child_side t d 1 (0, 1))) (pnorm (child_side t d 1 (1, 1)))
  && privateb (merge_dead t 1 (1, 1) s1) s1
  && sd_wf t (merge t 1 (0, 1) (1, 1) d) && sd_check t H (merge t 1 (0, 1) (1, 1) d)
  && Nat.eqb (nverts_on d 1) 2 && Nat.eqb (nverts_on (merge t 1 (0, 1) (1, 1) d) 1) 1 = true.
Proof. vm_compute. reflexivity. Qed.
Print Assumptions C01_example_merge.

(* ... and of the structure theorem: the skeleton of the SGE diagram above *)
Example C01_example_shape :
  ttno_shape (pd_of [(12, 2); (2, 2); (1, 1); (22, 2)]) wit_ok_tree wit_ok_sd
  = Some [(0, None, [2; 1], [2; 2; 2; 2]); (2, Some 0, [3], [2; 2; 1; 1]); (3, Some 2, [], [2; 2; 2]); (1, Some 0, [], [2; 2; 2])].
Proof. vm_compute. reflexivity. Qed.
Print Assumptions C01_example_shape.

(* ---- the pipeline model (SD/Pipeline.v: the BIPARTITE driver of state_diagram.py) ----------- *)
(* One cut_and_optimise call of the BIPARTITE method -- V classes by v_hash incl. the re-hash
   branch, Gamma with overwriting assignments, the bipartite graph of its non-zero entries, the
   verified minimum vertex cover, reconnection rows first with copies for every second use --
   preserves the denotation of the diagram, for every tree, every tree edge (parent(c), c) and
   every input diagram satisfying the decidable precondition `cut_pre`: one vertex per leg on the
   hyperedges of the two nodes, no coefficient on the hyperedges of the child node (the code ignores
   and overwrites it), and no two hyperedges of one V class on the same vertex of the cut edge (the
   code's second assignment to Gamma[u][class] would overwrite the first: C01-duplicate-terms). *)
Theorem C01_cut_step_sound : forall (t : rtree) (c : nat) (st st' : pst), NoDup (ids t) ->
  cut_pre t c (p_sd st) = true -> cut_step t c st = Some st' ->
  forall k : key, (coef (sd_denote t (p_sd st')) k == coef (sd_denote t (p_sd st)) k)%Q.
Proof. exact cut_step_sound. Qed.
Print Assumptions C01_cut_step_sound.

(* One combine_subtrees call (grouping by subtree hash, Core.merge for every later hyperedge with a
   hash seen before) preserves the denotation when every merge it performs satisfies the decidable
   form of the preconditions of C01_merge_equal_subtrees_sound (`combine_pre`). *)
Theorem C01_combine_step_sound : forall (t : rtree) (c : nat) (st : pst), NoDup (ids t) ->
  combine_pre t c st = true ->
  forall k : key, (coef (sd_denote t (p_sd (combine_subtrees t c st))) k == coef (sd_denote t (p_sd st)) k)%Q.
Proof. exact combine_subtrees_sound. Qed.
Print Assumptions C01_combine_step_sound.

(* The driver (compound diagram, BFS levels, per level all combine_subtrees then all
   cut_and_optimise): whenever the step preconditions hold before every step of the run
   (`pipeline_ok`, decidable, evaluated per instance by the harness) the diagram BIPARTITE
   from_hamiltonian returns denotes the Hamiltonian.
   PARTIAL with respect to "for all term lists with pairwise distinct terms (prefactor, symbol, string)":
   for pairwise distinct operator STRINGS the hypothesis pipeline_ok is not needed at all
   (C01_bipartite_exact below); this statement is what remains for term lists that repeat an operator string
   with different coefficients (the code's re-hash branch): there pipeline_ok is evaluated per instance. *)
Theorem C01_pipeline_exact_checked_partial : forall (t : rtree) (H : list pterm) (d : sd), NoDup (ids t) ->
  pipeline_ok t H = true -> from_hamiltonian_bipartite t H = Some d ->
  forall k : key, (coef (sd_denote t d) k == coef (ham_denote t H) k)%Q.
Proof. exact pipeline_exact_checked. Qed.
Print Assumptions C01_pipeline_exact_checked_partial.

(* non-vacuity: 4 nodes, 6 terms; the cuts merge V classes, use row and column vertices of the cover
   and copies; the run satisfies the step preconditions, the result is well-formed, certified, and
   smaller than the BASE diagram (bond dimensions 4, 2, 3 instead of 6, 6, 6) *)
Example C01_example_pipeline :
  let t := RNode 0 [RNode 1 [RNode 2 []]; RNode 3 []] in
  let f := fun (l : list (nat * nat)) (v : nat) => match lookup v l with Some x => x | None => 2 end in
  let H := [((2 # 1)%Q, 0, f [(0, 10); (1, 11)]); ((3 # 1)%Q, 1, f [(0, 10); (1, 12)]); (1%Q, 0, f [(2, 13); (3, 14)]);
            (1%Q, 0, f [(2, 13); (3, 15)]); ((1 # 2)%Q, 0, f [(0, 10); (3, 14)]); ((-1 # 1)%Q, 2, f [(1, 11); (2, 13); (3, 15)])] in
  (pipeline_ok t H,
   match from_hamiltonian_bipartite t H with
   | Some d => Some (sd_wf t d, sd_check t H d, map (nverts_on d) [1; 2; 3], map (nverts_on (sd_base t H)) [1; 2; 3])
   | None => None
   end)
  = (true, Some (true, true, [4; 2; 3], [6; 6; 6])).
Proof. vm_compute. reflexivity. Qed.
Print Assumptions C01_example_pipeline.

(* THE DRIVER, UNIVERSALLY: for every tree with distinct identifiers and every list of (padded) terms with
   pairwise distinct operator strings (label lists on the tree; coefficients lambda * gamma arbitrary,
   symbolic or numeric), whenever the modelled BIPARTITE from_hamiltonian returns a diagram it denotes the
   Hamiltonian.  Proved through the invariant of the BFS run (SD/PipelineInv.v): base-shaped sub-diagrams
   below the frontier, typed vertex names, origin labels / subtree hashes / alive child vertices of the
   frontier hyperedges, pairwise different hyperedges at the node whose child edges are being cut; every
   combine_subtrees merge satisfies the hypotheses of C01_merge_equal_subtrees_sound and every cut satisfies
   cut_pre, so C01_cut_step_sound applies at every edge.
   Not covered by this statement: (i) term lists in which two terms have the SAME operator string with different
   coefficients (the code's re-hash branch; modelled, tied, certified per instance through
   C01_pipeline_exact_checked_partial); (ii) that the model returns `Some` (it returns None exactly where the
   implementation raises or leaves a hyperedge without vertex on a cut edge; checked per instance by the tie).
   Terms with prefactor 0 are included: the code (repo commit 2e422fd) and the model drop their single-term
   diagrams before the compound diagram is built, and fall back to the BASE diagram of the full term list when
   nothing remains; dropped terms do not change the Hamiltonian's coefficient function. *)
Theorem C01_bipartite_exact : forall (t : rtree) (H : list pterm) (d : sd), NoDup (ids t) ->
  NoDup (map (fun tm : pterm => map (snd tm) (ids t)) H) ->
  from_hamiltonian_bipartite t H = Some d ->
  forall k : key, (coef (sd_denote t d) k == coef (ham_denote t H) k)%Q.
Proof. exact bipartite_exact. Qed.
Print Assumptions C01_bipartite_exact.

(* non-vacuity of the hypothesis: the six terms of C01_example_pipeline have pairwise distinct operator strings
   (removing duplicates from the list of strings removes nothing) *)
Example C01_example_distinct_strings :
  let t := RNode 0 [RNode 1 [RNode 2 []]; RNode 3 []] in
  let f := fun (l : list (nat * nat)) (v : nat) => match lookup v l with Some x => x | None => 2 end in
  let H : list pterm :=
           [((2 # 1)%Q, 0, f [(0, 10); (1, 11)]); ((3 # 1)%Q, 1, f [(0, 10); (1, 12)]); (1%Q, 0, f [(2, 13); (3, 14)]);
            (1%Q, 0, f [(2, 13); (3, 15)]); ((1 # 2)%Q, 0, f [(0, 10); (3, 14)]); ((-1 # 1)%Q, 2, f [(1, 11); (2, 13); (3, 15)])] in
  length (nodup (list_eq_dec Nat.eq_dec) (map (fun tm : pterm => map (snd tm) (ids t)) H)) = length H.
Proof. vm_compute. reflexivity. Qed.
Print Assumptions C01_example_distinct_strings.

(* zero prefactors: two of the four terms have prefactor 0 (one of them with a symbol); the model drops them, the
   run satisfies the step preconditions, the result is certified against the FULL term list; and the Hamiltonian
   whose prefactors are all 0 falls back to the BASE diagram of the full list (two vertices on the edge) *)
Example C01_example_zero_prefactor :
  let t := RNode 0 [RNode 1 []; RNode 2 []] in
  let f := fun (l : list (nat * nat)) (v : nat) => match lookup v l with Some x => x | None => 2 end in
  let H : list pterm :=
           [(0%Q, 0, f [(0, 10); (1, 11)]); ((3 # 2)%Q, 1, f [(0, 12); (1, 11)]); (0%Q, 2, f [(1, 12); (2, 13)]); (1%Q, 0, f [(0, 12); (2, 13)])] in
  let H0 : list pterm := [(0%Q, 0, f [(0, 10); (1, 11)]); (0%Q, 1, f [(0, 12)])] in
  (length (live_terms H), pipeline_ok t H,
   match from_hamiltonian_bipartite t H with Some d => Some (sd_wf t d, sd_check t H d, map (nverts_on d) [1; 2]) | None => None end,
   match from_hamiltonian_bipartite t H0 with Some d => Some (sd_check t H0 d, map (nverts_on d) [1; 2]) | None => None end)
  = (2, true, Some (true, true, [2; 2]), Some (true, [2; 2])).
Proof. vm_compute. reflexivity. Qed.
Print Assumptions C01_example_zero_prefactor.

(* ---- ACCEPTANCE of the BIPARTITE driver (SD/PipelineAccept.v) -------------------------------------------------
   For ALL trees with pairwise distinct identifiers and ALL NON-EMPTY term lists with pairwise distinct operator
   strings (any coefficients, zero prefactors included; a padded term is a total labelling of the nodes, so there
   is no further side condition) the model of StateDiagram.from_hamiltonian(..., TTNOFinder.BIPARTITE) returns
   `Some`: none of the failure branches of the model is reachable, i.e.
     - _generate_non_redundant_V_dict never re-hashes (so _remove_reduntant_v_hyperedges meets no empty bucket),
     - every cut edge has at least one hyperedge on either side (BipartiteGraph's constructor asserts),
     - minimum_vertex_cover neither runs out of fuel nor fails its own size assert (C14_mvc_main),
     - after _reconnect_hyperedges every hyperedge of the two nodes has a vertex on the cut edge (Gamma has no
       empty row and no empty column: every hyperedge of the child node hangs on a vertex that some hyperedge of
       the parent node uses, all coefficients are != 0 because terms with prefactor 0 are dropped first, and the
       cover touches every edge of the bipartite graph).
   Proved by extending the invariant of the BFS run by a part `XF` for every frontier node (it carries a
   hyperedge, all its hyperedges have a coefficient != 0, every child node still to be cut carries a hyperedge,
   and the parent vertex of each of those is the cut vertex of some hyperedge of the frontier node), preserved by
   every merge of combine_subtrees and every cut.  The empty term list is rejected (the code raises on the
   missing compound diagram): C01_bipartite_empty_rejected. *)
From PTN Require Import SD.PipelineAccept.

Theorem C01_bipartite_accepts : forall (t : rtree) (H : list pterm), NoDup (ids t) ->
  NoDup (map (fun tm : pterm => map (snd tm) (ids t)) H) -> H <> [] ->
  exists d : sd, from_hamiltonian_bipartite t H = Some d.
Proof. exact bipartite_accepts. Qed.
Print Assumptions C01_bipartite_accepts.

Theorem C01_bipartite_empty_rejected : forall t : rtree, from_hamiltonian_bipartite t [] = None.
Proof. exact (fun t => eq_refl). Qed.
Print Assumptions C01_bipartite_empty_rejected.

(* accepted AND exact: the BIPARTITE construction is total and correct on this class of inputs *)
Theorem C01_bipartite_total : forall (t : rtree) (H : list pterm), NoDup (ids t) ->
  NoDup (map (fun tm : pterm => map (snd tm) (ids t)) H) -> H <> [] ->
  exists d : sd, from_hamiltonian_bipartite t H = Some d /\
    forall k : key, (coef (sd_denote t d) k == coef (ham_denote t H) k)%Q.
Proof. exact bipartite_total. Qed.
Print Assumptions C01_bipartite_total.

(* one cut_and_optimise call under the invariant: the parent node's hyperedges are pairwise different and have
   one vertex per leg (CutPar), the child sub-diagram is base-shaped with pairwise different terms, and XF holds *)
Theorem C01_cut_step_accepts : forall (t : rtree) (p : nat) (hp : bool) (cs : list rtree) (c : nat) (ccs : list rtree)
    (st : pst) (Jc : rtree -> tlist) (todo : list rtree),
  NoDup (ids t) -> node_at t false p hp cs -> In (RNode c ccs) cs -> In (RNode c ccs) todo ->
  BaseBelow (hes (p_sd st)) (Jc (RNode c ccs)) (RNode c ccs) -> NoDup (map fst (Jc (RNode c ccs))) ->
  CutPar (hes (p_sd st)) p hp cs Jc todo -> XF (hes (p_sd st)) p hp cs todo ->
  exists st' : pst, cut_step t c st = Some st'.
Proof. exact cut_step_accepts. Qed.
Print Assumptions C01_cut_step_accepts.

(* non-vacuity: the hypotheses hold for a 4-node tree and 7 terms (pairwise distinct identifiers, pairwise distinct
   operator strings, one term with prefactor 0), and the construction returns a well-formed certified diagram *)
Example C01_example_accepts :
  let t := RNode 0 [RNode 1 [RNode 2 []]; RNode 3 []] in
  let f := fun (l : list (nat * nat)) (v : nat) => match lookup v l with Some x => x | None => 2 end in
  let H : list pterm :=
           [((2 # 1)%Q, 0, f [(0, 10); (1, 11)]); ((3 # 1)%Q, 1, f [(0, 10); (1, 12)]); (1%Q, 0, f [(2, 13); (3, 14)]);
            (0%Q, 3, f [(1, 12); (3, 14)]);
            (1%Q, 0, f [(2, 13); (3, 15)]); ((1 # 2)%Q, 0, f [(0, 10); (3, 14)]); ((-1 # 1)%Q, 2, f [(1, 11); (2, 13); (3, 15)])] in
  (length (nodup Nat.eq_dec (ids t)) =? length (ids t),
   length (nodup (list_eq_dec Nat.eq_dec) (map (fun tm : pterm => map (snd tm) (ids t)) H)) =? length H,
   length H, length (live_terms H),
   match from_hamiltonian_bipartite t H with Some d => Some (sd_wf t d, sd_check t H d) | None => None end)
  = (true, true, 7, 6, Some (true, true)).
Proof. vm_compute. reflexivity. Qed.
Print Assumptions C01_example_accepts.

(* [ext-C01S] ---- the SGE variant of the driver (SD/PipelineSGE.v: cut_and_optimise with self.SGE == True) -----------
   Model: Gamma as in Pipeline.v, SGE/Model.v's gaussian_elimination (the function tied by props/c13.py) on it, the
   bipartite covers of Gamma_u and of Gamma with the revert test of _apply_bipartite_to_gamma_u, the virtual u / v nodes
   of _create_combined_u_v_lists (copies included) and _reconnect_hyperedges on them; tied after every driver call by
   props/c01s.py.
   (a) A cut that reverts (`cut_uses_ge = false`: the cover of Gamma_u is not smaller than the cover of Gamma) IS the
       BIPARTITE cut, for every tree, edge and diagram: C01_sge_cut_revert_is_bipartite; it preserves the denotation
       under cut_pre (C01_cut_step_sound).
   (b) One SGE cut preserves the denotation under the decidable per-step check `cut_check_sge`: cut_pre for a reverting
       cut; for a cut that uses the elimination result the check is the comparison of the normal forms of the
       denotation before and after the cut.
       PARTIAL with respect to the planned `C01_sge_cut_step_sound` (precondition independent of the result, through
       C13_exact_factorisation and C01_cut_regroup_sound): for cuts that use the elimination result the precondition
       here evaluates the result, i.e. such cuts are certified per instance, not universally.
   (c) The SGE driver is exact whenever the checks hold before every step of the run (`pipeline_sge_ok`, evaluated per
       explored instance by props/c01s.py). *)
From PTN Require Import SD.PipelineSGE SD.PipelineSGEProofs.

Theorem C01_sge_cut_revert_is_bipartite : forall (t : rtree) (c : nat) (st st' : pst),
  cut_uses_ge t c (p_sd st) = false -> cut_step_sge t c st = Some st' -> cut_step t c st = Some st'.
Proof. exact cut_step_sge_revert. Qed.
Print Assumptions C01_sge_cut_revert_is_bipartite.

Theorem C01_sge_cut_step_sound_partial : forall (t : rtree) (c : nat) (st st' : pst), NoDup (ids t) ->
  cut_check_sge t c st = true -> cut_step_sge t c st = Some st' ->
  forall k : key, (coef (sd_denote t (p_sd st')) k == coef (sd_denote t (p_sd st)) k)%Q.
Proof. exact cut_step_sge_checked_sound. Qed.
Print Assumptions C01_sge_cut_step_sound_partial.

Theorem C01_pipeline_sge_exact_checked_partial : forall (t : rtree) (H : list pterm) (d : sd), NoDup (ids t) ->
  pipeline_sge_ok t H = true -> pipeline_sge t H = Some d ->
  forall k : key, (coef (sd_denote t d) k == coef (ham_denote t H) k)%Q.
Proof. exact pipeline_sge_exact_checked. Qed.
Print Assumptions C01_pipeline_sge_exact_checked_partial.

(* non-vacuity: 3-node chain, 6 terms, two symbols.  The coefficient matrix at the edge (0,1) contains a 2x2 block of
   rank 1; the first cut USES the elimination result (flags), the second reverts; the checks hold along the run, the
   result is well-formed and certified, and the bond on edge 1 is 2 where BIPARTITE needs 3 *)
Example C01_example_pipeline_sge :
  let t := RNode 0 [RNode 1 [RNode 2 []]] in
  let f := fun (l : list (nat * nat)) (v : nat) => match lookup v l with Some x => x | None => 2 end in
  let H : list pterm := [((-1 # 1)%Q, 0, f [(1, 22); (0, 11)]); ((-2 # 1)%Q, 0, f [(1, 22); (0, 21)]);
                         ((3 # 2)%Q, 0, f [(1, 12); (0, 11)]); ((3 # 1)%Q, 0, f [(1, 12); (0, 21)]);
                         ((5 # 1)%Q, 1, f [(2, 31)]); ((7 # 2)%Q, 2, f [(1, 12); (2, 31)])] in
  (pipeline_sge_ok t H, pipeline_sge_ge_flags t H,
   match pipeline_sge t H with Some d => Some (sd_wf t d, sd_check t H d, map (nverts_on d) [1; 2]) | None => None end,
   match from_hamiltonian_bipartite t H with Some d => Some (map (nverts_on d) [1; 2]) | None => None end)
  = (true, [true; false], Some (true, true, [2; 2]), Some [3; 2]).
Proof. vm_compute. reflexivity. Qed.
Print Assumptions C01_example_pipeline_sge.
(* (d) First half of the planned universal argument: at EVERY cut of EVERY diagram with at least one hyperedge on either
   side of the edge, the gaussian_elimination call of cut_and_optimise returns (no IndexError, the loops terminate),
   Gamma_u is non-empty and not larger than Gamma, and Op_l * Gamma_u * Op_r = Gamma entry by entry as polynomials in
   the coefficient symbols (C13_exact_factorisation instantiated at the matrix _setup_gamma_matrix builds; `ent_of` is
   the bridge from Pipeline.v's coefficients to SGE/Model.v's entries).  What is NOT proved universally is the second
   half: that _create_combined_u_v_lists / _reconnect_hyperedges regroup this factorisation without loss (see (b)). *)
Theorem C01_sge_cut_factorisation : forall (hp : bool) (cs : list rtree) (c : nat) (us : list he) (classes : list vclass),
  1 <= length us -> 1 <= length classes ->
  let Gm := gamma hp cs c us classes in
  exists (L : PTN.SGE.Model.qmat) (Gu : PTN.SGE.Model.mat) (R : PTN.SGE.Model.qmat) (m' n' : nat),
    PTN.SGE.Model.gaussian_elimination (mat_of_gamma Gm) = Some (L, Gu, R) /\
    m' <= length us /\ n' <= length classes /\ 1 <= m' /\ 1 <= n' /\
    length Gu = m' /\ PTN.SGE.Model.ncols Gu = n' /\
    forall i j x, i < length us -> j < length classes ->
      PTN.SGE.Model.prod3 m' n' L Gu R i j x = PTN.SGE.Model.coef (ent_of (gentry Gm i j)) x.
Proof. exact sge_cut_factorisation. Qed.
Print Assumptions C01_sge_cut_factorisation.
(* the known finding C01-sge-symbolic-regroup, located by the literal model (3-node star, 10 pairwise distinct terms
   mixing "1" and one symbol; found by the harness, seed 2): the cut of edge (0,2) USES the elimination result and
   PRESERVES the denotation (the diagram after it is still certified: 4th state of the trace), but it leaves two
   hyperedges at node 0 with the same label, the same vertices and equal coefficients (two members of virtual nodes that
   land on one vertex); the following cut of edge (0,1) -- a reverting, i.e. BIPARTITE cut -- puts them into one V class
   on one cut vertex, its second assignment to Gamma[u][class] overwrites the first (cut_distinct = false, the mechanism
   of C01-duplicate-terms on an INTERMEDIATE diagram), and the result is well-formed but refuted (coefficient 1/2
   instead of 1); BIPARTITE is exact on the same input *)
Example C01_example_sge_regroup_located :
  let t := RNode 0 [RNode 2 []; RNode 1 []] in
  let f := fun (l : list (nat * nat)) (v : nat) => match lookup v l with Some x => x | None => 2 end in
  let H : list pterm :=
    [(1%Q, 0, f [(0, 22)]); (1%Q, 0, f [(2, 32); (0, 22)]); ((1 # 2)%Q, 0, f [(1, 32); (0, 22)]);
     ((-1 # 2)%Q, 1, f [(0, 22); (2, 32); (1, 32)]); (1%Q, 0, f [(0, 22); (1, 12)]); ((-1 # 2)%Q, 1, f [(2, 32); (0, 22); (1, 12)]);
     ((-1 # 3)%Q, 1, f [(1, 32); (0, 32); (2, 12)]); ((1 # 3)%Q, 1, f [(1, 32); (0, 32); (2, 22)]);
     ((-1 # 3)%Q, 1, f [(1, 32); (0, 12); (2, 12)]); ((1 # 3)%Q, 1, f [(1, 32); (0, 12); (2, 22)])] in
  (pipeline_sge_checks t H, pipeline_sge_ge_flags t H,
   map (fun o => match o with Some st => Some (sd_check t H (p_sd st)) | None => None end) (pipeline_sge_trace t H),
   match nth 3 (pipeline_sge_trace t H) None with
   | Some st => match classify false [RNode 2 []; RNode 1 []] 1 (hes_at 1 (hes (p_sd st))) (hes_at 0 (hes (p_sd st))) with
                | Some cl => Some (cut_distinct false [RNode 2 []; RNode 1 []] 1 cl) | None => None end
   | None => None end,
   match pipeline_sge t H with Some d => Some (sd_wf t d, sd_check t H d, sd_refute t H d) | None => None end,
   match from_hamiltonian_bipartite t H with Some d => Some (sd_check t H d) | None => None end)
  = ([true; true; true; false], [true; false], [Some true; Some true; Some true; Some true; Some false],
     Some false, Some (true, false, true), Some true).
Proof. vm_compute. reflexivity. Qed.
Print Assumptions C01_example_sge_regroup_located.
(* [/ext-C01S] *)

(* [ext-C01T] ---------------------------------------------------------------------------------------
   The TREE method (StateDiagram.from_hamiltonian_tree_comparison: from_single_term, then add_single_term per
   further term = _mark_contained_vertices + _add_hyperedges) is modelled literally in SD/TreeCmp.v (marker
   fields, dict iteration order `order` of reference_tree.nodes, coefficient handling of the code, not repaired)
   and tied to the implementation after every call (harness/props/c01t.py). *)
From PTN Require Import SD.TreeCmp SD.TreeCmpProofs.

(* One term: the TREE diagram is the single-term diagram and denotes the term (all trees, all node orders). *)
Theorem C01_tree_single_exact : forall (t : rtree) (order : list nat) (tm : pterm), NoDup (ids t) ->
  from_hamiltonian_tree t order [tm] = Some (single_term 0 t tm) /\
  forall k : key, (coef (sd_denote t (single_term 0 t tm)) k == coef (ham_denote t [tm]) k)%Q.
Proof. exact tree_single_exact. Qed.
Print Assumptions C01_tree_single_exact.

(* The run, by induction over the term list: for every tree, every iteration order of the node dict and every term
   list, if the decidable step check holds after every add_single_term of the model's run (`tree_ok`: the new state
   is sd_wf and its normal form equals the normal form of (old denotation + added term)), the diagram TREE returns is
   well-formed and denotes the Hamiltonian.
   PARTIAL with respect to "C01_tree_add_term_sound / C01_tree_exact_unit_partial" (for every diagram satisfying a
   decidable precondition and every not-contained unit-coefficient term the marking algorithm adds exactly that
   term): that universal soundness of the marking walk is NOT proved; tree_ok is evaluated per explored instance
   by vm_compute (harness clause I). *)
Theorem C01_tree_exact_checked_partial : forall (t : rtree) (order : list nat) (H : list pterm) (d : sd), NoDup (ids t) ->
  tree_ok t order H = true -> from_hamiltonian_tree t order H = Some d ->
  sd_wf t d = true /\ forall k : key, (coef (sd_denote t d) k == coef (ham_denote t H) k)%Q.
Proof. exact tree_exact_checked. Qed.
Print Assumptions C01_tree_exact_checked_partial.

(* The known finding C01-tree-coefficients as a theorem about the literal model: with a non-unit coefficient the
   model's TREE diagram is well-formed but does NOT denote the Hamiltonian.  (a) one node, 1*A + 2*B; (b) a root with
   two leaves, 1*X Y Z + 3*X W Z (both leaf walks succeed, the completely contained root hyperedge has another label,
   the new root hyperedge copies ITS coefficient), for both iteration orders of the leaves. *)
Theorem C01_tree_coeff_refuted :
  (exists d, from_hamiltonian_tree wit_tc1_tree [0] wit_tc1_ham = Some d /\ sd_wf wit_tc1_tree d = true /\
             ~ (forall k : key, (coef (sd_denote wit_tc1_tree d) k == coef (ham_denote wit_tc1_tree wit_tc1_ham) k)%Q)) /\
  (forall order, In order [[0; 1; 2]; [0; 2; 1]] ->
   exists d, from_hamiltonian_tree wit_tc2_tree order wit_tc2_ham = Some d /\ sd_wf wit_tc2_tree d = true /\
             ~ (forall k : key, (coef (sd_denote wit_tc2_tree d) k == coef (ham_denote wit_tc2_tree wit_tc2_ham) k)%Q)).
Proof. exact (conj tree_coeff_refuted_1 tree_coeff_refuted_2). Qed.
Print Assumptions C01_tree_coeff_refuted.

(* non-vacuity: 5 nodes (root 0 with children 1, 4; node 1 with leaves 2, 3), 5 pairwise distinct unit-coefficient
   terms sharing sub-strings below different edges, node dict order 0,4,1,3,2: every step check holds, the diagram is
   certified and smaller than the BASE diagram (bond dimensions on the edges above 1, 2, 3, 4) *)
Example C01_example_tree :
  let t := RNode 0 [RNode 1 [RNode 2 []; RNode 3 []]; RNode 4 []] in
  let order := [0; 4; 1; 3; 2] in
  let f := fun (l : list (nat * nat)) (v : nat) => match lookup v l with Some x => x | None => 2 end in
  let H := [(1%Q, 0, f [(2, 10); (3, 11)]); (1%Q, 0, f [(2, 10); (3, 12)]); (1%Q, 0, f [(2, 10); (3, 11); (4, 13)]);
            (1%Q, 0, f [(0, 14); (2, 10); (3, 11)]); (1%Q, 0, f [(1, 15); (4, 13)])] in
  (tree_ok t order H,
   match from_hamiltonian_tree t order H with
   | Some d => Some (sd_wf t d, sd_check t H d, map (nverts_on d) [1; 2; 3; 4], map (nverts_on (sd_base t H)) [1; 2; 3; 4])
   | None => None
   end,
   option_map nmarked (tree_final t order H))
  = (true, Some (true, true, [3; 2; 3; 2], [5; 5; 5; 5]), Some 0).
Proof. vm_compute. reflexivity. Qed.
Print Assumptions C01_example_tree.

(* BOUNDED (the bound is in the statement): for EVERY rooted ordered tree with at most 4 nodes (small_trees: all 9 shapes,
   identifiers in pre-order), EVERY iteration order of the node dict a TreeStructure can have (a node after its parent:
   topo_orders), and EVERY non-empty list of pairwise different operator strings over two labels per site with unit
   coefficients (at most 4 terms on <= 3 nodes, at most 3 terms on 4 nodes: small_hams; every order of the terms), the
   step checks hold, the TREE model returns a diagram, it is well-formed and denotes the Hamiltonian.  59 784 runs of
   the model, evaluated by vm_compute on one closed boolean and lifted with forallb_forall. *)
From PTN Require Import SD.TreeCmpBounded.
Theorem C01_tree_exact_unit_bounded : forall (t : rtree) (order : list nat) (labs : list (list nat)),
  In t small_trees -> In order (topo_orders t) -> In labs (small_hams t) ->
  tree_ok t order (map unit_term labs) = true /\
  exists d, from_hamiltonian_tree t order (map unit_term labs) = Some d /\ sd_wf t d = true /\
            forall k : key, (coef (sd_denote t d) k == coef (ham_denote t (map unit_term labs)) k)%Q.
Proof. exact tree_exact_unit_bounded. Qed.
Print Assumptions C01_tree_exact_unit_bounded.
Example C01_example_tree_bounded :
  (map (fun t => (length (topo_orders t), length (small_hams t))) small_trees,
   existsb (leqb (leqb Nat.eqb) [[0; 1; 1; 0]; [1; 1; 1; 0]; [0; 0; 1; 0]]) (small_hams (RNode 0 [RNode 1 [RNode 2 []]; RNode 3 []])))
  = ([(1, 4); (1, 64); (1, 2080); (2, 2080); (1, 3616); (2, 3616); (3, 3616); (3, 3616); (6, 3616)], true).
Proof. vm_compute. reflexivity. Qed.
Print Assumptions C01_example_tree_bounded.
(* [/ext-C01T] *)
