(* Property C09 — BUG / fixed-rank BUG.  Statements only; each is closed by `exact`.
   Model: Sched/BUG.v (root_update / update_node / update_leaf_node / update_non_leaf_node of
   time_evo_util/common_bug.py as an event trace with provenance stamps; shape arithmetic of one step).
   `fixed = true` is FixedBUG, `fixed = false` the rank-adaptive BUG.  Trees are Tree/RTree.v rtrees,
   well-formed = NoDup (ids t). *)
From Coq Require Import List Arith Bool Permutation.
From PTN Require Import Tree.RTree Tree.RTreeProofs Sched.BUG Sched.BUGProofs Trunc.Select Trunc.SelectProofs.
Import ListNotations.
Local Close Scope Q_scope.

(* ---- bug_order ---------------------------------------------------------------------------- *)
(* the nodes are evolved in post-order, on every tree (no well-formedness needed) *)
Theorem C09_bug_order_postorder : forall (fixed : bool) (t : rtree),
  evolved_nodes (bug_trace fixed t) = postorder t.
Proof. exact bug_order_postorder. Qed.
Print Assumptions C09_bug_order_postorder.

(* every node is evolved exactly once, a child before its parent, the root last *)
Theorem C09_bug_order : forall (fixed : bool) (t : rtree), NoDup (ids t) ->
  let ev := evolved_nodes (bug_trace fixed t) in
  NoDup ev /\ (forall x, In x ev <-> In x (ids t)) /\
  (forall p c, In (p, c) (edges t) -> before c p ev) /\
  (exists l, ev = l ++ [rid t]).
Proof. exact bug_order. Qed.
Print Assumptions C09_bug_order.

(* ---- bug_env_provenance --------------------------------------------------------------------- *)
(* the exact environments: the model's dictionary operations produce the closed form spec_root *)
Theorem C09_bug_env_exact : forall (fixed : bool) (t : rtree), NoDup (ids t) ->
  evolves (bug_trace fixed t) = spec_root t.
Proof. exact bug_env_exact. Qed.
Print Assumptions C09_bug_env_exact.

(* readable form: when node n is evolved, the tensor is the old centre tensor re-centred at n (with the
   children's basis changes contracted in), the root sees only blocks of new bases, and a non-root node sees
   one parent-side block that ends in its parent q with q's tensor pointing DOWN to n and consists of old
   tensors only, followed by one all-new block per child *)
Theorem C09_bug_env_provenance : forall (fixed : bool) (t : rtree), NoDup (ids t) ->
  forall n v env, In (Evolve n v env) (bug_trace fixed t) ->
  exists s, is_subtree s t /\ rid s = n /\
    v = (if is_nil (rchildren s) && negb (Nat.eqb n (rid t)) then OldCentre else WithM OldCentre (map rid (rchildren s))) /\
    ((n = rid t /\ env = map new_up (rchildren s)) \/
     (exists q psubs,
        In (q, n) (edges t) /\
        env = St q (OldDown n) psubs :: map new_up (rchildren s) /\ forallb stamp_old psubs = true)).
Proof. exact bug_env_provenance. Qed.
Print Assumptions C09_bug_env_provenance.

(* a block of new bases contains new basis tensors only, one for every node of the child's subtree *)
Theorem C09_new_block_all_new : forall t : rtree, stamp_new (new_up t) = true /\ stamp_nodes (new_up t) = ids t.
Proof. exact new_block_all_new. Qed.
Print Assumptions C09_new_block_all_new.

(* no evolution reads an absent dictionary entry *)
Theorem C09_no_missing : forall (fixed : bool) (t : rtree), NoDup (ids t) ->
  forall n v env, In (Evolve n v env) (bug_trace fixed t) -> forallb stamp_complete env = true.
Proof. exact bug_no_missing. Qed.
Print Assumptions C09_no_missing.

(* ---- bug_temporaries_gone --------------------------------------------------------------------- *)
(* the state collecting the new bases ends with the original tree: original identifiers only, the
   original parent/child relation; at every node exactly the children's temporaries were absorbed *)
Theorem C09_bug_temporaries_gone : forall (fixed : bool) (t : rtree), NoDup (ids t) ->
  bug_struct fixed t = embed t /\
  nidents (bug_struct fixed t) = map Orig (ids t) /\
  contracts (bug_trace fixed t) = spec_contracts_root t.
Proof. exact bug_temporaries_gone. Qed.
Print Assumptions C09_bug_temporaries_gone.

(* ---- rank arithmetic ---------------------------------------------------------------------------- *)
(* fixed rank: every shape is kept, the step never raises *)
Theorem C09_shape_fixed_keeps : forall t : dtree, shape_root true t = Some t.
Proof. exact shape_root_fixed_keeps. Qed.
Print Assumptions C09_shape_fixed_keeps.

(* rank-adaptive: same identifiers / open dimensions / children, every bond at most doubled
   (rc: mode of the re-centring QR; the code is rc = true, i.e. `shape_root false`) *)
Theorem C09_shape_adaptive_le2 : forall (rc : bool) (t t' : dtree), shape_root_gen rc false t = Some t' ->
  did t' = did t /\ dopen t' = dopen t /\ drank t' = drank t /\
  forall2b grows_le2 (dchildren t) (dchildren t') = true.
Proof. exact shape_root_adaptive_le2. Qed.
Print Assumptions C09_shape_adaptive_le2.

(* with the bond-keeping re-centring of update_node neither variant raises a shape mismatch *)
Theorem C09_shape_defined : forall (fixed : bool) (t : dtree), exists t', shape_root fixed t = Some t'.
Proof. exact shape_root_defined. Qed.
Print Assumptions C09_shape_defined.

(* why the re-centring must keep the bond: with a REDUCED re-centring the rank-adaptive step raises (shape
   mismatch when the re-centred tensor is pulled into the new state) exactly when some non-leaf non-root node
   has a parent leg above the parent-side dimension (the repaired finding C09-redundant-parent-bond-raises) *)
Theorem C09_shape_reduced_recentring_defined : forall t : dtree,
  parent_side_ok_root t = true <-> exists t', shape_root_gen false false t = Some t'.
Proof. exact shape_root_adaptive_defined. Qed.
Print Assumptions C09_shape_reduced_recentring_defined.

(* the QR leg tuples of the new basis partition the legs; the parent leg is the R side *)
Theorem C09_qr_legs_partition : forall nc no : nat,
  Permutation (fst (new_basis_qr_legs nc no) ++ snd (new_basis_qr_legs nc no)) (seq 0 (1 + nc + no)) /\
  snd (new_basis_qr_legs nc no) = [0].
Proof. exact qr_legs_partition. Qed.
Print Assumptions C09_qr_legs_partition.

(* concatenation along the parent leg: defined iff the other legs agree; adds the parent dimensions *)
Theorem C09_concat_parent_leg : forall s1 s2 s : list nat,
  concat_along_parent_leg s1 s2 = Some s <->
  exists a b rest, s1 = a :: rest /\ s2 = b :: rest /\ s = (a + b) :: rest.
Proof. exact concat_parent_leg_iff. Qed.
Print Assumptions C09_concat_parent_leg.

(* after the truncation a bond has as many dimensions as singular values were selected: <= max_bond_dim
   (the selection rule is the model of C10) *)
Theorem C09_trunc_bond_le : forall (p : params) (s : list QArith_base.Q) (m : nat),
  s <> [] -> max_bond p = BFin m -> 1 <= m -> 1 <= length (fst (select p s)) <= m.
Proof. exact trunc_bond_le. Qed.
Print Assumptions C09_trunc_bond_le.

(* ---- Layer A (tag O): the fixed-rank Galerkin step does not increase the norm -------------------- *)
(* for any normed vectors: contracting any number of basis-change maps that are contractions into the
   centre tensor and then applying a norm-preserving map gives a norm <= the initial one;
   M = U_old^H U_new is a contraction when U_new is an isometry and U_old^H a contraction *)
Theorem C09_fixed_rank_norm_le :
  forall (V N : Type) (norm : V -> N) (le : N -> N -> Prop),
  (forall a, le a a) -> (forall a b c, le a b -> le b c -> le a c) ->
  forall (ms : list (V -> V)) (U : V -> V),
  Forall (contraction V N norm le) ms -> isometric V N norm U ->
  forall c0, le (norm (U (fold_left (fun acc m => m acc) ms c0))) (norm c0).
Proof. exact fixed_rank_norm_le. Qed.
Print Assumptions C09_fixed_rank_norm_le.

Theorem C09_overlap_contraction :
  forall (V N : Type) (norm : V -> N) (le : N -> N -> Prop),
  (forall a, le a a) -> (forall a b c, le a b -> le b c -> le a c) ->
  forall Unew UoldH : V -> V,
  isometric V N norm Unew -> contraction V N norm le UoldH ->
  contraction V N norm le (fun v => UoldH (Unew v)).
Proof. exact overlap_contraction. Qed.
Print Assumptions C09_overlap_contraction.

(* ---- non-vacuity ---------------------------------------------------------------------------------- *)
Example C09_example_trace :
  evolves (bug_trace false (RNode 0 [RNode 1 [RNode 3 []]; RNode 2 []])) =
  [ (3, OldCentre, [St 1 (OldDown 3) [St 0 (OldDown 1) [St 2 OldUp []]]]);
    (1, WithM OldCentre [3], [St 0 (OldDown 1) [St 2 OldUp []]; St 3 NewB []]);
    (2, OldCentre, [St 0 (OldDown 2) [St 1 OldUp [St 3 OldUp []]]]);
    (0, WithM OldCentre [1; 2], [St 1 NewB [St 3 NewB []]; St 2 NewB []]) ].
Proof. vm_compute. reflexivity. Qed.
Print Assumptions C09_example_trace.

Example C09_example_shapes :
  shape_root false (DNode 0 1 2 [DNode 1 2 3 [DNode 2 2 3 []]]) = Some (DNode 0 1 2 [DNode 1 4 3 [DNode 2 3 3 []]]) /\
  shape_root_gen false false (DNode 0 1 2 [DNode 1 3 3 [DNode 2 3 3 []]]) = None /\
  shape_root false (DNode 0 1 2 [DNode 1 3 3 [DNode 2 3 3 []]]) = Some (DNode 0 1 2 [DNode 1 6 3 [DNode 2 3 3 []]]) /\
  shape_root true (DNode 0 1 2 [DNode 1 3 3 [DNode 2 3 3 []]]) = Some (DNode 0 1 2 [DNode 1 3 3 [DNode 2 3 3 []]]).
Proof. vm_compute. repeat split; reflexivity. Qed.
Print Assumptions C09_example_shapes.
