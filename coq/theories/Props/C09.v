(* Property C09 — BUG / fixed-rank BUG.  Statements only; each is closed by `exact`.
   Model: Sched/BUG.v (root_update / update_node / update_leaf_node / update_non_leaf_node of
   time_evo_util/common_bug.py as an event trace with provenance stamps; shape arithmetic of one step).
   `fixed = true` is FixedBUG, `fixed = false` the rank-adaptive BUG.  Trees are Tree/RTree.v rtrees,
   well-formed = NoDup (ids t). *)
From Coq Require Import List Arith Bool Permutation.
From PTN Require Import Tree.RTree Tree.RTreeProofs Sched.BUG Sched.BUGProofs Trunc.Select Trunc.SelectProofs.
From PTN Require TTN.Store TTN.Canon TTN.Inv TTN.CanonTree Contr.Blocks Contr.Closed Evo.BUGStore Evo.BUGStoreProofs Evo.BUGStoreTotal.
Import ListNotations.
Local Close Scope Q_scope.

(* ---- bug_order ---------------------------------------------------------------------------- *)
(* the nodes are evolved in post-order, on every tree (no well-formedness needed) *)
Theorem C09_bug_order_postorder : forall (fixed : bool) (t : rtree),
  evolved_nodes (bug_trace fixed t) = postorder t.
Proof. exact bug_order_postorder. Qed.
Print Assumptions C09_bug_order_postorder.

(* every node is evolved exactly once, a child before its parent, the root last *)
Theorem C09_bug_order : forall (fixed : bool) (t : rtree), NoDup (ids t) ->
  let ev := evolved_nodes (bug_trace fixed t) in
  NoDup ev /\ (forall x, In x ev <-> In x (ids t)) /\
  (forall p c, In (p, c) (edges t) -> before c p ev) /\
  (exists l, ev = l ++ [rid t]).
Proof. exact bug_order. Qed.
Print Assumptions C09_bug_order.

(* ---- bug_env_provenance --------------------------------------------------------------------- *)
(* the exact environments: the model's dictionary operations produce the closed form spec_root *)
Theorem C09_bug_env_exact : forall (fixed : bool) (t : rtree), NoDup (ids t) ->
  evolves (bug_trace fixed t) = spec_root t.
Proof. exact bug_env_exact. Qed.
Print Assumptions C09_bug_env_exact.

(* readable form: when node n is evolved, the tensor is the old centre tensor re-centred at n (with the
   children's basis changes contracted in), the root sees only blocks of new bases, and a non-root node sees
   one parent-side block that ends in its parent q with q's tensor pointing DOWN to n and consists of old
   tensors only, followed by one all-new block per child *)
Theorem C09_bug_env_provenance : forall (fixed : bool) (t : rtree), NoDup (ids t) ->
  forall n v env, In (Evolve n v env) (bug_trace fixed t) ->
  exists s, is_subtree s t /\ rid s = n /\
    v = (if is_nil (rchildren s) && negb (Nat.eqb n (rid t)) then OldCentre else WithM OldCentre (map rid (rchildren s))) /\
    ((n = rid t /\ env = map new_up (rchildren s)) \/
     (exists q psubs,
        In (q, n) (edges t) /\
        env = St q (OldDown n) psubs :: map new_up (rchildren s) /\ forallb stamp_old psubs = true)).
Proof. exact bug_env_provenance. Qed.
Print Assumptions C09_bug_env_provenance.

(* a block of new bases contains new basis tensors only, one for every node of the child's subtree *)
Theorem C09_new_block_all_new : forall t : rtree, stamp_new (new_up t) = true /\ stamp_nodes (new_up t) = ids t.
Proof. exact new_block_all_new. Qed.
Print Assumptions C09_new_block_all_new.

(* no evolution reads an absent dictionary entry *)
Theorem C09_no_missing : forall (fixed : bool) (t : rtree), NoDup (ids t) ->
  forall n v env, In (Evolve n v env) (bug_trace fixed t) -> forallb stamp_complete env = true.
Proof. exact bug_no_missing. Qed.
Print Assumptions C09_no_missing.

(* ---- bug_temporaries_gone --------------------------------------------------------------------- *)
(* the state collecting the new bases ends with the original tree: original identifiers only, the
   original parent/child relation; at every node exactly the children's temporaries were absorbed *)
Theorem C09_bug_temporaries_gone : forall (fixed : bool) (t : rtree), NoDup (ids t) ->
  bug_struct fixed t = embed t /\
  nidents (bug_struct fixed t) = map Orig (ids t) /\
  contracts (bug_trace fixed t) = spec_contracts_root t.
Proof. exact bug_temporaries_gone. Qed.
Print Assumptions C09_bug_temporaries_gone.

(* ---- rank arithmetic ---------------------------------------------------------------------------- *)
(* fixed rank: every shape is kept, the step never raises *)
Theorem C09_shape_fixed_keeps : forall t : dtree, shape_root true t = Some t.
Proof. exact shape_root_fixed_keeps. Qed.
Print Assumptions C09_shape_fixed_keeps.

(* rank-adaptive: same identifiers / open dimensions / children, every bond at most doubled
   (rc: mode of the re-centring QR; the code is rc = true, i.e. `shape_root false`) *)
Theorem C09_shape_adaptive_le2 : forall (rc : bool) (t t' : dtree), shape_root_gen rc false t = Some t' ->
  did t' = did t /\ dopen t' = dopen t /\ drank t' = drank t /\
  forall2b grows_le2 (dchildren t) (dchildren t') = true.
Proof. exact shape_root_adaptive_le2. Qed.
Print Assumptions C09_shape_adaptive_le2.

(* with the bond-keeping re-centring of update_node neither variant raises a shape mismatch *)
Theorem C09_shape_defined : forall (fixed : bool) (t : dtree), exists t', shape_root fixed t = Some t'.
Proof. exact shape_root_defined. Qed.
Print Assumptions C09_shape_defined.

(* why the re-centring must keep the bond: with a REDUCED re-centring the rank-adaptive step raises (shape
   mismatch when the re-centred tensor is pulled into the new state) exactly when some non-leaf non-root node
   has a parent leg above the parent-side dimension (the repaired finding C09-redundant-parent-bond-raises) *)
Theorem C09_shape_reduced_recentring_defined : forall t : dtree,
  parent_side_ok_root t = true <-> exists t', shape_root_gen false false t = Some t'.
Proof. exact shape_root_adaptive_defined. Qed.
Print Assumptions C09_shape_reduced_recentring_defined.

(* the QR leg tuples of the new basis partition the legs; the parent leg is the R side *)
Theorem C09_qr_legs_partition : forall nc no : nat,
  Permutation (fst (new_basis_qr_legs nc no) ++ snd (new_basis_qr_legs nc no)) (seq 0 (1 + nc + no)) /\
  snd (new_basis_qr_legs nc no) = [0].
Proof. exact qr_legs_partition. Qed.
Print Assumptions C09_qr_legs_partition.

(* concatenation along the parent leg: defined iff the other legs agree; adds the parent dimensions *)
Theorem C09_concat_parent_leg : forall s1 s2 s : list nat,
  concat_along_parent_leg s1 s2 = Some s <->
  exists a b rest, s1 = a :: rest /\ s2 = b :: rest /\ s = (a + b) :: rest.
Proof. exact concat_parent_leg_iff. Qed.
Print Assumptions C09_concat_parent_leg.

(* after the truncation a bond has as many dimensions as singular values were selected: <= max_bond_dim
   (the selection rule is the model of C10) *)
Theorem C09_trunc_bond_le : forall (p : params) (s : list QArith_base.Q) (m : nat),
  s <> [] -> max_bond p = BFin m -> 1 <= m -> 1 <= length (fst (select p s)) <= m.
Proof. exact trunc_bond_le. Qed.
Print Assumptions C09_trunc_bond_le.

(* ---- Layer A (tag O): the fixed-rank Galerkin step does not increase the norm -------------------- *)
(* for any normed vectors: contracting any number of basis-change maps that are contractions into the
   centre tensor and then applying a norm-preserving map gives a norm <= the initial one;
   M = U_old^H U_new is a contraction when U_new is an isometry and U_old^H a contraction *)
Theorem C09_fixed_rank_norm_le :
  forall (V N : Type) (norm : V -> N) (le : N -> N -> Prop),
  (forall a, le a a) -> (forall a b c, le a b -> le b c -> le a c) ->
  forall (ms : list (V -> V)) (U : V -> V),
  Forall (contraction V N norm le) ms -> isometric V N norm U ->
  forall c0, le (norm (U (fold_left (fun acc m => m acc) ms c0))) (norm c0).
Proof. exact fixed_rank_norm_le. Qed.
Print Assumptions C09_fixed_rank_norm_le.

Theorem C09_overlap_contraction :
  forall (V N : Type) (norm : V -> N) (le : N -> N -> Prop),
  (forall a, le a a) -> (forall a b c, le a b -> le b c -> le a c) ->
  forall Unew UoldH : V -> V,
  isometric V N norm Unew -> contraction V N norm le UoldH ->
  contraction V N norm le (fun v => UoldH (Unew v)).
Proof. exact overlap_contraction. Qed.
Print Assumptions C09_overlap_contraction.

(* ---- Layer W: the structural effect of one step on stores (Evo/BUGStore.v over the frozen store model) --------- *)
(* `BUGStore.root_update fixed bcoff tmp t cs`: root_update of common_bug.py on the state `fst cs` with recorded centre
   `snd cs`; identifiers of the temporary "<n>_basis_change_tensor" nodes are n + bcoff, `tmp` is the uuid of the R
   factor in move_orthogonalization_center, `t` lists the children of every node in the order the loops over
   frozenset(children) visited them.  All statements: for EVERY well-formed store (executable invariant `wfb`), every
   tree shape, both variants, whenever the model accepts the step (that it does on the explored instances, with the
   observation of the result equal to the implementation's, is checked on every run: harness/props/c09w.py). *)

(* (a) the returned state has exactly the original identifiers, parent pointers and children sets; every temporary
   basis-change node is gone; root unchanged; the recorded centre is the root; the global tables only grew *)
Theorem C09_store_structure : forall (fixed : bool) (bcoff : nat) (tmp : Store.id) (t : rtree) (cs cs' : Canon.cstore),
  Inv.wfb (fst cs) = true ->
  (forall k, In k (Store.akeys (Store.nodes (fst cs))) -> Store.aget (BUGStore.bcid bcoff k) (Store.nodes (fst cs)) = None) ->
  Store.aget tmp (Store.nodes (fst cs)) = None ->
  BUGStore.root_update fixed bcoff tmp t cs = Some cs' ->
  CanonTree.same_tree (Store.nodes (fst cs)) (Store.nodes (fst cs')) /\
  CanonTree.tstruct (Store.nodes (fst cs')) /\
  (forall k, In k (Store.akeys (Store.nodes (fst cs))) -> Store.aget (BUGStore.bcid bcoff k) (Store.nodes (fst cs')) = None) /\
  Store.root (fst cs') = Store.root (fst cs) /\ snd cs' = Store.root (fst cs') /\ Store.root (fst cs') = Some (rid t) /\
  BUGStoreProofs.grows (fst cs) (fst cs') /\
  (forall k, In k (Store.akeys (Store.nodes (fst cs'))) -> k <> rid t -> BUGStoreProofs.Qnode (fst cs') k) /\
  (forall k kn, Store.aget k (Store.nodes (fst cs)) = Some kn -> Store.parent kn <> None ->
                exists kn', Store.aget k (Store.nodes (fst cs')) = Some kn' /\ Store.parent kn' = Store.parent kn).
Proof. exact BUGStoreProofs.root_update_effect. Qed.
Print Assumptions C09_store_structure.

(* (b) the returned state is canonical at the root: the executable isometry check of C03 accepts it, i.e. every
   non-root tensor is exactly one Q atom of a QR kernel call whose new bond wire is the node's parent leg *)
Theorem C09_store_canonical_root : forall (fixed : bool) (bcoff : nat) (tmp : Store.id) (t : rtree) (cs cs' : Canon.cstore),
  Inv.wfb (fst cs) = true ->
  (forall k, In k (Store.akeys (Store.nodes (fst cs))) -> Store.aget (BUGStore.bcid bcoff k) (Store.nodes (fst cs)) = None) ->
  Store.aget tmp (Store.nodes (fst cs)) = None ->
  BUGStore.root_update fixed bcoff tmp t cs = Some cs' -> Canon.iso_check cs' = true.
Proof. exact BUGStoreProofs.root_update_iso. Qed.
Print Assumptions C09_store_canonical_root.

(* what Qnode says, spelled out *)
Theorem C09_store_qnode_spelled : forall (g : Store.store) (k : Store.id), BUGStoreProofs.Qnode g k <->
  exists nd t a df, Store.aget k (Store.nodes g) = Some nd /\ Store.aget k (Store.tensors g) = Some t /\ Store.atoms t = [a] /\
    1 <= length (Store.perm nd) /\ In df (Store.defs g) /\ Store.kq df = a /\ Store.kkind df = 0 /\
    Store.kbond df = nth (nth 0 (Store.perm nd) 0) (Store.axes t) 0.
Proof. exact (fun g k => conj (fun x => x) (fun x => x)). Qed.
Print Assumptions C09_store_qnode_spelled.

(* one step of update_node on a subtree, all clauses (the induction behind the two theorems above) *)
Theorem C09_store_update_node : forall (fixed : bool) (bcoff : nat) (tmp : Store.id) (t : rtree),
  BUGStoreProofs.P fixed bcoff tmp t.
Proof. exact BUGStoreProofs.update_node_effect. Qed.
Print Assumptions C09_store_update_node.

(* (c) shapes, local rule: the new basis of a non-root, non-leaf node whose evolved tensor u has the legs (parent,
   children..., open...) has the legs (new bond, children..., open...), and the dimension entered for the new bond is
   Sched/BUG.v's qr_new_leg applied to the product of the other legs and to r (fixed rank, KEEP) resp. r_old + r
   (rank-adaptive: concatenation along the parent leg, REDUCED); fixed rank: the shape of u is kept.  That shape_root
   of Sched/BUG.v predicts ALL shapes of the store model's result is checked per explored instance (shapes_agree). *)
Theorem C09_store_new_basis_shape : forall (fixed : bool) (g : Store.store) (nd : Store.node) (oldt u : Store.sarr)
    (g' : Store.store) (newb : Store.sarr),
  BUGStore.new_basis fixed g nd oldt u = Some (g', newb) -> Store.parent nd <> None ->
  length (Store.axes u) = Store.nlegs nd -> Store.nvirt nd <= Store.nlegs nd -> Store.axes oldt = Store.axes u ->
  BUGStoreProofs.dims_ok g -> (forall w, In w (Store.axes u) -> w < Store.next_wire g) ->
  exists nw, Store.axes newb = nw :: tl (Store.axes u) /\
    let du := map (Store.wdim g) (Store.axes u) in
    let cols := if fixed then hd 0 du else hd 0 (map (Store.wdim g) (Store.axes oldt)) + hd 0 du in
    In (nw, qr_new_leg fixed (Store.prod_list (tl du)) cols) (Store.dims g') /\
    (fixed = true -> map (Store.wdim g') (Store.axes newb) = map (Store.wdim g') (Store.axes u)).
Proof. exact BUGStoreProofs.new_basis_shape. Qed.
Print Assumptions C09_store_new_basis_shape.

Theorem C09_store_qr_rule_agrees : forall rows cols : nat,
  Store.qr_bond_dim Store.Keep rows cols = qr_new_leg true rows cols /\
  Store.qr_bond_dim Store.Reduced rows cols = qr_new_leg false rows cols.
Proof. exact BUGStoreProofs.qr_bond_new_leg. Qed.
Print Assumptions C09_store_qr_rule_agrees.

(* (d) the basis-change matrix M_n as a diagram: compute_basis_change_tensor = contract_any_nodes is the block
   recursion of Contr/Blocks.v between the state of old bases and the conjugated copy (offset wires / atoms) of the
   state of new bases, the children's matrices being the recursive calls.  Whenever the subtree of n is a consistent
   pair of states in the two stores (checker bc_okb; true for every non-root node of every explored instance): two
   legs [old parent wire of n; conjugated new parent wire of n]; atoms = the old atoms and the conjugated new atoms of
   the subtree of n, each exactly once; every edge wire of both states strictly inside the subtree is bound (children
   legs are paired through the children's matrices); the glued pairs are exactly (old open wire of k, conjugated new
   open wire of k) for the nodes k of the subtree *)
Theorem C09_store_bc_diagram : forall (woff aoff : nat) (old new : Store.store) (n : Store.id),
  BUGStore.bc_okb woff aoff old new n = true ->
  exists p t g,
    (exists nd, Store.aget n (Store.nodes old) = Some nd /\ Store.parent nd = Some p) /\
    Closed.tree_of (S (length (Store.nodes old))) old n = Some t /\
    BUGStore.bc_diagram woff aoff old new n p = Some g /\
    let bra := BUGStore.conj_store woff aoff new in
    Blocks.gaxes g = [Closed.up_wire old n; Closed.up_wire bra n] /\
    Permutation (Blocks.gatoms g) (Closed.all_atoms old bra (Closed.rnodes t)) /\
    Permutation (Blocks.gbnd g) (Closed.edge_wires old bra (Closed.rdesc t) ++ Closed.inner_bnd old bra (Closed.rnodes t)) /\
    Permutation (Blocks.gglue g) (Closed.open_pairs old bra (Closed.rnodes t)).
Proof. exact BUGStoreProofs.bc_diagram_closed. Qed.
Print Assumptions C09_store_bc_diagram.

Example C09_example_store :
  (let s0 := fst (Store.run Store.empty_store
                    [Store.AddRoot 0 [2; 2; 3]; Store.AddChild 1 [2; 2; 2] 0 0 0; Store.AddChild 2 [2; 3] 0 0 1;
                     Store.AddChild 3 [2; 2] 0 1 1]) in
   (Inv.wfb s0,
    match BUGStore.root_update false 30 70 (RNode 0 [RNode 2 []; RNode 1 [RNode 3 []]]) (s0, Some 0) with
    | Some cs' => (Canon.iso_check cs', Inv.wfb (fst cs'), map fst (Store.nodes (fst cs')),
                   BUGStore.shapes_agree false (RNode 0 [RNode 2 []; RNode 1 [RNode 3 []]]) s0 (fst cs'),
                   BUGStore.bc_all_okb 400 200 s0 (fst cs'))
    | None => (false, false, [], false, false)
    end)) = (true, (true, true, [0; 1; 2; 3], true, true)).
Proof. vm_compute. reflexivity. Qed.
Print Assumptions C09_example_store.

(* ---- Layer W, acceptance: the model never rejects a well-formed input ------------------------------------------------ *)
(* (e) for every tree t with unique identifiers, every store with wfb = true whose parent / children structure is t
   (tree_of: every node of t is in the node dictionary and t lists its recorded children, in any order), root = recorded
   centre = the root of t, fresh temporaries, and exactly one open leg on every leaf below the root (update_leaf_node uses
   the QR legs (1,), (0,), `.T` and tensordot(..., ([1],[1])); any number of open legs on the other nodes), the step is
   accepted - both variants, no rank condition (the re-centring of the copied state is KEEP, as in the repaired code) *)
Theorem C09_store_step_accepts : forall (fixed : bool) (bcoff : nat) (tmp : Store.id) (t : rtree) (cs : Canon.cstore),
  Inv.wfb (fst cs) = true ->
  (forall k, In k (Store.akeys (Store.nodes (fst cs))) -> Store.aget (BUGStore.bcid bcoff k) (Store.nodes (fst cs)) = None) ->
  Store.aget tmp (Store.nodes (fst cs)) = None ->
  Store.root (fst cs) = Some (rid t) -> snd cs = Some (rid t) ->
  BUGStoreProofs.tree_of (Store.nodes (fst cs)) t -> NoDup (ids t) ->
  (forall k nd, Store.aget k (Store.nodes (fst cs)) = Some nd -> Store.parent nd <> None -> Store.children nd = [] -> Store.nopen nd = 1) ->
  exists cs', BUGStore.root_update fixed bcoff tmp t cs = Some cs'.
Proof. exact BUGStoreTotal.root_update_accepts. Qed.
Print Assumptions C09_store_step_accepts.

(* what tree_of says, spelled out *)
Theorem C09_store_tree_of_spelled : forall (T0 : list (Store.id * Store.node)) (n : nat) (kids : list rtree),
  BUGStoreProofs.tree_of T0 (RNode n kids) <->
  exists nd, Store.aget n T0 = Some nd /\ Permutation (map rid kids) (Store.children nd) /\ Forall (BUGStoreProofs.tree_of T0) kids.
Proof. exact BUGStoreTotal.tree_of_spelled. Qed.
Print Assumptions C09_store_tree_of_spelled.

(* (f) unconditional form of (a) and (b): under the hypotheses of (e) the step completes, keeps identifiers, parent pointers
   and children sets, every temporary is gone, root unchanged, recorded centre = root, canonical at the root (iso_check),
   the global tables only grew *)
Theorem C09_store_step_total : forall (fixed : bool) (bcoff : nat) (tmp : Store.id) (t : rtree) (cs : Canon.cstore),
  Inv.wfb (fst cs) = true ->
  (forall k, In k (Store.akeys (Store.nodes (fst cs))) -> Store.aget (BUGStore.bcid bcoff k) (Store.nodes (fst cs)) = None) ->
  Store.aget tmp (Store.nodes (fst cs)) = None ->
  Store.root (fst cs) = Some (rid t) -> snd cs = Some (rid t) ->
  BUGStoreProofs.tree_of (Store.nodes (fst cs)) t -> NoDup (ids t) ->
  (forall k nd, Store.aget k (Store.nodes (fst cs)) = Some nd -> Store.parent nd <> None -> Store.children nd = [] -> Store.nopen nd = 1) ->
  exists cs', BUGStore.root_update fixed bcoff tmp t cs = Some cs' /\
    CanonTree.same_tree (Store.nodes (fst cs)) (Store.nodes (fst cs')) /\ CanonTree.tstruct (Store.nodes (fst cs')) /\
    (forall k, In k (Store.akeys (Store.nodes (fst cs))) -> Store.aget (BUGStore.bcid bcoff k) (Store.nodes (fst cs')) = None) /\
    Store.aget tmp (Store.nodes (fst cs')) = None /\
    Store.root (fst cs') = Store.root (fst cs) /\ snd cs' = Some (rid t) /\
    Canon.iso_check cs' = true /\ BUGStoreProofs.grows (fst cs) (fst cs').
Proof. exact BUGStoreTotal.root_update_total. Qed.
Print Assumptions C09_store_step_total.

(* the induction behind (e): update_node on any subtree, under the invariant `ctx` (the caller's state V0 and the state pv of
   the enclosing call are well-formed over the current tables, have the same tree and the same leg dimensions) is accepted and
   leaves a basis-change node whose two legs are [the wire of the node's parent leg in pv; a registered wire] *)
Theorem C09_store_update_node_accepts : forall (fixed : bool) (bcoff : nat) (tmp : Store.id) (t : rtree),
  BUGStoreTotal.A fixed bcoff tmp t.
Proof. exact BUGStoreTotal.update_node_some. Qed.
Print Assumptions C09_store_update_node_accepts.

(* an executable checker of the hypotheses of (e) / (f), and (f) through it *)
Theorem C09_store_step_checker : forall (bcoff : nat) (tmp : Store.id) (t : rtree) (cs : Canon.cstore),
  BUGStoreTotal.bug_hypb bcoff tmp t cs = true ->
  Inv.wfb (fst cs) = true /\
  (forall k, In k (Store.akeys (Store.nodes (fst cs))) -> Store.aget (BUGStore.bcid bcoff k) (Store.nodes (fst cs)) = None) /\
  Store.aget tmp (Store.nodes (fst cs)) = None /\
  Store.root (fst cs) = Some (rid t) /\ snd cs = Some (rid t) /\
  BUGStoreProofs.tree_of (Store.nodes (fst cs)) t /\ NoDup (ids t) /\
  (forall k nd, Store.aget k (Store.nodes (fst cs)) = Some nd -> Store.parent nd <> None -> Store.children nd = [] -> Store.nopen nd = 1).
Proof. exact BUGStoreTotal.bug_hypb_sound. Qed.
Print Assumptions C09_store_step_checker.

Theorem C09_store_step_total_checked : forall (fixed : bool) (bcoff : nat) (tmp : Store.id) (t : rtree) (cs : Canon.cstore),
  BUGStoreTotal.bug_hypb bcoff tmp t cs = true ->
  exists cs', BUGStore.root_update fixed bcoff tmp t cs = Some cs' /\
    CanonTree.same_tree (Store.nodes (fst cs)) (Store.nodes (fst cs')) /\ Canon.iso_check cs' = true /\ snd cs' = Some (rid t).
Proof. exact BUGStoreTotal.root_update_total_checked. Qed.
Print Assumptions C09_store_step_total_checked.

(* the hypotheses are satisfiable: the store of C09_example_store, and a store whose root has two open legs and whose
   inner node has none; the model's verdict on them (both variants) *)
Example C09_example_total_hyps :
  (let s0 := fst (Store.run Store.empty_store
                    [Store.AddRoot 0 [2; 2; 3]; Store.AddChild 1 [2; 2; 2] 0 0 0; Store.AddChild 2 [2; 3] 0 0 1;
                     Store.AddChild 3 [2; 2] 0 1 1]) in
   let s1 := fst (Store.run Store.empty_store
                    [Store.AddRoot 0 [2; 3; 2]; Store.AddChild 1 [2; 2; 2] 0 0 0; Store.AddChild 2 [2; 2] 0 1 1;
                     Store.AddChild 3 [2; 3] 0 1 2]) in
   let t0 := RNode 0 [RNode 2 []; RNode 1 [RNode 3 []]] in
   let t1 := RNode 0 [RNode 1 [RNode 3 []; RNode 2 []]] in
   let ok := fun fixed t s => match BUGStore.root_update fixed 30 70 t (s, Some 0) with
                              | Some cs' => Canon.iso_check cs' && Inv.wfb (fst cs')
                              | None => false
                              end in
   (BUGStoreTotal.bug_hypb 30 70 t0 (s0, Some 0), BUGStoreTotal.bug_hypb 30 70 t1 (s1, Some 0),
    map (fun kn => Store.nopen (snd kn)) (Store.nodes s1),
    [ok true t0 s0; ok false t0 s0; ok true t1 s1; ok false t1 s1]))
  = (true, true, [2; 0; 1; 1], [true; true; true; true]).
Proof. vm_compute. reflexivity. Qed.
Print Assumptions C09_example_total_hyps.

(* the leaf condition is needed: a well-formed store whose leaf has two open legs is rejected by both variants *)
Example C09_example_leaf_two_open_legs_rejected :
  (let s := fst (Store.run Store.empty_store [Store.AddRoot 0 [2; 2]; Store.AddChild 1 [2; 2; 2] 0 0 0]) in
   (Inv.wfb s, BUGStoreTotal.bug_hypb 30 70 (RNode 0 [RNode 1 []]) (s, Some 0),
    BUGStore.root_update true 30 70 (RNode 0 [RNode 1 []]) (s, Some 0),
    BUGStore.root_update false 30 70 (RNode 0 [RNode 1 []]) (s, Some 0)))
  = (true, false, None, None).
Proof. vm_compute. reflexivity. Qed.
Print Assumptions C09_example_leaf_two_open_legs_rejected.

(* ---- non-vacuity ---------------------------------------------------------------------------------- *)
Example C09_example_trace :
  evolves (bug_trace false (RNode 0 [RNode 1 [RNode 3 []]; RNode 2 []])) =
  [ (3, OldCentre, [St 1 (OldDown 3) [St 0 (OldDown 1) [St 2 OldUp []]]]);
    (1, WithM OldCentre [3], [St 0 (OldDown 1) [St 2 OldUp []]; St 3 NewB []]);
    (2, OldCentre, [St 0 (OldDown 2) [St 1 OldUp [St 3 OldUp []]]]);
    (0, WithM OldCentre [1; 2], [St 1 NewB [St 3 NewB []]; St 2 NewB []]) ].
Proof. vm_compute. reflexivity. Qed.
Print Assumptions C09_example_trace.

Example C09_example_shapes :
  shape_root false (DNode 0 1 2 [DNode 1 2 3 [DNode 2 2 3 []]]) = Some (DNode 0 1 2 [DNode 1 4 3 [DNode 2 3 3 []]]) /\
  shape_root_gen false false (DNode 0 1 2 [DNode 1 3 3 [DNode 2 3 3 []]]) = None /\
  shape_root false (DNode 0 1 2 [DNode 1 3 3 [DNode 2 3 3 []]]) = Some (DNode 0 1 2 [DNode 1 6 3 [DNode 2 3 3 []]]) /\
  shape_root true (DNode 0 1 2 [DNode 1 3 3 [DNode 2 3 3 []]]) = Some (DNode 0 1 2 [DNode 1 3 3 [DNode 2 3 3 []]]).
Proof. vm_compute. repeat split; reflexivity. Qed.
Print Assumptions C09_example_shapes.

(* ---- Layer W, the returned store is well-formed ---------------------------------------------------------------------- *)
From PTN Require Evo.BUGStoreWf TTN.InvSem.

(* (g) under the hypotheses of (e), the store RETURNED by the step satisfies the executable store invariant `wfb`
   (TTN/Inv.v: equal key sets of node and tensor dictionaries, one parentless node = root, permutations, recorded
   shape = dimensions of the tensor's wires, symmetric parent / children links, both ends of every edge carry the same
   wire, owned wires pairwise distinct, registered wires, acyclic) - both variants, every tree.  new_state is not
   well-formed between the pull of a node and its split_node_replace; the proof (Evo/BUGStoreWf.v) describes every
   finished node exactly instead: logical axes = [new parent wire; the children's new parent wires in node order; the
   open wires the node has in the caller's state], the new parent wires pairwise distinct and allocated during the step *)
Theorem C09_store_step_wfb : forall (fixed : bool) (bcoff : nat) (tmp : Store.id) (t : rtree) (cs cs' : Canon.cstore),
  Inv.wfb (fst cs) = true ->
  (forall k, In k (Store.akeys (Store.nodes (fst cs))) -> Store.aget (BUGStore.bcid bcoff k) (Store.nodes (fst cs)) = None) ->
  Store.aget tmp (Store.nodes (fst cs)) = None ->
  Store.root (fst cs) = Some (rid t) -> snd cs = Some (rid t) ->
  BUGStoreProofs.tree_of (Store.nodes (fst cs)) t -> NoDup (ids t) ->
  (forall k nd, Store.aget k (Store.nodes (fst cs)) = Some nd -> Store.parent nd <> None -> Store.children nd = [] -> Store.nopen nd = 1) ->
  BUGStore.root_update fixed bcoff tmp t cs = Some cs' -> Inv.wfb (fst cs') = true.
Proof. exact BUGStoreWf.root_update_wfb. Qed.
Print Assumptions C09_store_step_wfb.

(* the Prop form of the same statement (TTN/Inv.v `wf`; equivalent to wfb by InvProofs.wfb_iff) *)
Theorem C09_store_step_wf : forall (fixed : bool) (bcoff : nat) (tmp : Store.id) (t : rtree) (cs : Canon.cstore),
  Inv.wfb (fst cs) = true ->
  (forall k, In k (Store.akeys (Store.nodes (fst cs))) -> Store.aget (BUGStore.bcid bcoff k) (Store.nodes (fst cs)) = None) ->
  Store.aget tmp (Store.nodes (fst cs)) = None ->
  Store.root (fst cs) = Some (rid t) -> snd cs = Some (rid t) ->
  BUGStoreProofs.tree_of (Store.nodes (fst cs)) t -> NoDup (ids t) ->
  (forall k nd, Store.aget k (Store.nodes (fst cs)) = Some nd -> Store.parent nd <> None -> Store.children nd = [] -> Store.nopen nd = 1) ->
  exists cs', BUGStore.root_update fixed bcoff tmp t cs = Some cs' /\ Inv.wf (fst cs').
Proof. exact BUGStoreWf.root_update_wf. Qed.
Print Assumptions C09_store_step_wf.

(* (h) (e), (f) and (g) together: the step is accepted, the returned store is well-formed, identifiers / parent pointers /
   children sets are kept, every temporary is gone, root unchanged, recorded centre = root, canonical at the root, the
   global tables only grew *)
Theorem C09_store_step_total_wf : forall (fixed : bool) (bcoff : nat) (tmp : Store.id) (t : rtree) (cs : Canon.cstore),
  Inv.wfb (fst cs) = true ->
  (forall k, In k (Store.akeys (Store.nodes (fst cs))) -> Store.aget (BUGStore.bcid bcoff k) (Store.nodes (fst cs)) = None) ->
  Store.aget tmp (Store.nodes (fst cs)) = None ->
  Store.root (fst cs) = Some (rid t) -> snd cs = Some (rid t) ->
  BUGStoreProofs.tree_of (Store.nodes (fst cs)) t -> NoDup (ids t) ->
  (forall k nd, Store.aget k (Store.nodes (fst cs)) = Some nd -> Store.parent nd <> None -> Store.children nd = [] -> Store.nopen nd = 1) ->
  exists cs', BUGStore.root_update fixed bcoff tmp t cs = Some cs' /\
    Inv.wfb (fst cs') = true /\
    CanonTree.same_tree (Store.nodes (fst cs)) (Store.nodes (fst cs')) /\ CanonTree.tstruct (Store.nodes (fst cs')) /\
    (forall k, In k (Store.akeys (Store.nodes (fst cs))) -> Store.aget (BUGStore.bcid bcoff k) (Store.nodes (fst cs')) = None) /\
    Store.aget tmp (Store.nodes (fst cs')) = None /\
    Store.root (fst cs') = Store.root (fst cs) /\ snd cs' = Some (rid t) /\
    Canon.iso_check cs' = true /\ BUGStoreProofs.grows (fst cs) (fst cs').
Proof. exact BUGStoreWf.root_update_total_wf. Qed.
Print Assumptions C09_store_step_total_wf.

(* (h) through the executable checker of the hypotheses; in particular the step can be iterated: the returned state
   satisfies the well-formedness hypothesis of the next step *)
Theorem C09_store_step_total_wf_checked : forall (fixed : bool) (bcoff : nat) (tmp : Store.id) (t : rtree) (cs : Canon.cstore),
  BUGStoreTotal.bug_hypb bcoff tmp t cs = true ->
  exists cs', BUGStore.root_update fixed bcoff tmp t cs = Some cs' /\ Inv.wfb (fst cs') = true /\
    CanonTree.same_tree (Store.nodes (fst cs)) (Store.nodes (fst cs')) /\ Canon.iso_check cs' = true /\ snd cs' = Some (rid t).
Proof. exact BUGStoreWf.root_update_total_wf_checked. Qed.
Print Assumptions C09_store_step_total_wf_checked.

(* the induction behind (g): update_node on any subtree, under the invariant ctx2 (ctx of (e); the re-centred copies keep
   the open wires of every node; tensors only exist for identifiers with a node record), is accepted and every node of
   the subtree is `fin`ished: exact logical axes, a permutation, recorded shape = tensor shape, registered wires; the new
   parent wires are pairwise distinct, allocated during the call; the basis-change node left behind carries
   [the wire of the node's parent leg in the enclosing call's state; the node's new parent wire]; the tensor of every
   finished node is one atom allocated during the call, nothing summed inside, and - under the proposition Q, which stands
   for "no key of the atom table is beyond the atom counter" (Q := False for (g), Q := True for (i)) - its table entry lists
   axes of the tensor *)
Theorem C09_store_update_node_finished : forall (Q : Prop) (fixed : bool) (bcoff : nat) (tmp : Store.id) (t : rtree),
  BUGStoreWf.A2 Q fixed bcoff tmp t.
Proof. exact BUGStoreWf.update_node_some2. Qed.
Print Assumptions C09_store_update_node_finished.

(* the re-centring move_orthogonalization_center(node, KEEP) keeps the open wires of every node (only edge wires are
   replaced), besides being accepted between any two nodes of a well-formed store and keeping every leg dimension *)
Theorem C09_store_move_center_keeps_open_wires : forall (s : Store.store) (c0 c tmp : Store.id),
  Inv.wf s -> Store.aget tmp (Store.nodes s) = None -> Store.amem c0 (Store.nodes s) = true -> Store.amem c (Store.nodes s) = true ->
  exists s', Canon.move_center (s, Some c0) c Store.Keep tmp = Some (s', Some c) /\
    Inv.wf s' /\ CanonTree.same_tree (Store.nodes s) (Store.nodes s') /\ Store.aget tmp (Store.nodes s') = None /\
    (forall k na nb, Store.aget k (Store.nodes s) = Some na -> Store.aget k (Store.nodes s') = Some nb ->
       Inv.open_of nb (Inv.tens s' k) = Inv.open_of na (Inv.tens s k)).
Proof.
  intros s c0 c tmp W Ht H0 Hc. destruct (BUGStoreWf.move_center_ok2 s c0 c tmp W Ht H0 Hc) as (s' & E & W' & S & R & _ & O).
  exists s'. split; [exact E|]. split; [exact W'|]. split; [exact S|]. split; [exact R|exact O].
Qed.
Print Assumptions C09_store_move_center_keeps_open_wires.

(* (i) the extended invariant wfsb of C02 (TTN/InvSem.v: wfb, and every wire of every atom of a tensor is an axis of that
   tensor or summed inside it, summed wires private / registered, every atom occurs once in the whole network, was allocated
   and has an atom-table entry, atom-table keys allocated) is preserved by the step: the value-level theorems about wfsb stores
   (C02 / C08 net_value) apply to the returned state.  Proof: the atom table only grows by appending fresh keys (every primitive
   and the whole recursion incl. the re-centring, no hypothesis), every returned tensor is ONE atom (the Q factor of its QR
   kernel call resp. the time-evolved root tensor) whose entry lists axes of the tensor, allocated during the processing of
   its own subtree, hence pairwise distinct *)
Theorem C09_store_step_wfsb : forall (fixed : bool) (bcoff : nat) (tmp : Store.id) (t : rtree) (cs cs' : Canon.cstore),
  InvSem.wfsb (fst cs) = true ->
  (forall k, In k (Store.akeys (Store.nodes (fst cs))) -> Store.aget (BUGStore.bcid bcoff k) (Store.nodes (fst cs)) = None) ->
  Store.aget tmp (Store.nodes (fst cs)) = None ->
  Store.root (fst cs) = Some (rid t) -> snd cs = Some (rid t) ->
  BUGStoreProofs.tree_of (Store.nodes (fst cs)) t -> NoDup (ids t) ->
  (forall k nd, Store.aget k (Store.nodes (fst cs)) = Some nd -> Store.parent nd <> None -> Store.children nd = [] -> Store.nopen nd = 1) ->
  BUGStore.root_update fixed bcoff tmp t cs = Some cs' -> InvSem.wfsb (fst cs') = true.
Proof. exact BUGStoreWf.root_update_wfsb. Qed.
Print Assumptions C09_store_step_wfsb.

(* (e), (f), (i) together *)
Theorem C09_store_step_total_wfs : forall (fixed : bool) (bcoff : nat) (tmp : Store.id) (t : rtree) (cs : Canon.cstore),
  InvSem.wfsb (fst cs) = true ->
  (forall k, In k (Store.akeys (Store.nodes (fst cs))) -> Store.aget (BUGStore.bcid bcoff k) (Store.nodes (fst cs)) = None) ->
  Store.aget tmp (Store.nodes (fst cs)) = None ->
  Store.root (fst cs) = Some (rid t) -> snd cs = Some (rid t) ->
  BUGStoreProofs.tree_of (Store.nodes (fst cs)) t -> NoDup (ids t) ->
  (forall k nd, Store.aget k (Store.nodes (fst cs)) = Some nd -> Store.parent nd <> None -> Store.children nd = [] -> Store.nopen nd = 1) ->
  exists cs', BUGStore.root_update fixed bcoff tmp t cs = Some cs' /\
    InvSem.wfsb (fst cs') = true /\
    CanonTree.same_tree (Store.nodes (fst cs)) (Store.nodes (fst cs')) /\ CanonTree.tstruct (Store.nodes (fst cs')) /\
    (forall k, In k (Store.akeys (Store.nodes (fst cs))) -> Store.aget (BUGStore.bcid bcoff k) (Store.nodes (fst cs')) = None) /\
    Store.aget tmp (Store.nodes (fst cs')) = None /\
    Store.root (fst cs') = Store.root (fst cs) /\ snd cs' = Some (rid t) /\
    Canon.iso_check cs' = true /\ BUGStoreProofs.grows (fst cs) (fst cs').
Proof. exact BUGStoreWf.root_update_total_wfs. Qed.
Print Assumptions C09_store_step_total_wfs.

Theorem C09_store_step_total_wfs_checked : forall (fixed : bool) (bcoff : nat) (tmp : Store.id) (t : rtree) (cs : Canon.cstore),
  InvSem.wfsb (fst cs) = true -> BUGStoreTotal.bug_hypb bcoff tmp t cs = true ->
  exists cs', BUGStore.root_update fixed bcoff tmp t cs = Some cs' /\ InvSem.wfsb (fst cs') = true /\
    CanonTree.same_tree (Store.nodes (fst cs)) (Store.nodes (fst cs')) /\ Canon.iso_check cs' = true /\ snd cs' = Some (rid t).
Proof. exact BUGStoreWf.root_update_total_wfs_checked. Qed.
Print Assumptions C09_store_step_total_wfs_checked.

(* the atom table only grows by appending fresh keys, whatever the recursion does (no hypothesis) *)
Theorem C09_store_update_node_atab_grows : forall (fixed : bool) (bcoff : nat) (tmp : Store.id) (t : rtree)
    (g : Store.store) (pv : BUGStore.view) (pc : option Store.id) (g' : Store.store),
  BUGStore.update_node fixed bcoff tmp t g pv pc = Some g' ->
  exists E, Store.atab g' = Store.atab g ++ E /\
    (forall a, In a (Store.akeys E) -> Store.next_atom g <= a < Store.next_atom g') /\ Store.next_atom g <= Store.next_atom g'.
Proof. exact BUGStoreWf.update_node_aapp. Qed.
Print Assumptions C09_store_update_node_atab_grows.

(* the hypotheses of (i) are satisfiable and the conclusion is observed: the stores of C09_example_total_hyps satisfy wfsb,
   so do the returned stores (both variants), and a second step from the returned state is again accepted and wfsb *)
Example C09_example_wfsb :
  (let s0 := fst (Store.run Store.empty_store
                    [Store.AddRoot 0 [2; 2; 3]; Store.AddChild 1 [2; 2; 2] 0 0 0; Store.AddChild 2 [2; 3] 0 0 1;
                     Store.AddChild 3 [2; 2] 0 1 1]) in
   let t0 := RNode 0 [RNode 2 []; RNode 1 [RNode 3 []]] in
   let two := fun fixed => match BUGStore.root_update fixed 30 70 t0 (s0, Some 0) with
                           | Some cs' => (InvSem.wfsb (fst cs') && BUGStoreTotal.bug_hypb 30 70 t0 cs',
                                          match BUGStore.root_update fixed 30 70 t0 cs' with
                                          | Some cs'' => InvSem.wfsb (fst cs'') && Canon.iso_check cs''
                                          | None => false
                                          end)
                           | None => (false, false)
                           end in
   (InvSem.wfsb s0, two true, two false))
  = (true, (true, true), (true, true)).
Proof. vm_compute. reflexivity. Qed.
Print Assumptions C09_example_wfsb.
