(* Property C10 — truncation keeps the right singular values.  Statements only; each is closed
   by `exact`.  Model: Trunc/Select.v (truncate_singular_values and its helpers).
   `select p s` = (new_s before rescaling, s_trunc); `truncate p s` adds the renormalisation
   and the ValueError on an empty spectrum (renormalise as repaired in db7fff1).  `descending` = non-increasing. *)
From Coq Require Import QArith List Bool Arith ZArith Sorted.
From PTN Require Import Trunc.Select Trunc.SelectProofs.
Import ListNotations.
Local Open Scope Q_scope.

(* the kept part is a non-empty prefix of the spectrum, the second component is the complementary
   suffix, and the prefix is no longer than max_bond_dim (an int >= 1, or inf) *)
Theorem C10_trunc_prefix : forall (p : params) (s : list Q),
  s <> [] -> descending s -> bond_ok (max_bond p) ->
  let k := length (fst (select p s)) in
  (1 <= k <= length s)%nat /\
  fst (select p s) = firstn k s /\ snd (select p s) = skipn k s /\
  (forall m, max_bond p = BFin m -> (k <= m)%nat).
Proof. exact select_spec. Qed.
Print Assumptions C10_trunc_prefix.

(* number of kept values = max 1 (min max_bond_dim |s_temp|), for every non-empty list *)
Theorem C10_trunc_length : forall (p : params) (s : list Q),
  s <> [] -> bond_ok (max_bond p) ->
  length (fst (select p s)) = Nat.max 1 (bmin (max_bond p) (length (s_temp p s))).
Proof. exact select_length. Qed.
Print Assumptions C10_trunc_length.

(* value rule: with c = max(rel_tol*s[0], total_tol) (Python max, float product) and
   n = #{x in s | x > c}, the kept values are the first max 1 (min max_bond_dim n) ones, and the
   n values above c are exactly the first n of the descending spectrum *)
Theorem C10_value_rule : forall (p : params) (s0 : Q) (r : list Q),
  sum_trunc p = false -> descending (s0 :: r) -> bond_ok (max_bond p) ->
  let s := s0 :: r in
  let c := cutoff (rel_tol p) (total_tol p) s0 in
  let n := length (filter (above c) s) in
  let k := Nat.max 1 (bmin (max_bond p) n) in
  select p s = (firstn k s, skipn k s) /\
  Forall (fun x => above c x = true) (firstn n s) /\
  Forall (fun x => above c x = false) (skipn n s).
Proof. exact value_rule. Qed.
Print Assumptions C10_value_rule.

(* the cutoff in the terms of the property text: x > max(a, total_tol) iff x > a and x > total_tol
   (total_tol not nan), where a = rel_tol * s[0] is the float product *)
Theorem C10_value_threshold : forall (rel tot : ext) (s0 x : Q), tot <> NaN ->
  above (cutoff rel tot s0) x = above (ext_mul_q rel s0) x && above tot x.
Proof. exact above_cutoff. Qed.
Print Assumptions C10_value_threshold.

Theorem C10_threshold_cases : forall (t r s0 x : Q),
  (above (Fin t) x = true <-> t < x) /\ above NegInf x = true /\ above PosInf x = false /\
  above NaN x = false /\
  ext_mul_q (Fin r) s0 = Fin (r * s0) /\
  (0 < s0 -> ext_mul_q NegInf s0 = NegInf /\ ext_mul_q PosInf s0 = PosInf) /\
  (s0 == 0 -> ext_mul_q NegInf s0 = NaN /\ ext_mul_q PosInf s0 = NaN).
Proof. exact threshold_cases. Qed.
Print Assumptions C10_threshold_cases.

(* sum rule: K = _sum_truncation_index; the tail s[j:] has weight > total_tol**2 exactly when
   j < K, i.e. s[K:] is the longest tail whose squared weight (divided by the total squared
   weight when sum_renorm) does not exceed total_tol**2; then the same clamp and fallback.
   No ordering assumption is needed. *)
Theorem C10_sum_rule : forall (p : params) (s : list Q),
  sum_trunc p = true -> s <> [] -> bond_ok (max_bond p) ->
  let K := sum_truncation_index s (total_tol p) (sum_renorm p) in
  let k := Nat.max 1 (bmin (max_bond p) K) in
  select p s = (firstn k s, skipn k s) /\ (K <= length s)%nat /\
  (sumsq s == 0 -> K = 0%nat) /\
  (~ sumsq s == 0 -> forall j,
      ext_gtb (Fin (tail_weight s (sum_renorm p) j)) (ext_sq (total_tol p)) = true <-> (j < K)%nat).
Proof. exact sum_rule. Qed.
Print Assumptions C10_sum_rule.

(* an all-zero spectrum keeps exactly its first value, in both modes, whatever the tolerances *)
Theorem C10_all_zero : forall (p : params) (s : list Q),
  s <> [] -> Forall (fun x => x == 0) s -> bond_ok (max_bond p) ->
  select p s = (firstn 1 s, skipn 1 s).
Proof. exact all_zero_keeps_one. Qed.
Print Assumptions C10_all_zero.

(* renormalisation: the kept prefix times (sum s / sum kept), under the guard sum kept <> 0;
   the rescaled vector then has the l1 weight of the whole spectrum *)
Theorem C10_renorm_scales : forall (p : params) (s : list Q), s <> [] -> renorm p = true ->
  let kept := fst (select p s) in
  ~ qsum kept == 0 ->
  truncate p s = Some (map (fun x => x * qsum s / qsum kept) kept, snd (select p s)).
Proof. exact renorm_scales. Qed.
Print Assumptions C10_renorm_scales.

Theorem C10_renorm_sum : forall (s kept : list Q), ~ qsum kept == 0 ->
  qsum (map (fun x => x * qsum s / qsum kept) kept) == qsum s.
Proof. exact renorm_preserves_sum. Qed.
Print Assumptions C10_renorm_sum.

(* when the kept values sum to 0 there is nothing to rescale: they are returned unchanged (no 0/0);
   on a descending non-negative spectrum this happens only for the all-zero spectrum *)
Theorem C10_renorm_guard : forall (p : params) (s : list Q), s <> [] -> renorm p = true ->
  qsum (fst (select p s)) == 0 -> truncate p s = Some (fst (select p s), snd (select p s)).
Proof. exact renorm_zero. Qed.
Print Assumptions C10_renorm_guard.

Theorem C10_renorm_guard_zero_only : forall (p : params) (s : list Q),
  s <> [] -> descending s -> Forall (fun x => 0 <= x) s -> bond_ok (max_bond p) ->
  qsum (fst (select p s)) == 0 -> Forall (fun x => x == 0) s.
Proof. exact kept_sum_zero_all_zero. Qed.
Print Assumptions C10_renorm_guard_zero_only.

Theorem C10_no_renorm : forall (p : params) (s : list Q), s <> [] -> renorm p = false ->
  truncate p s = Some (fst (select p s), snd (select p s)).
Proof. exact no_renorm. Qed.
Print Assumptions C10_no_renorm.

(* renormalisation never changes the number of values, and never touches the second component *)
Theorem C10_renorm_length : forall (p : params) (s : list Q), s <> [] ->
  exists k d, truncate p s = Some (k, d) /\ length k = length (fst (select p s)) /\ d = snd (select p s).
Proof. exact truncate_length. Qed.
Print Assumptions C10_renorm_length.

(* the only rejected spectrum is the empty one *)
Theorem C10_empty_rejected : forall (p : params) (s : list Q), truncate p s = None <-> s = [].
Proof. exact truncate_none. Qed.
Print Assumptions C10_empty_rejected.

(* parameter validation: accepted iff max_bond_dim is inf or a positive int and each tolerance
   is nan, -inf, +inf or a finite value >= 0; a non-int non-inf max_bond_dim is a TypeError *)
Theorem C10_params_validation : forall (m : mbd_arg) (rel tot : ext),
  validate m rel tot = Accept <->
  (m = MInf \/ exists z, m = MInt z /\ (0 < z)%Z) /\ tol_ok rel /\ tol_ok tot.
Proof. exact validate_accept. Qed.
Print Assumptions C10_params_validation.

Theorem C10_params_type_error : forall (m : mbd_arg) (rel tot : ext),
  validate m rel tot = RaiseType <-> m = MOther.
Proof. exact validate_type_error. Qed.
Print Assumptions C10_params_type_error.

Theorem C10_params_bond_ok : forall (m : mbd_arg) (rel tot : ext),
  validate m rel tot = Accept -> exists b, bond_of m = Some b /\ bond_ok b.
Proof. exact validate_bond_ok. Qed.
Print Assumptions C10_params_bond_ok.

(* scalar step of the error bound: for non-negative discarded values the Frobenius weight is
   at most the square of their sum *)
Theorem C10_discarded_weight : forall l : list Q, Forall (fun x => 0 <= x) l ->
  sumsq l <= qsum l * qsum l /\ 0 <= qsum l.
Proof. exact sumsq_le_sq_sum. Qed.
Print Assumptions C10_discarded_weight.

(* non-vacuity: ties at the cutoff, the clamp, the fallback, the sum rule at an exact boundary *)
Example C10_example_value :
  select {| max_bond := BFin 3; rel_tol := Fin (1#2); total_tol := NegInf;
            renorm := false; sum_trunc := false; sum_renorm := true |} [2; 2; 1; 1; 0]
  = ([2; 2], [1; 1; 0]).
Proof. vm_compute. reflexivity. Qed.
Print Assumptions C10_example_value.

Example C10_example_sum :
  truncate {| max_bond := BInf; rel_tol := Fin 0; total_tol := Fin (1#2);
              renorm := true; sum_trunc := true; sum_renorm := true |} [1; 1; 1; 1]
  = Some ([4#3; 4#3; 4#3], [1]).
Proof. vm_compute. reflexivity. Qed.
Print Assumptions C10_example_sum.

Example C10_example_zero :
  truncate {| max_bond := BInf; rel_tol := Fin 0; total_tol := Fin 0;
              renorm := true; sum_trunc := true; sum_renorm := true |} [0; 0]
  = Some ([0], [0]).
Proof. vm_compute. reflexivity. Qed.
Print Assumptions C10_example_zero.

(* ======================================================================================================== *)
(* Tree level: recursive_truncation.py and svd_truncation.py as programs over the symbolic store
   (model TTN/TruncTree.v, proofs TTN/TruncTreeProofs.v).  `kd c` is the number of singular values kept on
   the bond above node c (kernel data, an arbitrary input here); `rid` stands for the uuid-named
   temporaries, `tmp j c n` for the bond-named ones of recursive_truncation.  `trunc_hyps` is the executable
   hypothesis checker (store invariant wfb, rid and the bond-named temporaries are not identifiers of the tree);
   `tmp_inj`: the temporaries of different bonds / roles differ.  `view s k` = (parent of k, dimension of the
   bond above k), `bond_dim s k` reads that dimension off the raw tensor and leg permutation. *)
Local Close Scope Q_scope.
From PTN Require Import TTN.Store TTN.Canon TTN.Inv TTN.CanonTree TTN.TruncTree TTN.TruncTreeProofs.

(* (a) recursive_truncation: the result satisfies the invariant again, has the same identifiers, parents and
   children sets, the same root; every temporary identifier is gone; the recorded centre is the root *)
Theorem C10_rec_structure : forall (tmp : tmpids) (kd : id -> nat) (rid : id) (cs cs' : cstore),
  trunc_hyps tmp rid cs = true -> tmp_inj tmp -> recursive_truncation tmp kd rid cs = Some cs' ->
  trunc_hyps tmp rid cs' = true /\ same_tree (nodes (fst cs)) (nodes (fst cs')) /\
  root (fst cs') = root (fst cs) /\ snd cs' = root (fst cs).
Proof. exact rec_structure. Qed.
Print Assumptions C10_rec_structure.

(* (b) every (child, parent) bond ends with exactly the supplied dimension *)
Theorem C10_rec_bonds : forall (tmp : tmpids) (kd : id -> nat) (rid : id) (cs cs' : cstore),
  trunc_hyps tmp rid cs = true -> tmp_inj tmp -> recursive_truncation tmp kd rid cs = Some cs' ->
  forall k nk q, aget k (nodes (fst cs)) = Some nk -> parent nk = Some q -> bond_dim (fst cs') k = kd k.
Proof. exact rec_bonds. Qed.
Print Assumptions C10_rec_bonds.

(* ... hence within [1, max_bond_dim] when the dimensions are what the scalar rule keeps of non-empty
   descending spectra (C10_trunc_prefix) *)
Theorem C10_rec_bonds_select : forall (tmp : tmpids) (p : params) (spectra : id -> list Q) (rid : id) (cs cs' : cstore),
  trunc_hyps tmp rid cs = true -> tmp_inj tmp -> bond_ok (max_bond p) ->
  (forall c, spectra c <> [] /\ descending (spectra c)) ->
  recursive_truncation tmp (fun c => length (fst (select p (spectra c)))) rid cs = Some cs' ->
  forall k nk q, aget k (nodes (fst cs)) = Some nk -> parent nk = Some q ->
    1 <= bond_dim (fst cs') k <= length (spectra k) /\
    forall m, max_bond p = BFin m -> bond_dim (fst cs') k <= m.
Proof. exact rec_bonds_select. Qed.
Print Assumptions C10_rec_bonds_select.

(* the recursion below one node: parents unchanged; the bond above every proper descendant of n gets the
   supplied dimension; every other bond (and node) keeps its view *)
Theorem C10_truncate_node_effect : forall (tmp : tmpids) (kd : id -> nat), tmp_inj tmp ->
  forall (f : nat) (s : store) (n : id) (s' : store), wf s -> tmp_fresh tmp s ->
  truncate_node f tmp kd s n = Some s' ->
  wf s' /\ root s' = root s /\ (forall k, pmap s' k = pmap s k) /\
  forall k, (desc (pmap s) n k /\ exists q, view s' k = Some (Some q, kd k)) \/
            (~ desc (pmap s) n k /\ view s' k = view s k).
Proof. exact truncate_node_spec. Qed.
Print Assumptions C10_truncate_node_effect.

(* (c) every (child, parent) bond is truncated exactly once: truncate_node_tr is truncate_node with the list
   of bonds (child identifiers) in the order their projector is computed; started at the root the list has no
   repetition and contains exactly the nodes that have a parent *)
Theorem C10_rec_trace_erase : forall f tmp kd s n,
  option_map fst (truncate_node_tr f tmp kd s n) = truncate_node f tmp kd s n.
Proof. exact rec_trace_erase. Qed.
Print Assumptions C10_rec_trace_erase.

Theorem C10_rec_trace_coverage : forall (tmp : tmpids) (kd : id -> nat) (f : nat) (s : store) (r : id) (s' : store) (tr : list id),
  wfb s = true -> tmp_fresh tmp s -> tmp_inj tmp -> root s = Some r ->
  truncate_node_tr f tmp kd s r = Some (s', tr) ->
  NoDup tr /\ forall k, In k tr <-> exists nk q, aget k (nodes s) = Some nk /\ parent nk = Some q.
Proof. exact rec_trace_coverage. Qed.
Print Assumptions C10_rec_trace_coverage.

(* the fuel `number of nodes` of truncate_node suffices: more fuel never changes the result *)
Theorem C10_rec_fuel : forall (tmp : tmpids) (kd : id -> nat) (s : store) (r : id) (f : nat),
  wfb s = true -> tmp_fresh tmp s -> tmp_inj tmp -> root s = Some r ->
  length (nodes s) <= f -> truncate_node f tmp kd s r = truncate_node (length (nodes s)) tmp kd s r.
Proof. exact rec_fuel. Qed.
Print Assumptions C10_rec_fuel.

(* svd_truncation: invariant, identifiers, parents, children sets and root preserved, temporary gone; the
   recorded centre is the parent of the last node handled *)
Theorem C10_svd_structure : forall (kd : id -> nat) (rid : id) (cs cs' : cstore),
  wfb (fst cs) = true -> amem rid (nodes (fst cs)) = false -> svd_truncation kd rid cs = Some cs' ->
  wfb (fst cs') = true /\ amem rid (nodes (fst cs')) = false /\
  same_tree (nodes (fst cs)) (nodes (fst cs')) /\ root (fst cs') = root (fst cs) /\
  match last_opt (removelast (linearise (fst cs))) with
  | None => cs' = cs
  | Some n => exists nk p, aget n (nodes (fst cs)) = Some nk /\ parent nk = Some p /\ snd cs' = Some p
  end.
Proof. exact svd_structure. Qed.
Print Assumptions C10_svd_structure.

(* one contract_and_split_with_parent: the bond above the node gets exactly the supplied dimension, the parent
   becomes the recorded centre, every other node keeps its parent and its bond dimension *)
Theorem C10_svd_step_bond : forall (kd : id -> nat) (rid : id) (cs : cstore) (n : id) (cs' : cstore),
  wfb (fst cs) = true -> amem rid (nodes (fst cs)) = false -> contract_and_split kd rid cs n = Some cs' ->
  wfb (fst cs') = true /\ root (fst cs') = root (fst cs) /\
  (exists nk p, aget n (nodes (fst cs)) = Some nk /\ parent nk = Some p /\ snd cs' = Some p /\
                view (fst cs') n = Some (Some p, kd n)) /\
  bond_dim (fst cs') n = kd n /\
  forall k, k <> n -> view (fst cs') k = view (fst cs) k.
Proof. exact svd_step_bond. Qed.
Print Assumptions C10_svd_step_bond.

(* (c) for svd_truncation: the path update_path[:-1] contains every node that has a parent exactly once *)
Theorem C10_svd_path_coverage : forall (s : store) (r : id), wfb s = true -> root s = Some r ->
  exists T, linearise s = T ++ [r] /\ removelast (linearise s) = T /\ NoDup T /\
            forall k, In k T <-> exists nk q, aget k (nodes s) = Some nk /\ parent nk = Some q.
Proof. exact svd_path_coverage. Qed.
Print Assumptions C10_svd_path_coverage.

(* non-vacuity: a four-node tree with shuffled legs; both routines succeed, the hypotheses hold, the bonds get
   the supplied dimensions, the trace and the path are the bonds in the two orders *)
Definition C10_ex_tmp : tmpids := fun j c n => 2000 + 3 * (16 * c + n) + j.
Definition C10_ex_cs : cstore :=
  crun 99 (empty_store, None)
    [Base (AddRoot 0 [2; 3; 2]); Base (AddChild 1 [2; 2; 3] 1 0 0); Base (AddChild 2 [3; 2] 0 0 1);
     Base (AddChild 3 [3; 2] 0 1 2)].
Example C10_example_tree :
  trunc_hyps C10_ex_tmp 99 C10_ex_cs = true /\
  match recursive_truncation C10_ex_tmp (dget [(1, 1); (2, 2); (3, 2)]) 99 C10_ex_cs with
  | Some cs' => map (bond_dim (fst cs')) [1; 2; 3] = [1; 2; 2] /\ snd cs' = Some 0
  | None => False
  end /\
  match svd_truncation (dget [(1, 1); (2, 2); (3, 2)]) 99 (crun 99 C10_ex_cs [Canon 2 Reduced]) with
  | Some cs' => map (bond_dim (fst cs')) [1; 2; 3] = [1; 2; 2] /\ snd cs' = Some 0
  | None => False
  end /\
  option_map snd (truncate_node_tr 4 C10_ex_tmp (dget [(1, 1); (2, 2); (3, 2)]) (fst C10_ex_cs) 0) = Some [1; 2; 3] /\
  linearise (fst C10_ex_cs) = [3; 1; 2; 0].
Proof. vm_compute. repeat split; reflexivity. Qed.
Print Assumptions C10_example_tree.

Example C10_example_tmp_inj : tmp_inj C10_ex_tmp.
Proof. exact harness_tmp_inj. Qed.
Print Assumptions C10_example_tmp_inj.

(* ======================================================================================================== *)
(* Tree level, "is the identity when nothing is discarded" (TTN/TruncTreeValue.v).
   Vocabulary.  `net_value zero one add mul s tbl rho` (C02, TTN/InvSem.v): the value of the whole network of
   store s over a commutative semiring, `tbl` giving the entries of the opaque atoms (initial tensors and kernel
   factors), at the assignment rho of indices to the open wires.  `wfs`: the extended store invariant of C02.
   `svd_truncation_ops` / `recursive_truncation_ops`: the edit operations the routine performs, in order.
   `nothing_discarded s ops` (executable): every truncating factorisation of the run keeps the dimension of the
   untruncated one -- min(rows, columns) for the truncated SVD of contract_and_split_with_parent, min(dimension of
   the bond, product of the other legs of the upper tensor) for a projector of recursive_truncation.
   `kernel_contracts .. tbl s ops`: what the numerical kernels promise about the factors they return, step by step:
   QR: Q . R = A over the new bond (`def_holds`); truncated SVD: U . (S Vh) = A PROVIDED the kept dimension is the
   full one; projector pair (conj(P), P^T) of recursive_truncation: its product, applied to the tensor above the
   bond on the leg of the bond, gives that tensor back (`proj_contract`: P P^dagger A = A) PROVIDED the width of P
   is the full one.  The dense oracle of harness/props/c10.py validates these contracts numerically on every
   nothing-discarded tree case. *)
From Coq Require Import Permutation.
From PTN Require Import TTN.InvSplit TTN.InvRun TTN.InvContract Wire.Sem TTN.InvSem TTN.TruncTreeValue.

(* both routines are runs of edit operations of the store model (C02): on a well-formed store a successful run of
   the program is `run` of its trace, every operation accepted, inside its documented precondition, none a
   constructor *)
Theorem C10_svd_truncation_is_a_run_of_edits : forall (kd : id -> nat) (rid : id) (cs cs' : cstore),
  wf (fst cs) -> aget rid (nodes (fst cs)) = None -> svd_truncation kd rid cs = Some cs' ->
  let ops := svd_truncation_ops kd rid cs in
  run (fst cs) ops = (fst cs', map (fun _ => true) ops) /\ ops_ok (fst cs) ops /\ forallb is_edit_op ops = true.
Proof. exact svd_truncation_traced. Qed.
Print Assumptions C10_svd_truncation_is_a_run_of_edits.

Theorem C10_recursive_truncation_is_a_run_of_edits : forall (tmp : tmpids) (kd : id -> nat) (rid : id) (cs cs' : cstore),
  wf (fst cs) -> aget rid (nodes (fst cs)) = None -> tmp_fresh tmp (fst cs) -> tmp_inj tmp ->
  recursive_truncation tmp kd rid cs = Some cs' ->
  let ops := recursive_truncation_ops tmp kd rid cs in
  run (fst cs) ops = (fst cs', map (fun _ => true) ops) /\ ops_ok (fst cs) ops /\ forallb is_edit_op ops = true.
Proof. exact recursive_truncation_traced. Qed.
Print Assumptions C10_recursive_truncation_is_a_run_of_edits.

(* svd_truncation: with nothing discarded, under the kernel contracts, the result denotes the same tensor: same
   open wires, same value at every assignment, extended invariant preserved *)
Theorem C10_svd_truncation_identity_when_nothing_discarded :
  forall (R : Type) (zero one : R) (add mul : R -> R -> R), comm_semiring zero one add mul ->
  forall (tbl : nat -> list nat -> R) (kd : id -> nat) (rid : id) (cs cs' : cstore),
  wfs (fst cs) -> aget rid (nodes (fst cs)) = None -> svd_truncation kd rid cs = Some cs' ->
  nothing_discarded (fst cs) (svd_truncation_ops kd rid cs) ->
  kernel_contracts R zero one add mul tbl (fst cs) (svd_truncation_ops kd rid cs) ->
  wfs (fst cs') /\ Permutation (open_wires (fst cs')) (open_wires (fst cs)) /\
  forall rho, net_value zero one add mul (fst cs') tbl rho = net_value zero one add mul (fst cs) tbl rho.
Proof. exact svd_truncation_identity. Qed.
Print Assumptions C10_svd_truncation_identity_when_nothing_discarded.

(* recursive_truncation (canonical form at the root, then the projector recursion) *)
Theorem C10_recursive_truncation_identity_when_nothing_discarded :
  forall (R : Type) (zero one : R) (add mul : R -> R -> R), comm_semiring zero one add mul ->
  forall (tbl : nat -> list nat -> R) (tmp : tmpids) (kd : id -> nat) (rid : id) (cs cs' : cstore),
  wfs (fst cs) -> aget rid (nodes (fst cs)) = None -> tmp_fresh tmp (fst cs) -> tmp_inj tmp ->
  recursive_truncation tmp kd rid cs = Some cs' ->
  nothing_discarded (fst cs) (recursive_truncation_ops tmp kd rid cs) ->
  kernel_contracts R zero one add mul tbl (fst cs) (recursive_truncation_ops tmp kd rid cs) ->
  wfs (fst cs') /\ Permutation (open_wires (fst cs')) (open_wires (fst cs)) /\
  forall rho, net_value zero one add mul (fst cs') tbl rho = net_value zero one add mul (fst cs) tbl rho.
Proof. exact recursive_truncation_identity. Qed.
Print Assumptions C10_recursive_truncation_identity_when_nothing_discarded.

(* the same conclusions whenever every factorisation of the run happens to be exact (`exact_step`: the contracts
   without the proviso), whatever the kept dimensions: e.g. when only vanishing singular values are dropped *)
Theorem C10_svd_truncation_exact_factors : forall (R : Type) (zero one : R) (add mul : R -> R -> R), comm_semiring zero one add mul ->
  forall (tbl : nat -> list nat -> R) (kd : id -> nat) (rid : id) (cs cs' : cstore),
  wfs (fst cs) -> aget rid (nodes (fst cs)) = None -> svd_truncation kd rid cs = Some cs' ->
  along (exact_step R zero one add mul tbl) (fst cs) (svd_truncation_ops kd rid cs) ->
  wfs (fst cs') /\ Permutation (open_wires (fst cs')) (open_wires (fst cs)) /\
  forall rho, net_value zero one add mul (fst cs') tbl rho = net_value zero one add mul (fst cs) tbl rho.
Proof. exact svd_truncation_exact. Qed.
Print Assumptions C10_svd_truncation_exact_factors.

Theorem C10_recursive_truncation_exact_factors : forall (R : Type) (zero one : R) (add mul : R -> R -> R), comm_semiring zero one add mul ->
  forall (tbl : nat -> list nat -> R) (tmp : tmpids) (kd : id -> nat) (rid : id) (cs cs' : cstore),
  wfs (fst cs) -> aget rid (nodes (fst cs)) = None -> tmp_fresh tmp (fst cs) -> tmp_inj tmp ->
  recursive_truncation tmp kd rid cs = Some cs' ->
  along (exact_step R zero one add mul tbl) (fst cs) (recursive_truncation_ops tmp kd rid cs) ->
  wfs (fst cs') /\ Permutation (open_wires (fst cs')) (open_wires (fst cs)) /\
  forall rho, net_value zero one add mul (fst cs') tbl rho = net_value zero one add mul (fst cs) tbl rho.
Proof. exact recursive_truncation_exact. Qed.
Print Assumptions C10_recursive_truncation_exact_factors.

(* svd_truncation under the kernel contracts of C02 verbatim (`contracts_hold` along the trace) *)
Theorem C10_svd_truncation_value_C02_contracts : forall (R : Type) (zero one : R) (add mul : R -> R -> R), comm_semiring zero one add mul ->
  forall (tbl : nat -> list nat -> R) (kd : id -> nat) (rid : id) (cs cs' : cstore),
  wfs (fst cs) -> aget rid (nodes (fst cs)) = None -> svd_truncation kd rid cs = Some cs' ->
  contracts_hold zero one add mul tbl (fst cs) (svd_truncation_ops kd rid cs) ->
  wfs (fst cs') /\ Permutation (open_wires (fst cs')) (open_wires (fst cs)) /\
  forall rho, net_value zero one add mul (fst cs') tbl rho = net_value zero one add mul (fst cs) tbl rho.
Proof. exact svd_truncation_net_value. Qed.
Print Assumptions C10_svd_truncation_value_C02_contracts.

(* one projector step of recursive_truncation: an identity inserted on the bond (c, p) and replaced by a pair of
   kernel factors joined by a bond of dimension k keeps the value of the network as soon as the product of the
   pair acts as the identity on p's tensor over the old edge wire -- no condition on the identity tensor, and the
   pair need not multiply to the identity matrix *)
Theorem C10_projector_pair_step : forall (R : Type) (zero one : R) (add mul : R -> R -> R), comm_semiring zero one add mul ->
  forall (tbl : nat -> list nat -> R) (s : store) (c p new : id) (sa : store) (oid iid : id) (m : mode) (k : nat) (s' : store),
  wfs s -> insert_identity s c p new = Some sa ->
  split_nodes sa new (po p) (pi c) oid iid 2 m k = Some s' ->
  spec_ok sa new (po p) (pi c) -> ids_ok sa new oid iid ->
  (forall r j, j < wdim sa (ew sa new) ->
     sum_upto R zero add (wdim sa (ew sa new))
       (fun i => mul (node_value zero one add mul sa tbl p (upd r (ew sa new) i))
                     (sum_upto R zero add k (fun l => mul (tbl (next_atom sa) [i; l]) (tbl (S (next_atom sa)) [l; j]))))
     = node_value zero one add mul sa tbl p (upd r (ew sa new) j)) ->
  wfs s' /\ Permutation (open_wires s') (open_wires s) /\
  forall rho, net_value zero one add mul s' tbl rho = net_value zero one add mul s tbl rho.
Proof. exact proj_pair_net_value. Qed.
Print Assumptions C10_projector_pair_step.

(* a pair that multiplies to the identity matrix (square unitary projector) satisfies the projector contract *)
Theorem C10_unitary_projector_contract : forall (R : Type) (zero one : R) (add mul : R -> R -> R), comm_semiring zero one add mul ->
  forall (tbl : nat -> list nat -> R) (s : store) (n0 p : id) (k : nat),
  (forall i j, i < wdim s (ew s n0) -> j < wdim s (ew s n0) ->
     sum_upto R zero add k (fun l => mul (tbl (next_atom s) [i; l]) (tbl (S (next_atom s)) [l; j])) = if Nat.eqb i j then one else zero) ->
  proj_contract R zero one add mul tbl s n0 p k.
Proof. exact proj_contract_of_identity. Qed.
Print Assumptions C10_unitary_projector_contract.

(* "full dimension" of a recorded factorisation = the dimension the model gives the UNTRUNCATED factorisation
   (kind 1) of the same tensor and leg bipartition *)
Theorem C10_full_rank_is_untruncated_dimension : forall s n o i oid iid kind m rbond s',
  wfs s -> split_nodes s n o i oid iid kind m rbond = Some s' ->
  exists s1 nd t ol il,
    access s n = Some (s1, nd, t) /\ find_leg_values nd o = Some ol /\ find_leg_values nd i = Some il /\
    (full_rankb s' (last (defs s') dflt_def) = true <->
     sp_bd s kind m rbond (permute 0 ol (axes t)) (permute 0 il (axes t))
     = sp_bd s 1 m rbond (permute 0 ol (axes t)) (permute 0 il (axes t))).
Proof. exact full_rank_split. Qed.
Print Assumptions C10_full_rank_is_untruncated_dimension.

(* non-vacuity.  svd_truncation on a three-node star (all dimensions 2, centre at a leaf) with both bonds kept at
   the full dimension 2, and recursive_truncation on a three-node star whose root tensor has rank 1 across the bond
   to child 1, so that this bond goes from dimension 2 to min(2, 1) = 1 with nothing discarded (the projector pair
   is (1 0)^T (1 0), not the identity matrix): concrete tables over nat satisfy every hypothesis, hence the value
   of the network is unchanged at every assignment *)
Example C10_example_svd_identity :
  (wfsb (fst exs_cs) = true /\ amem 99 (nodes (fst exs_cs)) = false /\
   (exists cs', svd_truncation exs_kd 99 exs_cs = Some cs') /\
   nothing_discarded (fst exs_cs) (svd_truncation_ops exs_kd 99 exs_cs) /\
   kernel_contracts nat 0 1 Nat.add Nat.mul exs_tbl (fst exs_cs) (svd_truncation_ops exs_kd 99 exs_cs)) /\
  forall cs', svd_truncation exs_kd 99 exs_cs = Some cs' ->
  forall rho, net_value 0 1 Nat.add Nat.mul (fst cs') exs_tbl rho = net_value 0 1 Nat.add Nat.mul (fst exs_cs) exs_tbl rho.
Proof. exact (conj exs_hyps exs_conclusion). Qed.
Print Assumptions C10_example_svd_identity.

Example C10_example_rec_identity :
  (wfsb (fst exr_cs) = true /\ trunc_hyps exr_tmp 99 exr_cs = true /\
   (exists cs', recursive_truncation exr_tmp exr_kd 99 exr_cs = Some cs' /\ map (bond_dim (fst cs')) [1; 2] = [1; 1]) /\
   map (bond_dim (fst exr_cs)) [1; 2] = [2; 1] /\
   nothing_discarded (fst exr_cs) (recursive_truncation_ops exr_tmp exr_kd 99 exr_cs) /\
   kernel_contracts nat 0 1 Nat.add Nat.mul exr_tbl (fst exr_cs) (recursive_truncation_ops exr_tmp exr_kd 99 exr_cs)) /\
  forall cs', recursive_truncation exr_tmp exr_kd 99 exr_cs = Some cs' ->
  forall rho, net_value 0 1 Nat.add Nat.mul (fst cs') exr_tbl rho = net_value 0 1 Nat.add Nat.mul (fst exr_cs) exr_tbl rho.
Proof. exact (conj exr_hyps exr_conclusion). Qed.
Print Assumptions C10_example_rec_identity.
(* ======================================================================================================== *)
(* [ext-C10E] The error bound of the last clause of the property, as far as it is a theorem.  Three layers:
   (B) what the selection rule implies for the size of what it discards (here, Q spectra; Trunc/ErrorSelect*.v);
   (C) accumulation over the literal sequence of truncating splits of a tree routine (TTN/TruncError*.v), over an
       ABSTRACT distance;
   (A) one truncated SVD splitting: squared Frobenius error = discarded squared weight, exactly (MathComp matrices,
       Trunc/ErrorAlg*.v) -- placed last in this file, inside a module, because it imports MathComp.
   What is NOT proved: that the centre-gauge contracts of (C) hold for the states the routines produce (it is the
   content of canonical form, C03, at the level of values), and the existence of square roots / the passage from
   squared errors to the norm of the property text; the end-to-end bound stays validated against the dense oracle. *)
From PTN Require Import Trunc.ErrorSelect Trunc.ErrorSelectProofs.
Local Open Scope Q_scope.

(* (B) `discarded p s` = the second component of truncate_singular_values; `sq_error p s` = its squared weight, the
   squared error of one truncation without renormalisation by (A).  `cap_not_binding b n`: max_bond_dim = inf or >= n. *)

(* sum mode, finite total_tol = t (no sign, order or positivity assumption on anything): if max_bond_dim does not cut
   deeper than the tolerance criterion, the squared error is <= t^2, times the total squared weight when normalising *)
Theorem C10_sum_mode_error_bound : forall (p : params) (s : list Q) (t : Q),
  sum_trunc p = true -> s <> [] -> bond_ok (max_bond p) -> total_tol p = Fin t ->
  cap_not_binding (max_bond p) (sum_truncation_index s (total_tol p) (sum_renorm p)) ->
  (sum_renorm p = false -> sq_error p s <= t * t) /\
  (sum_renorm p = true -> sq_error p s <= t * t * sumsq s).
Proof. exact (fun p s t Hm Hne Hb => sum_error_bound p s Hm Hne Hb t). Qed.
Print Assumptions C10_sum_mode_error_bound.

(* ... and that hypothesis is necessary: when max_bond_dim = m cuts deeper, the weight of what is discarded (as the
   code measures it: divided by the total when normalising) EXCEEDS total_tol**2 in the float comparison *)
Theorem C10_sum_mode_cap_binding_exceeds : forall (p : params) (s : list Q) (m : nat),
  sum_trunc p = true -> s <> [] -> bond_ok (max_bond p) -> max_bond p = BFin m ->
  (m < sum_truncation_index s (total_tol p) (sum_renorm p))%nat ->
  discarded p s = skipn m s /\
  ext_gtb (Fin (tail_weight s (sum_renorm p) m)) (ext_sq (total_tol p)) = true.
Proof. exact sum_cap_binding_exceeds_m. Qed.
Print Assumptions C10_sum_mode_cap_binding_exceeds.

(* quirk of the code that the bound has to live with: total_tol = nan, -inf or +inf in sum mode (all accepted by the
   parameter validation) makes total_tol**2 nan or +inf, so everything but the first value is discarded, whatever
   its weight -- there is no finite bound then *)
Theorem C10_sum_mode_nonfinite_tol_keeps_one : forall (p : params) (s : list Q),
  sum_trunc p = true -> s <> [] -> bond_ok (max_bond p) ->
  total_tol p = NaN \/ total_tol p = NegInf \/ total_tol p = PosInf ->
  select p s = (firstn 1 s, skipn 1 s).
Proof. exact sum_nonfinite_keeps_one. Qed.
Print Assumptions C10_sum_mode_nonfinite_tol_keeps_one.

(* value mode, finite rel_tol and total_tol: with thr = max(rel_tol*s[0], total_tol) (Python max on the float product)
   every discarded value is <= thr, their sum is <= (number discarded) * thr, and for a non-negative spectrum the squared
   error is <= (number discarded) * thr^2 and <= (sum of the discarded values)^2 -- again when max_bond_dim does not bind *)
Theorem C10_value_mode_error_bound : forall (p : params) (s0 : Q) (r : list Q) (rel tot : Q),
  sum_trunc p = false -> descending (s0 :: r) -> bond_ok (max_bond p) ->
  rel_tol p = Fin rel -> total_tol p = Fin tot ->
  let s := s0 :: r in
  let thr := if Qltb (rel * s0) tot then tot else rel * s0 in
  cap_not_binding (max_bond p) (length (filter (above (Fin thr)) s)) ->
  let d := discarded p s in
  Forall (fun x => x <= thr) d /\
  qsum d <= inject_Z (Z.of_nat (length d)) * thr /\
  (Forall (fun x => 0 <= x) s -> sq_error p s <= inject_Z (Z.of_nat (length d)) * (thr * thr) /\
                                 sq_error p s <= qsum d * qsum d).
Proof. exact value_error_bound. Qed.
Print Assumptions C10_value_mode_error_bound.

(* the same for any tolerances in terms of the cutoff c = max(rel_tol*s[0], total_tol) the code computes: nothing
   strictly above c is discarded; for a finite c = t every discarded value is <= t (total_tol = -inf: c = rel_tol*s[0]) *)
Theorem C10_value_mode_discarded_not_above : forall (p : params) (s0 : Q) (r : list Q),
  sum_trunc p = false -> descending (s0 :: r) -> bond_ok (max_bond p) ->
  let s := s0 :: r in
  let c := cutoff (rel_tol p) (total_tol p) s0 in
  cap_not_binding (max_bond p) (length (filter (above c) s)) ->
  Forall (fun x => above c x = false) (discarded p s) /\
  (forall t, c = Fin t -> Forall (fun x => x <= t) (discarded p s)) /\
  (forall rel, rel_tol p = Fin rel -> total_tol p = NegInf -> c = Fin (rel * s0)).
Proof. exact value_discarded_summary. Qed.
Print Assumptions C10_value_mode_discarded_not_above.

(* quirk: a nan cutoff (rel_tol = nan; rel_tol = +-inf with s[0] = 0) keeps one value and discards the rest unseen *)
Theorem C10_value_mode_nan_cutoff_keeps_one : forall (p : params) (s0 : Q) (r : list Q),
  sum_trunc p = false -> descending (s0 :: r) -> bond_ok (max_bond p) ->
  cutoff (rel_tol p) (total_tol p) s0 = NaN -> select p (s0 :: r) = (firstn 1 (s0 :: r), skipn 1 (s0 :: r)).
Proof. exact value_nan_keeps_one. Qed.
Print Assumptions C10_value_mode_nan_cutoff_keeps_one.

(* without renormalisation the result of truncate_singular_values is the split s = kept ++ discarded itself *)
Theorem C10_no_renorm_split : forall (p : params) (s : list Q),
  s <> [] -> renorm p = false -> descending s -> bond_ok (max_bond p) ->
  exists kept, truncate p s = Some (kept, discarded p s) /\ s = kept ++ discarded p s /\ kept <> [].
Proof. exact truncate_no_renorm_split. Qed.
Print Assumptions C10_no_renorm_split.

(* non-vacuity: the sum rule exactly at its boundary (discarded squared weight = total_tol^2 = 9/4, three values go),
   without normalisation, and = total_tol^2 * total weight = 9/25 * 25 with it; the value rule with a tie at the threshold 1 = max(1/2 * 2, 1/2) *)
Example C10_example_sum_error :
  let p := {| max_bond := BInf; rel_tol := Fin 0; total_tol := Fin (3#2);
              renorm := false; sum_trunc := true; sum_renorm := false |} in
  let s := [2; 1; 1; 1#2] in
  select p s = ([2], [1; 1; 1#2]) /\ Qeq_bool (sq_error p s) ((3#2) * (3#2)) = true /\
  sum_truncation_index s (total_tol p) (sum_renorm p) = 1%nat /\
  let p' := {| max_bond := BFin 3; rel_tol := Fin 0; total_tol := Fin (3#5);
               renorm := false; sum_trunc := true; sum_renorm := true |} in
  select p' [4; 3] = ([4], [3]) /\ Qeq_bool (sq_error p' [4; 3]) ((3#5) * (3#5) * sumsq [4; 3]) = true /\
  sum_truncation_index [4; 3] (total_tol p') (sum_renorm p') = 1%nat.
Proof. vm_compute. repeat split; reflexivity. Qed.
Print Assumptions C10_example_sum_error.

Example C10_example_value_error :
  let p := {| max_bond := BFin 2; rel_tol := Fin (1#2); total_tol := Fin (1#2);
              renorm := false; sum_trunc := false; sum_renorm := false |} in
  select p [2; 3#2; 1; 1; 1#4] = ([2; 3#2], [1; 1; 1#4]) /\
  length (filter (above (Fin 1)) [2; 3#2; 1; 1; 1#4]) = 2%nat /\
  Qeq_bool (sq_error p [2; 3#2; 1; 1; 1#4]) (33#16) = true.
Proof. vm_compute. repeat split; reflexivity. Qed.
Print Assumptions C10_example_value_error.
Local Close Scope Q_scope.

(* (C) accumulation along the literal operation trace (TTN/TruncError.v, TTN/TruncErrorProofs.v).  ABSTRACT setting:
   `V` any type of states, `den : store -> V` what a store denotes, `D` any type of distances with `dle`, `dzero`, `dadd`
   and `dist : V -> V -> D` satisfying `metric_laws` (dle reflexive and transitive, dadd monotone, dist x x <= 0,
   triangle inequality) -- nothing else: no norm, no square root, no field is constructed (instantiate D with the reals and
   dist with the 2-norm distance of the dense states to read the statements numerically).
   `is_trunc_split o`: o is a split of kind 2 (given bond dimension) -- the truncated SVD of
   contract_and_split_with_parent, the projector pair of recursive_truncation; `trunc_sum 0 + eps s ops`: the sum of
   `eps s_i o_i` over the accepted truncating splits o_i of the run, s_i the store o_i is applied to.
   `step_contract dle dist den eps s o s'` -- the CONTRACT per step (a hypothesis here, validated numerically by the dense
   oracle of harness/props/c10.py only end to end): a truncating split moves the denoted state by at most eps s o, every
   other operation (contraction, QR split, identity insertion, tensor access) does not move it.  By (A) the contract holds
   for a truncating split with eps = (square root of) the discarded squared weight of the spectrum of the tensor being split
   as soon as the rest of the network acts on that tensor as an isometry / co-isometry, i.e. the network is in canonical form
   with the centre at the node that is split: svd_truncation moves the centre there before every split, so for it the
   contract is the correctness of move_orthogonalization_center (C03) on a tree whose recorded centre is a true centre -- it
   FAILS for a tree whose orthogonality_center_id is stale (tensors replaced behind the bookkeeping), where the global change
   can exceed the local discarded weight.  recursive_truncation is in that gauge only at the root; below it the environment
   of a split has Lipschitz constant <= the largest singular value of the projected parent tensors (<= the norm of the
   state), which is where the factor max(1, norm of the state) of the property text enters: `..._scaled` below. *)
Local Close Scope Q_scope.
From PTN Require Import TTN.TruncError TTN.TruncErrorProofs.

Theorem C10_svd_truncation_error_accumulates :
  forall (V D : Type) (dle : D -> D -> Prop) (dzero : D) (dadd : D -> D -> D) (dist : V -> V -> D),
  metric_laws dle dzero dadd dist ->
  forall (den : store -> V) (eps : store -> op -> D) (kd : id -> nat) (rid : id) (cs cs' : cstore),
  wf (fst cs) -> aget rid (nodes (fst cs)) = None -> svd_truncation kd rid cs = Some cs' ->
  along (step_contract dle dist den eps) (fst cs) (svd_truncation_ops kd rid cs) ->
  dle (dist (den (fst cs)) (den (fst cs'))) (trunc_sum dzero dadd eps (fst cs) (svd_truncation_ops kd rid cs)).
Proof. exact (@svd_truncation_error). Qed.
Print Assumptions C10_svd_truncation_error_accumulates.

Theorem C10_recursive_truncation_error_accumulates :
  forall (V D : Type) (dle : D -> D -> Prop) (dzero : D) (dadd : D -> D -> D) (dist : V -> V -> D),
  metric_laws dle dzero dadd dist ->
  forall (den : store -> V) (eps : store -> op -> D) (tmp : tmpids) (kd : id -> nat) (rid : id) (cs cs' : cstore),
  wf (fst cs) -> aget rid (nodes (fst cs)) = None -> tmp_fresh tmp (fst cs) -> tmp_inj tmp ->
  recursive_truncation tmp kd rid cs = Some cs' ->
  along (step_contract dle dist den eps) (fst cs) (recursive_truncation_ops tmp kd rid cs) ->
  dle (dist (den (fst cs)) (den (fst cs')))
      (trunc_sum dzero dadd eps (fst cs) (recursive_truncation_ops tmp kd rid cs)).
Proof. exact (@recursive_truncation_error). Qed.
Print Assumptions C10_recursive_truncation_error_accumulates.

(* how many terms the bound for svd_truncation has: the run performs exactly one truncating split per node of
   update_path[:-1] (`ntrunc` = number of kind-2 splits of an operation list), i.e. by C10_svd_path_coverage exactly one per
   (child, parent) bond of the tree *)
Theorem C10_svd_truncation_one_truncating_split_per_bond : forall (kd : id -> nat) (rid : id) (cs cs' : cstore),
  wf (fst cs) -> aget rid (nodes (fst cs)) = None -> svd_truncation kd rid cs = Some cs' ->
  ntrunc (svd_truncation_ops kd rid cs) = length (removelast (linearise (fst cs))).
Proof. exact svd_truncation_ntrunc. Qed.
Print Assumptions C10_svd_truncation_one_truncating_split_per_bond.

(* the form of the property text, "sum of the discarded weights times max(1, norm of the state)": `scale` is the
   multiplication by that constant -- any superadditive map D -> D with 0 <= scale 0 *)
Theorem C10_recursive_truncation_error_accumulates_scaled :
  forall (V D : Type) (dle : D -> D -> Prop) (dzero : D) (dadd : D -> D -> D) (dist : V -> V -> D),
  metric_laws dle dzero dadd dist ->
  forall (den : store -> V) (scale : D -> D) (eps : store -> op -> D) (tmp : tmpids) (kd : id -> nat) (rid : id) (cs cs' : cstore),
  (forall a b, dle (dadd (scale a) (scale b)) (scale (dadd a b))) -> dle dzero (scale dzero) ->
  wf (fst cs) -> aget rid (nodes (fst cs)) = None -> tmp_fresh tmp (fst cs) -> tmp_inj tmp ->
  recursive_truncation tmp kd rid cs = Some cs' ->
  along (step_contract dle dist den (fun s o => scale (eps s o))) (fst cs) (recursive_truncation_ops tmp kd rid cs) ->
  dle (dist (den (fst cs)) (den (fst cs')))
      (scale (trunc_sum dzero dadd eps (fst cs) (recursive_truncation_ops tmp kd rid cs))).
Proof. exact (@recursive_truncation_error_scaled). Qed.
Print Assumptions C10_recursive_truncation_error_accumulates_scaled.

(* the general principle, for any run of edit operations and any bound per accepted step *)
Theorem C10_error_accumulates_along_a_run :
  forall (V D : Type) (dle : D -> D -> Prop) (dzero : D) (dadd : D -> D -> D) (dist : V -> V -> D),
  metric_laws dle dzero dadd dist ->
  forall (den : store -> V) (w : store -> op -> D) (ops : list op) (s s' : store),
  run s ops = (s', map (fun _ => true) ops) /\ ops_ok s ops /\ forallb is_edit_op ops = true ->
  along (fun s o s' => dle (dist (den s) (den s')) (w s o)) s ops ->
  dle (dist (den s) (den s')) (run_sum dzero dadd w s ops).
Proof. exact (@accumulate_along). Qed.
Print Assumptions C10_error_accumulates_along_a_run.

(* one node of recursive_truncation: its projectors are all computed from the SAME (not yet projected) tensor, so the
   per-split errors are distances from the untruncated state; maps that do not increase distances (orthogonal projectors on
   different legs), applied one after the other, move x by at most the sum of what each of them moves x *)
Theorem C10_nonexpansive_steps_accumulate :
  forall (V D : Type) (dle : D -> D -> Prop) (dzero : D) (dadd : D -> D -> D) (dist : V -> V -> D),
  metric_laws dle dzero dadd dist ->
  forall (fs : list (V -> V)) (x : V),
  Forall (fun f => forall y z, dle (dist (f y) (f z)) (dist y z)) fs ->
  dle (dist x (fold_left (fun y f => f y) fs x)) (fold_left (fun a f => dadd (dist x (f x)) a) fs dzero).
Proof. exact (@nonexpansive_composition). Qed.
Print Assumptions C10_nonexpansive_steps_accumulate.

(* non-vacuity: distances in nat, a store "denotes" the number of kind-2 kernel definitions it has recorded: on the concrete
   svd_truncation and recursive_truncation runs of the examples above every step satisfies the contract with eps = 1, the
   state does move (by 2), and the bound is 2 *)
Example C10_example_accumulation :
  metric_laws le 0 Nat.add ex_dist /\
  (along (step_contract le ex_dist ex_den (fun _ _ => 1)) (fst exs_cs) (svd_truncation_ops exs_kd 99 exs_cs) /\
   trunc_sum 0 Nat.add (fun _ _ => 1) (fst exs_cs) (svd_truncation_ops exs_kd 99 exs_cs) = 2 /\
   (exists cs', svd_truncation exs_kd 99 exs_cs = Some cs' /\ ex_dist (ex_den (fst exs_cs)) (ex_den (fst cs')) = 2)) /\
  (along (step_contract le ex_dist ex_den (fun _ _ => 1)) (fst exr_cs) (recursive_truncation_ops exr_tmp exr_kd 99 exr_cs) /\
   trunc_sum 0 Nat.add (fun _ _ => 1) (fst exr_cs) (recursive_truncation_ops exr_tmp exr_kd 99 exr_cs) = 2 /\
   (exists cs', recursive_truncation exr_tmp exr_kd 99 exr_cs = Some cs' /\ ex_dist (ex_den (fst exr_cs)) (ex_den (fst cs')) = 2)).
Proof. exact (conj ex_metric_laws (conj ex_svd_contract ex_rec_contract)). Qed.
Print Assumptions C10_example_accumulation.

(* -------------------------------------------------------------------------------------------------------- *)
(* (A) ONE truncated singular value splitting: squared Frobenius error = discarded squared weight, exactly
   (Trunc/ErrorAlg.v, Trunc/ErrorAlgProofs.v; MathComp matrices, kept inside a module so that its notations do not
   leak).  A tensor split along a leg bipartition is the (u-legs x v-legs) matrix A = U diag(s) Vh that numpy's svd
   factorises; `truncated_tensor_svd` returns u[..., :k], s[:k], vh[:k, ...], whose product is Ak below (r = k + d,
   d values discarded).  The only hypotheses are the SVD's own: U^T U = 1 and Vh Vh^T = 1 (nothing about the order,
   sign or distinctness of the s_j, any shape, any k).  Scalars: ANY commutative ring with transposes standing for
   adjoints (exact for real tensors), and any numClosedFieldType (e.g. the algebraic complex numbers) with conjugate
   transposes `^*t`; both are instances of one proof over a commutative ring with a conjugation morphism f
   (`adj f A` = transpose of the f-image, `frob2 f A = \tr (adj f A *m A)`, `weight2 f s = \sum_j f(s_j) s_j`).
   No square root is taken: the statements are about SQUARED norms. *)
From mathcomp Require all_ssreflect all_algebra.
From PTN Require Trunc.ErrorAlg Trunc.ErrorAlgProofs.
Module C10_error_algebra.
Import mathcomp.ssreflect.all_ssreflect mathcomp.algebra.all_algebra.
Import GRing.Theory Num.Theory.
Import PTN.Trunc.ErrorAlg PTN.Trunc.ErrorAlgProofs.
Local Open Scope ring_scope.

(* real reading, the shape of the code: sliced factors *)
Theorem C10_split_error_exact : forall (R : comRingType) (m k d n : nat)
    (U : 'M[R]_(m, k + d)) (s : 'rV[R]_(k + d)) (V : 'M[R]_(k + d, n)),
  U^T *m U = 1%:M -> V *m V^T = 1%:M ->
  let A := U *m diag_mx s *m V in
  let Ak := lsubmx U *m diag_mx (lsubmx s) *m usubmx V in
  \tr ((A - Ak)^T *m (A - Ak)) = \sum_j (rsubmx s) 0 j ^+ 2.
Proof. exact trunc_error_transpose. Qed.
Print Assumptions C10_split_error_exact.

(* the same with the cut k as a number: zeroing the diagonal entries of index >= k; every k, every shape *)
Theorem C10_split_error_exact_zeroed : forall (R : comRingType) (m r n : nat)
    (U : 'M[R]_(m, r)) (s : 'rV[R]_r) (V : 'M[R]_(r, n)) (k : nat),
  U^T *m U = 1%:M -> V *m V^T = 1%:M ->
  let A := U *m diag_mx s *m V in
  let Ak := U *m diag_mx (\row_j (if (j < k)%N then s 0 j else 0)) *m V in
  \tr ((A - Ak)^T *m (A - Ak)) = \sum_(j < r | (k <= j)%N) s 0 j ^+ 2.
Proof. exact trunc_error_transpose_zeroed. Qed.
Print Assumptions C10_split_error_exact_zeroed.

(* slicing the factors IS zeroing the tail of the spectrum (no hypothesis) *)
Theorem C10_sliced_product_is_zeroed_product : forall (R : comRingType) (m k d n : nat)
    (U : 'M[R]_(m, k + d)) (s : 'rV[R]_(k + d)) (V : 'M[R]_(k + d, n)),
  lsubmx U *m diag_mx (lsubmx s) *m usubmx V = U *m diag_mx (\row_j (if (j < k)%N then s 0 j else 0)) *m V.
Proof. exact (fun R => @svd_trunc_zeroed R). Qed.
Print Assumptions C10_sliced_product_is_zeroed_product.

(* contr_truncated_svd_splitting: the singular values absorbed into V (a = 1, b = s), into U (a = s, b = 1) or
   half into each (a = b with a_j^2 = s_j) -- the product of the two returned tensors is the same U diag(s) Vh *)
Theorem C10_absorbed_singular_values : forall (R : comRingType) (m r n : nat)
    (U : 'M[R]_(m, r)) (a b s : 'rV[R]_r) (V : 'M[R]_(r, n)),
  (forall j, a 0 j * b 0 j = s 0 j) -> (U *m diag_mx a) *m (diag_mx b *m V) = U *m diag_mx s *m V.
Proof. exact (fun R => @contr_prod R). Qed.
Print Assumptions C10_absorbed_singular_values.

(* complex reading *)
Theorem C10_split_error_exact_complex : forall (C : numClosedFieldType) (m k d n : nat)
    (U : 'M[C]_(m, k + d)) (s : 'rV[C]_(k + d)) (V : 'M[C]_(k + d, n)),
  (map_mx conjC U)^T *m U = 1%:M -> V *m (map_mx conjC V)^T = 1%:M ->
  let A := U *m diag_mx s *m V in
  let Ak := lsubmx U *m diag_mx (lsubmx s) *m usubmx V in
  \tr ((map_mx conjC (A - Ak))^T *m (A - Ak)) = \sum_j `|(rsubmx s) 0 j| ^+ 2.
Proof. exact trunc_error_complex. Qed.
Print Assumptions C10_split_error_exact_complex.

(* centre gauge: when the rest of the network acts on the split tensor as an isometry on the row side and a
   co-isometry on the column side (what the canonical form with the centre at the split node provides), the
   squared change of the WHOLE state equals the local one *)
Theorem C10_split_error_in_isometric_context : forall (R : comRingType) (p q m k d n : nat)
    (Wl : 'M[R]_(p, m)) (Wr : 'M[R]_(n, q)) (U : 'M[R]_(m, k + d)) (s : 'rV[R]_(k + d)) (V : 'M[R]_(k + d, n)),
  Wl^T *m Wl = 1%:M -> Wr *m Wr^T = 1%:M -> U^T *m U = 1%:M -> V *m V^T = 1%:M ->
  let A := U *m diag_mx s *m V in
  let Ak := lsubmx U *m diag_mx (lsubmx s) *m usubmx V in
  let E := Wl *m A *m Wr - Wl *m Ak *m Wr in
  \tr (E^T *m E) = \sum_j (rsubmx s) 0 j ^+ 2.
Proof. exact trunc_error_transpose_context. Qed.
Print Assumptions C10_split_error_in_isometric_context.

Theorem C10_split_error_in_isometric_context_complex : forall (C : numClosedFieldType) (p q m k d n : nat)
    (Wl : 'M[C]_(p, m)) (Wr : 'M[C]_(n, q)) (U : 'M[C]_(m, k + d)) (s : 'rV[C]_(k + d)) (V : 'M[C]_(k + d, n)),
  (map_mx conjC Wl)^T *m Wl = 1%:M -> Wr *m (map_mx conjC Wr)^T = 1%:M ->
  (map_mx conjC U)^T *m U = 1%:M -> V *m (map_mx conjC V)^T = 1%:M ->
  let A := U *m diag_mx s *m V in
  let Ak := lsubmx U *m diag_mx (lsubmx s) *m usubmx V in
  let E := Wl *m A *m Wr - Wl *m Ak *m Wr in
  \tr ((map_mx conjC E)^T *m E) = \sum_j `|(rsubmx s) 0 j| ^+ 2.
Proof. exact trunc_error_complex_context. Qed.
Print Assumptions C10_split_error_in_isometric_context_complex.

(* the projector pair of recursive_truncation: P = u[..., :k] of the SVD of the node tensor matricised (child leg) x (other
   legs); the inserted pair (conj(P), P^T) multiplies that tensor by P P^dagger on the child leg.  The result IS the product
   of the truncated factors, so the squared change is again the discarded squared weight *)
Theorem C10_projector_pair_error_exact : forall (R : comRingType) (m k d n : nat)
    (U : 'M[R]_(m, k + d)) (s : 'rV[R]_(k + d)) (V : 'M[R]_(k + d, n)),
  U^T *m U = 1%:M -> V *m V^T = 1%:M ->
  let A := U *m diag_mx s *m V in
  let P := lsubmx U in
  P *m P^T *m A = P *m diag_mx (lsubmx s) *m usubmx V /\
  \tr ((A - P *m P^T *m A)^T *m (A - P *m P^T *m A)) = \sum_j (rsubmx s) 0 j ^+ 2.
Proof. exact projector_error_transpose. Qed.
Print Assumptions C10_projector_pair_error_exact.

Theorem C10_projector_pair_error_exact_complex : forall (C : numClosedFieldType) (m k d n : nat)
    (U : 'M[C]_(m, k + d)) (s : 'rV[C]_(k + d)) (V : 'M[C]_(k + d, n)),
  (map_mx conjC U)^T *m U = 1%:M -> V *m (map_mx conjC V)^T = 1%:M ->
  let A := U *m diag_mx s *m V in
  let P := lsubmx U in
  P *m (map_mx conjC P)^T *m A = P *m diag_mx (lsubmx s) *m usubmx V /\
  \tr ((map_mx conjC (A - P *m (map_mx conjC P)^T *m A))^T *m (A - P *m (map_mx conjC P)^T *m A))
    = \sum_j `|(rsubmx s) 0 j| ^+ 2.
Proof. exact projector_error_complex. Qed.
Print Assumptions C10_projector_pair_error_exact_complex.

(* over the complex numbers, where squared norms are ordered: without renormalisation a truncation never lengthens the tensor *)
Theorem C10_truncation_never_lengthens : forall (C : numClosedFieldType) (m k d n : nat)
    (U : 'M[C]_(m, k + d)) (s : 'rV[C]_(k + d)) (V : 'M[C]_(k + d, n)),
  (map_mx conjC U)^T *m U = 1%:M -> V *m (map_mx conjC V)^T = 1%:M ->
  let A := U *m diag_mx s *m V in
  let Ak := lsubmx U *m diag_mx (lsubmx s) *m usubmx V in
  \tr ((map_mx conjC A)^T *m A) = \tr ((map_mx conjC Ak)^T *m Ak) + \sum_j `|(rsubmx s) 0 j| ^+ 2 /\
  \tr ((map_mx conjC Ak)^T *m Ak) <= \tr ((map_mx conjC A)^T *m A).
Proof. exact trunc_norm_le_complex. Qed.
Print Assumptions C10_truncation_never_lengthens.

(* the common generalisation, and Pythagoras: |A|^2 = |Ak|^2 + discarded weight, |Ak|^2 = kept weight (so a
   truncation without renormalisation never lengthens the tensor) *)
Theorem C10_split_error_exact_general : forall (R : comRingType) (f : {rmorphism R -> R}) (m k d n : nat)
    (U : 'M[R]_(m, k + d)) (s : 'rV[R]_(k + d)) (V : 'M[R]_(k + d, n)),
  adj f U *m U = 1%:M -> V *m adj f V = 1%:M ->
  frob2 f (svd_prod U s V - svd_trunc U s V) = weight2 f (rsubmx s) /\
  frob2 f (svd_prod U s V) = frob2 f (svd_trunc U s V) + weight2 f (rsubmx s) /\
  frob2 f (svd_trunc U s V) = weight2 f (lsubmx s).
Proof.
  exact (fun R f m k d n U s V hU hV =>
           conj (@trunc_error_sliced R f m k d n U s V hU hV) (@trunc_pythagoras R f m k d n U s V hU hV)).
Qed.
Print Assumptions C10_split_error_exact_general.

(* non-vacuity: a 3 x 2 isometry, a 2 x 4 co-isometry, s = (3, 2) over the integers, one value kept: the hypotheses
   hold, the squared error is 2^2 and the truncation does change the tensor *)
Example C10_example_split_error :
  (ex_U^T *m ex_U = 1%:M /\ ex_V *m ex_V^T = 1%:M) /\
  let A := ex_U *m diag_mx ex_s *m ex_V in
  let Ak := lsubmx ex_U *m diag_mx (lsubmx ex_s) *m usubmx ex_V in
  \tr ((A - Ak)^T *m (A - Ak)) = 4 /\ A != Ak.
Proof. exact (conj (conj ex_U_iso ex_V_iso) ex_error). Qed.
Print Assumptions C10_example_split_error.
End C10_error_algebra.
(* [/ext-C10E] *)
