(* Property C10 — truncation keeps the right singular values.  Statements only; each is closed
   by `exact`.  Model: Trunc/Select.v (truncate_singular_values and its helpers).
   `select p s` = (new_s before rescaling, s_trunc); `truncate p s` adds the renormalisation
   and the ValueError on an empty spectrum (renormalise as repaired in db7fff1).  `descending` = non-increasing. *)
From Coq Require Import QArith List Bool Arith ZArith Sorted.
From PTN Require Import Trunc.Select Trunc.SelectProofs.
Import ListNotations.
Local Open Scope Q_scope.

(* the kept part is a non-empty prefix of the spectrum, the second component is the complementary
   suffix, and the prefix is no longer than max_bond_dim (an int >= 1, or inf) *)
Theorem C10_trunc_prefix : forall (p : params) (s : list Q),
  s <> [] -> descending s -> bond_ok (max_bond p) ->
  let k := length (fst (select p s)) in
  (1 <= k <= length s)%nat /\
  fst (select p s) = firstn k s /\ snd (select p s) = skipn k s /\
  (forall m, max_bond p = BFin m -> (k <= m)%nat).
Proof. exact select_spec. Qed.
Print Assumptions C10_trunc_prefix.

(* number of kept values = max 1 (min max_bond_dim |s_temp|), for every non-empty list *)
Theorem C10_trunc_length : forall (p : params) (s : list Q),
  s <> [] -> bond_ok (max_bond p) ->
  length (fst (select p s)) = Nat.max 1 (bmin (max_bond p) (length (s_temp p s))).
Proof. exact select_length. Qed.
Print Assumptions C10_trunc_length.

(* value rule: with c = max(rel_tol*s[0], total_tol) (Python max, float product) and
   n = #{x in s | x > c}, the kept values are the first max 1 (min max_bond_dim n) ones, and the
   n values above c are exactly the first n of the descending spectrum *)
Theorem C10_value_rule : forall (p : params) (s0 : Q) (r : list Q),
  sum_trunc p = false -> descending (s0 :: r) -> bond_ok (max_bond p) ->
  let s := s0 :: r in
  let c := cutoff (rel_tol p) (total_tol p) s0 in
  let n := length (filter (above c) s) in
  let k := Nat.max 1 (bmin (max_bond p) n) in
  select p s = (firstn k s, skipn k s) /\
  Forall (fun x => above c x = true) (firstn n s) /\
  Forall (fun x => above c x = false) (skipn n s).
Proof. exact value_rule. Qed.
Print Assumptions C10_value_rule.

(* the cutoff in the terms of the property text: x > max(a, total_tol) iff x > a and x > total_tol
   (total_tol not nan), where a = rel_tol * s[0] is the float product *)
Theorem C10_value_threshold : forall (rel tot : ext) (s0 x : Q), tot <> NaN ->
  above (cutoff rel tot s0) x = above (ext_mul_q rel s0) x && above tot x.
Proof. exact above_cutoff. Qed.
Print Assumptions C10_value_threshold.

Theorem C10_threshold_cases : forall (t r s0 x : Q),
  (above (Fin t) x = true <-> t < x) /\ above NegInf x = true /\ above PosInf x = false /\
  above NaN x = false /\
  ext_mul_q (Fin r) s0 = Fin (r * s0) /\
  (0 < s0 -> ext_mul_q NegInf s0 = NegInf /\ ext_mul_q PosInf s0 = PosInf) /\
  (s0 == 0 -> ext_mul_q NegInf s0 = NaN /\ ext_mul_q PosInf s0 = NaN).
Proof. exact threshold_cases. Qed.
Print Assumptions C10_threshold_cases.

(* sum rule: K = _sum_truncation_index; the tail s[j:] has weight > total_tol**2 exactly when
   j < K, i.e. s[K:] is the longest tail whose squared weight (divided by the total squared
   weight when sum_renorm) does not exceed total_tol**2; then the same clamp and fallback.
   No ordering assumption is needed. *)
Theorem C10_sum_rule : forall (p : params) (s : list Q),
  sum_trunc p = true -> s <> [] -> bond_ok (max_bond p) ->
  let K := sum_truncation_index s (total_tol p) (sum_renorm p) in
  let k := Nat.max 1 (bmin (max_bond p) K) in
  select p s = (firstn k s, skipn k s) /\ (K <= length s)%nat /\
  (sumsq s == 0 -> K = 0%nat) /\
  (~ sumsq s == 0 -> forall j,
      ext_gtb (Fin (tail_weight s (sum_renorm p) j)) (ext_sq (total_tol p)) = true <-> (j < K)%nat).
Proof. exact sum_rule. Qed.
Print Assumptions C10_sum_rule.

(* an all-zero spectrum keeps exactly its first value, in both modes, whatever the tolerances *)
Theorem C10_all_zero : forall (p : params) (s : list Q),
  s <> [] -> Forall (fun x => x == 0) s -> bond_ok (max_bond p) ->
  select p s = (firstn 1 s, skipn 1 s).
Proof. exact all_zero_keeps_one. Qed.
Print Assumptions C10_all_zero.

(* renormalisation: the kept prefix times (sum s / sum kept), under the guard sum kept <> 0;
   the rescaled vector then has the l1 weight of the whole spectrum *)
Theorem C10_renorm_scales : forall (p : params) (s : list Q), s <> [] -> renorm p = true ->
  let kept := fst (select p s) in
  ~ qsum kept == 0 ->
  truncate p s = Some (map (fun x => x * qsum s / qsum kept) kept, snd (select p s)).
Proof. exact renorm_scales. Qed.
Print Assumptions C10_renorm_scales.

Theorem C10_renorm_sum : forall (s kept : list Q), ~ qsum kept == 0 ->
  qsum (map (fun x => x * qsum s / qsum kept) kept) == qsum s.
Proof. exact renorm_preserves_sum. Qed.
Print Assumptions C10_renorm_sum.

(* when the kept values sum to 0 there is nothing to rescale: they are returned unchanged (no 0/0);
   on a descending non-negative spectrum this happens only for the all-zero spectrum *)
Theorem C10_renorm_guard : forall (p : params) (s : list Q), s <> [] -> renorm p = true ->
  qsum (fst (select p s)) == 0 -> truncate p s = Some (fst (select p s), snd (select p s)).
Proof. exact renorm_zero. Qed.
Print Assumptions C10_renorm_guard.

Theorem C10_renorm_guard_zero_only : forall (p : params) (s : list Q),
  s <> [] -> descending s -> Forall (fun x => 0 <= x) s -> bond_ok (max_bond p) ->
  qsum (fst (select p s)) == 0 -> Forall (fun x => x == 0) s.
Proof. exact kept_sum_zero_all_zero. Qed.
Print Assumptions C10_renorm_guard_zero_only.

Theorem C10_no_renorm : forall (p : params) (s : list Q), s <> [] -> renorm p = false ->
  truncate p s = Some (fst (select p s), snd (select p s)).
Proof. exact no_renorm. Qed.
Print Assumptions C10_no_renorm.

(* renormalisation never changes the number of values, and never touches the second component *)
Theorem C10_renorm_length : forall (p : params) (s : list Q), s <> [] ->
  exists k d, truncate p s = Some (k, d) /\ length k = length (fst (select p s)) /\ d = snd (select p s).
Proof. exact truncate_length. Qed.
Print Assumptions C10_renorm_length.

(* the only rejected spectrum is the empty one *)
Theorem C10_empty_rejected : forall (p : params) (s : list Q), truncate p s = None <-> s = [].
Proof. exact truncate_none. Qed.
Print Assumptions C10_empty_rejected.

(* parameter validation: accepted iff max_bond_dim is inf or a positive int and each tolerance
   is nan, -inf, +inf or a finite value >= 0; a non-int non-inf max_bond_dim is a TypeError *)
Theorem C10_params_validation : forall (m : mbd_arg) (rel tot : ext),
  validate m rel tot = Accept <->
  (m = MInf \/ exists z, m = MInt z /\ (0 < z)%Z) /\ tol_ok rel /\ tol_ok tot.
Proof. exact validate_accept. Qed.
Print Assumptions C10_params_validation.

Theorem C10_params_type_error : forall (m : mbd_arg) (rel tot : ext),
  validate m rel tot = RaiseType <-> m = MOther.
Proof. exact validate_type_error. Qed.
Print Assumptions C10_params_type_error.

Theorem C10_params_bond_ok : forall (m : mbd_arg) (rel tot : ext),
  validate m rel tot = Accept -> exists b, bond_of m = Some b /\ bond_ok b.
Proof. exact validate_bond_ok. Qed.
Print Assumptions C10_params_bond_ok.

(* scalar step of the error bound: for non-negative discarded values the Frobenius weight is
   at most the square of their sum *)
Theorem C10_discarded_weight : forall l : list Q, Forall (fun x => 0 <= x) l ->
  sumsq l <= qsum l * qsum l /\ 0 <= qsum l.
Proof. exact sumsq_le_sq_sum. Qed.
Print Assumptions C10_discarded_weight.

(* non-vacuity: ties at the cutoff, the clamp, the fallback, the sum rule at an exact boundary *)
Example C10_example_value :
  select {| max_bond := BFin 3; rel_tol := Fin (1#2); total_tol := NegInf;
            renorm := false; sum_trunc := false; sum_renorm := true |} [2; 2; 1; 1; 0]
  = ([2; 2], [1; 1; 0]).
Proof. vm_compute. reflexivity. Qed.
Print Assumptions C10_example_value.

Example C10_example_sum :
  truncate {| max_bond := BInf; rel_tol := Fin 0; total_tol := Fin (1#2);
              renorm := true; sum_trunc := true; sum_renorm := true |} [1; 1; 1; 1]
  = Some ([4#3; 4#3; 4#3], [1]).
Proof. vm_compute. reflexivity. Qed.
Print Assumptions C10_example_sum.

Example C10_example_zero :
  truncate {| max_bond := BInf; rel_tol := Fin 0; total_tol := Fin 0;
              renorm := true; sum_trunc := true; sum_renorm := true |} [0; 0]
  = Some ([0], [0]).
Proof. vm_compute. reflexivity. Qed.
Print Assumptions C10_example_zero.

(* ======================================================================================================== *)
(* Tree level: recursive_truncation.py and svd_truncation.py as programs over the symbolic store
   (model TTN/TruncTree.v, proofs TTN/TruncTreeProofs.v).  `kd c` is the number of singular values kept on
   the bond above node c (kernel data, an arbitrary input here); `rid` stands for the uuid-named
   temporaries, `tmp j c n` for the bond-named ones of recursive_truncation.  `trunc_hyps` is the executable
   hypothesis checker (store invariant wfb, rid and the bond-named temporaries are not identifiers of the tree);
   `tmp_inj`: the temporaries of different bonds / roles differ.  `view s k` = (parent of k, dimension of the
   bond above k), `bond_dim s k` reads that dimension off the raw tensor and leg permutation. *)
Local Close Scope Q_scope.
From PTN Require Import TTN.Store TTN.Canon TTN.Inv TTN.CanonTree TTN.TruncTree TTN.TruncTreeProofs.

(* (a) recursive_truncation: the result satisfies the invariant again, has the same identifiers, parents and
   children sets, the same root; every temporary identifier is gone; the recorded centre is the root *)
Theorem C10_rec_structure : forall (tmp : tmpids) (kd : id -> nat) (rid : id) (cs cs' : cstore),
  trunc_hyps tmp rid cs = true -> tmp_inj tmp -> recursive_truncation tmp kd rid cs = Some cs' ->
  trunc_hyps tmp rid cs' = true /\ same_tree (nodes (fst cs)) (nodes (fst cs')) /\
  root (fst cs') = root (fst cs) /\ snd cs' = root (fst cs).
Proof. exact rec_structure. Qed.
Print Assumptions C10_rec_structure.

(* (b) every (child, parent) bond ends with exactly the supplied dimension *)
Theorem C10_rec_bonds : forall (tmp : tmpids) (kd : id -> nat) (rid : id) (cs cs' : cstore),
  trunc_hyps tmp rid cs = true -> tmp_inj tmp -> recursive_truncation tmp kd rid cs = Some cs' ->
  forall k nk q, aget k (nodes (fst cs)) = Some nk -> parent nk = Some q -> bond_dim (fst cs') k = kd k.
Proof. exact rec_bonds. Qed.
Print Assumptions C10_rec_bonds.

(* ... hence within [1, max_bond_dim] when the dimensions are what the scalar rule keeps of non-empty
   descending spectra (C10_trunc_prefix) *)
Theorem C10_rec_bonds_select : forall (tmp : tmpids) (p : params) (spectra : id -> list Q) (rid : id) (cs cs' : cstore),
  trunc_hyps tmp rid cs = true -> tmp_inj tmp -> bond_ok (max_bond p) ->
  (forall c, spectra c <> [] /\ descending (spectra c)) ->
  recursive_truncation tmp (fun c => length (fst (select p (spectra c)))) rid cs = Some cs' ->
  forall k nk q, aget k (nodes (fst cs)) = Some nk -> parent nk = Some q ->
    1 <= bond_dim (fst cs') k <= length (spectra k) /\
    forall m, max_bond p = BFin m -> bond_dim (fst cs') k <= m.
Proof. exact rec_bonds_select. Qed.
Print Assumptions C10_rec_bonds_select.

(* the recursion below one node: parents unchanged; the bond above every proper descendant of n gets the
   supplied dimension; every other bond (and node) keeps its view *)
Theorem C10_truncate_node_effect : forall (tmp : tmpids) (kd : id -> nat), tmp_inj tmp ->
  forall (f : nat) (s : store) (n : id) (s' : store), wf s -> tmp_fresh tmp s ->
  truncate_node f tmp kd s n = Some s' ->
  wf s' /\ root s' = root s /\ (forall k, pmap s' k = pmap s k) /\
  forall k, (desc (pmap s) n k /\ exists q, view s' k = Some (Some q, kd k)) \/
            (~ desc (pmap s) n k /\ view s' k = view s k).
Proof. exact truncate_node_spec. Qed.
Print Assumptions C10_truncate_node_effect.

(* (c) every (child, parent) bond is truncated exactly once: truncate_node_tr is truncate_node with the list
   of bonds (child identifiers) in the order their projector is computed; started at the root the list has no
   repetition and contains exactly the nodes that have a parent *)
Theorem C10_rec_trace_erase : forall f tmp kd s n,
  option_map fst (truncate_node_tr f tmp kd s n) = truncate_node f tmp kd s n.
Proof. exact rec_trace_erase. Qed.
Print Assumptions C10_rec_trace_erase.

Theorem C10_rec_trace_coverage : forall (tmp : tmpids) (kd : id -> nat) (f : nat) (s : store) (r : id) (s' : store) (tr : list id),
  wfb s = true -> tmp_fresh tmp s -> tmp_inj tmp -> root s = Some r ->
  truncate_node_tr f tmp kd s r = Some (s', tr) ->
  NoDup tr /\ forall k, In k tr <-> exists nk q, aget k (nodes s) = Some nk /\ parent nk = Some q.
Proof. exact rec_trace_coverage. Qed.
Print Assumptions C10_rec_trace_coverage.

(* the fuel `number of nodes` of truncate_node suffices: more fuel never changes the result *)
Theorem C10_rec_fuel : forall (tmp : tmpids) (kd : id -> nat) (s : store) (r : id) (f : nat),
  wfb s = true -> tmp_fresh tmp s -> tmp_inj tmp -> root s = Some r ->
  length (nodes s) <= f -> truncate_node f tmp kd s r = truncate_node (length (nodes s)) tmp kd s r.
Proof. exact rec_fuel. Qed.
Print Assumptions C10_rec_fuel.

(* svd_truncation: invariant, identifiers, parents, children sets and root preserved, temporary gone; the
   recorded centre is the parent of the last node handled *)
Theorem C10_svd_structure : forall (kd : id -> nat) (rid : id) (cs cs' : cstore),
  wfb (fst cs) = true -> amem rid (nodes (fst cs)) = false -> svd_truncation kd rid cs = Some cs' ->
  wfb (fst cs') = true /\ amem rid (nodes (fst cs')) = false /\
  same_tree (nodes (fst cs)) (nodes (fst cs')) /\ root (fst cs') = root (fst cs) /\
  match last_opt (removelast (linearise (fst cs))) with
  | None => cs' = cs
  | Some n => exists nk p, aget n (nodes (fst cs)) = Some nk /\ parent nk = Some p /\ snd cs' = Some p
  end.
Proof. exact svd_structure. Qed.
Print Assumptions C10_svd_structure.

(* one contract_and_split_with_parent: the bond above the node gets exactly the supplied dimension, the parent
   becomes the recorded centre, every other node keeps its parent and its bond dimension *)
Theorem C10_svd_step_bond : forall (kd : id -> nat) (rid : id) (cs : cstore) (n : id) (cs' : cstore),
  wfb (fst cs) = true -> amem rid (nodes (fst cs)) = false -> contract_and_split kd rid cs n = Some cs' ->
  wfb (fst cs') = true /\ root (fst cs') = root (fst cs) /\
  (exists nk p, aget n (nodes (fst cs)) = Some nk /\ parent nk = Some p /\ snd cs' = Some p /\
                view (fst cs') n = Some (Some p, kd n)) /\
  bond_dim (fst cs') n = kd n /\
  forall k, k <> n -> view (fst cs') k = view (fst cs) k.
Proof. exact svd_step_bond. Qed.
Print Assumptions C10_svd_step_bond.

(* (c) for svd_truncation: the path update_path[:-1] contains every node that has a parent exactly once *)
Theorem C10_svd_path_coverage : forall (s : store) (r : id), wfb s = true -> root s = Some r ->
  exists T, linearise s = T ++ [r] /\ removelast (linearise s) = T /\ NoDup T /\
            forall k, In k T <-> exists nk q, aget k (nodes s) = Some nk /\ parent nk = Some q.
Proof. exact svd_path_coverage. Qed.
Print Assumptions C10_svd_path_coverage.

(* non-vacuity: a four-node tree with shuffled legs; both routines succeed, the hypotheses hold, the bonds get
   the supplied dimensions, the trace and the path are the bonds in the two orders *)
Definition C10_ex_tmp : tmpids := fun j c n => 2000 + 3 * (16 * c + n) + j.
Definition C10_ex_cs : cstore :=
  crun 99 (empty_store, None)
    [Base (AddRoot 0 [2; 3; 2]); Base (AddChild 1 [2; 2; 3] 1 0 0); Base (AddChild 2 [3; 2] 0 0 1);
     Base (AddChild 3 [3; 2] 0 1 2)].
Example C10_example_tree :
  trunc_hyps C10_ex_tmp 99 C10_ex_cs = true /\
  match recursive_truncation C10_ex_tmp (dget [(1, 1); (2, 2); (3, 2)]) 99 C10_ex_cs with
  | Some cs' => map (bond_dim (fst cs')) [1; 2; 3] = [1; 2; 2] /\ snd cs' = Some 0
  | None => False
  end /\
  match svd_truncation (dget [(1, 1); (2, 2); (3, 2)]) 99 (crun 99 C10_ex_cs [Canon 2 Reduced]) with
  | Some cs' => map (bond_dim (fst cs')) [1; 2; 3] = [1; 2; 2] /\ snd cs' = Some 0
  | None => False
  end /\
  option_map snd (truncate_node_tr 4 C10_ex_tmp (dget [(1, 1); (2, 2); (3, 2)]) (fst C10_ex_cs) 0) = Some [1; 2; 3] /\
  linearise (fst C10_ex_cs) = [3; 1; 2; 0].
Proof. vm_compute. repeat split; reflexivity. Qed.
Print Assumptions C10_example_tree.

Example C10_example_tmp_inj : tmp_inj C10_ex_tmp.
Proof. exact harness_tmp_inj. Qed.
Print Assumptions C10_example_tmp_inj.

(* ======================================================================================================== *)
(* Tree level, "is the identity when nothing is discarded" (TTN/TruncTreeValue.v).
   Vocabulary.  `net_value zero one add mul s tbl rho` (C02, TTN/InvSem.v): the value of the whole network of
   store s over a commutative semiring, `tbl` giving the entries of the opaque atoms (initial tensors and kernel
   factors), at the assignment rho of indices to the open wires.  `wfs`: the extended store invariant of C02.
   `svd_truncation_ops` / `recursive_truncation_ops`: the edit operations the routine performs, in order.
   `nothing_discarded s ops` (executable): every truncating factorisation of the run keeps the dimension of the
   untruncated one -- min(rows, columns) for the truncated SVD of contract_and_split_with_parent, min(dimension of
   the bond, product of the other legs of the upper tensor) for a projector of recursive_truncation.
   `kernel_contracts .. tbl s ops`: what the numerical kernels promise about the factors they return, step by step:
   QR: Q . R = A over the new bond (`def_holds`); truncated SVD: U . (S Vh) = A PROVIDED the kept dimension is the
   full one; projector pair (conj(P), P^T) of recursive_truncation: its product, applied to the tensor above the
   bond on the leg of the bond, gives that tensor back (`proj_contract`: P P^dagger A = A) PROVIDED the width of P
   is the full one.  The dense oracle of harness/props/c10.py validates these contracts numerically on every
   nothing-discarded tree case. *)
From Coq Require Import Permutation.
From PTN Require Import TTN.InvSplit TTN.InvRun TTN.InvContract Wire.Sem TTN.InvSem TTN.TruncTreeValue.

(* both routines are runs of edit operations of the store model (C02): on a well-formed store a successful run of
   the program is `run` of its trace, every operation accepted, inside its documented precondition, none a
   constructor *)
Theorem C10_svd_truncation_is_a_run_of_edits : forall (kd : id -> nat) (rid : id) (cs cs' : cstore),
  wf (fst cs) -> aget rid (nodes (fst cs)) = None -> svd_truncation kd rid cs = Some cs' ->
  let ops := svd_truncation_ops kd rid cs in
  run (fst cs) ops = (fst cs', map (fun _ => true) ops) /\ ops_ok (fst cs) ops /\ forallb is_edit_op ops = true.
Proof. exact svd_truncation_traced. Qed.
Print Assumptions C10_svd_truncation_is_a_run_of_edits.

Theorem C10_recursive_truncation_is_a_run_of_edits : forall (tmp : tmpids) (kd : id -> nat) (rid : id) (cs cs' : cstore),
  wf (fst cs) -> aget rid (nodes (fst cs)) = None -> tmp_fresh tmp (fst cs) -> tmp_inj tmp ->
  recursive_truncation tmp kd rid cs = Some cs' ->
  let ops := recursive_truncation_ops tmp kd rid cs in
  run (fst cs) ops = (fst cs', map (fun _ => true) ops) /\ ops_ok (fst cs) ops /\ forallb is_edit_op ops = true.
Proof. exact recursive_truncation_traced. Qed.
Print Assumptions C10_recursive_truncation_is_a_run_of_edits.

(* svd_truncation: with nothing discarded, under the kernel contracts, the result denotes the same tensor: same
   open wires, same value at every assignment, extended invariant preserved *)
Theorem C10_svd_truncation_identity_when_nothing_discarded :
  forall (R : Type) (zero one : R) (add mul : R -> R -> R), comm_semiring zero one add mul ->
  forall (tbl : nat -> list nat -> R) (kd : id -> nat) (rid : id) (cs cs' : cstore),
  wfs (fst cs) -> aget rid (nodes (fst cs)) = None -> svd_truncation kd rid cs = Some cs' ->
  nothing_discarded (fst cs) (svd_truncation_ops kd rid cs) ->
  kernel_contracts R zero one add mul tbl (fst cs) (svd_truncation_ops kd rid cs) ->
  wfs (fst cs') /\ Permutation (open_wires (fst cs')) (open_wires (fst cs)) /\
  forall rho, net_value zero one add mul (fst cs') tbl rho = net_value zero one add mul (fst cs) tbl rho.
Proof. exact svd_truncation_identity. Qed.
Print Assumptions C10_svd_truncation_identity_when_nothing_discarded.

(* recursive_truncation (canonical form at the root, then the projector recursion) *)
Theorem C10_recursive_truncation_identity_when_nothing_discarded :
  forall (R : Type) (zero one : R) (add mul : R -> R -> R), comm_semiring zero one add mul ->
  forall (tbl : nat -> list nat -> R) (tmp : tmpids) (kd : id -> nat) (rid : id) (cs cs' : cstore),
  wfs (fst cs) -> aget rid (nodes (fst cs)) = None -> tmp_fresh tmp (fst cs) -> tmp_inj tmp ->
  recursive_truncation tmp kd rid cs = Some cs' ->
  nothing_discarded (fst cs) (recursive_truncation_ops tmp kd rid cs) ->
  kernel_contracts R zero one add mul tbl (fst cs) (recursive_truncation_ops tmp kd rid cs) ->
  wfs (fst cs') /\ Permutation (open_wires (fst cs')) (open_wires (fst cs)) /\
  forall rho, net_value zero one add mul (fst cs') tbl rho = net_value zero one add mul (fst cs) tbl rho.
Proof. exact recursive_truncation_identity. Qed.
Print Assumptions C10_recursive_truncation_identity_when_nothing_discarded.

(* the same conclusions whenever every factorisation of the run happens to be exact (`exact_step`: the contracts
   without the proviso), whatever the kept dimensions: e.g. when only vanishing singular values are dropped *)
Theorem C10_svd_truncation_exact_factors : forall (R : Type) (zero one : R) (add mul : R -> R -> R), comm_semiring zero one add mul ->
  forall (tbl : nat -> list nat -> R) (kd : id -> nat) (rid : id) (cs cs' : cstore),
  wfs (fst cs) -> aget rid (nodes (fst cs)) = None -> svd_truncation kd rid cs = Some cs' ->
  along (exact_step R zero one add mul tbl) (fst cs) (svd_truncation_ops kd rid cs) ->
  wfs (fst cs') /\ Permutation (open_wires (fst cs')) (open_wires (fst cs)) /\
  forall rho, net_value zero one add mul (fst cs') tbl rho = net_value zero one add mul (fst cs) tbl rho.
Proof. exact svd_truncation_exact. Qed.
Print Assumptions C10_svd_truncation_exact_factors.

Theorem C10_recursive_truncation_exact_factors : forall (R : Type) (zero one : R) (add mul : R -> R -> R), comm_semiring zero one add mul ->
  forall (tbl : nat -> list nat -> R) (tmp : tmpids) (kd : id -> nat) (rid : id) (cs cs' : cstore),
  wfs (fst cs) -> aget rid (nodes (fst cs)) = None -> tmp_fresh tmp (fst cs) -> tmp_inj tmp ->
  recursive_truncation tmp kd rid cs = Some cs' ->
  along (exact_step R zero one add mul tbl) (fst cs) (recursive_truncation_ops tmp kd rid cs) ->
  wfs (fst cs') /\ Permutation (open_wires (fst cs')) (open_wires (fst cs)) /\
  forall rho, net_value zero one add mul (fst cs') tbl rho = net_value zero one add mul (fst cs) tbl rho.
Proof. exact recursive_truncation_exact. Qed.
Print Assumptions C10_recursive_truncation_exact_factors.

(* svd_truncation under the kernel contracts of C02 verbatim (`contracts_hold` along the trace) *)
Theorem C10_svd_truncation_value_C02_contracts : forall (R : Type) (zero one : R) (add mul : R -> R -> R), comm_semiring zero one add mul ->
  forall (tbl : nat -> list nat -> R) (kd : id -> nat) (rid : id) (cs cs' : cstore),
  wfs (fst cs) -> aget rid (nodes (fst cs)) = None -> svd_truncation kd rid cs = Some cs' ->
  contracts_hold zero one add mul tbl (fst cs) (svd_truncation_ops kd rid cs) ->
  wfs (fst cs') /\ Permutation (open_wires (fst cs')) (open_wires (fst cs)) /\
  forall rho, net_value zero one add mul (fst cs') tbl rho = net_value zero one add mul (fst cs) tbl rho.
Proof. exact svd_truncation_net_value. Qed.
Print Assumptions C10_svd_truncation_value_C02_contracts.

(* one projector step of recursive_truncation: an identity inserted on the bond (c, p) and replaced by a pair of
   kernel factors joined by a bond of dimension k keeps the value of the network as soon as the product of the
   pair acts as the identity on p's tensor over the old edge wire -- no condition on the identity tensor, and the
   pair need not multiply to the identity matrix *)
Theorem C10_projector_pair_step : forall (R : Type) (zero one : R) (add mul : R -> R -> R), comm_semiring zero one add mul ->
  forall (tbl : nat -> list nat -> R) (s : store) (c p new : id) (sa : store) (oid iid : id) (m : mode) (k : nat) (s' : store),
  wfs s -> insert_identity s c p new = Some sa ->
  split_nodes sa new (po p) (pi c) oid iid 2 m k = Some s' ->
  spec_ok sa new (po p) (pi c) -> ids_ok sa new oid iid ->
  (forall r j, j < wdim sa (ew sa new) ->
     sum_upto R zero add (wdim sa (ew sa new))
       (fun i => mul (node_value zero one add mul sa tbl p (upd r (ew sa new) i))
                     (sum_upto R zero add k (fun l => mul (tbl (next_atom sa) [i; l]) (tbl (S (next_atom sa)) [l; j]))))
     = node_value zero one add mul sa tbl p (upd r (ew sa new) j)) ->
  wfs s' /\ Permutation (open_wires s') (open_wires s) /\
  forall rho, net_value zero one add mul s' tbl rho = net_value zero one add mul s tbl rho.
Proof. exact proj_pair_net_value. Qed.
Print Assumptions C10_projector_pair_step.

(* a pair that multiplies to the identity matrix (square unitary projector) satisfies the projector contract *)
Theorem C10_unitary_projector_contract : forall (R : Type) (zero one : R) (add mul : R -> R -> R), comm_semiring zero one add mul ->
  forall (tbl : nat -> list nat -> R) (s : store) (n0 p : id) (k : nat),
  (forall i j, i < wdim s (ew s n0) -> j < wdim s (ew s n0) ->
     sum_upto R zero add k (fun l => mul (tbl (next_atom s) [i; l]) (tbl (S (next_atom s)) [l; j])) = if Nat.eqb i j then one else zero) ->
  proj_contract R zero one add mul tbl s n0 p k.
Proof. exact proj_contract_of_identity. Qed.
Print Assumptions C10_unitary_projector_contract.

(* "full dimension" of a recorded factorisation = the dimension the model gives the UNTRUNCATED factorisation
   (kind 1) of the same tensor and leg bipartition *)
Theorem C10_full_rank_is_untruncated_dimension : forall s n o i oid iid kind m rbond s',
  wfs s -> split_nodes s n o i oid iid kind m rbond = Some s' ->
  exists s1 nd t ol il,
    access s n = Some (s1, nd, t) /\ find_leg_values nd o = Some ol /\ find_leg_values nd i = Some il /\
    (full_rankb s' (last (defs s') dflt_def) = true <->
     sp_bd s kind m rbond (permute 0 ol (axes t)) (permute 0 il (axes t))
     = sp_bd s 1 m rbond (permute 0 ol (axes t)) (permute 0 il (axes t))).
Proof. exact full_rank_split. Qed.
Print Assumptions C10_full_rank_is_untruncated_dimension.

(* non-vacuity.  svd_truncation on a three-node star (all dimensions 2, centre at a leaf) with both bonds kept at
   the full dimension 2, and recursive_truncation on a three-node star whose root tensor has rank 1 across the bond
   to child 1, so that this bond goes from dimension 2 to min(2, 1) = 1 with nothing discarded (the projector pair
   is (1 0)^T (1 0), not the identity matrix): concrete tables over nat satisfy every hypothesis, hence the value
   of the network is unchanged at every assignment *)
Example C10_example_svd_identity :
  (wfsb (fst exs_cs) = true /\ amem 99 (nodes (fst exs_cs)) = false /\
   (exists cs', svd_truncation exs_kd 99 exs_cs = Some cs') /\
   nothing_discarded (fst exs_cs) (svd_truncation_ops exs_kd 99 exs_cs) /\
   kernel_contracts nat 0 1 Nat.add Nat.mul exs_tbl (fst exs_cs) (svd_truncation_ops exs_kd 99 exs_cs)) /\
  forall cs', svd_truncation exs_kd 99 exs_cs = Some cs' ->
  forall rho, net_value 0 1 Nat.add Nat.mul (fst cs') exs_tbl rho = net_value 0 1 Nat.add Nat.mul (fst exs_cs) exs_tbl rho.
Proof. exact (conj exs_hyps exs_conclusion). Qed.
Print Assumptions C10_example_svd_identity.

Example C10_example_rec_identity :
  (wfsb (fst exr_cs) = true /\ trunc_hyps exr_tmp 99 exr_cs = true /\
   (exists cs', recursive_truncation exr_tmp exr_kd 99 exr_cs = Some cs' /\ map (bond_dim (fst cs')) [1; 2] = [1; 1]) /\
   map (bond_dim (fst exr_cs)) [1; 2] = [2; 1] /\
   nothing_discarded (fst exr_cs) (recursive_truncation_ops exr_tmp exr_kd 99 exr_cs) /\
   kernel_contracts nat 0 1 Nat.add Nat.mul exr_tbl (fst exr_cs) (recursive_truncation_ops exr_tmp exr_kd 99 exr_cs)) /\
  forall cs', recursive_truncation exr_tmp exr_kd 99 exr_cs = Some cs' ->
  forall rho, net_value 0 1 Nat.add Nat.mul (fst cs') exr_tbl rho = net_value 0 1 Nat.add Nat.mul (fst exr_cs) exr_tbl rho.
Proof. exact (conj exr_hyps exr_conclusion). Qed.
Print Assumptions C10_example_rec_identity.
