(* Property C10 — truncation keeps the right singular values.  Statements only; each is closed
   by `exact`.  Model: Trunc/Select.v (truncate_singular_values and its helpers).
   `select p s` = (new_s before rescaling, s_trunc); `truncate p s` adds the renormalisation
   and the ValueError on an empty spectrum (renormalise as repaired in db7fff1).  `descending` = non-increasing. *)
From Coq Require Import QArith List Bool Arith ZArith Sorted.
From PTN Require Import Trunc.Select Trunc.SelectProofs.
Import ListNotations.
Local Open Scope Q_scope.

(* the kept part is a non-empty prefix of the spectrum, the second component is the complementary
   suffix, and the prefix is no longer than max_bond_dim (an int >= 1, or inf) *)
Theorem C10_trunc_prefix : forall (p : params) (s : list Q),
  s <> [] -> descending s -> bond_ok (max_bond p) ->
  let k := length (fst (select p s)) in
  (1 <= k <= length s)%nat /\
  fst (select p s) = firstn k s /\ snd (select p s) = skipn k s /\
  (forall m, max_bond p = BFin m -> (k <= m)%nat).
Proof. exact select_spec. Qed.
Print Assumptions C10_trunc_prefix.

(* number of kept values = max 1 (min max_bond_dim |s_temp|), for every non-empty list *)
Theorem C10_trunc_length : forall (p : params) (s : list Q),
  s <> [] -> bond_ok (max_bond p) ->
  length (fst (select p s)) = Nat.max 1 (bmin (max_bond p) (length (s_temp p s))).
Proof. exact select_length. Qed.
Print Assumptions C10_trunc_length.

(* value rule: with c = max(rel_tol*s[0], total_tol) (Python max, float product) and
   n = #{x in s | x > c}, the kept values are the first max 1 (min max_bond_dim n) ones, and the
   n values above c are exactly the first n of the descending spectrum *)
Theorem C10_value_rule : forall (p : params) (s0 : Q) (r : list Q),
  sum_trunc p = false -> descending (s0 :: r) -> bond_ok (max_bond p) ->
  let s := s0 :: r in
  let c := cutoff (rel_tol p) (total_tol p) s0 in
  let n := length (filter (above c) s) in
  let k := Nat.max 1 (bmin (max_bond p) n) in
  select p s = (firstn k s, skipn k s) /\
  Forall (fun x => above c x = true) (firstn n s) /\
  Forall (fun x => above c x = false) (skipn n s).
Proof. exact value_rule. Qed.
Print Assumptions C10_value_rule.

(* the cutoff in the terms of the property text: x > max(a, total_tol) iff x > a and x > total_tol
   (total_tol not nan), where a = rel_tol * s[0] is the float product *)
Theorem C10_value_threshold : forall (rel tot : ext) (s0 x : Q), tot <> NaN ->
  above (cutoff rel tot s0) x = above (ext_mul_q rel s0) x && above tot x.
Proof. exact above_cutoff. Qed.
Print Assumptions C10_value_threshold.

Theorem C10_threshold_cases : forall (t r s0 x : Q),
  (above (Fin t) x = true <-> t < x) /\ above NegInf x = true /\ above PosInf x = false /\
  above NaN x = false /\
  ext_mul_q (Fin r) s0 = Fin (r * s0) /\
  (0 < s0 -> ext_mul_q NegInf s0 = NegInf /\ ext_mul_q PosInf s0 = PosInf) /\
  (s0 == 0 -> ext_mul_q NegInf s0 = NaN /\ ext_mul_q PosInf s0 = NaN).
Proof. exact threshold_cases. Qed.
Print Assumptions C10_threshold_cases.

(* sum rule: K = _sum_truncation_index; the tail s[j:] has weight > total_tol**2 exactly when
   j < K, i.e. s[K:] is the longest tail whose squared weight (divided by the total squared
   weight when sum_renorm) does not exceed total_tol**2; then the same clamp and fallback.
   No ordering assumption is needed. *)
Theorem C10_sum_rule : forall (p : params) (s : list Q),
  sum_trunc p = true -> s <> [] -> bond_ok (max_bond p) ->
  let K := sum_truncation_index s (total_tol p) (sum_renorm p) in
  let k := Nat.max 1 (bmin (max_bond p) K) in
  select p s = (firstn k s, skipn k s) /\ (K <= length s)%nat /\
  (sumsq s == 0 -> K = 0%nat) /\
  (~ sumsq s == 0 -> forall j,
      ext_gtb (Fin (tail_weight s (sum_renorm p) j)) (ext_sq (total_tol p)) = true <-> (j < K)%nat).
Proof. exact sum_rule. Qed.
Print Assumptions C10_sum_rule.

(* an all-zero spectrum keeps exactly its first value, in both modes, whatever the tolerances *)
Theorem C10_all_zero : forall (p : params) (s : list Q),
  s <> [] -> Forall (fun x => x == 0) s -> bond_ok (max_bond p) ->
  select p s = (firstn 1 s, skipn 1 s).
Proof. exact all_zero_keeps_one. Qed.
Print Assumptions C10_all_zero.

(* renormalisation: the kept prefix times (sum s / sum kept), under the guard sum kept <> 0;
   the rescaled vector then has the l1 weight of the whole spectrum *)
Theorem C10_renorm_scales : forall (p : params) (s : list Q), s <> [] -> renorm p = true ->
  let kept := fst (select p s) in
  ~ qsum kept == 0 ->
  truncate p s = Some (map (fun x => x * qsum s / qsum kept) kept, snd (select p s)).
Proof. exact renorm_scales. Qed.
Print Assumptions C10_renorm_scales.

Theorem C10_renorm_sum : forall (s kept : list Q), ~ qsum kept == 0 ->
  qsum (map (fun x => x * qsum s / qsum kept) kept) == qsum s.
Proof. exact renorm_preserves_sum. Qed.
Print Assumptions C10_renorm_sum.

(* when the kept values sum to 0 there is nothing to rescale: they are returned unchanged (no 0/0);
   on a descending non-negative spectrum this happens only for the all-zero spectrum *)
Theorem C10_renorm_guard : forall (p : params) (s : list Q), s <> [] -> renorm p = true ->
  qsum (fst (select p s)) == 0 -> truncate p s = Some (fst (select p s), snd (select p s)).
Proof. exact renorm_zero. Qed.
Print Assumptions C10_renorm_guard.

Theorem C10_renorm_guard_zero_only : forall (p : params) (s : list Q),
  s <> [] -> descending s -> Forall (fun x => 0 <= x) s -> bond_ok (max_bond p) ->
  qsum (fst (select p s)) == 0 -> Forall (fun x => x == 0) s.
Proof. exact kept_sum_zero_all_zero. Qed.
Print Assumptions C10_renorm_guard_zero_only.

Theorem C10_no_renorm : forall (p : params) (s : list Q), s <> [] -> renorm p = false ->
  truncate p s = Some (fst (select p s), snd (select p s)).
Proof. exact no_renorm. Qed.
Print Assumptions C10_no_renorm.

(* renormalisation never changes the number of values, and never touches the second component *)
Theorem C10_renorm_length : forall (p : params) (s : list Q), s <> [] ->
  exists k d, truncate p s = Some (k, d) /\ length k = length (fst (select p s)) /\ d = snd (select p s).
Proof. exact truncate_length. Qed.
Print Assumptions C10_renorm_length.

(* the only rejected spectrum is the empty one *)
Theorem C10_empty_rejected : forall (p : params) (s : list Q), truncate p s = None <-> s = [].
Proof. exact truncate_none. Qed.
Print Assumptions C10_empty_rejected.

(* parameter validation: accepted iff max_bond_dim is inf or a positive int and each tolerance
   is nan, -inf, +inf or a finite value >= 0; a non-int non-inf max_bond_dim is a TypeError *)
Theorem C10_params_validation : forall (m : mbd_arg) (rel tot : ext),
  validate m rel tot = Accept <->
  (m = MInf \/ exists z, m = MInt z /\ (0 < z)%Z) /\ tol_ok rel /\ tol_ok tot.
Proof. exact validate_accept. Qed.
Print Assumptions C10_params_validation.

Theorem C10_params_type_error : forall (m : mbd_arg) (rel tot : ext),
  validate m rel tot = RaiseType <-> m = MOther.
Proof. exact validate_type_error. Qed.
Print Assumptions C10_params_type_error.

Theorem C10_params_bond_ok : forall (m : mbd_arg) (rel tot : ext),
  validate m rel tot = Accept -> exists b, bond_of m = Some b /\ bond_ok b.
Proof. exact validate_bond_ok. Qed.
Print Assumptions C10_params_bond_ok.

(* scalar step of the error bound: for non-negative discarded values the Frobenius weight is
   at most the square of their sum *)
Theorem C10_discarded_weight : forall l : list Q, Forall (fun x => 0 <= x) l ->
  sumsq l <= qsum l * qsum l /\ 0 <= qsum l.
Proof. exact sumsq_le_sq_sum. Qed.
Print Assumptions C10_discarded_weight.

(* non-vacuity: ties at the cutoff, the clamp, the fallback, the sum rule at an exact boundary *)
Example C10_example_value :
  select {| max_bond := BFin 3; rel_tol := Fin (1#2); total_tol := NegInf;
            renorm := false; sum_trunc := false; sum_renorm := true |} [2; 2; 1; 1; 0]
  = ([2; 2], [1; 1; 0]).
Proof. vm_compute. reflexivity. Qed.
Print Assumptions C10_example_value.

Example C10_example_sum :
  truncate {| max_bond := BInf; rel_tol := Fin 0; total_tol := Fin (1#2);
              renorm := true; sum_trunc := true; sum_renorm := true |} [1; 1; 1; 1]
  = Some ([4#3; 4#3; 4#3], [1]).
Proof. vm_compute. reflexivity. Qed.
Print Assumptions C10_example_sum.

Example C10_example_zero :
  truncate {| max_bond := BInf; rel_tol := Fin 0; total_tol := Fin 0;
              renorm := true; sum_trunc := true; sum_renorm := true |} [0; 0]
  = Some ([0], [0]).
Proof. vm_compute. reflexivity. Qed.
Print Assumptions C10_example_zero.
