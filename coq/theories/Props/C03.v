(* Property C03 — canonical form, centre moves, three split modes.  Statements only.
   Model: TTN/Canon.v over TTN/Store.v (tied to /repo step by step by harness/props/c03.py). *)
From Coq Require Import List Arith.
From PTN Require Import TTN.Store TTN.Canon TTN.CanonProofs.
Import ListNotations.

Theorem C03_canon_center : forall (cs : cstore) (c : id) (m : mode) (rid : id) (cs' : cstore),
  canonical_form cs c m rid = Some cs' -> snd cs' = Some c.
Proof. exact canon_center. Qed.
Print Assumptions C03_canon_center.

Theorem C03_move_center : forall (cs : cstore) (c : id) (m : mode) (rid : id) (cs' : cstore) (c0 : id),
  snd cs = Some c0 -> move_center cs c m rid = Some cs' ->
  snd cs' = Some (if Nat.eqb c0 c then c0 else last (tl (path_from_to (fst cs) c0 c)) c0).
Proof. exact move_center_center. Qed.
Print Assumptions C03_move_center.

Theorem C03_move_needs_centre : forall (cs : cstore) (c : id) (m : mode) (rid : id),
  snd cs = None -> move_center cs c m rid = None.
Proof. exact move_center_needs_centre. Qed.
Print Assumptions C03_move_needs_centre.

(* bond dimension prescribed by each mode *)
Theorem C03_bond_reduced : forall mr nc : nat, qr_bond_dim Reduced mr nc <= mr /\ qr_bond_dim Reduced mr nc <= nc.
Proof. exact qr_bond_reduced. Qed.
Print Assumptions C03_bond_reduced.
Theorem C03_bond_full : forall mr nc : nat, qr_bond_dim Full mr nc = mr.
Proof. exact qr_bond_full. Qed.
Print Assumptions C03_bond_full.
(* shape-keeping mode: the canonicalisation step splits off the single leg toward the neighbour,
   whose dimension d is reproduced as the new bond dimension *)
Theorem C03_keep_preserves_dim : forall d mr : nat, qr_bond_dim Keep mr (prod_list [d]) = d.
Proof. exact keep_single_leg_dim. Qed.
Print Assumptions C03_keep_preserves_dim.
Theorem C03_r_spec_single_leg : forall (n : node) (nb : id),
  let r := snd (build_qr_leg_specs n nb) in
  length (find_all_neighbour_ids r) = 1 /\ ls_open r = [] /\ find_all_neighbour_ids r = [nb].
Proof. exact build_qr_r_single. Qed.
Print Assumptions C03_r_spec_single_leg.

(* what the executable isometry checker (evaluated on every explored instance) certifies *)
Theorem C03_iso_check_sound : forall cs : cstore, iso_check cs = true ->
  exists c, snd cs = Some c /\
  forall k nd, In (k, nd) (nodes (fst cs)) -> k <> c ->
  exists t nb a leg df,
    aget k (tensors (fst cs)) = Some t /\
    toward (fst cs) (distance_to_node (fst cs) c) nd = Some nb /\
    atoms t = [a] /\ neighbour_index nd nb = Some leg /\
    In df (defs (fst cs)) /\ kq df = a /\ kkind df = 0 /\
    kbond df = nth (nth leg (perm nd) 0) (axes t) 0.
Proof. exact iso_check_sound. Qed.
Print Assumptions C03_iso_check_sound.

(* non-vacuity: canonical form of a 3-node chain at a leaf, then a move to the other end *)
Example C03_example :
  map (fun r => snd r) (crun_obs 99 (empty_store, None)
     [Base (AddRoot 0 [2; 3]); Base (AddChild 1 [2; 3; 2] 0 0 0); Base (AddChild 2 [3; 2] 0 1 1);
      Canon 2 Reduced; Move 0 Keep]) = [false; false; false; true; true].
Proof. vm_compute. reflexivity. Qed.
Print Assumptions C03_example.
