(* Property C03 — canonical form, centre moves, three split modes.  Statements only.
   Model: TTN/Canon.v over TTN/Store.v (tied to /repo step by step by harness/props/c03.py). *)
From Coq Require Import List Arith.
From PTN Require Import TTN.Store TTN.Canon TTN.CanonProofs.
Import ListNotations.

Theorem C03_canon_center : forall (cs : cstore) (c : id) (m : mode) (rid : id) (cs' : cstore),
  canonical_form cs c m rid = Some cs' -> snd cs' = Some c.
Proof. exact canon_center. Qed.
Print Assumptions C03_canon_center.

Theorem C03_move_center : forall (cs : cstore) (c : id) (m : mode) (rid : id) (cs' : cstore) (c0 : id),
  snd cs = Some c0 -> move_center cs c m rid = Some cs' ->
  snd cs' = Some (if Nat.eqb c0 c then c0 else last (tl (path_from_to (fst cs) c0 c)) c0).
Proof. exact move_center_center. Qed.
Print Assumptions C03_move_center.

Theorem C03_move_needs_centre : forall (cs : cstore) (c : id) (m : mode) (rid : id),
  snd cs = None -> move_center cs c m rid = None.
Proof. exact move_center_needs_centre. Qed.
Print Assumptions C03_move_needs_centre.

(* bond dimension prescribed by each mode *)
Theorem C03_bond_reduced : forall mr nc : nat, qr_bond_dim Reduced mr nc <= mr /\ qr_bond_dim Reduced mr nc <= nc.
Proof. exact qr_bond_reduced. Qed.
Print Assumptions C03_bond_reduced.
Theorem C03_bond_full : forall mr nc : nat, qr_bond_dim Full mr nc = mr.
Proof. exact qr_bond_full. Qed.
Print Assumptions C03_bond_full.
(* shape-keeping mode: the canonicalisation step splits off the single leg toward the neighbour,
   whose dimension d is reproduced as the new bond dimension *)
Theorem C03_keep_preserves_dim : forall d mr : nat, qr_bond_dim Keep mr (prod_list [d]) = d.
Proof. exact keep_single_leg_dim. Qed.
Print Assumptions C03_keep_preserves_dim.
Theorem C03_r_spec_single_leg : forall (n : node) (nb : id),
  let r := snd (build_qr_leg_specs n nb) in
  length (find_all_neighbour_ids r) = 1 /\ ls_open r = [] /\ find_all_neighbour_ids r = [nb].
Proof. exact build_qr_r_single. Qed.
Print Assumptions C03_r_spec_single_leg.

(* what the executable isometry checker (evaluated on every explored instance) certifies *)
Theorem C03_iso_check_sound : forall cs : cstore, iso_check cs = true ->
  exists c, snd cs = Some c /\
  forall k nd, In (k, nd) (nodes (fst cs)) -> k <> c ->
  exists t nb a leg df,
    aget k (tensors (fst cs)) = Some t /\
    toward (fst cs) (distance_to_node (fst cs) c) nd = Some nb /\
    atoms t = [a] /\ neighbour_index nd nb = Some leg /\
    In df (defs (fst cs)) /\ kq df = a /\ kkind df = 0 /\
    kbond df = nth (nth leg (perm nd) 0) (axes t) 0.
Proof. exact iso_check_sound. Qed.
Print Assumptions C03_iso_check_sound.

(* non-vacuity: canonical form of a 3-node chain at a leaf, then a move to the other end *)
Example C03_example :
  map (fun r => snd r) (crun_obs 99 (empty_store, None)
     [Base (AddRoot 0 [2; 3]); Base (AddChild 1 [2; 3; 2] 0 0 0); Base (AddChild 2 [3; 2] 0 1 1);
      Canon 2 Reduced; Move 0 Keep]) = [false; false; false; true; true].
Proof. vm_compute. reflexivity. Qed.
Print Assumptions C03_example.

(* ====================================================================================================
   The isometry attribute is a theorem, not only a per-instance check (TTN/CanonMore.v, CanonStep.v,
   CanonDist.v, CanonPath.v, CanonIso.v).  `wfb` is the executable store invariant of TTN/Inv.v;
   `tstruct` (TTN/CanonTree.v) is its wire-free structural part (a rooted tree given by consistent
   parent pointers / child lists); `rid` is the temporary identifier of the R factor (a uuid in the code).
   ==================================================================================================== *)
From Coq Require Import Permutation.
From PTN Require Import TTN.StoreProofs TTN.Inv TTN.CanonTree TTN.CanonMore TTN.CanonStep TTN.CanonDist TTN.CanonPath TTN.CanonIso.

(* the two leg specifications of a canonicalisation step partition the node's legs (the precondition
   of split_nodes); Q gets all legs but the one toward the neighbour, in increasing order; R gets that leg *)
Theorem C03_qr_leg_specs_partition : forall (n : node) (nb : id) (q r : legspec),
  node_wf n -> NoDup (neighbouring_nodes n) -> In nb (neighbouring_nodes n) ->
  build_qr_leg_specs n nb = (q, r) ->
  exists leg ql, neighbour_index n nb = Some leg /\
    find_leg_values n q = Some ql /\ find_leg_values n r = Some [leg] /\
    Permutation (ql ++ [leg]) (seq 0 (nlegs n)) /\
    ql = seq 0 leg ++ seq (S leg) (nlegs n - S leg).
Proof. exact build_qr_leg_specs_partition. Qed.
Print Assumptions C03_qr_leg_specs_partition.

(* the local effect of one step split_qr_contract_r_to_neighbour *)
Theorem C03_qr_to_neighbour_effect : forall (s : store) (n nb : id) (m : mode) (rid : id) (s' : store),
  wfb s = true -> amem rid (nodes s) = false -> qr_to_neighbour s n nb m rid = Some s' ->
  exists nd nd' t' leg df nbn nbn',
    aget n (nodes s) = Some nd /\ In nb (neighbouring_nodes nd) /\
    (* (a) n is exactly the fresh Q atom; its bond wire sits on n's leg toward nb *)
    aget n (nodes s') = Some nd' /\ aget n (tensors s') = Some t' /\ atoms t' = [kq df] /\
    defs s' = defs s ++ [df] /\ kkind df = 0 /\ kq df = next_atom s /\ kbond df = next_wire s /\
    neighbour_index nd' nb = Some leg /\ nth (nth leg (perm nd') 0) (axes t') 0 = kbond df /\
    (* (b) every node other than n and nb is untouched *)
    (forall k, k <> n -> k <> nb ->
               aget k (nodes s') = aget k (nodes s) /\ aget k (tensors s') = aget k (tensors s)) /\
    (* (c) identifiers, root and parent pointers unchanged; only these child lists are reordered *)
    akeys (nodes s') = akeys (nodes s) /\ root s' = root s /\
    parent nd' = parent nd /\
    children nd' = (if match parent nd with Some p => Nat.eqb p nb | None => false end
                    then children nd else nb :: remove_first nb (children nd)) /\
    aget nb (nodes s) = Some nbn /\ aget nb (nodes s') = Some nbn' /\ parent nbn' = parent nbn /\
    children nbn' = (if match parent nd with Some p => Nat.eqb p nb | None => false end
                     then remove_first n (children nbn) ++ [n] else children nbn) /\
    (* (d) the temporary identifier is gone *)
    aget rid (nodes s') = None /\ aget rid (tensors s') = None.
Proof. exact qr_to_neighbour_effect. Qed.
Print Assumptions C03_qr_to_neighbour_effect.

(* distance_to_node computes tree distances: every non-centre node has exactly one neighbour that is
   one step closer, all its other neighbours are one step farther *)
Theorem C03_distance_step : forall (s : store) (c k : id) (n : node),
  tstruct (nodes s) -> amem c (nodes s) = true -> aget k (nodes s) = Some n -> k <> c ->
  exists nb, In nb (neighbouring_nodes n) /\
    S (dget (distance_to_node s c) nb) = dget (distance_to_node s c) k /\
    forall x, In x (neighbouring_nodes n) -> x <> nb ->
              dget (distance_to_node s c) x = S (dget (distance_to_node s c) k).
Proof. exact dist_step. Qed.
Print Assumptions C03_distance_step.
Theorem C03_distance_covers : forall (s : store) (c k : id),
  tstruct (nodes s) -> amem c (nodes s) = true ->
  (In k (map fst (distance_to_node s c)) <-> In k (akeys (nodes s))).
Proof. exact dist_cover. Qed.
Print Assumptions C03_distance_covers.

(* canonical_form makes every non-centre node an isometry toward the centre, on every tree *)
Theorem C03_canonical_form_iso : forall (s : store) (oc : option id) (c : id) (m : mode) (rid : id) (cs' : cstore),
  wfb s = true -> amem rid (nodes s) = false ->
  canonical_form (s, oc) c m rid = Some cs' -> iso_check cs' = true.
Proof. exact canonical_form_iso. Qed.
Print Assumptions C03_canonical_form_iso.
Theorem C03_canonical_form_iso_tree : forall (s : store) (oc : option id) (c : id) (m : mode) (rid : id) (cs' : cstore),
  tstruct (nodes s) -> aget rid (nodes s) = None ->
  canonical_form (s, oc) c m rid = Some cs' ->
  iso_check cs' = true /\ tstruct (nodes (fst cs')) /\ same_tree (nodes s) (nodes (fst cs')) /\
  aget rid (nodes (fst cs')) = None.
Proof. exact canonical_form_iso_tstruct. Qed.
Print Assumptions C03_canonical_form_iso_tree.

(* move_orthogonalization_center keeps the attribute and arrives at the requested node *)
Theorem C03_move_center_iso : forall (cs : cstore) (c : id) (m : mode) (rid : id) (cs' : cstore),
  wfb (fst cs) = true -> amem rid (nodes (fst cs)) = false -> iso_check cs = true ->
  move_center cs c m rid = Some cs' -> iso_check cs' = true.
Proof. exact move_center_iso. Qed.
Print Assumptions C03_move_center_iso.
Theorem C03_move_center_iso_tree : forall (cs : cstore) (c : id) (m : mode) (rid : id) (cs' : cstore),
  tstruct (nodes (fst cs)) -> aget rid (nodes (fst cs)) = None -> iso_check cs = true ->
  move_center cs c m rid = Some cs' ->
  iso_check cs' = true /\ tstruct (nodes (fst cs')) /\ same_tree (nodes (fst cs)) (nodes (fst cs')) /\
  aget rid (nodes (fst cs')) = None.
Proof. exact move_center_iso_tstruct. Qed.
Print Assumptions C03_move_center_iso_tree.
Theorem C03_path_from_to_last : forall (s : store) (a b d : id),
  tstruct (nodes s) -> amem a (nodes s) = true -> amem b (nodes s) = true ->
  last (path_from_to s a b) d = b.
Proof. exact path_from_to_last. Qed.
Print Assumptions C03_path_from_to_last.
Theorem C03_move_center_reaches : forall (cs : cstore) (c0 c : id) (m : mode) (rid : id) (cs' : cstore),
  tstruct (nodes (fst cs)) -> snd cs = Some c0 -> amem c0 (nodes (fst cs)) = true ->
  amem c (nodes (fst cs)) = true -> move_center cs c m rid = Some cs' -> snd cs' = Some c.
Proof. exact move_center_reaches. Qed.
Print Assumptions C03_move_center_reaches.
Theorem C03_wfb_tstruct : forall s : store, wfb s = true -> tstruct (nodes s).
Proof. exact wfb_tstruct. Qed.
Print Assumptions C03_wfb_tstruct.

(* non-vacuity of the hypotheses: a 4-node tree with shuffled insertion order satisfies the store
   invariant, the temporary identifier is fresh, and the canonical form / the move succeed *)
Example C03_example_hyps :
  let s := fst (run empty_store [AddRoot 0 [2; 3; 2]; AddChild 1 [2; 3; 2] 0 0 0; AddChild 2 [3; 2] 0 1 1;
                                 AddChild 3 [2; 2] 1 0 2]) in
  (wfb s, amem 99 (nodes s),
   match canonical_form (s, None) 2 Reduced 99 with
   | Some cs' => match move_center cs' 3 Keep 99 with Some cs'' => (true, snd cs'', iso_check cs'') | None => (false, None, false) end
   | None => (false, None, false)
   end) = (true, false, (true, Some 3, true)).
Proof. vm_compute. reflexivity. Qed.
Print Assumptions C03_example_hyps.

(* ====================================================================================================
   First clause of the property: THE REPRESENTED STATE IS UNCHANGED (TTN/CanonValue.v).
   `net_value zero one add mul s tbl rho` (TTN/InvSem.v) is the value of the whole network of store s over any
   commutative semiring and atom table tbl, at the assignment rho of its open wires.  The kernel contract is
   `def_holds ... s' tbl d` (the recorded factorisation d satisfies  SUM_k Q.R = A  over its new bond, at every
   wire assignment), asked of every definition recorded since the start, in the world of the FINAL store.  All
   three modes are covered (KEEP: the zero-padded factors satisfy the same contract).  `wfsb` is the executable
   extended store invariant of C02; `rid` is the temporary identifier of the R factor.
   ==================================================================================================== *)
From PTN Require Import Wire.Sem TTN.InvSem TTN.CanonValue.

(* one step split_qr_contract_r_to_neighbour, any node, any neighbour, any mode *)
Theorem C03_qr_step_state_unchanged : forall (R : Type) (zero one : R) (add mul : R -> R -> R),
  comm_semiring zero one add mul ->
  forall (tbl : nat -> list nat -> R) (s : store) (n nb : id) (m : mode) (rid : id) (s' : store),
  wfsb s = true -> amem rid (nodes s) = false -> qr_to_neighbour s n nb m rid = Some s' ->
  def_holds zero one add mul s' tbl (last (defs s') dflt_def) ->
  wfsb s' = true /\ amem rid (nodes s') = false /\ defs s' = defs s ++ [last (defs s') dflt_def] /\
  Permutation (open_wires s') (open_wires s) /\
  forall rho, net_value zero one add mul s' tbl rho = net_value zero one add mul s tbl rho.
Proof. exact qr_step_state_unchanged. Qed.
Print Assumptions C03_qr_step_state_unchanged.

Theorem C03_canonical_form_state_unchanged : forall (R : Type) (zero one : R) (add mul : R -> R -> R),
  comm_semiring zero one add mul ->
  forall (tbl : nat -> list nat -> R) (s : store) (oc : option id) (c : id) (m : mode) (rid : id) (cs' : cstore),
  wfsb s = true -> amem rid (nodes s) = false -> canonical_form (s, oc) c m rid = Some cs' ->
  (forall d, In d (skipn (length (defs s)) (defs (fst cs'))) -> def_holds zero one add mul (fst cs') tbl d) ->
  wfsb (fst cs') = true /\ Permutation (open_wires (fst cs')) (open_wires s) /\
  forall rho, net_value zero one add mul (fst cs') tbl rho = net_value zero one add mul s tbl rho.
Proof. exact canonical_form_state_unchanged. Qed.
Print Assumptions C03_canonical_form_state_unchanged.

Theorem C03_move_center_state_unchanged : forall (R : Type) (zero one : R) (add mul : R -> R -> R),
  comm_semiring zero one add mul ->
  forall (tbl : nat -> list nat -> R) (cs : cstore) (c : id) (m : mode) (rid : id) (cs' : cstore),
  wfsb (fst cs) = true -> amem rid (nodes (fst cs)) = false -> move_center cs c m rid = Some cs' ->
  (forall d, In d (skipn (length (defs (fst cs))) (defs (fst cs'))) -> def_holds zero one add mul (fst cs') tbl d) ->
  wfsb (fst cs') = true /\ Permutation (open_wires (fst cs')) (open_wires (fst cs)) /\
  forall rho, net_value zero one add mul (fst cs') tbl rho = net_value zero one add mul (fst cs) tbl rho.
Proof. exact move_center_state_unchanged. Qed.
Print Assumptions C03_move_center_state_unchanged.

Theorem C03_ensure_center_state_unchanged : forall (R : Type) (zero one : R) (add mul : R -> R -> R),
  comm_semiring zero one add mul ->
  forall (tbl : nat -> list nat -> R) (cs : cstore) (c : id) (m : mode) (rid : id) (cs' : cstore),
  wfsb (fst cs) = true -> amem rid (nodes (fst cs)) = false -> ensure_center cs c m rid = Some cs' ->
  (forall d, In d (skipn (length (defs (fst cs))) (defs (fst cs'))) -> def_holds zero one add mul (fst cs') tbl d) ->
  wfsb (fst cs') = true /\ Permutation (open_wires (fst cs')) (open_wires (fst cs)) /\
  forall rho, net_value zero one add mul (fst cs') tbl rho = net_value zero one add mul (fst cs) tbl rho.
Proof. exact ensure_center_state_unchanged. Qed.
Print Assumptions C03_ensure_center_state_unchanged.

(* every sequence of canonical_form / move / ensure_orth_center / ensure_root_orth_center operations (`is_canon_op`; a
   rejected operation leaves the state unchanged, as in crun_obs); tensor replacements (Scramble) change the state by
   definition, structural edits (Base) are C02_run_net_value *)
Theorem C03_sequence_state_unchanged : forall (R : Type) (zero one : R) (add mul : R -> R -> R),
  comm_semiring zero one add mul ->
  forall (tbl : nat -> list nat -> R) (rid : id) (cs : cstore) (ops : list cop),
  wfsb (fst cs) = true -> amem rid (nodes (fst cs)) = false ->
  forallb (fun o => match o with Canon _ _ | Move _ _ | Ensure _ _ | EnsureRoot _ => true | _ => false end) ops = true ->
  let cs' := fold_left (fun cs o => match cstep rid cs o with Some cs' => cs' | None => cs end) ops cs in
  (forall d, In d (skipn (length (defs (fst cs))) (defs (fst cs'))) -> def_holds zero one add mul (fst cs') tbl d) ->
  wfsb (fst cs') = true /\ amem rid (nodes (fst cs')) = false /\
  Permutation (open_wires (fst cs')) (open_wires (fst cs)) /\
  forall rho, net_value zero one add mul (fst cs') tbl rho = net_value zero one add mul (fst cs) tbl rho.
Proof. exact sequence_state_unchanged. Qed.
Print Assumptions C03_sequence_state_unchanged.

(* non-vacuity: on a three-node chain, canonical form at the root (REDUCED), a move to the far leaf (KEEP) and
   ensure_orth_center at the middle node (FULL) record five QR definitions; over Z, with concrete tensors and factors of
   which one is a (rectangular) identity, every contract holds, so the hypotheses of C03_sequence_state_unchanged are met;
   the final network has the value of the initial one (e.g. the entry -27 at open indices 2, 1, 1) *)
From Coq Require Import ZArith.
Example C03_state_unchanged_example :
  (wfsb (fst cvx_cs0) = true /\ amem 99 (nodes (fst cvx_cs0)) = false /\ forallb is_canon_op cvx_ops = true /\
   snd cvx_csf = Some 1 /\
   map kmode (skipn (length (defs (fst cvx_cs0))) (defs (fst cvx_csf)))
     = [Some Reduced; Some Reduced; Some Keep; Some Keep; Some Full] /\
   open_wires (fst cvx_csf) = open_wires (fst cvx_cs0)) /\
  (forall d, In d (skipn (length (defs (fst cvx_cs0))) (defs (fst (crun_state 99 cvx_cs0 cvx_ops)))) ->
             def_holds 0%Z 1%Z Z.add Z.mul (fst (crun_state 99 cvx_cs0 cvx_ops)) cvx_tbl d) /\
  (forall rho, net_value 0%Z 1%Z Z.add Z.mul (fst (crun_state 99 cvx_cs0 cvx_ops)) cvx_tbl rho
               = net_value 0%Z 1%Z Z.add Z.mul (fst cvx_cs0) cvx_tbl rho) /\
  (let rho := fun w : wire => match w with 1 => 2 | 4 => 1 | 6 => 1 | _ => 0 end in
   (net_value 0%Z 1%Z Z.add Z.mul (fst cvx_cs0) cvx_tbl rho, net_value 0%Z 1%Z Z.add Z.mul (fst cvx_csf) cvx_tbl rho)
   = ((-27)%Z, (-27)%Z)).
Proof.
  split; [exact cvx_structure|]. split; [exact cvx_contracts|]. split; [exact (proj2 cvx_conclusion)|exact cvx_entry].
Qed.
Print Assumptions C03_state_unchanged_example.
