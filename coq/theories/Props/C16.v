(* Property C16 — a density-operator network built from a pure state (structure, identifier
   maps, control flow of the tensor-product expectation value).  Statements only. *)
From Coq Require Import List Arith Bool String.
From PTN Require Import Tree.RTree TTNDO.Sym TTNDO.SymProofs.
From PTN Require TTN.Store.
Import ListNotations.

(* from_ttns builds, for every tree with unique identifiers, every dimension assignment and
   every root bond dimension k: the artificial root followed by the ket and the bra image of
   every node in pre-order (dictionary order), unique identifiers, the root with exactly the
   children (ket root, bra root) and shape (k, k, 1), and two branches that are images of the
   state's tree under ket_id / bra_id (parent, ordered children, leg dimensions) *)
Theorem C16_doubled_tree_structure : forall (bond phys : nat -> nat) (k : nat) (t : rtree), NoDup (ids t) ->
  map dn_id (doubled bond phys k t) = DRoot :: flat_map (fun n => [ket_id n; bra_id n]) (ids t) /\
  NoDup (map dn_id (doubled bond phys k t)) /\
  find_node DRoot (doubled bond phys k t) =
    Some {| dn_id := DRoot; dn_parent := None; dn_children := [ket_id (rid t); bra_id (rid t)]; dn_shape := [k; k; 1] |} /\
  (forall n s, In n (ids t) ->
     find_node (DN n s) (doubled bond phys k t) =
     Some {| dn_id := DN n s;
             dn_parent := Some (match parent_of n t with Some p => DN p s | None => DRoot end);
             dn_children := map (fun c => DN c s) (children_ids t n);
             dn_shape := (match parent_of n t with Some _ => bond n | None => k end)
                         :: map bond (children_ids t n) ++ [phys n] |}).
Proof. exact doubled_tree_structure. Qed.
Print Assumptions C16_doubled_tree_structure.

(* the identifier maps are mutually inverse where documented, and the encoding is injective *)
Theorem C16_identifier_maps : forall n : nat,
  reverse_ket_id (ket_id n) = Some n /\ reverse_bra_id (bra_id n) = Some n /\
  ket_to_bra_id (ket_id n) = Some (bra_id n) /\ bra_to_ket_id (bra_id n) = Some (ket_id n) /\
  (forall d e, ket_to_bra_id d = Some e -> bra_to_ket_id e = Some d) /\
  (forall a b, code a = code b -> a = b).
Proof.
  exact (fun n => conj (reverse_ket_id_ket_id n) (conj (reverse_bra_id_bra_id n)
          (conj (ket_to_bra_id_ket_id n) (conj (bra_to_ket_id_bra_id n) (conj ket_bra_roundtrip code_inj))))).
Qed.
Print Assumptions C16_identifier_maps.

(* the literal string functions (suffix appended; regex match + slice) realise these maps for
   every name and every non-empty suffix, and the names of the network's nodes are distinct *)
Theorem C16_identifier_strings : forall (ksuf bsuf s : string), ksuf <> ""%string -> bsuf <> ""%string ->
  reverse_id_s ksuf (ket_id_s ksuf s) = Some s /\
  reverse_id_s bsuf (bra_id_s bsuf s) = Some s /\
  ket_to_bra_id_s ksuf bsuf (ket_id_s ksuf s) = Some (bra_id_s bsuf s) /\
  bra_to_ket_id_s ksuf bsuf (bra_id_s bsuf s) = Some (ket_id_s ksuf s) /\
  is_ket_s ksuf (ket_id_s ksuf s) = true /\ ends_with ksuf (ket_id_s ksuf s) = true.
Proof.
  exact (fun ksuf bsuf s Hk Hb =>
    conj (reverse_id_s_app ksuf s Hk) (conj (reverse_id_s_app bsuf s Hb)
      (conj (ket_to_bra_id_s_ket ksuf bsuf s Hk) (conj (bra_to_ket_id_s_bra ksuf bsuf s Hb)
        (conj (is_ket_s_ket ksuf s) (ends_with_app ksuf s)))))).
Qed.
Print Assumptions C16_identifier_strings.

Theorem C16_names_distinct : forall (root_name ksuf bsuf : string) (names : nat -> string),
  (forall n m, names n = names m -> n = m) ->
  String.length ksuf = String.length bsuf -> ksuf <> bsuf ->
  (forall n, root_name <> (names n ++ ksuf)%string) -> (forall n, root_name <> (names n ++ bsuf)%string) ->
  forall d e, name_of root_name ksuf bsuf names d = name_of root_name ksuf bsuf names e -> d = e.
Proof. exact name_of_inj. Qed.
Print Assumptions C16_names_distinct.

(* stated precondition of the contractions: the regex filter of ttndo_contraction_order also
   accepts the bra image of a node whose own name contains the ket suffix *)
Theorem C16_suffix_filter_quirk : forall (ksuf bsuf s : string),
  has_sub ksuf s = true -> is_ket_s ksuf (bra_id_s bsuf s) = true.
Proof. exact is_ket_s_contains. Qed.
Print Assumptions C16_suffix_filter_quirk.

(* the contraction order is the post-order of the state's tree on the ket side *)
Theorem C16_contraction_order : forall t : rtree, contraction_order t = map ket_id (postorder t).
Proof. exact contraction_order_spec. Qed.
Print Assumptions C16_contraction_order.

(* on the names: the regex filter of the code as it stands (bug_regex = true) selects exactly
   these identifiers whenever neither the root's name nor a bra name contains the ket suffix *)
Theorem C16_contraction_order_names : forall (root_name ksuf bsuf : string) (names : nat -> string) (t : rtree),
  is_ket_s ksuf root_name = false ->
  (forall n, In n (ids t) -> is_ket_s ksuf (bra_id_s bsuf (names n)) = false) ->
  contraction_order_s true root_name ksuf bsuf names t = map ket_id (postorder t).
Proof. exact contraction_order_s_ok. Qed.
Print Assumptions C16_contraction_order_names.

(* the repaired filter (endswith) does so for all node names *)
Theorem C16_contraction_order_names_repaired : forall (root_name ksuf bsuf : string) (names : nat -> string) (t : rtree),
  String.length ksuf = String.length bsuf -> ksuf <> bsuf ->
  ends_with ksuf root_name = false ->
  contraction_order_s false root_name ksuf bsuf names t = map ket_id (postorder t).
Proof. exact contraction_order_s_fixed. Qed.
Print Assumptions C16_contraction_order_names_repaired.

(* witness for the regex filter: the bra image of a node named "a_ket" is taken for a ket node *)
Example C16_regex_filter_refuted :
  let names := fun n : nat => nth n ["a_ket"; "b"]%string EmptyString in
  let t := RNode 0 [RNode 1 []] in
  map code (contraction_order_s true "ttndo_root" "_ket" "_bra" names t) = [3; 1; 2] /\
  map code (contraction_order_s false "ttndo_root" "_ket" "_bra" names t) = [3; 1].
Proof. vm_compute. split; reflexivity. Qed.
Print Assumptions C16_regex_filter_refuted.

(* the calls from_ttns makes: one per node in pre-order; a child goes with its leg 0 to leg
   (position + 1) of the images of its parent, on both sides; the state's root goes to leg 0
   (ket) and leg 1 (bra) of the artificial root with the padded leading leg *)
Theorem C16_calls : forall (bond phys : nat -> nat) (k : nat) (t : rtree),
  map sc_child (from_ttns_calls bond phys k t) = ids t /\
  hd_error (from_ttns_calls bond phys k t) =
    Some {| sc_child := rid t; sc_shape := padded_lead k :: ttns_shape bond phys true t; sc_child_leg := 0;
            sc_parent := None; sc_parent_leg := 0; sc_parent_bra_leg := 1 |} /\
  (forall b i cs, ~ In i (flat_map ids cs) ->
     map (fun c => (sc_child c, sc_parent_leg c))
         (filter (fun c => match sc_parent c with Some p => Nat.eqb p i | None => false end)
                 (rec_add_children bond phys b (RNode i cs))) =
     combine (map rid cs) (seq 1 (List.length cs))) /\
  (forall b u c, In c (rec_add_children bond phys b u) ->
     sc_child_leg c = 0 /\ sc_parent_leg c = sc_parent_bra_leg c /\ 1 <= sc_parent_leg c /\
     exists p, sc_parent c = Some p /\ In p (ids u)).
Proof.
  exact (fun bond phys k t => conj (calls_children bond phys k t) (conj (root_call bond phys k t)
          (conj (fun b i cs => rec_add_children_direct bond phys b i cs) (fun b u c => rec_add_children_legs bond phys b u c)))).
Qed.
Print Assumptions C16_calls.

(* for every root bond dimension k >= 1 the padded leg has length k with index 0 as its only
   possibly non-zero slice, and the identity on the artificial root contributes the factor 1 *)
Theorem C16_root_bond_dimension : forall k : nat, 1 <= k ->
  padded_lead k = k /\ List.length (pad_pattern k) = k /\
  (forall a, nth a (pad_pattern k) false = Nat.eqb a 0) /\
  (forall a b, a < k -> b < k -> nth b (nth a (eye_rows k) []) 0 = if Nat.eqb a b then 1 else 0) /\
  root_weight k = 1.
Proof.
  exact (fun k H => conj (padded_lead_eq k H) (conj (pad_pattern_length k H)
          (conj (pad_pattern_nth k) (conj (eye_rows_spec k) (root_weight_one k H))))).
Qed.
Print Assumptions C16_root_bond_dimension.

(* repaired control flow (both defect flags false): every factor is applied exactly once, to the
   ket image of its node, in order; the empty product takes the trace branch; for any network
   type the traced network is the replay of exactly that log *)
Theorem C16_tp_expectation_fixed : forall (Op : Type) (factors : list (nat * Op)),
  tp_log false false factors = (FTrace, map (fun f => (ket_id (fst f), snd f)) factors) /\
  (forall (St : Type) (absorb : St -> did -> Op -> St) (self : St),
     tp_expectation St Op absorb false false self factors =
     (FTrace, replay St Op absorb (snd (tp_log false false factors)) self)).
Proof. exact tp_expectation_fixed. Qed.
Print Assumptions C16_tp_expectation_fixed.

(* the code before the repair: the copy inside the loop leaves only the last factor applied;
   the empty product does not take the trace branch *)
Theorem C16_tp_expectation_defects : forall (Op : Type) (be : bool) (factors : list (nat * Op)) (d : nat * Op),
  factors <> [] ->
  tp_log true be factors = (FTrace, [(ket_id (fst (last factors d)), snd (last factors d))]) /\
  fst (tp_log (Op := Op) be true []) = FScalarProduct.
Proof. exact tp_expectation_bug_general. Qed.
Print Assumptions C16_tp_expectation_defects.

Theorem C16_tp_expectation_refuted :
  (exists factors : list (nat * nat),
     List.length factors = 2 /\
     tp_log true false factors <> tp_log false false factors /\
     snd (tp_log true false factors) = [(ket_id (fst (last factors (0, 0))), snd (last factors (0, 0)))]) /\
  fst (tp_log (Op := nat) false true []) <> FTrace.
Proof. exact tp_expectation_refuted. Qed.
Print Assumptions C16_tp_expectation_refuted.

(* soundness of the per-instance check that ties the description above to the Layer-W store
   model: the store program of from_ttns is accepted step by step and leaves these records *)
Theorem C16_store_check_sound : forall (bond phys : nat -> nat) (k : nat) (t : rtree),
  store_check bond phys k t = true ->
  Forall (fun b => b = true) (snd (from_ttns_store bond phys k t)) /\
  store_nodes (fst (from_ttns_store bond phys k t)) = doubled_coded bond phys k t /\
  Store.root (fst (from_ttns_store bond phys k t)) = Some (code DRoot) /\
  map fst (Store.tensors (fst (from_ttns_store bond phys k t))) = map fst (Store.nodes (fst (from_ttns_store bond phys k t))).
Proof. exact store_check_sound. Qed.
Print Assumptions C16_store_check_sound.

(* non-vacuity: a four-node tree with mixed dimensions, k = 2 *)
Example C16_example_structure :
  let t := RNode 0 [RNode 2 []; RNode 1 [RNode 3 []]] in
  let bond := fun n => nth n [0; 3; 3; 1] 0 in
  let phys := fun n => nth n [2; 2; 3; 3] 0 in
  NoDup (ids t) /\
  map (fun r => (code (dn_id r), dn_shape r)) (doubled bond phys 2 t) =
    [(0, [2; 2; 1]); (1, [2; 3; 3; 2]); (2, [2; 3; 3; 2]); (5, [3; 3]); (6, [3; 3]);
     (3, [3; 1; 2]); (4, [3; 1; 2]); (7, [1; 3]); (8, [1; 3])] /\
  store_check bond phys 2 t = true.
Proof.
  cbv zeta. split; [|split; vm_compute; reflexivity].
  repeat constructor; simpl; intuition discriminate.
Qed.
Print Assumptions C16_example_structure.

Example C16_example_tp :
  tp_obs false false [3; 1; 2] = (true, [(7, 0); (3, 1); (5, 2)]) /\
  tp_obs true true [3; 1; 2] = (true, [(5, 2)]) /\
  tp_obs true true [] = (false, []) /\ tp_obs false false [] = (true, []).
Proof. vm_compute. repeat split; reflexivity. Qed.
Print Assumptions C16_example_tp.

(* ===================================================================================================== *)
(* The contraction code of ttndo_contractions.py at the diagram level (model TTNDO/Contr.v: trace_ttndo,  *)
(* ttndo_ttno_expectation_value, _contract_ttno_root, _single_site_contraction, _contract_final_block     *)
(* and the id_trafo helpers as programs over ONE store holding the whole density-operator network).       *)
(* Names are qualified: Tree.RTree and Contr.Closed both define `rid`.                                    *)
(* ===================================================================================================== *)
From PTN Require Contr.Blocks Contr.Closed TTNDO.Contr TTNDO.ContrProofs.

(* the dictionary view the helpers of contraction_util work with is get_entry(neighbour, node) *)
Theorem C16_cache_view : forall (nb n : nat) (c : Contr.cache),
  Store.aget nb (Contr.cview n c) = Contr.cget (nb, n) c.
Proof. exact ContrProofs.cview_get. Qed.
Print Assumptions C16_cache_view.

(* the loop over the contraction order, for ANY block function that is locally correct at every node of the
   tree: running it over the post-order of a subtree whose identifiers do not yet occur in the dictionary adds
   exactly one entry, (subtree root, its parent), carrying a good block; the children's entries are gone *)
Theorem C16_contraction_loop : forall (blockf : nat -> list (nat * Blocks.garr) -> option (nat * list nat * Blocks.garr))
    (Good : Closed.rt -> Blocks.garr -> Prop) (p : nat) (t : Closed.rt),
  ContrProofs.tree_spec blockf Good p t -> NoDup (Closed.rnodes t) ->
  forall C : Contr.cache, ContrProofs.cfresh (Closed.rnodes t) C ->
  exists g, fold_left (Contr.loop_step blockf) (Contr.rpost t) (Some C) = Some (C ++ [((Closed.rid t, p), g)]) /\ Good t g.
Proof. exact ContrProofs.sub_loop. Qed.
Print Assumptions C16_contraction_loop.

(* contract_bra_to_ket_and_blocks_ignore_one_leg with id_trafo: the bra node's neighbours are its own parent
   (never looked up) and the images of the ket's other neighbours, in any order; the legs meet their partners *)
Theorem C16_bra_to_ket_ignore_id_trafo : forall (tr : nat -> nat) (bt kb : Blocks.garr) (bn kn : Store.node)
    (next bnext : nat) (x : nat -> nat) (wj o p : nat) (pre post : list nat),
  Store.neighbouring_nodes kn = pre ++ next :: post ->
  NoDup (pre ++ next :: post) ->
  NoDup (Store.neighbouring_nodes bn) ->
  Permutation.Permutation (Store.neighbouring_nodes bn) (bnext :: map tr (pre ++ post)) ->
  Blocks.gaxes kb = wj :: o :: map x (map tr (pre ++ post)) ->
  Blocks.gaxes bt = map x (Store.neighbouring_nodes bn) ++ [p] ->
  o <> p ->
  Contr.bra_to_ket_ignore_tr tr bt kb bn kn next =
  Some {| Blocks.gaxes := [wj; x bnext]; Blocks.gatoms := Blocks.gatoms kb ++ Blocks.gatoms bt;
          Blocks.gbnd := map x (map tr (pre ++ post)) ++ Blocks.gbnd kb ++ Blocks.gbnd bt;
          Blocks.gglue := (o, p) :: Blocks.gglue kb ++ Blocks.gglue bt |}.
Proof. exact ContrProofs.bra_to_ket_ignore_tr_axes. Qed.
Print Assumptions C16_bra_to_ket_ignore_id_trafo.

(* the contraction order computed from the store (TreeStructure.linearise filtered by the ket suffix) is the
   post-order of the ket tree, whatever the order of the artificial root's two children *)
Theorem C16_contraction_order_store : forall (im : Contr.idmaps) (d : Store.store) (r0 : nat) (t : Closed.rt),
  Contr.wf_ttndo im d r0 t -> Contr.ttndo_contraction_order im d = Some (Contr.rpost t).
Proof. exact ContrProofs.contraction_order_wf. Qed.
Print Assumptions C16_contraction_order_store.

(* trace_ttndo, every tree, every bond dimension of the artificial root (no dimension occurs in wf_ttndo except
   that the root's open leg has dimension 1), every child order on the bra side: the program succeeds and
   returns the closed network -- no open axis; atoms = the root atom and every ket and bra atom; bound wires = the
   root's open wire and the parent wire of every ket and every bra node; glued pairs = exactly
   (open wire of ket node m, open wire of bra node m).  With bra atom = conj(ket atom) and root = eye(k) on a leg
   padded so that only slice 0 contributes (value-level facts of the build tie, C16_root_bond_dimension) this
   diagram is <psi|psi>. *)
Theorem C16_trace_closed : forall (im : Contr.idmaps) (d : Store.store) (r0 : nat) (t : Closed.rt),
  Contr.wf_ttndo im d r0 t ->
  exists g, Contr.trace_ttndo im d = Some g /\ Blocks.gaxes g = [] /\
    Permutation.Permutation (Blocks.gatoms g) (Contr.tr_atoms im d r0 (Closed.rnodes t)) /\
    Permutation.Permutation (Blocks.gbnd g) (Contr.tr_bnd im d r0 (Closed.rnodes t)) /\
    Permutation.Permutation (Blocks.gglue g) (Contr.tr_glue im d (Closed.rnodes t)).
Proof. exact ContrProofs.trace_ttndo_closed. Qed.
Print Assumptions C16_trace_closed.

(* ttndo_ttno_expectation_value, every tree, every root bond dimension, independent child orders of the bra side
   and of the operator: the closed network with, at every node m, (ket open m, operator input m) and
   (operator output m, bra open m) glued (as unordered pairs), every ket / bra / operator edge summed once *)
Theorem C16_expectation_closed : forall (im : Contr.idmaps) (d op : Store.store) (r0 : nat) (t : Closed.rt),
  Contr.wf_ttndo3 im d op r0 t ->
  exists g, Contr.ttndo_ttno_expectation im d op = Some g /\ Blocks.gaxes g = [] /\
    Permutation.Permutation (Blocks.gatoms g) (Contr.ex_atoms im d op r0 (Closed.rnodes t)) /\
    Permutation.Permutation (Blocks.gbnd g) (Contr.ex_bnd im d op r0 (Closed.rnodes t) (Closed.rdesc t)) /\
    Permutation.Permutation (map Blocks.norm_pair (Blocks.gglue g)) (map Blocks.norm_pair (Contr.ex_glue im d op (Closed.rnodes t))).
Proof. exact ContrProofs.ttndo_expectation_closed. Qed.
Print Assumptions C16_expectation_closed.

(* the same with decidable hypotheses (what the harness evaluates per instance) *)
Theorem C16_wfb_trace_closed : forall (im : Contr.idmaps) (d : Store.store),
  Contr.ttndo_wfb im d = true ->
  exists r0 t g, Contr.ttndo_tree im d = Some (r0, t) /\ Contr.trace_ttndo im d = Some g /\ Blocks.gaxes g = [] /\
    Permutation.Permutation (Blocks.gatoms g) (Contr.tr_atoms im d r0 (Closed.rnodes t)) /\
    Permutation.Permutation (Blocks.gbnd g) (Contr.tr_bnd im d r0 (Closed.rnodes t)) /\
    Permutation.Permutation (Blocks.gglue g) (Contr.tr_glue im d (Closed.rnodes t)).
Proof. exact ContrProofs.ttndo_wfb_trace_closed. Qed.
Print Assumptions C16_wfb_trace_closed.

Theorem C16_wf3b_expectation_closed : forall (im : Contr.idmaps) (d op : Store.store),
  Contr.ttndo_wf3b im d op = true ->
  exists r0 t g, Contr.ttndo_tree im d = Some (r0, t) /\ Contr.ttndo_ttno_expectation im d op = Some g /\ Blocks.gaxes g = [] /\
    Permutation.Permutation (Blocks.gatoms g) (Contr.ex_atoms im d op r0 (Closed.rnodes t)) /\
    Permutation.Permutation (Blocks.gbnd g) (Contr.ex_bnd im d op r0 (Closed.rnodes t) (Closed.rdesc t)) /\
    Permutation.Permutation (map Blocks.norm_pair (Blocks.gglue g)) (map Blocks.norm_pair (Contr.ex_glue im d op (Closed.rnodes t))).
Proof. exact ContrProofs.ttndo_wf3b_expectation_closed. Qed.
Print Assumptions C16_wf3b_expectation_closed.

(* soundness of the per-instance RESULT checkers: the diagram is the expected one and every atom and every bound
   wire occurs exactly once in it *)
Theorem C16_trace_ok_sound : forall (im : Contr.idmaps) (d : Store.store),
  Contr.ttndo_trace_ok im d = true ->
  exists r0 t g, Contr.ttndo_tree im d = Some (r0, t) /\ Contr.trace_ttndo im d = Some g /\ Blocks.gaxes g = [] /\
    Permutation.Permutation (Blocks.gatoms g) (Contr.tr_atoms im d r0 (Closed.rnodes t)) /\ NoDup (Blocks.gatoms g) /\
    Permutation.Permutation (Blocks.gbnd g) (Contr.tr_bnd im d r0 (Closed.rnodes t)) /\ NoDup (Blocks.gbnd g) /\
    Permutation.Permutation (map Blocks.norm_pair (Blocks.gglue g)) (map Blocks.norm_pair (Contr.tr_glue im d (Closed.rnodes t))).
Proof. exact ContrProofs.ttndo_trace_ok_sound. Qed.
Print Assumptions C16_trace_ok_sound.

Theorem C16_expect_ok_sound : forall (im : Contr.idmaps) (d op : Store.store),
  Contr.ttndo_expect_ok im d op = true ->
  exists r0 t g, Contr.ttndo_tree im d = Some (r0, t) /\ Contr.ttndo_ttno_expectation im d op = Some g /\ Blocks.gaxes g = [] /\
    Permutation.Permutation (Blocks.gatoms g) (Contr.ex_atoms im d op r0 (Closed.rnodes t)) /\ NoDup (Blocks.gatoms g) /\
    Permutation.Permutation (Blocks.gbnd g) (Contr.ex_bnd im d op r0 (Closed.rnodes t) (Closed.rdesc t)) /\ NoDup (Blocks.gbnd g) /\
    Permutation.Permutation (map Blocks.norm_pair (Blocks.gglue g)) (map Blocks.norm_pair (Contr.ex_glue im d op (Closed.rnodes t))).
Proof. exact ContrProofs.ttndo_expect_ok_sound. Qed.
Print Assumptions C16_expect_ok_sound.

(* the identifier functions of the model on the encoding `code` are those of part A *)
Theorem C16_code_maps :
  (forall n, Contr.im_kid Contr.code_maps n = code (ket_id n)) /\
  (forall n, Contr.im_bid Contr.code_maps n = code (bra_id n)) /\
  (forall a b, ket_to_bra_id a = Some b -> code b = Contr.im_k2b Contr.code_maps (code a)) /\
  (forall a n, reverse_ket_id a = Some n -> Contr.im_rev Contr.code_maps (code a) = n) /\
  (forall a, Contr.im_isket Contr.code_maps (code a) = is_ket a).
Proof. exact ContrProofs.code_maps_spec. Qed.
Print Assumptions C16_code_maps.

(* non-vacuity: the network from_ttns builds for a four-node tree (k = 2) and an operator with other child orders
   satisfy both hypothesis checkers, and the programs return the expected diagrams *)
Example C16_example_contraction :
  let t := RNode 0 [RNode 2 []; RNode 1 [RNode 3 []]] in
  let bond := fun n => nth n [0; 3; 3; 1] 0 in
  let phys := fun n => nth n [2; 2; 3; 3] 0 in
  let d := fst (from_ttns_store bond phys 2 t) in
  let o := fst (Store.run (Blocks.store_at 1000 100)
                    [Store.AddRoot 0 [2; 2; 2; 2]; Store.AddChild 1 [2; 2; 2; 2] 0 0 0; Store.AddChild 2 [2; 3; 3] 0 0 1;
                     Store.AddChild 3 [2; 3; 3] 0 1 1]) in
  Contr.ttndo_wfb Contr.code_maps d = true /\ Contr.ttndo_trace_ok Contr.code_maps d = true /\
  Contr.ttndo_wf3b Contr.code_maps d o = true /\ Contr.ttndo_expect_ok Contr.code_maps d o = true /\
  option_map Blocks.summary (Contr.trace_ttndo Contr.code_maps d) =
    Some ([], [0; 1; 2; 3; 4; 5; 6; 7; 8], [0; 1; 2; 4; 5; 8; 9; 16; 19], [(6, 10); (12, 14); (17, 20); (22, 24)]).
Proof. exact ContrProofs.ttndo_contr_example. Qed.
Print Assumptions C16_example_contraction.

(* ===================================================================================================== *)
(* Value level: trace() = <psi|psi> as ONE statement (model TTNDO/Value.v, proofs TTNDO/ValueProofs.v).  *)
(* gvalue = the denotation of glued diagrams of C04 (Contr/TensorProdBridge.v) over any commutative      *)
(* semiring; scalar_product woff aoff s None = contract_two_ttns s (conj_store s) = the <psi|psi> diagram *)
(* of C04.  The premises: `ttndo_of` = d is structurally the network from_ttns builds from s with root   *)
(* bond dimension k (decidable, `ttndo_ofb`), `build_contracts` = the three value-level facts about the  *)
(* stored arrays: bra atom = what C04's conjugate copy holds / ket atom = the state's tensor; the root   *)
(* tensor padded with zeros to k slices; the artificial root = eye(k).                                   *)
(* ===================================================================================================== *)
From PTN Require Wire.Sem TTN.InvSem Contr.TensorProd Contr.TensorProdBridge TTNDO.Value TTNDO.ValueProofs.
From Coq Require Import ZArith.

(* for every well-formed state store s with one open leg per node (any node tensors: atoms, inner sums), every tree,
   every root bond dimension k >= 1, every commutative semiring and every pair of atom tables satisfying the build
   contracts: trace_ttndo succeeds on the network, scalar_product succeeds on the state, both return closed diagrams,
   and the two diagrams have the same value *)
Theorem C16_trace_value : forall (R : Type) (zero one : R) (add mul : R -> R -> R),
  Sem.comm_semiring zero one add mul ->
  forall (woff aoff : nat) (im : Contr.idmaps) (d s : Store.store) (r0 : nat) (ts : Closed.rt) (k : nat)
         (tblD tblS : nat -> list nat -> R),
  InvSem.wfs s -> TensorProdBridge.one_open s -> 0 < woff -> Store.next_wire s <= woff -> Store.next_atom s <= aoff ->
  Closed.ket_tree s = Some ts -> 1 <= k ->
  Value.ttndo_of im d s r0 ts k ->
  Value.build_contracts R zero one add mul woff aoff im d s r0 ts k tblD tblS ->
  exists gD gS,
    Contr.trace_ttndo im d = Some gD /\ TensorProd.scalar_product woff aoff s None = Some gS /\
    Blocks.gaxes gD = [] /\ Blocks.gaxes gS = [] /\
    forall rho rho',
      TensorProdBridge.gvalue R zero one add mul (Sem.atom_wires d) (Store.wdim d) tblD gD rho
      = TensorProdBridge.gvalue R zero one add mul (TensorProdBridge.pair_wires s (TensorProd.conj_store woff aoff s))
          (TensorProdBridge.pair_dim s (TensorProd.conj_store woff aoff s)) tblS gS rho'.
Proof. exact ValueProofs.trace_value. Qed.
Print Assumptions C16_trace_value.

(* the same with every structural hypothesis in executable form (what the harness evaluates per build case) *)
Theorem C16_trace_value_checked : forall (R : Type) (zero one : R) (add mul : R -> R -> R),
  Sem.comm_semiring zero one add mul ->
  forall (woff aoff : nat) (im : Contr.idmaps) (d s : Store.store) (r0 : nat) (k : nat) (tblD tblS : nat -> list nat -> R),
  Value.value_hyp woff aoff im d s r0 k = true ->
  (forall ts, Closed.ket_tree s = Some ts -> Value.build_contracts R zero one add mul woff aoff im d s r0 ts k tblD tblS) ->
  exists gD gS,
    Contr.trace_ttndo im d = Some gD /\ TensorProd.scalar_product woff aoff s None = Some gS /\
    Blocks.gaxes gD = [] /\ Blocks.gaxes gS = [] /\
    forall rho rho',
      TensorProdBridge.gvalue R zero one add mul (Sem.atom_wires d) (Store.wdim d) tblD gD rho
      = TensorProdBridge.gvalue R zero one add mul (TensorProdBridge.pair_wires s (TensorProd.conj_store woff aoff s))
          (TensorProdBridge.pair_dim s (TensorProd.conj_store woff aoff s)) tblS gS rho'.
Proof. exact ValueProofs.trace_value_b. Qed.
Print Assumptions C16_trace_value_checked.

(* soundness of the executable forms: structure, and (over Z) the build contracts checked on every in-range index *)
Theorem C16_ttndo_ofb_sound : forall (im : Contr.idmaps) (d s : Store.store) (r0 : nat) (ts : Closed.rt) (k : nat),
  Value.ttndo_ofb im d s r0 ts k = true -> Value.ttndo_of im d s r0 ts k.
Proof. exact ValueProofs.ttndo_ofb_sound. Qed.
Print Assumptions C16_ttndo_ofb_sound.

Theorem C16_build_contractsb_sound : forall (woff aoff : nat) (im : Contr.idmaps) (d s : Store.store) (r0 : nat) (ts : Closed.rt) (k : nat)
    (tblD tblS : nat -> list nat -> Z),
  Value.build_contractsb woff aoff im d s r0 ts k tblD tblS = true ->
  Value.build_contracts Z 0%Z 1%Z Z.add Z.mul woff aoff im d s r0 ts k tblD tblS.
Proof. exact ValueProofs.build_contractsb_sound. Qed.
Print Assumptions C16_build_contractsb_sound.

(* the core of the argument, usable on its own: sums over two wire lists that correspond wire by wire *)
Theorem C16_sum_rename : forall (R : Type) (zero : R) (add : R -> R -> R) (dim dim' : nat -> nat)
    (F F' : (nat -> nat) -> R) (ps : list (nat * nat)) (rho rho' : nat -> nat),
  NoDup (map fst ps) -> NoDup (map snd ps) ->
  (forall p, In p ps -> dim (fst p) = dim' (snd p)) ->
  (forall r r', (forall p, In p ps -> r (fst p) < dim (fst p) /\ r' (snd p) = r (fst p)) ->
                (forall w, ~ In w (map fst ps) -> r w = rho w) ->
                (forall w, ~ In w (map snd ps) -> r' w = rho' w) -> F r = F' r') ->
  Sem.sum_bnd R zero add dim (map fst ps) F rho = Sem.sum_bnd R zero add dim' (map snd ps) F' rho'.
Proof. exact ValueProofs.sum_bnd_rename. Qed.
Print Assumptions C16_sum_rename.

(* non-vacuity: the four-node tree of the examples above, root bond dimensions 1, 2 and 3 (3 is more than any bond of
   the state needs: the padding is exercised); the state's atoms and those of its conjugate copy carry unrelated integer
   entries, the network's table is eye(k) / the padded root tensors / the twins.  All structural hypotheses and the
   build contracts (every in-range index) evaluate to true, and both diagrams evaluate to the same number. *)
Example C16_example_value :
  Closed.ket_tree Value.vx_s = Some Value.vx_ts /\
  Value.value_case Value.vx_bond Value.vx_phys 1 Value.vx_t 1000 100 = true /\
  Value.value_case Value.vx_bond Value.vx_phys 2 Value.vx_t 1000 100 = true /\
  Value.value_case Value.vx_bond Value.vx_phys 3 Value.vx_t 1000 100 = true /\
  Value.build_contractsb 1000 100 Contr.code_maps (Value.vx_d 1) Value.vx_s 0 Value.vx_ts 1 Value.vx_tblD Value.vx_tblS = true /\
  Value.build_contractsb 1000 100 Contr.code_maps (Value.vx_d 2) Value.vx_s 0 Value.vx_ts 2 Value.vx_tblD Value.vx_tblS = true /\
  Value.build_contractsb 1000 100 Contr.code_maps (Value.vx_d 3) Value.vx_s 0 Value.vx_ts 3 Value.vx_tblD Value.vx_tblS = true.
Proof. exact ValueProofs.value_example_hyp. Qed.
Print Assumptions C16_example_value.

Example C16_example_value_numbers :
  Value.vx_norm = Some 2494%Z /\ Value.vx_trace 1 = Some 2494%Z /\ Value.vx_trace 2 = Some 2494%Z.
Proof. exact ValueProofs.value_example_numbers. Qed.
Print Assumptions C16_example_value_numbers.

(* ---- single-site operator: the two halves (TTNDO/ValueTP.v); joined in C16_tp1_value below ------------------------------ *)
From PTN Require TEBD.Trotter TTNDO.ValueTP.

(* absorb_into_open_legs at the ket image of ANY node c of the state keeps the network a well-formed density-operator
   network, hence trace_ttndo succeeds on it and closes it, for every tree and every root bond dimension.  Named
   _partial because it is one HALF of "single-site expectation value on the network = pure-state value"
   (C16_tp1_state_value_partial below is the pure-state half); the halves are joined in C16_tp1_value. *)
Theorem C16_tp1_absorbed_closed_partial : forall (im : Contr.idmaps) (d s : Store.store) (r0 : nat) (ts : Closed.rt) (k : nat),
  Value.ttndo_of im d s r0 ts k ->
  forall c : nat, In c (Closed.rnodes ts) ->
  forall D' : Store.store,
  Trotter.absorb_open d (Contr.im_kid im c) [Store.wdim s (Closed.open_wire s c); Store.wdim s (Closed.open_wire s c)] = Some D' ->
  Contr.wf_ttndo im D' r0 (Value.rmap (Contr.im_kid im) ts) /\
  exists g, Contr.trace_ttndo im D' = Some g /\ Blocks.gaxes g = [] /\
    Permutation.Permutation (Blocks.gatoms g) (Contr.tr_atoms im D' r0 (Closed.rnodes (Value.rmap (Contr.im_kid im) ts))) /\
    Permutation.Permutation (Blocks.gbnd g) (Contr.tr_bnd im D' r0 (Closed.rnodes (Value.rmap (Contr.im_kid im) ts))) /\
    Permutation.Permutation (Blocks.gglue g) (Contr.tr_glue im D' (Closed.rnodes (Value.rmap (Contr.im_kid im) ts))).
Proof.
  exact (fun im d s r0 ts k TO c Hc D' H =>
           conj (ValueTP.wf_ttndo_absorbed im d s r0 ts k TO c Hc D' H) (ValueTP.absorbed_trace_closed im d s r0 ts k TO c Hc D' H)).
Qed.
Print Assumptions C16_tp1_absorbed_closed_partial.

(* the pure-state half: the value of C04's <psi|O_c|psi> diagram (one factor on any node c, any tree, any state store) as
   a flat sum over both copies of every edge wire, every ket-side open wire and the operator's output wire *)
Theorem C16_tp1_state_value_partial : forall (R : Type) (zero one : R) (add mul : R -> R -> R),
  Sem.comm_semiring zero one add mul ->
  forall (woff aoff : nat) (s : Store.store) (tbl : nat -> list nat -> R),
  InvSem.wfs s -> Store.next_wire s + 2 <= woff -> Store.next_atom s < aoff ->
  forall ts : Closed.rt, Closed.wf_two s (TensorProd.conj_store woff aoff s) ts ->
  Permutation.Permutation (Closed.rnodes ts) (Store.akeys (Store.nodes s)) ->
  forall c : nat, In c (Closed.rnodes ts) ->
  forall dd : nat, dd = Store.wdim s (Closed.open_wire s c) ->
  exists g, TensorProd.tp_expectation woff aoff s [(c, [dd; dd])] = Some g /\ Blocks.gaxes g = [] /\
    forall rho,
      TensorProdBridge.gvalue R zero one add mul (Value.tp1_wiresS woff aoff s c) (Value.tp1_dimS woff aoff s c) tbl g rho
      = Sem.sum_bnd R zero add (Value.tp1_dimS woff aoff s c) (Value.restS woff s ts ++ [Store.next_wire s])
          (fun r => mul (ValueTP.prodS1 R zero one add mul woff aoff s tbl ts c r)
                        (Sem.atoms_val R one mul (Value.tp1_wiresS woff aoff s c) tbl [Store.next_atom s] r)) rho.
Proof. exact ValueTP.S_value_tp1. Qed.
Print Assumptions C16_tp1_state_value_partial.

(* ---- single-site operator: the two halves joined (TTNDO/ValueTP1.v) -------------------------------------------------- *)
From PTN Require TTNDO.ValueTP1.

(* TTNDO.tensor_product_expectation_value with ONE factor (absorb_into_open_legs at the ket image of c, then trace():
   ValueTP1.ttndo_tp_expectation) against C04's pure-state <psi|O_c|psi> diagram (TensorProd.tp_expectation):
   for every well-formed state store s with one open leg per node, every tree, every root bond dimension k >= 1, every
   node c and every operator atom of shape (dd, dd), dd the physical dimension of c, every commutative semiring and
   every pair of atom tables satisfying the build contracts and holding the SAME operator matrix on the operator atom
   (next_atom d in the world of the network, next_atom s in the world of the state): the absorption is accepted, both
   contractions succeed with closed diagrams, and the two diagrams have the same value.  The worlds: the network after
   the absorption (its own atom table and dimensions); the state's pair world extended by the operator atom on
   (output wire next_wire s, open wire of c) (Value.tp1_wiresS / tp1_dimS). *)
Theorem C16_tp1_value : forall (R : Type) (zero one : R) (add mul : R -> R -> R),
  Sem.comm_semiring zero one add mul ->
  forall (woff aoff : nat) (im : Contr.idmaps) (d s : Store.store) (r0 : nat) (ts : Closed.rt) (k : nat)
         (tblD tblS : nat -> list nat -> R),
  InvSem.wfs s -> TensorProdBridge.one_open s -> Store.next_wire s + 2 <= woff -> Store.next_atom s < aoff ->
  Closed.ket_tree s = Some ts -> 1 <= k ->
  Value.ttndo_of im d s r0 ts k ->
  Value.build_contracts R zero one add mul woff aoff im d s r0 ts k tblD tblS ->
  forall (c dd : nat), In c (Closed.rnodes ts) -> dd = Store.wdim s (Closed.open_wire s c) ->
  (forall i j, i < dd -> j < dd -> tblD (Store.next_atom d) [i; j] = tblS (Store.next_atom s) [i; j]) ->
  exists D' gD gS,
    ValueTP1.ttndo_tp_apply im d [(c, [dd; dd])] = Some D' /\
    ValueTP1.ttndo_tp_expectation im d [(c, [dd; dd])] = Some gD /\
    TensorProd.tp_expectation woff aoff s [(c, [dd; dd])] = Some gS /\
    Blocks.gaxes gD = [] /\ Blocks.gaxes gS = [] /\
    forall rho rho',
      TensorProdBridge.gvalue R zero one add mul (Sem.atom_wires D') (Store.wdim D') tblD gD rho
      = TensorProdBridge.gvalue R zero one add mul (Value.tp1_wiresS woff aoff s c) (Value.tp1_dimS woff aoff s c) tblS gS rho'.
Proof. exact ValueTP1.tp1_value. Qed.
Print Assumptions C16_tp1_value.

(* the same with every structural hypothesis in executable form *)
Theorem C16_tp1_value_checked : forall (R : Type) (zero one : R) (add mul : R -> R -> R),
  Sem.comm_semiring zero one add mul ->
  forall (woff aoff : nat) (im : Contr.idmaps) (d s : Store.store) (r0 : nat) (k : nat) (tblD tblS : nat -> list nat -> R),
  Value.value_hyp woff aoff im d s r0 k = true -> Store.next_wire s + 2 <= woff -> Store.next_atom s < aoff ->
  (forall ts, Closed.ket_tree s = Some ts -> Value.build_contracts R zero one add mul woff aoff im d s r0 ts k tblD tblS) ->
  forall (c dd : nat), In c (Store.akeys (Store.nodes s)) -> dd = Store.wdim s (Closed.open_wire s c) ->
  (forall i j, i < dd -> j < dd -> tblD (Store.next_atom d) [i; j] = tblS (Store.next_atom s) [i; j]) ->
  exists D' gD gS,
    ValueTP1.ttndo_tp_apply im d [(c, [dd; dd])] = Some D' /\
    ValueTP1.ttndo_tp_expectation im d [(c, [dd; dd])] = Some gD /\
    TensorProd.tp_expectation woff aoff s [(c, [dd; dd])] = Some gS /\
    Blocks.gaxes gD = [] /\ Blocks.gaxes gS = [] /\
    forall rho rho',
      TensorProdBridge.gvalue R zero one add mul (Sem.atom_wires D') (Store.wdim D') tblD gD rho
      = TensorProdBridge.gvalue R zero one add mul (Value.tp1_wiresS woff aoff s c) (Value.tp1_dimS woff aoff s c) tblS gS rho'.
Proof. exact ValueTP1.tp1_value_b. Qed.
Print Assumptions C16_tp1_value_checked.

(* non-vacuity: the four-node tree of C16_example_value; the operator atom (4 in the world of the state, 9 in the world
   of the network) carries the same NON-symmetric integer matrix in both tables; on the inner node 1 (physical dimension
   2, k = 2) and on the leaf 2 (physical dimension 3, k = 1) both diagrams evaluate (vm_compute) to the same number *)
Example C16_example_tp1_numbers :
  (Store.next_atom Value.vx_s, Store.next_atom (Value.vx_d 2)) = (4, 9) /\
  map ValueTP1.vx_opdim [0; 1; 2; 3] = [2; 2; 3; 3] /\
  (Value.vx_tblS 4 [0; 1], Value.vx_tblS 4 [1; 0]) = (-3, -1)%Z /\
  forallb (fun kc => ValueTP1.vx_op_same (fst kc) (snd kc)) [(1, 0); (2, 1); (3, 2); (2, 3)] = true /\
  ValueTP1.vx_tp1_S 1 = Some (-164)%Z /\ ValueTP1.vx_tp1_D 2 1 = Some (-164)%Z /\
  ValueTP1.vx_tp1_S 2 = Some 2428%Z /\ ValueTP1.vx_tp1_D 1 2 = Some 2428%Z.
Proof. exact ValueTP1.tp1_example_numbers. Qed.
Print Assumptions C16_example_tp1_numbers.

(* the hypotheses of C16_tp1_value are satisfiable: the theorem applies to the example (k = 3) on each of its nodes *)
Example C16_example_tp1_applies : forall c, In c [0; 1; 2; 3] -> exists D' gD gS,
  ValueTP1.ttndo_tp_apply Contr.code_maps (Value.vx_d 3) [(c, [ValueTP1.vx_opdim c; ValueTP1.vx_opdim c])] = Some D' /\
  ValueTP1.ttndo_tp_expectation Contr.code_maps (Value.vx_d 3) [(c, [ValueTP1.vx_opdim c; ValueTP1.vx_opdim c])] = Some gD /\
  TensorProd.tp_expectation 1000 100 Value.vx_s [(c, [ValueTP1.vx_opdim c; ValueTP1.vx_opdim c])] = Some gS /\
  forall rho rho',
    TensorProdBridge.gvalue Z 0%Z 1%Z Z.add Z.mul (Sem.atom_wires D') (Store.wdim D') Value.vx_tblD gD rho
    = TensorProdBridge.gvalue Z 0%Z 1%Z Z.add Z.mul (Value.tp1_wiresS 1000 100 Value.vx_s c) (Value.tp1_dimS 1000 100 Value.vx_s c) Value.vx_tblS gS rho'.
Proof. exact ValueTP1.tp1_example_thm. Qed.
Print Assumptions C16_example_tp1_applies.

(* ---- tensor products on ANY number of distinct sites (TTNDO/ValueTPNA.v: state side, TTNDO/ValueTPN.v: network + join) ---- *)
From PTN Require TTNDO.ValueTPNA TTNDO.ValueTPN.

(* TTNDO.tensor_product_expectation_value (for every factor absorb_into_open_legs at the ket image of its site, in dict
   order, then trace(): ValueTP1.ttndo_tp_expectation) against C04's pure-state path TensorProd.tp_expectation (conjugate
   copy of the ORIGINAL state, apply_operator, contract_two_ttns): for every well-formed state store s with one open leg
   per node, every tree, every root bond dimension k >= 1 and every list ops of (site, operator shape) with pairwise
   DISTINCT sites and shapes (dd, dd), dd the physical dimension of the site -- any number of factors, the empty list
   included -- over every commutative semiring: if d is structurally the network from_ttns builds (ttndo_of), the atom
   tables satisfy the build contracts and factor i (atom next_atom d + i in the network, next_atom s + i on the state
   side) holds the same matrix in both tables, then every absorption is accepted, both paths succeed with closed
   diagrams, and the two diagrams have the same value.  World of the state side: C04's pair world extended by the rows
   apply_operator appends (ValueTPNA.tpN_wiresS / tpN_dimS: factor i on (next_wire s + i, open wire of its site)). *)
Theorem C16_tp_value : forall (R : Type) (zero one : R) (add mul : R -> R -> R),
  Sem.comm_semiring zero one add mul ->
  forall (woff aoff : nat) (im : Contr.idmaps) (d s : Store.store) (r0 : nat) (ts : Closed.rt) (k : nat)
         (tblD tblS : nat -> list nat -> R) (ops : list (nat * list nat)),
  InvSem.wfs s -> TensorProdBridge.one_open s -> 0 < woff ->
  Store.next_wire s + List.length ops <= woff -> Store.next_atom s + List.length ops <= aoff ->
  Closed.ket_tree s = Some ts -> 1 <= k ->
  Value.ttndo_of im d s r0 ts k ->
  Value.build_contracts R zero one add mul woff aoff im d s r0 ts k tblD tblS ->
  NoDup (map fst ops) ->
  (forall o, In o ops -> In (fst o) (Closed.rnodes ts) /\
                         snd o = [Store.wdim s (Closed.open_wire s (fst o)); Store.wdim s (Closed.open_wire s (fst o))]) ->
  (forall i o, nth_error ops i = Some o -> forall a b, a < hd 0 (snd o) -> b < hd 0 (snd o) ->
     tblD (Store.next_atom d + i) [a; b] = tblS (Store.next_atom s + i) [a; b]) ->
  exists D' gD gS,
    ValueTP1.ttndo_tp_apply im d ops = Some D' /\
    ValueTP1.ttndo_tp_expectation im d ops = Some gD /\ TensorProd.tp_expectation woff aoff s ops = Some gS /\
    Blocks.gaxes gD = [] /\ Blocks.gaxes gS = [] /\
    forall rho rho',
      TensorProdBridge.gvalue R zero one add mul (Sem.atom_wires D') (Store.wdim D') tblD gD rho
      = TensorProdBridge.gvalue R zero one add mul (ValueTPNA.tpN_wiresS woff aoff s ops) (ValueTPNA.tpN_dimS woff aoff s ops) tblS gS rho'.
Proof. exact ValueTPN.tp_value. Qed.
Print Assumptions C16_tp_value.

(* the same with every structural hypothesis in executable form *)
Theorem C16_tp_value_checked : forall (R : Type) (zero one : R) (add mul : R -> R -> R),
  Sem.comm_semiring zero one add mul ->
  forall (woff aoff : nat) (im : Contr.idmaps) (d s : Store.store) (r0 : nat) (k : nat) (tblD tblS : nat -> list nat -> R)
         (ops : list (nat * list nat)),
  Value.value_hyp woff aoff im d s r0 k = true ->
  Store.next_wire s + List.length ops <= woff -> Store.next_atom s + List.length ops <= aoff ->
  (forall ts, Closed.ket_tree s = Some ts -> Value.build_contracts R zero one add mul woff aoff im d s r0 ts k tblD tblS) ->
  NoDup (map fst ops) ->
  (forall o, In o ops -> In (fst o) (Store.akeys (Store.nodes s)) /\
                         snd o = [Store.wdim s (Closed.open_wire s (fst o)); Store.wdim s (Closed.open_wire s (fst o))]) ->
  (forall i o, nth_error ops i = Some o -> forall a b, a < hd 0 (snd o) -> b < hd 0 (snd o) ->
     tblD (Store.next_atom d + i) [a; b] = tblS (Store.next_atom s + i) [a; b]) ->
  exists D' gD gS,
    ValueTP1.ttndo_tp_apply im d ops = Some D' /\
    ValueTP1.ttndo_tp_expectation im d ops = Some gD /\ TensorProd.tp_expectation woff aoff s ops = Some gS /\
    Blocks.gaxes gD = [] /\ Blocks.gaxes gS = [] /\
    forall rho rho',
      TensorProdBridge.gvalue R zero one add mul (Sem.atom_wires D') (Store.wdim D') tblD gD rho
      = TensorProdBridge.gvalue R zero one add mul (ValueTPNA.tpN_wiresS woff aoff s ops) (ValueTPNA.tpN_dimS woff aoff s ops) tblS gS rho'.
Proof. exact ValueTPN.tp_value_b. Qed.
Print Assumptions C16_tp_value_checked.

(* the state side read in C04's own world: the pair world of (the state after apply_operator, the conjugate copy of the
   original state), the world contract_two_ttns of that pair lives in *)
Theorem C16_tp_value_pair_world : forall (R : Type) (zero one : R) (add mul : R -> R -> R),
  Sem.comm_semiring zero one add mul ->
  forall (woff aoff : nat) (im : Contr.idmaps) (d s : Store.store) (r0 : nat) (ts : Closed.rt) (k : nat)
         (tblD tblS : nat -> list nat -> R) (ops : list (nat * list nat)),
  InvSem.wfs s -> TensorProdBridge.one_open s -> 0 < woff ->
  Store.next_wire s + List.length ops <= woff -> Store.next_atom s + List.length ops <= aoff ->
  Closed.ket_tree s = Some ts -> 1 <= k ->
  Value.ttndo_of im d s r0 ts k ->
  Value.build_contracts R zero one add mul woff aoff im d s r0 ts k tblD tblS ->
  NoDup (map fst ops) ->
  (forall o, In o ops -> In (fst o) (Closed.rnodes ts) /\
                         snd o = [Store.wdim s (Closed.open_wire s (fst o)); Store.wdim s (Closed.open_wire s (fst o))]) ->
  (forall i o, nth_error ops i = Some o -> forall a b, a < hd 0 (snd o) -> b < hd 0 (snd o) ->
     tblD (Store.next_atom d + i) [a; b] = tblS (Store.next_atom s + i) [a; b]) ->
  exists D' ketS gD gS,
    ValueTP1.ttndo_tp_apply im d ops = Some D' /\ TensorProd.tp_apply s ops = Some ketS /\
    ValueTP1.ttndo_tp_expectation im d ops = Some gD /\ TensorProd.tp_expectation woff aoff s ops = Some gS /\
    Blocks.gaxes gD = [] /\ Blocks.gaxes gS = [] /\
    forall rho rho',
      TensorProdBridge.gvalue R zero one add mul (Sem.atom_wires D') (Store.wdim D') tblD gD rho
      = TensorProdBridge.gvalue R zero one add mul (TensorProdBridge.pair_wires ketS (TensorProd.conj_store woff aoff s))
          (TensorProdBridge.pair_dim ketS (TensorProd.conj_store woff aoff s)) tblS gS rho'.
Proof. exact ValueTPN.tp_value_pair_world. Qed.
Print Assumptions C16_tp_value_pair_world.

(* the state side on its own (C04's fused form for a general glue list): the value of the <psi| (x)_i O_i |psi> diagram is the
   sum over both copies of every edge wire, every ket-side open wire and the factors' output wires of
   (product over the nodes of node tensor . conjugate copy's node tensor read through the gluing) . (product of the factor entries),
   in any world that extends the state and its conjugate copy by the factor atoms *)
Theorem C16_tp_state_value : forall (R : Type) (zero one : R) (add mul : R -> R -> R),
  Sem.comm_semiring zero one add mul ->
  forall (woff aoff : nat) (s : Store.store) (tbl : nat -> list nat -> R),
  InvSem.wfs s ->
  forall ops : list (nat * list nat),
  Store.next_wire s + List.length ops <= woff -> Store.next_atom s + List.length ops <= aoff -> 0 < woff ->
  forall ts : Closed.rt, Closed.wf_two s (TensorProd.conj_store woff aoff s) ts ->
  Permutation.Permutation (Closed.rnodes ts) (Store.akeys (Store.nodes s)) ->
  NoDup (map fst ops) -> (forall o, In o ops -> In (fst o) (Closed.rnodes ts)) ->
  (forall o, In o ops -> snd o = [Store.wdim s (Closed.open_wire s (fst o)); Store.wdim s (Closed.open_wire s (fst o))]) ->
  forall (Wr : nat -> list nat) (Dm : nat -> nat),
  (forall a, In a (Inv.total_atoms s) -> Wr a = Sem.atom_wires s a) ->
  (forall a, a < Store.next_atom s -> Wr (aoff + a) = map (Nat.add woff) (Sem.atom_wires s a)) ->
  (forall i o, nth_error ops i = Some o -> Wr (Store.next_atom s + i) = [Store.next_wire s + i; Closed.open_wire s (fst o)]) ->
  exists ketS g, TensorProd.tp_apply s ops = Some ketS /\ TensorProd.tp_expectation woff aoff s ops = Some g /\ Blocks.gaxes g = [] /\
    Store.atab ketS = Store.atab s ++ TensorProd.tp_rows s ops /\
    forall rho,
      TensorProdBridge.gvalue R zero one add mul Wr Dm tbl g rho
      = Sem.sum_bnd R zero add Dm (Value.restS woff s ts ++ ValueTPNA.new_wires s ops)
          (fun r => mul (ValueTPNA.prodSN R zero one add mul woff aoff s tbl ops ts Wr Dm r)
                        (Sem.atoms_val R one mul Wr tbl (ValueTPNA.new_atoms s ops) r)) rho.
Proof. exact ValueTPNA.S_value_tpN. Qed.
Print Assumptions C16_tp_state_value.

(* non-vacuity: the four-node tree of C16_example_value with offsets 20 / 10; TWO non-symmetric integer factors
   (atoms 4, 5 on the state side, 9, 10 in the network); on the sites (1, 0) and (1, 3) -- an inner node with the root,
   an inner node with its leaf child, physical dimensions (2, 2) and (2, 3) -- both diagrams evaluate (vm_compute) to
   the same number; all structural hypotheses and the build contracts hold for these tables *)
Example C16_example_tp_numbers :
  (ValueTPN.vx_tblS3 4 [0; 1], ValueTPN.vx_tblS3 4 [1; 0], ValueTPN.vx_tblS3 5 [0; 1], ValueTPN.vx_tblS3 5 [1; 0]) = (-3, -1, 3, -2)%Z /\
  ValueTPN.vx_tpN_S [1; 0] = Some 10484%Z /\ ValueTPN.vx_tpN_D 1 [1; 0] = Some 10484%Z /\
  ValueTPN.vx_tpN_S [1; 3] = Some (-902)%Z /\ ValueTPN.vx_tpN_D 1 [1; 3] = Some (-902)%Z.
Proof. exact ValueTPN.tpN_example_numbers. Qed.
Print Assumptions C16_example_tp_numbers.

Example C16_example_tp_hyp :
  (Store.next_wire Value.vx_s, Store.next_atom Value.vx_s, Store.next_atom (Value.vx_d 1)) = (10, 4, 9) /\
  Value.value_case Value.vx_bond Value.vx_phys 1 Value.vx_t 20 10 = true /\
  Value.value_case Value.vx_bond Value.vx_phys 3 Value.vx_t 20 10 = true /\
  Value.build_contractsb 20 10 Contr.code_maps (Value.vx_d 1) Value.vx_s 0 Value.vx_ts 1 Value.vx_tblD ValueTPN.vx_tblS3 = true /\
  Value.build_contractsb 20 10 Contr.code_maps (Value.vx_d 3) Value.vx_s 0 Value.vx_ts 3 Value.vx_tblD ValueTPN.vx_tblS3 = true.
Proof. exact ValueTPN.tpN_example_hyp. Qed.
Print Assumptions C16_example_tp_hyp.

(* the theorem applies to the example (k = 3) with the two factors on the sites 1 and 3 *)
Example C16_example_tp_applies : exists D' gD gS,
  ValueTP1.ttndo_tp_apply Contr.code_maps (Value.vx_d 3) (ValueTPN.vx_ops [1; 3]) = Some D' /\
  ValueTP1.ttndo_tp_expectation Contr.code_maps (Value.vx_d 3) (ValueTPN.vx_ops [1; 3]) = Some gD /\
  TensorProd.tp_expectation 20 10 Value.vx_s (ValueTPN.vx_ops [1; 3]) = Some gS /\
  forall rho rho',
    TensorProdBridge.gvalue Z 0%Z 1%Z Z.add Z.mul (Sem.atom_wires D') (Store.wdim D') Value.vx_tblD gD rho
    = TensorProdBridge.gvalue Z 0%Z 1%Z Z.add Z.mul (ValueTPNA.tpN_wiresS 20 10 Value.vx_s (ValueTPN.vx_ops [1; 3]))
        (ValueTPNA.tpN_dimS 20 10 Value.vx_s (ValueTPN.vx_ops [1; 3])) ValueTPN.vx_tblS3 gS rho'.
Proof. exact ValueTPN.tpN_example_thm. Qed.
Print Assumptions C16_example_tp_applies.

(* [ext-C16T] ---- TTNO path: TTNDO.ttno_expectation_value(operator) against C04's three-layer <psi|H|psi> ------------------------ *)
From PTN Require Contr.ThreeLayerValue TTNDO.ValueTTNO TTNDO.ValueTTNOGen TTNDO.ValueTTNOProofs.

(* the value of a closed glued diagram whose glued pairs are known only as UNORDERED pairs (what C16_expectation_closed gives):
   if both wires of every pair have the same dimension and the paired wires are pairwise distinct, the value is the sum
   over the bound wires and one index per pair of the product of the atoms, in ANY orientation G of the pairs *)
Theorem C16_gvalue_unoriented : forall (R : Type) (zero one : R) (add mul : R -> R -> R),
  Sem.comm_semiring zero one add mul ->
  forall (wires_of : nat -> list nat) (dim : nat -> nat) (tbl : nat -> list nat -> R)
         (g : Blocks.garr) (A : list nat) (L : list nat) (G : list (nat * nat)) (rho : nat -> nat),
  Permutation.Permutation (Blocks.gatoms g) A -> Permutation.Permutation (Blocks.gbnd g) L ->
  Permutation.Permutation (map Blocks.norm_pair (Blocks.gglue g)) (map Blocks.norm_pair G) ->
  NoDup (map fst G ++ map snd G) ->
  (forall p, In p G -> dim (fst p) = dim (snd p)) ->
  TensorProdBridge.gvalue R zero one add mul wires_of dim tbl g rho
  = Sem.sum_bnd R zero add dim (L ++ map fst G)
      (fun r => Sem.atoms_val R one mul wires_of tbl A (TensorProdBridge.glue_asg G r)) rho.
Proof. exact ValueTTNOGen.gvalue_norm_unoriented. Qed.
Print Assumptions C16_gvalue_unoriented.

(* STEP 1, the fused flat form of the network side.  d structurally the network from_ttns builds from s (ttndo_of), op a
   well-formed operator store on the state's tree (wf_three: any child orders; wf_ttndo3: the hypothesis of
   C16_expectation_closed), reverse_ket_id o ket_id = id on the tree, the operator's wires above the network's, any world
   that reads the network's and the operator's atoms on their own wires and gives both wires of every glued physical pair
   the same dimension: ttndo_ttno_expectation succeeds with a closed diagram whose value is
     ttndo_three_flat = SUM over the three wires of the artificial root, the three copies (ket image, operator, bra image)
                        of every tree edge and one index per glued pair (ket open ~ operator input, operator output ~ bra open)
                        of (artificial root's tensor) . PROD over the nodes of (ket image)(operator tensor)(bra image),
   every tensor read through the gluing; the operator's node tensors are arbitrary (inner sums included) *)
Theorem C16_ttno_expectation_flat : forall (R : Type) (zero one : R) (add mul : R -> R -> R),
  Sem.comm_semiring zero one add mul ->
  forall (woff : nat) (im : Contr.idmaps) (d s op : Store.store) (r0 : nat) (ts : Closed.rt) (k : nat)
         (tblD : nat -> list nat -> R) (WrD : nat -> list nat) (DmD : nat -> nat),
  InvSem.wfs op -> Value.ttndo_of im d s r0 ts k -> Closed.wf_three woff s op ts ->
  Contr.wf_ttndo3 im d op r0 (Value.rmap (Contr.im_kid im) ts) ->
  (forall n, In n (Closed.rnodes ts) -> Contr.im_rev im (Contr.im_kid im n) = n) ->
  ThreeLayerValue.op_above (Store.next_wire d) op ->
  (forall a, In a (Inv.total_atoms d) -> WrD a = Sem.atom_wires d a) ->
  (forall a, In a (Inv.total_atoms op) -> WrD a = Sem.atom_wires op a) ->
  (forall p, In p (ValueTTNO.glueD3 im d op ts) -> DmD (fst p) = DmD (snd p)) ->
  exists g, Contr.ttndo_ttno_expectation im d op = Some g /\ Blocks.gaxes g = [] /\
    forall rho, TensorProdBridge.gvalue R zero one add mul WrD DmD tblD g rho
                = ValueTTNO.ttndo_three_flat R zero one add mul WrD DmD tblD im d op r0 ts rho.
Proof. exact ValueTTNOProofs.D_flat. Qed.
Print Assumptions C16_ttno_expectation_flat.

(* STEPS 2 + 3, THE VALUE THEOREM FOR THE TTNO PATH.  TTNDO.ttno_expectation_value(operator) (model Contr.ttndo_ttno_expectation:
   contraction order, cache dictionary, contract_any_node_environment_but_one with the id_trafo helpers, _contract_ttno_root,
   _contract_final_block) against C04's three-layer <psi|H|psi> (Blocks.expectation_value on the state, the operator and the
   conjugate copy).  For every wfs state store s with one open leg per node, every tree (ket_tree s = Some ts), every k >= 1,
   every wfs operator store op with two open legs per node on the same tree (same root, same parents, the children of every
   node in ANY order), read by BOTH sides (its wires above the state's and the network's, below woff), over every commutative
   semiring: if d is structurally the network from_ttns builds (ttndo_of; additionally the bra images' open legs have the
   state's physical dimensions), the atom tables satisfy the build contracts of C16_trace_value, the operator's atoms hold
   the same entries in both tables, the operator's physical legs have the state's physical dimensions, and d with op satisfy
   the (decidable, Contr.ttndo_wf3b) hypothesis of C16_expectation_closed with reverse_ket_id o ket_id = id on the tree, then
   both programs succeed with closed diagrams of EQUAL VALUE.  Worlds: any (WrD, DmD) reading the network's and the operator's
   atoms and wires / any (WrS, DmS) reading the state's, the operator's and the conjugate copy's (e.g. ValueTTNO.d3_world /
   d3_dim and ThreeLayerValue.three_world / three_dim, used in the example).  Proof: the orientation-free normal form
   (C16_gvalue_unoriented) and C04_fuse_items give the network side as ttndo_three_flat (C16_ttno_expectation_flat); the summed
   wires are renamed pairwise (ValueTTNO.wire_pairs3: operator wires with themselves, the root's second pair with the
   conjugate copy's physical wire); the build contracts node by node; the artificial root and the padding give the factor 1;
   the state side is C04_ttno_expectation_value_flat with C04_wf_three_of_wf. *)
Theorem C16_ttno_expectation_value : forall (R : Type) (zero one : R) (add mul : R -> R -> R),
  Sem.comm_semiring zero one add mul ->
  forall (woff aoff : nat) (im : Contr.idmaps) (d s op : Store.store) (r0 : nat) (ts : Closed.rt) (k : nat)
         (tblD tblS : nat -> list nat -> R) (WrD WrS : nat -> list nat) (DmD DmS : nat -> nat),
  InvSem.wfs s -> TensorProdBridge.one_open s -> InvSem.wfs op -> ThreeLayerValueProofs.two_open op -> Store.root op = Store.root s ->
  (forall kk n, Store.aget kk (Store.nodes s) = Some n ->
     exists on, Store.aget kk (Store.nodes op) = Some on /\ Store.parent on = Store.parent n /\
                Permutation.Permutation (Store.children on) (Store.children n)) ->
  0 < woff -> Store.next_wire s <= woff -> Store.next_atom s <= aoff ->
  ThreeLayerValue.op_above (Store.next_wire s) op -> ThreeLayerValue.op_above (Store.next_wire d) op -> Store.next_wire op <= woff ->
  Closed.ket_tree s = Some ts -> 1 <= k ->
  Value.ttndo_of im d s r0 ts k ->
  Value.build_contracts R zero one add mul woff aoff im d s r0 ts k tblD tblS ->
  Contr.wf_ttndo3 im d op r0 (Value.rmap (Contr.im_kid im) ts) ->
  (forall n, In n (Closed.rnodes ts) -> Contr.im_rev im (Contr.im_kid im n) = n) ->
  (forall n, In n (Closed.rnodes ts) -> Store.wdim d (Closed.open_wire d (Value.bid im n)) = Store.wdim s (Closed.open_wire s n)) ->
  (forall n, In n (Closed.rnodes ts) -> DmS (Closed.in_wire op n) = Store.wdim s (Closed.open_wire s n) /\
                                        DmS (Closed.out_wire op n) = Store.wdim s (Closed.open_wire s n)) ->
  (forall a, In a (Inv.total_atoms d) -> WrD a = Sem.atom_wires d a) ->
  (forall a, In a (Inv.total_atoms op) -> WrD a = Sem.atom_wires op a) ->
  (forall w, w < Store.next_wire d -> DmD w = Store.wdim d w) ->
  (forall a, In a (Inv.total_atoms s) -> WrS a = Sem.atom_wires s a) ->
  (forall a, In a (Inv.total_atoms op) -> WrS a = Sem.atom_wires op a) ->
  (forall a, a < Store.next_atom s -> WrS (aoff + a) = map (Nat.add woff) (Sem.atom_wires s a)) ->
  (forall w, w < Store.next_wire s -> DmS w = Store.wdim s w) ->
  (forall w, w < Store.next_wire s -> DmS (woff + w) = Store.wdim s w) ->
  (forall n to w, Store.aget n (Store.tensors op) = Some to -> In w (Store.axes to ++ Store.bnd to) -> DmD w = DmS w) ->
  (forall a idx, In a (Inv.total_atoms op) -> tblD a idx = tblS a idx) ->
  exists gD gS,
    Contr.ttndo_ttno_expectation im d op = Some gD /\ Blocks.expectation_value woff aoff s op = Some gS /\
    Blocks.gaxes gD = [] /\ Blocks.gaxes gS = [] /\
    forall rho rho',
      TensorProdBridge.gvalue R zero one add mul WrD DmD tblD gD rho = TensorProdBridge.gvalue R zero one add mul WrS DmS tblS gS rho'.
Proof. exact ValueTTNOProofs.ttno_value. Qed.
Print Assumptions C16_ttno_expectation_value.

(* non-vacuity, both sides evaluated: a three-node state (bond dimensions 2, 2; physical dimensions 2, 2, 3), its network for
   root bond dimensions 1, 2, 3 (3 exceeds every bond: the padding is exercised), an operator on the same tree with the root's
   children in the OTHER order (bond dimensions 2 and 1), arbitrary NON-symmetric integer tensors (two pairs of transposed
   entries shown).  Every executable hypothesis evaluates to true (ValueTTNO.tx_hyp: value_hyp, ttndo_wf3b, C04's three_ok,
   wfsb of the operator, the range separations, the build contracts, the dimension conditions, reverse_ket_id o ket_id = id),
   and the diagram of ttndo_ttno_expectation (k = 1, 2) and C04's three-layer diagram evaluate (vm_compute) to the same integer *)
Example C16_example_ttno_hyp :
  Closed.ket_tree ValueTTNO.tx_s = Some ValueTTNO.tx_ts /\
  ValueTTNO.tx_hyp 1 = true /\ ValueTTNO.tx_hyp 2 = true /\ ValueTTNO.tx_hyp 3 = true.
Proof. exact ValueTTNOProofs.tx_example_hyp. Qed.
Print Assumptions C16_example_ttno_hyp.

Example C16_example_ttno_numbers :
  (Value.vx_tblS 20 [0; 1; 0; 1], Value.vx_tblS 20 [0; 1; 1; 0], Value.vx_tblS 22 [0; 0; 1], Value.vx_tblS 22 [0; 1; 0]) = (0, 2, -3, -1)%Z /\
  ValueTTNO.tx_S = Some 42108%Z /\ ValueTTNO.tx_D 1 = Some 42108%Z /\ ValueTTNO.tx_D 2 = Some 42108%Z.
Proof. exact ValueTTNOProofs.tx_example_numbers. Qed.
Print Assumptions C16_example_ttno_numbers.
(* [/ext-C16T] *)
