(* Property C16 — a density-operator network built from a pure state (structure, identifier
   maps, control flow of the tensor-product expectation value).  Statements only. *)
From Coq Require Import List Arith Bool String.
From PTN Require Import Tree.RTree TTNDO.Sym TTNDO.SymProofs.
From PTN Require TTN.Store.
Import ListNotations.

(* from_ttns builds, for every tree with unique identifiers, every dimension assignment and
   every root bond dimension k: the artificial root followed by the ket and the bra image of
   every node in pre-order (dictionary order), unique identifiers, the root with exactly the
   children (ket root, bra root) and shape (k, k, 1), and two branches that are images of the
   state's tree under ket_id / bra_id (parent, ordered children, leg dimensions) *)
Theorem C16_doubled_tree_structure : forall (bond phys : nat -> nat) (k : nat) (t : rtree), NoDup (ids t) ->
  map dn_id (doubled bond phys k t) = DRoot :: flat_map (fun n => [ket_id n; bra_id n]) (ids t) /\
  NoDup (map dn_id (doubled bond phys k t)) /\
  find_node DRoot (doubled bond phys k t) =
    Some {| dn_id := DRoot; dn_parent := None; dn_children := [ket_id (rid t); bra_id (rid t)]; dn_shape := [k; k; 1] |} /\
  (forall n s, In n (ids t) ->
     find_node (DN n s) (doubled bond phys k t) =
     Some {| dn_id := DN n s;
             dn_parent := Some (match parent_of n t with Some p => DN p s | None => DRoot end);
             dn_children := map (fun c => DN c s) (children_ids t n);
             dn_shape := (match parent_of n t with Some _ => bond n | None => k end)
                         :: map bond (children_ids t n) ++ [phys n] |}).
Proof. exact doubled_tree_structure. Qed.
Print Assumptions C16_doubled_tree_structure.

(* the identifier maps are mutually inverse where documented, and the encoding is injective *)
Theorem C16_identifier_maps : forall n : nat,
  reverse_ket_id (ket_id n) = Some n /\ reverse_bra_id (bra_id n) = Some n /\
  ket_to_bra_id (ket_id n) = Some (bra_id n) /\ bra_to_ket_id (bra_id n) = Some (ket_id n) /\
  (forall d e, ket_to_bra_id d = Some e -> bra_to_ket_id e = Some d) /\
  (forall a b, code a = code b -> a = b).
Proof.
  exact (fun n => conj (reverse_ket_id_ket_id n) (conj (reverse_bra_id_bra_id n)
          (conj (ket_to_bra_id_ket_id n) (conj (bra_to_ket_id_bra_id n) (conj ket_bra_roundtrip code_inj))))).
Qed.
Print Assumptions C16_identifier_maps.

(* the literal string functions (suffix appended; regex match + slice) realise these maps for
   every name and every non-empty suffix, and the names of the network's nodes are distinct *)
Theorem C16_identifier_strings : forall (ksuf bsuf s : string), ksuf <> ""%string -> bsuf <> ""%string ->
  reverse_id_s ksuf (ket_id_s ksuf s) = Some s /\
  reverse_id_s bsuf (bra_id_s bsuf s) = Some s /\
  ket_to_bra_id_s ksuf bsuf (ket_id_s ksuf s) = Some (bra_id_s bsuf s) /\
  bra_to_ket_id_s ksuf bsuf (bra_id_s bsuf s) = Some (ket_id_s ksuf s) /\
  is_ket_s ksuf (ket_id_s ksuf s) = true /\ ends_with ksuf (ket_id_s ksuf s) = true.
Proof.
  exact (fun ksuf bsuf s Hk Hb =>
    conj (reverse_id_s_app ksuf s Hk) (conj (reverse_id_s_app bsuf s Hb)
      (conj (ket_to_bra_id_s_ket ksuf bsuf s Hk) (conj (bra_to_ket_id_s_bra ksuf bsuf s Hb)
        (conj (is_ket_s_ket ksuf s) (ends_with_app ksuf s)))))).
Qed.
Print Assumptions C16_identifier_strings.

Theorem C16_names_distinct : forall (root_name ksuf bsuf : string) (names : nat -> string),
  (forall n m, names n = names m -> n = m) ->
  String.length ksuf = String.length bsuf -> ksuf <> bsuf ->
  (forall n, root_name <> (names n ++ ksuf)%string) -> (forall n, root_name <> (names n ++ bsuf)%string) ->
  forall d e, name_of root_name ksuf bsuf names d = name_of root_name ksuf bsuf names e -> d = e.
Proof. exact name_of_inj. Qed.
Print Assumptions C16_names_distinct.

(* stated precondition of the contractions: the regex filter of ttndo_contraction_order also
   accepts the bra image of a node whose own name contains the ket suffix *)
Theorem C16_suffix_filter_quirk : forall (ksuf bsuf s : string),
  has_sub ksuf s = true -> is_ket_s ksuf (bra_id_s bsuf s) = true.
Proof. exact is_ket_s_contains. Qed.
Print Assumptions C16_suffix_filter_quirk.

(* the contraction order is the post-order of the state's tree on the ket side *)
Theorem C16_contraction_order : forall t : rtree, contraction_order t = map ket_id (postorder t).
Proof. exact contraction_order_spec. Qed.
Print Assumptions C16_contraction_order.

(* on the names: the regex filter of the code as it stands (bug_regex = true) selects exactly
   these identifiers whenever neither the root's name nor a bra name contains the ket suffix *)
Theorem C16_contraction_order_names : forall (root_name ksuf bsuf : string) (names : nat -> string) (t : rtree),
  is_ket_s ksuf root_name = false ->
  (forall n, In n (ids t) -> is_ket_s ksuf (bra_id_s bsuf (names n)) = false) ->
  contraction_order_s true root_name ksuf bsuf names t = map ket_id (postorder t).
Proof. exact contraction_order_s_ok. Qed.
Print Assumptions C16_contraction_order_names.

(* the repaired filter (endswith) does so for all node names *)
Theorem C16_contraction_order_names_repaired : forall (root_name ksuf bsuf : string) (names : nat -> string) (t : rtree),
  String.length ksuf = String.length bsuf -> ksuf <> bsuf ->
  ends_with ksuf root_name = false ->
  contraction_order_s false root_name ksuf bsuf names t = map ket_id (postorder t).
Proof. exact contraction_order_s_fixed. Qed.
Print Assumptions C16_contraction_order_names_repaired.

(* witness for the regex filter: the bra image of a node named "a_ket" is taken for a ket node *)
Example C16_regex_filter_refuted :
  let names := fun n : nat => nth n ["a_ket"; "b"]%string EmptyString in
  let t := RNode 0 [RNode 1 []] in
  map code (contraction_order_s true "ttndo_root" "_ket" "_bra" names t) = [3; 1; 2] /\
  map code (contraction_order_s false "ttndo_root" "_ket" "_bra" names t) = [3; 1].
Proof. vm_compute. split; reflexivity. Qed.
Print Assumptions C16_regex_filter_refuted.

(* the calls from_ttns makes: one per node in pre-order; a child goes with its leg 0 to leg
   (position + 1) of the images of its parent, on both sides; the state's root goes to leg 0
   (ket) and leg 1 (bra) of the artificial root with the padded leading leg *)
Theorem C16_calls : forall (bond phys : nat -> nat) (k : nat) (t : rtree),
  map sc_child (from_ttns_calls bond phys k t) = ids t /\
  hd_error (from_ttns_calls bond phys k t) =
    Some {| sc_child := rid t; sc_shape := padded_lead k :: ttns_shape bond phys true t; sc_child_leg := 0;
            sc_parent := None; sc_parent_leg := 0; sc_parent_bra_leg := 1 |} /\
  (forall b i cs, ~ In i (flat_map ids cs) ->
     map (fun c => (sc_child c, sc_parent_leg c))
         (filter (fun c => match sc_parent c with Some p => Nat.eqb p i | None => false end)
                 (rec_add_children bond phys b (RNode i cs))) =
     combine (map rid cs) (seq 1 (List.length cs))) /\
  (forall b u c, In c (rec_add_children bond phys b u) ->
     sc_child_leg c = 0 /\ sc_parent_leg c = sc_parent_bra_leg c /\ 1 <= sc_parent_leg c /\
     exists p, sc_parent c = Some p /\ In p (ids u)).
Proof.
  exact (fun bond phys k t => conj (calls_children bond phys k t) (conj (root_call bond phys k t)
          (conj (fun b i cs => rec_add_children_direct bond phys b i cs) (fun b u c => rec_add_children_legs bond phys b u c)))).
Qed.
Print Assumptions C16_calls.

(* for every root bond dimension k >= 1 the padded leg has length k with index 0 as its only
   possibly non-zero slice, and the identity on the artificial root contributes the factor 1 *)
Theorem C16_root_bond_dimension : forall k : nat, 1 <= k ->
  padded_lead k = k /\ List.length (pad_pattern k) = k /\
  (forall a, nth a (pad_pattern k) false = Nat.eqb a 0) /\
  (forall a b, a < k -> b < k -> nth b (nth a (eye_rows k) []) 0 = if Nat.eqb a b then 1 else 0) /\
  root_weight k = 1.
Proof.
  exact (fun k H => conj (padded_lead_eq k H) (conj (pad_pattern_length k H)
          (conj (pad_pattern_nth k) (conj (eye_rows_spec k) (root_weight_one k H))))).
Qed.
Print Assumptions C16_root_bond_dimension.

(* repaired control flow (both defect flags false): every factor is applied exactly once, to the
   ket image of its node, in order; the empty product takes the trace branch; for any network
   type the traced network is the replay of exactly that log *)
Theorem C16_tp_expectation_fixed : forall (Op : Type) (factors : list (nat * Op)),
  tp_log false false factors = (FTrace, map (fun f => (ket_id (fst f), snd f)) factors) /\
  (forall (St : Type) (absorb : St -> did -> Op -> St) (self : St),
     tp_expectation St Op absorb false false self factors =
     (FTrace, replay St Op absorb (snd (tp_log false false factors)) self)).
Proof. exact tp_expectation_fixed. Qed.
Print Assumptions C16_tp_expectation_fixed.

(* the code before the repair: the copy inside the loop leaves only the last factor applied;
   the empty product does not take the trace branch *)
Theorem C16_tp_expectation_defects : forall (Op : Type) (be : bool) (factors : list (nat * Op)) (d : nat * Op),
  factors <> [] ->
  tp_log true be factors = (FTrace, [(ket_id (fst (last factors d)), snd (last factors d))]) /\
  fst (tp_log (Op := Op) be true []) = FScalarProduct.
Proof. exact tp_expectation_bug_general. Qed.
Print Assumptions C16_tp_expectation_defects.

Theorem C16_tp_expectation_refuted :
  (exists factors : list (nat * nat),
     List.length factors = 2 /\
     tp_log true false factors <> tp_log false false factors /\
     snd (tp_log true false factors) = [(ket_id (fst (last factors (0, 0))), snd (last factors (0, 0)))]) /\
  fst (tp_log (Op := nat) false true []) <> FTrace.
Proof. exact tp_expectation_refuted. Qed.
Print Assumptions C16_tp_expectation_refuted.

(* soundness of the per-instance check that ties the description above to the Layer-W store
   model: the store program of from_ttns is accepted step by step and leaves these records *)
Theorem C16_store_check_sound : forall (bond phys : nat -> nat) (k : nat) (t : rtree),
  store_check bond phys k t = true ->
  Forall (fun b => b = true) (snd (from_ttns_store bond phys k t)) /\
  store_nodes (fst (from_ttns_store bond phys k t)) = doubled_coded bond phys k t /\
  Store.root (fst (from_ttns_store bond phys k t)) = Some (code DRoot) /\
  map fst (Store.tensors (fst (from_ttns_store bond phys k t))) = map fst (Store.nodes (fst (from_ttns_store bond phys k t))).
Proof. exact store_check_sound. Qed.
Print Assumptions C16_store_check_sound.

(* non-vacuity: a four-node tree with mixed dimensions, k = 2 *)
Example C16_example_structure :
  let t := RNode 0 [RNode 2 []; RNode 1 [RNode 3 []]] in
  let bond := fun n => nth n [0; 3; 3; 1] 0 in
  let phys := fun n => nth n [2; 2; 3; 3] 0 in
  NoDup (ids t) /\
  map (fun r => (code (dn_id r), dn_shape r)) (doubled bond phys 2 t) =
    [(0, [2; 2; 1]); (1, [2; 3; 3; 2]); (2, [2; 3; 3; 2]); (5, [3; 3]); (6, [3; 3]);
     (3, [3; 1; 2]); (4, [3; 1; 2]); (7, [1; 3]); (8, [1; 3])] /\
  store_check bond phys 2 t = true.
Proof.
  cbv zeta. split; [|split; vm_compute; reflexivity].
  repeat constructor; simpl; intuition discriminate.
Qed.
Print Assumptions C16_example_structure.

Example C16_example_tp :
  tp_obs false false [3; 1; 2] = (true, [(7, 0); (3, 1); (5, 2)]) /\
  tp_obs true true [3; 1; 2] = (true, [(5, 2)]) /\
  tp_obs true true [] = (false, []) /\ tp_obs false false [] = (true, []).
Proof. vm_compute. repeat split; reflexivity. Qed.
Print Assumptions C16_example_tp.
