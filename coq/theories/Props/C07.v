(* Property C07 — two-site TDVP: conservation, two-node exactness and bounded bonds.
   Schedule level: trace2s of Sched/TDVP.v (SecondOrderTwoSiteTDVP).  Layer A: the algebra of
   one local update (shared with C06), the identity embedding of the two-node case.  The
   bound on a new bond is the truncation rule of C10 (Trunc/Select.v).  Statements only. *)
From Coq Require Import List Arith ZArith QArith.
From PTN Require Import TTN.Store TTN.Canon TTN.Inv TTN.CanonTree Evo.TDVPStore Evo.TDVPStoreEffects Evo.TDVPTwoSite Evo.TDVPStoreProofs Evo.TDVPTwoSiteIso.   (* store level, see the end *)
From PTN Require Import Tree.RTree Tree.Nav Tree.UpdatePath Tree.CachePath Tree.Enum Tree.EnumProofs
     Sched.TDVP Sched.TDVPProofs Sched.TDVPMore Sched.TDVPFresh Sched.TDVPBounded Sched.TDVPUniversal Sched.TDVPFreshU Trunc.Select Trunc.SelectProofs.
Import ListNotations.
Local Close Scope Q_scope.

(* ---- the step is defined on every tree with >= 2 nodes ---------------------------------- *)
Theorem C07_two_site_runs : forall t, NoDup (ids t) -> 2 <= size t -> exists tr, trace2s t = Some tr.
Proof. exact trace2s_defined. Qed.
Print Assumptions C07_two_site_runs.

(* the signed durations of a step sum to dt (half units) *)
Theorem C07_total_duration : forall t tr, trace2s t = Some tr -> total_dur tr = 2%Z.
Proof. exact trace2s_total_duration. Qed.
Print Assumptions C07_total_duration.

(* ---- two nodes: two half steps on the only edge and NO backward single-site update, so the
        step is exp(-iH dt/2) exp(-iH dt/2) on the whole state (K = H, see below) -------------- *)
Theorem C07_two_node_trace : forall a b, a <> b ->
  trace2s (RNode a [RNode b []]) = Some [TwoSite b a 1%Z; Cache b a; TwoSite a b 1%Z; Cache a b].
Proof. exact trace2s_two_nodes. Qed.
Print Assumptions C07_two_node_trace.

(* E = 1 (the two-site tensor is the whole state): the projected Hamiltonian is H itself *)
Theorem C07_two_node_projection : forall (M : nat -> nat -> Type)
    (mul : forall a b c : nat, M a b -> M b c -> M a c) (adj : forall a b : nat, M a b -> M b a) (one : forall n, M n n),
  (forall a b (x : M a b), mul a a b (one a) x = x) ->
  (forall a b (x : M a b), mul a b b x (one b) = x) ->
  (forall n, adj n n (one n) = one n) ->
  forall D (H : M D D), mul D D D (adj D D (one D)) (mul D D D H (one D)) = H.
Proof. exact Keff_identity_embedding. Qed.
Print Assumptions C07_two_node_projection.

(* ---- durations: +dt on every edge, -(degree-1) dt on every node: bounded ------------------ *)
Theorem C07_durations_bounded_10 : forall t, In t (trees_upto 10) -> 2 <= size t ->
  exists tr, trace2s t = Some tr /\
     (forall x, In x (ids t) -> node_dur x tr = (2 - 2 * Z.of_nat (degree t x))%Z) /\
     (forall p c, In (p, c) (edges t) -> edge_dur p c tr = 2%Z) /\
     (forall a b f, In (Link a b f) tr \/ In (TwoSite a b f) tr -> adjacent t a b).
Proof. intros t H1 H2. exact (proj2 (proj2 (durations_bounded_10 t H1 H2))). Qed.
Print Assumptions C07_durations_bounded_10.

(* ... and the UNIVERSAL statement (every tree with unique identifiers; Sched/TDVPUniversal.v) *)
Theorem C07_durations : forall t tr, NoDup (ids t) -> trace2s t = Some tr ->
     (forall x, In x (ids t) -> node_dur x tr = (2 - 2 * Z.of_nat (degree t x))%Z) /\
     (forall p c, In (p, c) (edges t) -> edge_dur p c tr = 2%Z) /\
     (forall a b f, In (Link a b f) tr \/ In (TwoSite a b f) tr -> adjacent t a b).
Proof. exact trace2s_durations. Qed.
Print Assumptions C07_durations.

(* ---- centre on the updated pair, pairs adjacent, every block read is fresh, the step ends
        with the centre on update_path[0] (two consecutive steps, no re-initialisation): bounded - *)
Theorem C07_schedule_ok_bounded_9 : forall t, In t (trees_upto 9) -> 2 <= size t ->
  exists tr, trace2s t = Some tr /\ sched_ok t tr.
Proof. intros t H1 H2. exact (proj2 (proj2 (cache_fresh_bounded_9 t H1 H2))). Qed.
Print Assumptions C07_schedule_ok_bounded_9.

(* ... and the UNIVERSAL statement (every tree with unique identifiers; Sched/TDVPFreshU.v) *)
Theorem C07_schedule_ok : forall t, NoDup (ids t) -> 2 <= size t ->
  exists tr, trace2s t = Some tr /\ sched_ok t tr.
Proof. exact trace2s_sched_ok. Qed.
Print Assumptions C07_schedule_ok.

(* ---- the step is a palindrome of (object, signed factor) on EVERY tree ----------------------- *)
Theorem C07_palindrome : forall t tr, trace2s t = Some tr -> objs tr = rev (objs tr).
Proof. exact trace2s_palindrome. Qed.
Print Assumptions C07_palindrome.

Theorem C07_enumeration_complete : forall t n, size t <= n -> In (relabel (erase t)) (trees_upto n).
Proof. exact trees_upto_complete. Qed.
Print Assumptions C07_enumeration_complete.

(* ---- bond_bounded (the C10 truncation rule applied by split_node_svd): at least one and at
        most max_bond_dim singular values are kept ------------------------------------------------ *)
Theorem C07_bond_bounded : forall (p : params) (s : list Q),
  s <> [] -> descending s -> bond_ok (max_bond p) ->
  let k := length (fst (select p s)) in
  (1 <= k <= length s)%nat /\
  fst (select p s) = firstn k s /\ snd (select p s) = skipn k s /\
  (forall m, max_bond p = BFin m -> (k <= m)%nat).
Proof. exact select_spec. Qed.
Print Assumptions C07_bond_bounded.

(* ---- Layer A: a local two-site (or backward one-site) update conserves norm and energy ------ *)
Theorem C07_local_update_conserves :
  forall (M : nat -> nat -> Type) (mul : forall a b c : nat, M a b -> M b c -> M a c)
         (adj : forall a b : nat, M a b -> M b a) (one : forall n : nat, M n n),
  (forall (a b c d : nat) (x : M a b) (y : M b c) (z : M c d), mul a b d x (mul b c d y z) = mul a c d (mul a b c x y) z) ->
  (forall (a b : nat) (x : M a b), mul a a b (one a) x = x) ->
  (forall (a b c : nat) (x : M a b) (y : M b c), adj a c (mul a b c x y) = mul c b a (adj b c y) (adj a b x)) ->
  forall (D N : nat) (E : M D N) (H : M D D),
  mul N D N (adj D N E) E = one N ->
  forall U : M N N,
  mul N N N (adj N N U) U = one N ->
  mul N N N U (mul N D N (adj D N E) (mul D D N H E)) = mul N N N (mul N D N (adj D N E) (mul D D N H E)) U ->
  forall A : M N 1,
  mul 1 D 1 (adj D 1 (mul D N 1 E (mul N N 1 U A))) (mul D N 1 E (mul N N 1 U A)) =
  mul 1 D 1 (adj D 1 (mul D N 1 E A)) (mul D N 1 E A) /\
  mul 1 D 1 (adj D 1 (mul D N 1 E (mul N N 1 U A))) (mul D D 1 H (mul D N 1 E (mul N N 1 U A))) =
  mul 1 D 1 (adj D 1 (mul D N 1 E A)) (mul D D 1 H (mul D N 1 E A)).
Proof. exact local_update_conserves. Qed.
Print Assumptions C07_local_update_conserves.

(* ---- non-vacuity ------------------------------------------------------------------------------ *)
Definition C07_ex : rtree := RNode 0 [RNode 1 [RNode 2 []]; RNode 3 []].

Example C07_example : option_map calls (trace2s C07_ex) =
    Some [(2, 2, 1, 1%Z); (0, 1, 1, (-1)%Z); (2, 1, 0, 1%Z); (0, 0, 0, (-1)%Z); (2, 0, 3, 1%Z);
          (2, 3, 0, 1%Z); (0, 0, 0, (-1)%Z); (2, 0, 1, 1%Z); (0, 1, 1, (-1)%Z); (2, 1, 2, 1%Z)] /\
  fresh_check2s C07_ex = true /\ NoDup (ids C07_ex).
Proof. repeat split; try (vm_compute; reflexivity). repeat constructor; simpl; intuition discriminate. Qed.
Print Assumptions C07_example.

(* ==== Store level (Layer W): the two-site step as a program over the symbolic store ============================ *)
(* Evo/TDVPStore.v: TwoSite a b = legs_before_combination(a, b); contract_nodes(a, b, "TwoSite_a_contr_b"); the
   contracted tensor is read and replaced by the evolved one; split_node_svd with the recorded specifications back into
   a and b (kind 4 = truncated SVD, the bond dimension `bd` is data and is handed over by the harness, which reads it
   off the real run at the kernel boundary); centre := b.  SiteBack = the site update.  The harness compares the
   structure after the constructor and after every step with SecondOrderTwoSiteTDVP (c07w.py). *)

(* one two-site update on two neighbouring nodes: succeeds, keeps the store invariant and the tree (identifiers,
   parent pointers, children sets), the root, touches no third node (record and tensor), the temporary node is gone *)
Theorem C07_two_site_update_on_store : forall new s a b bd na nb,
  Inv.wf s -> aget a (nodes s) = Some na -> aget b (nodes s) = Some nb -> In b (neighbouring_nodes na) ->
  aget new (nodes s) = None ->
  exists s', two_site_update s a b new bd = Some s' /\ Inv.wf s' /\
    same_tree (nodes s) (nodes s') /\ root s' = root s /\
    aget new (nodes s') = None /\ aget new (tensors s') = None /\
    (forall k, k <> a -> k <> b -> aget k (nodes s') = aget k (nodes s) /\ aget k (tensors s') = aget k (tensors s)).
Proof.
  intros new s a b bd na nb W Ea Eb Hin Hn. destruct (two_site_update_some new s a b bd na nb W Ea Eb Hin Hn) as [s' H].
  exists s'. split; [exact H|]. exact (proj2 (two_site_update_same_tree new s a b bd s' na W Ea Hn H)).
Qed.
Print Assumptions C07_two_site_update_on_store.

(* the whole step, for EVERY well-formed tree store (>= 2 nodes, any child order compatible with the schedule's tree)
   whose recorded centre is update_path[0], given at least as many bond dimensions as the trace has two-site updates:
   the step succeeds, consumes exactly one bond dimension per two-site update, keeps the store invariant, the node
   identifiers, parent pointers, children sets and the root, and ends with the recorded centre on update_path[0] *)
Theorem C07_two_site_step_on_store : forall lk tw tmp t s u rest bds,
  NoDup (ids t) -> 2 <= size t -> tmatch t (nodes s) -> wfb s = true -> update_path t = Some (u :: rest) ->
  amem tmp (nodes s) = false -> (forall a b, amem (tw a b) (nodes s) = false) ->
  (forall tr, trace2s t = Some tr -> count_two tr <= length bds) ->
  exists cs' bds', tdvp2s_step_t lk tw tmp t (s, Some u) bds = Some (cs', bds') /\
    wfb (fst cs') = true /\ same_tree (nodes s) (nodes (fst cs')) /\ root (fst cs') = root s /\
    snd cs' = Some u /\ tmatch t (nodes (fst cs')) /\
    (forall tr, trace2s t = Some tr -> length bds' + count_two tr = length bds).
Proof. exact tdvp2s_step_t_ok. Qed.
Print Assumptions C07_two_site_step_on_store.

(* non-vacuity: the tree of C07_example as a store (bond dimensions 2), canonicalised at the first node of the sweep;
   the step with six bond dimensions (one per two-site update) runs, ends at that node, and the extended isometry attribute (QR or SVD first
   factor with the bond toward the centre) holds *)
Definition C07_store_ex : option cstore :=
  let s0 := fst (Store.run empty_store [AddRoot 0 [2; 2; 2]; AddChild 1 [2; 2; 2] 0 0 0; AddChild 2 [2; 2] 0 1 1; AddChild 3 [2; 2] 0 0 1]) in
  match first_of C07_ex with Some u => canonical_form (s0, None) u Keep 99 | None => None end.

Example C07_store_example :
  match C07_store_ex, first_of C07_ex with
  | Some (s, c), Some u =>
      c = Some u /\ wfb s = true /\ tree_of s = Some C07_ex /\ amem 99 (nodes s) = false /\
      option_map count_two (trace2s C07_ex) = Some 6 /\
      match tdvp2s_step_t (fun a b => 100 + 10 * a + b) (fun a b => 200 + 10 * a + b) 99 C07_ex (s, c) [2; 2; 2; 2; 2; 2] with
      | Some (c1, unused) => snd c1 = Some u /\ unused = [] /\ iso_check2 c1 = true /\ wfb (fst c1) = true
      | None => False
      end
  | _, _ => False
  end.
Proof. vm_compute. repeat split; reflexivity. Qed.
Print Assumptions C07_store_example.

(* ==== the canonical-form clause, for EVERY tree (Evo/TDVPTwoSiteIso.v) ========================================= *)
(* iso_check2 (Evo/TDVPStore.v): every node other than the recorded centre is a single atom, the first factor of a QR
   call (kind 0) or of a truncated SVD (kind 4), whose bond wire sits on the node's leg toward the centre.  It is an
   invariant of every event of the two-site trace. *)

(* one two-site update with the centre on a: afterwards the attribute holds w.r.t. centre b (a keeps the first SVD
   factor U with the new bond on its leg toward b, b receives S Vh; the direction toward the centre of every third node
   is the same for a and b) *)
Theorem C07_two_site_update_canonical : forall new s a b bd s3 na,
  Inv.wf s -> aget a (nodes s) = Some na -> aget new (nodes s) = None ->
  iso_check2 (s, Some a) = true ->
  two_site_update s a b new bd = Some s3 -> iso_check2 (s3, Some b) = true.
Proof. exact two_site_update_iso2. Qed.
Print Assumptions C07_two_site_update_canonical.

(* the whole step: as C07_two_site_step_on_store, and if the state is in (extended) canonical form at update_path[0]
   when the step starts, it is in canonical form at update_path[0] when the step ends -- every tree, every child order,
   every list of bond dimensions that is long enough *)
Theorem C07_two_site_step_canonical : forall lk tw tmp t s u rest bds,
  NoDup (ids t) -> 2 <= size t -> tmatch t (nodes s) -> wfb s = true -> update_path t = Some (u :: rest) ->
  iso_check2 (s, Some u) = true ->
  amem tmp (nodes s) = false -> (forall a b, amem (tw a b) (nodes s) = false) ->
  (forall tr, trace2s t = Some tr -> count_two tr <= length bds) ->
  exists cs' bds', tdvp2s_step_t lk tw tmp t (s, Some u) bds = Some (cs', bds') /\
    wfb (fst cs') = true /\ same_tree (nodes s) (nodes (fst cs')) /\ root (fst cs') = root s /\
    snd cs' = Some u /\ tmatch t (nodes (fst cs')) /\ iso_check2 cs' = true /\
    (forall tr, trace2s t = Some tr -> length bds' + count_two tr = length bds).
Proof. exact tdvp2s_step_t_canonical. Qed.
Print Assumptions C07_two_site_step_canonical.

(* any number of consecutive steps (one list of bond dimensions per step; the paths are those of the initial tree, the
   store's child order drifts) *)
Theorem C07_two_site_steps_canonical : forall lk tw tmp t u rest,
  NoDup (ids t) -> 2 <= size t -> update_path t = Some (u :: rest) ->
  forall bss s, tmatch t (nodes s) -> wfb s = true -> iso_check2 (s, Some u) = true ->
  amem tmp (nodes s) = false -> (forall a b, amem (tw a b) (nodes s) = false) ->
  (forall bds tr, In bds bss -> trace2s t = Some tr -> count_two tr <= length bds) ->
  exists cs', iter_step2s lk tw tmp t bss (s, Some u) = Some cs' /\
    wfb (fst cs') = true /\ same_tree (nodes s) (nodes (fst cs')) /\ root (fst cs') = root s /\
    snd cs' = Some u /\ tmatch t (nodes (fst cs')) /\ iso_check2 cs' = true.
Proof. exact tdvp2s_steps_canonical. Qed.
Print Assumptions C07_two_site_steps_canonical.

(* the hypothesis is what the constructor establishes: canonical_form yields the attribute (the QR attribute iso_check
   of C03 implies the extended one), and TDVPAlgorithm.__init__ on a state without a recorded centre (canonical form at
   update_path[0], then the cache initialisation, which only reads tensors) ends with it *)
Theorem C07_canonical_form_establishes : forall s oc c m rid cs',
  wfb s = true -> amem rid (nodes s) = false ->
  canonical_form (s, oc) c m rid = Some cs' -> iso_check2 cs' = true.
Proof. exact canonical_form_iso_check2. Qed.
Print Assumptions C07_canonical_form_establishes.

Theorem C07_constructor_establishes : forall lk tmp t s cs1,
  wfb s = true -> amem tmp (nodes s) = false ->
  tdvp_init lk tmp t (s, None) = Some cs1 ->
  exists u rest, update_path t = Some (u :: rest) /\ snd cs1 = Some u /\
    wfb (fst cs1) = true /\ same_tree (nodes s) (nodes (fst cs1)) /\ iso_check2 cs1 = true.
Proof. exact tdvp_init_iso2. Qed.
Print Assumptions C07_constructor_establishes.

(* non-vacuity of the hypotheses: the input state of C07_store_example satisfies the attribute *)
Example C07_store_example_hyp :
  match C07_store_ex with
  | Some (s, c) => iso_check2 (s, c) = true /\ wfb s = true /\ 2 <= length (nodes s)
  | None => False
  end.
Proof. vm_compute. repeat split; try reflexivity. repeat constructor. Qed.
Print Assumptions C07_store_example_hyp.

(* [ext-C06R] ==== from local updates to whole steps: reversibility and conservation over the LITERAL two-site trace ==== *)
(* Sched/TDVPGlobal.v, Sched/TDVPGlobalProofs.v; see the block of the same name in Props/C06.v for the contracts
   (factors_through: an event acts on the abstract state through its (object, signed factor) only, gauge events not at
   all; good: the states on which the local contract is claimed, for the real class with truncation DISABLED and bonds
   at full Schmidt rank; act_inverse: on good states the update with factor -s undoes the update with factor s).
   "A step with -H" = neg_trace tr (every signed factor negated; same object, same paths).  The negated step is run by
   the schedule checker from the END configuration of the first step (centre on update_path[0]) and ends there again. *)
From PTN Require Import Sched.TDVPGlobal Sched.TDVPGlobalProofs.

Theorem C07_second_order_reversible :
  forall (X : Type) (act : obj * Z -> X -> X) (actE : ev -> X -> X) (good : X -> Prop),
  factors_through act actE ->
  (forall o f x, good x -> good (act (o, f) x)) ->
  (forall o f x, good x -> act (o, (- f)%Z) (act (o, f) x) = x) ->
  forall t, NoDup (ids t) -> 2 <= size t ->
  exists tr, trace2s t = Some tr /\
    (exists u l ini s0 s1 s2,
       update_path t = Some (u :: l) /\ init_trace t = Some ini /\
       run t (mk_cst u None [] []) ini = Some s0 /\
       run t s0 tr = Some s1 /\ centre s1 = u /\ pend s1 = None /\
       run t s1 (neg_trace tr) = Some s2 /\ centre s2 = u /\ pend s2 = None) /\
    (forall x, good x -> run_trace X actE (neg_trace tr) (run_trace X actE tr x) = x) /\
    (forall k x, good x -> run_steps X actE k (neg_trace tr) (run_steps X actE k tr x) = x).
Proof. exact trace2s_reversible_full. Qed.
Print Assumptions C07_second_order_reversible.

(* non-vacuity: the shear model (non-commuting node updates; contracts hold with good = all states) on the tree of
   C07_example: the step moves (2, 1), the negated step brings it back *)
Example C07_reversible_example :
  factors_through shear_act shear_actE /\
  (forall o f x, shear_act (o, (- f)%Z) (shear_act (o, f) x) = x) /\
  option_map (fun tr => (run_trace _ shear_actE tr (2, 1)%Z,
                         run_trace _ shear_actE (neg_trace tr) (run_trace _ shear_actE tr (2, 1)%Z))) (trace2s C07_ex)
    = Some ((12, -13)%Z, (2, 1)%Z).
Proof. split; [exact shear_factors|]. split; [exact shear_inverse|]. vm_compute. reflexivity. Qed.
Print Assumptions C07_reversible_example.

(* ---- conservation over a whole step and over any number of steps (truncation disabled: the split is exact, so the
        two-site update and the backward one-site update have the local form of C07_local_update_conserves) ----------- *)
Theorem C07_step_conserves :
  forall (X Q : Type) (actE : ev -> X -> X) (q : X -> Q) t tr,
  trace2s t = Some tr ->
  (forall e x, In e tr -> q (actE e x) = q x) ->
  forall k x, q (run_steps X actE k tr x) = q x.
Proof. intros X Q actE q t tr H. apply (steps_conserve X actE Q q t t tr). right; right; exact H. Qed.
Print Assumptions C07_step_conserves.

Theorem C07_step_conserves_norm_energy :
  forall (M : nat -> nat -> Type) (mul : forall a b c : nat, M a b -> M b c -> M a c)
         (adj : forall a b : nat, M a b -> M b a) (one : forall n : nat, M n n),
  (forall (a b c d : nat) (x : M a b) (y : M b c) (z : M c d), mul a b d x (mul b c d y z) = mul a c d (mul a b c x y) z) ->
  (forall (a b : nat) (x : M a b), mul a a b (one a) x = x) ->
  (forall (a b c : nat) (x : M a b) (y : M b c), adj a c (mul a b c x y) = mul c b a (adj b c y) (adj a b x)) ->
  forall (D : nat) (H : M D D) (actE : ev -> M D 1 -> M D 1) t tr,
  trace2s t = Some tr ->
  (forall e, In e tr ->
     forall x : M D 1, exists (N : nat) (E : M D N) (U : M N N) (A : M N 1),
       mul N D N (adj D N E) E = one N /\
       mul N N N (adj N N U) U = one N /\
       mul N N N U (mul N D N (adj D N E) (mul D D N H E)) = mul N N N (mul N D N (adj D N E) (mul D D N H E)) U /\
       x = mul D N 1 E A /\ actE e x = mul D N 1 E (mul N N 1 U A)) ->
  forall k x,
    mul 1 D 1 (adj D 1 (run_steps (M D 1) actE k tr x)) (run_steps (M D 1) actE k tr x) = mul 1 D 1 (adj D 1 x) x /\
    mul 1 D 1 (adj D 1 (run_steps (M D 1) actE k tr x)) (mul D D 1 H (run_steps (M D 1) actE k tr x)) =
    mul 1 D 1 (adj D 1 x) (mul D D 1 H x).
Proof.
  intros M mul adj one A1 A2 A3 D H actE t tr Ht L.
  apply (steps_conserve_norm_energy M mul adj one A1 A2 A3 D H actE t t tr); [right; right; exact Ht|exact L].
Qed.
Print Assumptions C07_step_conserves_norm_energy.

Example C07_conserves_example :
  (forall e, local_form gM gmul gadj gone 1 (3, 0)%Z gactE e) /\
  option_map (fun tr => let y := run_steps (gM 1 1) gactE 3 tr (1, 2)%Z in
                        (y, norm2 gM gmul gadj 1 y, energy gM gmul gadj 1 (3, 0)%Z y)) (trace2s C07_ex)
    = Some ((-1, -2)%Z, (5, 0)%Z, (15, 0)%Z).
Proof. split; [exact (g_local_form (3, 0)%Z)|]. vm_compute. reflexivity. Qed.
Print Assumptions C07_conserves_example.
(* ---- two nodes: one step is the exact flow over the full time step, for ANY bond dimension --------------------------- *)
(* flow s = exp(-i H s dt/2), an abstract one-parameter group.  Contract (ASSUMED): the two-site update on the only edge
   with signed factor f is flow f -- the contracted two-site tensor IS the whole state (E = 1, K = H:
   C07_two_node_projection), the local propagator is exp(-iHt) and, with truncation disabled, the SVD split is exact
   whatever the bond dimension before the step.  The literal trace (C07_two_node_trace) has two half steps on the edge
   and no backward one-site update; they compose to flow 2 = exp(-iH dt), k steps to exp(-iH k dt). *)
Theorem C07_two_node_exact :
  forall (X : Type) (act : obj * Z -> X -> X) (actE : ev -> X -> X) (flow : Z -> X -> X),
  factors_through act actE ->
  (forall s t x, flow (s + t)%Z x = flow s (flow t x)) -> (forall x, flow 0%Z x = x) ->
  forall a b, a <> b -> (forall f x, act (mk_edge a b, f) x = flow f x) ->
  forall x, exists tr, trace2s (RNode a [RNode b []]) = Some tr /\
    objs tr = [(mk_edge a b, 1); (mk_edge a b, 1)]%Z /\ run_trace X actE tr x = flow 2%Z x /\
    forall k, run_steps X actE k tr x = flow (2 * Z.of_nat k)%Z x.
Proof. exact two_node_two_site_exact. Qed.
Print Assumptions C07_two_node_exact.

Definition C07_flow (s : Z) (x : Z * Z) : Z * Z := (fst x + s * snd x, snd x)%Z.
Definition C07_flow_act (p : obj * Z) (x : Z * Z) : Z * Z := C07_flow (snd p) x.
Definition C07_flow_actE (e : ev) (x : Z * Z) : Z * Z := run_objs _ C07_flow_act (obj_of e) x.

Example C07_two_node_example :
  factors_through C07_flow_act C07_flow_actE /\
  (forall s t x, C07_flow (s + t)%Z x = C07_flow s (C07_flow t x)) /\ (forall x, C07_flow 0%Z x = x) /\
  option_map (fun tr => run_steps _ C07_flow_actE 3 tr (1, 1)%Z) (trace2s (RNode 0 [RNode 1 []])) = Some (7, 1)%Z.
Proof.
  split; [intros e x; reflexivity|]. split; [intros s t [p q]; unfold C07_flow; cbn [fst snd]; f_equal; ring|].
  split; [intros [p q]; unfold C07_flow; cbn [fst snd]; f_equal; ring|]. vm_compute; reflexivity.
Qed.
Print Assumptions C07_two_node_example.
(* [/ext-C06R] *)
