(* Property C12 — SGE bond dimensions are minimal.  Statements only; each is closed by `exact`.
   Rank certificates: SD/Rank.v, SD/RankProofs.v; single-term / BASE bond dimensions on the
   state-diagram model: SD/Model.v, SD/ModelProofs.v. *)
From Coq Require Import List Arith Bool QArith.
From PTN Require Import Tree.RTree SD.Model SD.ModelProofs SD.Rank SD.RankProofs.
Import ListNotations.
Local Close Scope Q_scope.

(* k homogeneous linear equations in r > k unknowns over Q have a non-trivial solution *)
Theorem C12_kernel_vector : forall (r k : nat) (A : nat -> nat -> Q), k < r ->
  exists v : nat -> Q,
    (exists b, b < r /\ ~ (v b == 0)%Q) /\
    (forall l, l < k -> (sumn r (fun b => A l b * v b) == 0)%Q).
Proof. exact kernel_vector. Qed.
Print Assumptions C12_kernel_vector.

(* An accepted certificate — r row indices rs, r column indices cs of the m x n matrix M and an
   r x r matrix B with M[rs, cs] * B = 1 — excludes every factorisation M = X * Y through an inner
   dimension k < r, whatever X (m x k) and Y (k x n): the bond of any exact representation that
   factors Gamma_e is at least r. *)
Theorem C12_min_cert_sound : forall (M : mat) (m n : nat) (rs cs : list nat) (B : mat),
  min_cert M m n rs cs B = true ->
  forall (k : nat) (X Y : nat -> nat -> Q), k < length rs ->
  ~ (forall i j, i < m -> j < n -> (entry M i j == sumn k (fun l => X i l * Y l j))%Q).
Proof. exact min_cert_sound. Qed.
Print Assumptions C12_min_cert_sound.

Theorem C12_min_cert_sound_lists : forall (M : mat) (m n : nat) (rs cs : list nat) (B : mat),
  min_cert M m n rs cs B = true ->
  forall (k : nat) (X Y : mat), k < length rs ->
  ~ (forall i j, i < m -> j < n -> (entry M i j == sumn k (fun l => entry X i l * entry Y l j))%Q).
Proof. exact min_cert_sound_lists. Qed.
Print Assumptions C12_min_cert_sound_lists.

(* a single-term Hamiltonian: one vertex, i.e. bond dimension one, on every edge of every tree *)
Theorem C12_single_term_bonds_one : forall (j : nat) (t : rtree) (tm : pterm) (c : nat),
  NoDup (ids t) -> In c (tl (ids t)) -> nverts (single_term j t tm) c = 1.
Proof. exact single_term_bonds_one. Qed.
Print Assumptions C12_single_term_bonds_one.

(* the uncompressed construction spends one vertex per term on every edge *)
Theorem C12_base_bonds : forall (t : rtree) (H : list pterm) (c : nat),
  NoDup (ids t) -> In c (tl (ids t)) -> nverts (sd_base t H) c = length H.
Proof. exact base_bonds. Qed.
Print Assumptions C12_base_bonds.

(* non-vacuity: a 3 x 3 matrix of rank 2 (third row = first + second) with a certified 2 x 2 minor *)
Example C12_example_cert :
  rank_case [[2; 0; 1]; [0; 3; 1]; [2; 3; 2]]%Q 3 3 [0; 1] [0; 1] [[1 # 2; 0]; [0; 1 # 3]]%Q = (true, true, (6%Z, 1%positive)).
Proof. vm_compute. reflexivity. Qed.
Print Assumptions C12_example_cert.

(* ... and no 3 x 3 certificate exists for it with this candidate inverse: the checker rejects *)
Example C12_example_reject :
  min_cert [[2; 0; 1]; [0; 3; 1]; [2; 3; 2]]%Q 3 3 [0; 1; 2] [0; 1; 2] [[1 # 2; 0; 0]; [0; 1 # 3; 0]; [0; 0; 1]]%Q = false.
Proof. vm_compute. reflexivity. Qed.
Print Assumptions C12_example_reject.
