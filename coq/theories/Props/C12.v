(* Property C12 — SGE bond dimensions are minimal.  Statements only; each is closed by `exact`.
   Rank certificates: SD/Rank.v, SD/RankProofs.v; single-term / BASE bond dimensions on the
   state-diagram model: SD/Model.v, SD/ModelProofs.v. *)
From Coq Require Import List Arith Bool QArith.
From PTN Require Import Tree.RTree SD.Model SD.ModelProofs SD.Rank SD.RankProofs.
Import ListNotations.
Local Close Scope Q_scope.

(* k homogeneous linear equations in r > k unknowns over Q have a non-trivial solution *)
Theorem C12_kernel_vector : forall (r k : nat) (A : nat -> nat -> Q), k < r ->
  exists v : nat -> Q,
    (exists b, b < r /\ ~ (v b == 0)%Q) /\
    (forall l, l < k -> (sumn r (fun b => A l b * v b) == 0)%Q).
Proof. exact kernel_vector. Qed.
Print Assumptions C12_kernel_vector.

(* An accepted certificate — r row indices rs, r column indices cs of the m x n matrix M and an
   r x r matrix B with M[rs, cs] * B = 1 — excludes every factorisation M = X * Y through an inner
   dimension k < r, whatever X (m x k) and Y (k x n): the bond of any exact representation that
   factors Gamma_e is at least r. *)
Theorem C12_min_cert_sound : forall (M : mat) (m n : nat) (rs cs : list nat) (B : mat),
  min_cert M m n rs cs B = true ->
  forall (k : nat) (X Y : nat -> nat -> Q), k < length rs ->
  ~ (forall i j, i < m -> j < n -> (entry M i j == sumn k (fun l => X i l * Y l j))%Q).
Proof. exact min_cert_sound. Qed.
Print Assumptions C12_min_cert_sound.

Theorem C12_min_cert_sound_lists : forall (M : mat) (m n : nat) (rs cs : list nat) (B : mat),
  min_cert M m n rs cs B = true ->
  forall (k : nat) (X Y : mat), k < length rs ->
  ~ (forall i j, i < m -> j < n -> (entry M i j == sumn k (fun l => entry X i l * entry Y l j))%Q).
Proof. exact min_cert_sound_lists. Qed.
Print Assumptions C12_min_cert_sound_lists.

(* a single-term Hamiltonian: one vertex, i.e. bond dimension one, on every edge of every tree *)
Theorem C12_single_term_bonds_one : forall (j : nat) (t : rtree) (tm : pterm) (c : nat),
  NoDup (ids t) -> In c (tl (ids t)) -> nverts (single_term j t tm) c = 1.
Proof. exact single_term_bonds_one. Qed.
Print Assumptions C12_single_term_bonds_one.

(* the uncompressed construction spends one vertex per term on every edge *)
Theorem C12_base_bonds : forall (t : rtree) (H : list pterm) (c : nat),
  NoDup (ids t) -> In c (tl (ids t)) -> nverts (sd_base t H) c = length H.
Proof. exact base_bonds. Qed.
Print Assumptions C12_base_bonds.

(* non-vacuity: a 3 x 3 matrix of rank 2 (third row = first + second) with a certified 2 x 2 minor *)
Example C12_example_cert :
  rank_case [[2; 0; 1]; [0; 3; 1]; [2; 3; 2]]%Q 3 3 [0; 1] [0; 1] [[1 # 2; 0]; [0; 1 # 3]]%Q = (true, true, (6%Z, 1%positive)).
Proof. vm_compute. reflexivity. Qed.
Print Assumptions C12_example_cert.

(* ... and no 3 x 3 certificate exists for it with this candidate inverse: the checker rejects *)
Example C12_example_reject :
  min_cert [[2; 0; 1]; [0; 3; 1]; [2; 3; 2]]%Q 3 3 [0; 1; 2] [0; 1; 2] [[1 # 2; 0; 0]; [0; 1 # 3; 0]; [0; 0; 1]]%Q = false.
Proof. vm_compute. reflexivity. Qed.
Print Assumptions C12_example_reject.

(* ---- the symbolic Gaussian elimination computes the rank of a NUMERIC coefficient matrix ---------
   Model: SGE/Model.v (`gaussian_elimination`, the function tied exactly to
   pytreenet/ttno/symbolic_gaussian_elimination_fraction.py by the C13 check); proofs:
   SGE/NumericRank.v, SGE/NumericRankProofs.v.  Vocabulary:
     numeric M            every entry of M is a rational constant `Num q` (no coefficient symbol)
     val M i j : Qc       the rational in position (i,j)
     nonzero_lines m n M  no row and no column of the m x n matrix M is identically zero (true for the
                          coefficient matrix of a cut: every row / column index comes from a term)
     diag_nz r M'         the r x r matrix M' is diagonal and its diagonal entries are non-zero
     prod3 r r L M' R i j None   entry (i,j) of L * M' * R
   Both inner dimensions of the returned factorisation L * M' * R coincide (M' is r x r), the product
   is the input, and the input factors through NO inner dimension k < r, whatever X (m x k) and
   Y (k x n) over Q: r is the rank of M, the minimum any exact representation can have.  M' being
   diagonal with non-zero diagonal, the minimum vertex cover of its support -- the bond dimension the
   TTNO builder derives from M' -- is r.
   The statement is false with coefficient symbols (known finding C12-symbolic-suboptimal) and for
   matrices with a zero line (C12_numeric_zero_line_example). *)
From Coq Require Import ZArith Qcanon.
From PTN Require SGE.Model SGE.ModelProofs SGE.NumericRank SGE.NumericRankProofs.
Local Close Scope Qc_scope.
Local Close Scope Q_scope.

Theorem C12_numeric_minimal :
  forall (m n : nat) (M : SGE.Model.mat) (L : SGE.Model.qmat) (M' : SGE.Model.mat) (R : SGE.Model.qmat),
  length M = m /\ SGE.Model.rectE n M -> 1 <= m -> 1 <= n ->
  NumericRank.numeric M -> NumericRank.nonzero_lines m n M ->
  SGE.Model.gaussian_elimination M = Some (L, M', R) ->
  exists r : nat, 1 <= r /\ r <= m /\ r <= n /\
    (length L = m /\ SGE.Model.rectQ r L) /\ (length M' = r /\ SGE.Model.rectE r M') /\
    (length R = r /\ SGE.Model.rectQ n R) /\
    NumericRank.numeric M' /\ NumericRank.diag_nz r M' /\
    (forall i j, i < m -> j < n -> SGE.Model.prod3 r r L M' R i j None = NumericRank.val M i j) /\
    forall (k : nat) (X Y : nat -> nat -> Q), k < r ->
      ~ (forall i j, i < m -> j < n ->
           (this (NumericRank.val M i j) == sumn k (fun l => X i l * Y l j))%Q).
Proof. exact NumericRankProofs.ge_numeric_minimal. Qed.
Print Assumptions C12_numeric_minimal.

(* the easy direction for every (also symbolic) input, at the constant coefficient: the input factors
   through the number of rows of the reduced matrix *)
Theorem C12_numeric_factor :
  forall (m n : nat) (M : SGE.Model.mat) (L : SGE.Model.qmat) (M' : SGE.Model.mat) (R : SGE.Model.qmat),
  length M = m /\ SGE.Model.rectE n M -> 1 <= m -> 1 <= n ->
  SGE.Model.gaussian_elimination M = Some (L, M', R) ->
  exists X Y : nat -> nat -> Q, forall i j, i < m -> j < n ->
    (this (NumericRank.val M i j) == sumn (length M') (fun l => X i l * Y l j))%Q.
Proof. exact NumericRankProofs.ge_numeric_factor. Qed.
Print Assumptions C12_numeric_factor.

(* one round of the two elimination loops that deletes no line, on abstract matrices without a zero
   line, ends in a square diagonal matrix with non-zero diagonal (the core of the argument; `erun` is
   the outer loop of row_elimination, column_elimination is the same relation on the transpose) *)
Theorem C12_last_round : forall (m n : nat) (A B C : NumericRank.fmat), NumericRank.good m n A ->
  NumericRank.erun 0 m n A m B -> NumericRank.erun 0 n m (NumericRank.tr B) n (NumericRank.tr C) ->
  m = n /\ NumericRank.fdiag m C.
Proof. exact NumericRankProofs.last_round. Qed.
Print Assumptions C12_last_round.

(* the executable versions of the two hypotheses are sound *)
Theorem C12_numeric_hypotheses_checkable : forall (m n : nat) (M : SGE.Model.mat),
  NumericRank.numericb M = true -> NumericRank.nonzero_linesb m n M = true ->
  NumericRank.numeric M /\ NumericRank.nonzero_lines m n M.
Proof.
  exact (fun m n M H1 H2 => conj (NumericRankProofs.numericb_ok M H1)
           (NumericRankProofs.nonzero_linesb_ok m n M (NumericRankProofs.numericb_ok M H1) H2)).
Qed.
Print Assumptions C12_numeric_hypotheses_checkable.

(* non-vacuity: a 3 x 4 integer matrix of rank 2 (row 3 = row 1 + row 2, columns 1 and 2 parallel)
   satisfies the hypotheses; the reduced matrix is the 2 x 2 identity, L is 3 x 2 and R is 2 x 4 *)
Example C12_numeric_example :
  let M := NumericRank.num_mat [[1; 2; 3; 4]; [2; 4; 6; 9]; [3; 6; 9; 13]]%Z in
  NumericRank.numericb M = true /\ NumericRank.nonzero_linesb 3 4 M = true /\
  option_map (fun res => match res with (L, M', R) =>
                (length L, length M', SGE.Model.ncols M', length R, SGE.Model.ncols R,
                 SGE.Model.enc_rows SGE.Model.encE M') end)
             (SGE.Model.gaussian_elimination M)
  = Some (3, 2, 2, 2, 4, [2; 2; 0; 1; 1; 0; 0; 0; 1; 0; 2; 0; 0; 1; 0; 0; 1; 1; 0]%Z).
Proof. vm_compute. repeat split; reflexivity. Qed.
Print Assumptions C12_numeric_example.

(* the hypothesis "no zero line" is needed: the 2 x 2 zero matrix (rank 0) is returned unreduced *)
Example C12_numeric_zero_line_example :
  option_map (fun res => match res with (L, M', R) => (length M', SGE.Model.ncols M') end)
             (SGE.Model.gaussian_elimination (NumericRank.num_mat [[0; 0]; [0; 0]]%Z)) = Some (2, 2).
Proof. vm_compute. reflexivity. Qed.
Print Assumptions C12_numeric_zero_line_example.
