(* Property C02 — structural edits keep the network well-formed and its contraction unchanged.
   Statements only.  Model: TTN/Store.v (tied to /repo exactly, step by step, by harness/props/c02.py). *)
From Coq Require Import List Arith Permutation.
From PTN Require Import TTN.Store TTN.StoreProofs.
Import ListNotations.

(* Node leg discipline: attaching a parent moves exactly the named open leg to the front and keeps
   the lazy permutation a permutation of the tensor's axes *)
Theorem C02_open_leg_to_parent : forall (n : node) (pid : id) (leg : nat) (n' : node),
  node_wf n -> open_leg_to_parent n pid leg = Some n' ->
  node_wf n' /\ parent n' = Some pid /\ children n' = children n /\ shape n' = shape n /\
  Permutation (perm n') (perm n) /\ nth 0 (perm n') 0 = nth leg (perm n) 0 /\ parent n = None.
Proof. exact open_leg_to_parent_wf. Qed.
Print Assumptions C02_open_leg_to_parent.

(* attaching a child moves exactly the named open leg behind the existing neighbour legs *)
Theorem C02_open_leg_to_child : forall (n : node) (cid : id) (leg : nat) (n' : node),
  node_wf n -> open_leg_to_child n cid leg = Some n' ->
  node_wf n' /\ parent n' = parent n /\ children n' = children n ++ [cid] /\ shape n' = shape n /\
  Permutation (perm n') (perm n) /\ nth (nvirt n) (perm n') 0 = nth leg (perm n) 0.
Proof. exact open_leg_to_child_wf. Qed.
Print Assumptions C02_open_leg_to_child.

(* a plain tensor access (lazy transposition) changes no node's tensor ... *)
Theorem C02_access_logical : forall (s : store) (n : id) (s' : store) (nd : node) (t : sarr) (m : id),
  access s n = Some (s', nd, t) -> logical s' m = logical s m.
Proof. exact access_logical. Qed.
Print Assumptions C02_access_logical.

(* ... returns exactly that tensor ... *)
Theorem C02_access_returns_logical : forall (s : store) (n : id) (s' : store) (nd : node) (t : sarr),
  access s n = Some (s', nd, t) -> logical s n = Some t.
Proof. exact access_returns_logical. Qed.
Print Assumptions C02_access_returns_logical.

(* ... and keeps key sets and orders, the root, every parent/children record and every recorded shape *)
Theorem C02_access_keys : forall (s : store) (n : id) (s' : store) (nd : node) (t : sarr),
  access s n = Some (s', nd, t) ->
  akeys (nodes s') = akeys (nodes s) /\ akeys (tensors s') = akeys (tensors s) /\ root s' = root s.
Proof. exact access_keys. Qed.
Print Assumptions C02_access_keys.

Theorem C02_access_structure : forall (s : store) (n : id) (s' : store) (nd : node) (t : sarr) (m : id) (ndm : node),
  access s n = Some (s', nd, t) -> aget m (nodes s) = Some ndm ->
  exists ndm', aget m (nodes s') = Some ndm' /\ parent ndm' = parent ndm /\ children ndm' = children ndm
               /\ node_shape ndm' = node_shape ndm.
Proof. exact access_structure. Qed.
Print Assumptions C02_access_structure.

(* list surgery used by every leg operation is a permutation *)
Theorem C02_move_perm : forall (A : Type) (i j : nat) (l l' : list A), move i j l = Some l' -> Permutation l' l.
Proof. exact @move_perm. Qed.
Print Assumptions C02_move_perm.

(* non-vacuity: a three-node network, a contraction with identifier reuse and a QR split *)
Example C02_example :
  snd (run empty_store [AddRoot 0 [2; 3; 2]; AddChild 1 [2; 2] 1 0 0; AddChild 2 [3; 2] 0 0 1;
                        Contract 1 0 1;
                        Split 1 {| ls_parent := None; ls_children := [2]; ls_open := [1]; ls_root := true |}
                                {| ls_parent := None; ls_children := []; ls_open := [2]; ls_root := false |} 1 7 0 Reduced 0])
  = [true; true; true; true; true].
Proof. vm_compute. reflexivity. Qed.
Print Assumptions C02_example.
