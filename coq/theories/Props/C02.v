(* Property C02 — structural edits keep the network well-formed and its contraction unchanged.
   Statements only.  Model: TTN/Store.v (tied to /repo exactly, step by step, by harness/props/c02.py). *)
From Coq Require Import List Arith Permutation.
From PTN Require Import TTN.Store TTN.StoreProofs.
Import ListNotations.

(* Node leg discipline: attaching a parent moves exactly the named open leg to the front and keeps
   the lazy permutation a permutation of the tensor's axes *)
Theorem C02_open_leg_to_parent : forall (n : node) (pid : id) (leg : nat) (n' : node),
  node_wf n -> open_leg_to_parent n pid leg = Some n' ->
  node_wf n' /\ parent n' = Some pid /\ children n' = children n /\ shape n' = shape n /\
  Permutation (perm n') (perm n) /\ nth 0 (perm n') 0 = nth leg (perm n) 0 /\ parent n = None.
Proof. exact open_leg_to_parent_wf. Qed.
Print Assumptions C02_open_leg_to_parent.

(* attaching a child moves exactly the named open leg behind the existing neighbour legs *)
Theorem C02_open_leg_to_child : forall (n : node) (cid : id) (leg : nat) (n' : node),
  node_wf n -> open_leg_to_child n cid leg = Some n' ->
  node_wf n' /\ parent n' = parent n /\ children n' = children n ++ [cid] /\ shape n' = shape n /\
  Permutation (perm n') (perm n) /\ nth (nvirt n) (perm n') 0 = nth leg (perm n) 0.
Proof. exact open_leg_to_child_wf. Qed.
Print Assumptions C02_open_leg_to_child.

(* a plain tensor access (lazy transposition) changes no node's tensor ... *)
Theorem C02_access_logical : forall (s : store) (n : id) (s' : store) (nd : node) (t : sarr) (m : id),
  access s n = Some (s', nd, t) -> logical s' m = logical s m.
Proof. exact access_logical. Qed.
Print Assumptions C02_access_logical.

(* ... returns exactly that tensor ... *)
Theorem C02_access_returns_logical : forall (s : store) (n : id) (s' : store) (nd : node) (t : sarr),
  access s n = Some (s', nd, t) -> logical s n = Some t.
Proof. exact access_returns_logical. Qed.
Print Assumptions C02_access_returns_logical.

(* ... and keeps key sets and orders, the root, every parent/children record and every recorded shape *)
Theorem C02_access_keys : forall (s : store) (n : id) (s' : store) (nd : node) (t : sarr),
  access s n = Some (s', nd, t) ->
  akeys (nodes s') = akeys (nodes s) /\ akeys (tensors s') = akeys (tensors s) /\ root s' = root s.
Proof. exact access_keys. Qed.
Print Assumptions C02_access_keys.

Theorem C02_access_structure : forall (s : store) (n : id) (s' : store) (nd : node) (t : sarr) (m : id) (ndm : node),
  access s n = Some (s', nd, t) -> aget m (nodes s) = Some ndm ->
  exists ndm', aget m (nodes s') = Some ndm' /\ parent ndm' = parent ndm /\ children ndm' = children ndm
               /\ node_shape ndm' = node_shape ndm.
Proof. exact access_structure. Qed.
Print Assumptions C02_access_structure.

(* list surgery used by every leg operation is a permutation *)
Theorem C02_move_perm : forall (A : Type) (i j : nat) (l l' : list A), move i j l = Some l' -> Permutation l' l.
Proof. exact @move_perm. Qed.
Print Assumptions C02_move_perm.

(* non-vacuity: a three-node network, a contraction with identifier reuse and a QR split *)
Example C02_example :
  snd (run empty_store [AddRoot 0 [2; 3; 2]; AddChild 1 [2; 2] 1 0 0; AddChild 2 [3; 2] 0 0 1;
                        Contract 1 0 1;
                        Split 1 {| ls_parent := None; ls_children := [2]; ls_open := [1]; ls_root := true |}
                                {| ls_parent := None; ls_children := []; ls_open := [2]; ls_root := false |} 1 7 0 Reduced 0])
  = [true; true; true; true; true].
Proof. vm_compute. reflexivity. Qed.
Print Assumptions C02_example.

(* ======================================================================================================
   The store invariant (TTN/Inv.v): executable checker wfb, its Prop reading wf, preservation by every
   operation of the model and by operation sequences; diagram totals and the open-leg rules.
   ====================================================================================================== *)
From Coq Require Import Bool.
From PTN Require Import TTN.Inv TTN.InvProofs TTN.InvBuild TTN.InvEdit TTN.InvContract TTN.InvSplit TTN.InvRun TTN.InvWires.

(* the executable checker decides the Prop-level invariant (one root, symmetric links, equal key sets,
   recorded shapes = tensor shapes, permutations valid, edge wires agree at both ends, no other sharing,
   acyclic/connected) *)
Theorem C02_wfb_iff : forall s : store, wfb s = true <-> wf s.
Proof. exact wfb_iff. Qed.
Print Assumptions C02_wfb_iff.

Theorem C02_wf_keys_perm : forall s : store, wf s -> Permutation (akeys (tensors s)) (akeys (nodes s)).
Proof. exact wf_keys_perm. Qed.
Print Assumptions C02_wf_keys_perm.

(* among the logical axes of all nodes every wire occurs at most twice; exactly the edge wires (leg 0 of a
   node with a parent) occur twice *)
Theorem C02_wire_multiplicity : forall (s : store) (w : wire), wfb s = true ->
  count_occ Nat.eq_dec (all_lax s) w <= 2 /\
  (count_occ Nat.eq_dec (all_lax s) w = 2 <->
   exists c cn, aget c (nodes s) = Some cn /\ parent cn <> None /\ nth 0 (lax s c cn) 0 = w).
Proof. exact wfb_wire_multiplicity. Qed.
Print Assumptions C02_wire_multiplicity.

(* ---- building ---------------------------------------------------------------------------------------- *)
Theorem C02_add_root_wfb : forall (s : store) (n : id) (shp : list nat) (s' : store),
  blank s -> add_root s n shp = Some s' -> wfb s' = true.
Proof. exact add_root_wfb. Qed.
Print Assumptions C02_add_root_wfb.

Theorem C02_add_child_preserves_wfb : forall (s : store) (c : id) (shp : list nat) (cleg : nat) (p : id) (pleg : nat) (s' : store),
  wfb s = true -> add_child s c shp cleg p pleg = Some s' -> wfb s' = true.
Proof. exact add_child_preserves_wfb. Qed.
Print Assumptions C02_add_child_preserves_wfb.

(* ---- plain access ------------------------------------------------------------------------------------ *)
Theorem C02_access_preserves_wfb : forall (s : store) (n : id) (s' : store) (nd : node) (t : sarr),
  wfb s = true -> access s n = Some (s', nd, t) -> wfb s' = true.
Proof. exact access_preserves_wfb. Qed.
Print Assumptions C02_access_preserves_wfb.

Theorem C02_access_totals : forall (s : store) (n : id) (s' : store) (nd : node) (t : sarr),
  wf s -> access s n = Some (s', nd, t) ->
  total_atoms s' = total_atoms s /\ Permutation (total_ends s') (total_ends s) /\ open_wires s' = open_wires s.
Proof.
  exact (fun s n s' nd t W H => conj (access_total_atoms s n s' nd t W H)
          (conj (access_total_ends s n s' nd t W H) (access_open_wires s n s' nd t W H))).
Qed.
Print Assumptions C02_access_totals.

(* ---- contract_nodes ---------------------------------------------------------------------------------- *)
Theorem C02_contract_preserves_wfb : forall (s : store) (a b new : id) (s' : store),
  wfb s = true -> contract_nodes s a b new = Some s' ->
  (new = a \/ new = b \/ ~ In new (akeys (nodes s))) -> wfb s' = true.
Proof. exact contract_preserves_wfb. Qed.
Print Assumptions C02_contract_preserves_wfb.

Theorem C02_contract_total_atoms : forall (s : store) (a b new : id) (s' : store),
  wf s -> contract_nodes s a b new = Some s' -> (new = a \/ new = b \/ ~ In new (akeys (nodes s))) ->
  Permutation (total_atoms s') (total_atoms s).
Proof. exact contract_total_atoms. Qed.
Print Assumptions C02_contract_total_atoms.

(* the contracted wire's two axis ends become one bound wire, counted twice *)
Theorem C02_contract_total_ends : forall (s : store) (a b new : id) (s' : store),
  wf s -> contract_nodes s a b new = Some s' -> (new = a \/ new = b \/ ~ In new (akeys (nodes s))) ->
  Permutation (total_ends s') (total_ends s).
Proof. exact contract_total_ends. Qed.
Print Assumptions C02_contract_total_ends.

(* open-leg rule: the new node's open wires are a's followed by b's; every other node keeps its logical axes *)
Theorem C02_contract_open_rule : forall (s : store) (a b new : id) (s' : store) (na nb : node),
  wf s -> contract_nodes s a b new = Some s' -> (new = a \/ new = b \/ ~ In new (akeys (nodes s))) ->
  aget a (nodes s) = Some na -> aget b (nodes s) = Some nb ->
  exists nn, aget new (nodes s') = Some nn /\
    open_of nn (tens s' new) = open_of na (tens s a) ++ open_of nb (tens s b) /\
    forall k nk, aget k (nodes s) = Some nk -> k <> a -> k <> b ->
      exists nk', aget k (nodes s') = Some nk' /\ lax s' k nk' = lax s k nk /\
                  open_of nk' (tens s' k) = open_of nk (tens s k).
Proof. exact contract_open_rule. Qed.
Print Assumptions C02_contract_open_rule.

(* ---- rename ------------------------------------------------------------------------------------------ *)
Theorem C02_rename_preserves_wfb : forall (s : store) (new old : id) (s' : store),
  wfb s = true -> rename s new old = Some s' -> wfb s' = true.
Proof. exact rename_preserves_wfb. Qed.
Print Assumptions C02_rename_preserves_wfb.

Theorem C02_rename_totals : forall (s : store) (new old : id) (s' : store),
  wf s -> rename s new old = Some s' ->
  Permutation (total_atoms s') (total_atoms s) /\ Permutation (total_ends s') (total_ends s) /\
  Permutation (open_wires s') (open_wires s).
Proof.
  exact (fun s new old s' W H => conj (rename_total_atoms s new old s' W H)
          (conj (rename_total_ends s new old s' W H) (rename_open_wires s new old s' W H))).
Qed.
Print Assumptions C02_rename_totals.

(* every node k is found under its renamed key with parent/children renamed pointwise and the same logical axes *)
Theorem C02_rename_lax : forall (s : store) (new old : id) (s' : store) (k : id) (nk : node),
  wf s -> rename s new old = Some s' -> aget k (nodes s) = Some nk ->
  exists nk', aget (ren1 old new k) (nodes s') = Some nk' /\ parent nk' = option_map (ren1 old new) (parent nk) /\
              children nk' = map (ren1 old new) (children nk) /\ lax s' (ren1 old new k) nk' = lax s k nk.
Proof. exact rename_lax. Qed.
Print Assumptions C02_rename_lax.

(* ---- replace_tensor ------------------------------------------------------------------------------------ *)
(* the code compares dimensions only: a replacement whose permutation does not undo the transposition can
   put wires on the wrong legs when dimensions coincide (model-level witness) *)
Theorem C02_replace_tensor_needs_inverse :
  let s := fst (run empty_store [AddRoot 0 [2; 2]; AddChild 1 [2; 3] 0 0 0]) in
  wfb s = true /\
  match replace_tensor s 0 [1; 0] None with Some s' => wfb s' = false | None => False end.
Proof. exact replace_tensor_wfb_counterexample. Qed.
Print Assumptions C02_replace_tensor_needs_inverse.

Theorem C02_replace_tensor_preserves_wfb : forall (s : store) (n : id) (q : list nat) (p : option (list nat)) (s' : store),
  wfb s = true -> replace_tensor s n q p = Some s' ->
  inverse_of (match p with Some p' => p' | None => seq 0 (length q) end) q -> wfb s' = true.
Proof. exact replace_tensor_preserves_wfb. Qed.
Print Assumptions C02_replace_tensor_preserves_wfb.

Theorem C02_replace_tensor_totals : forall (s : store) (n : id) (q : list nat) (p : option (list nat)) (s' : store),
  wf s -> replace_tensor s n q p = Some s' ->
  inverse_of (match p with Some p' => p' | None => seq 0 (length q) end) q ->
  total_atoms s' = total_atoms s /\ Permutation (total_ends s') (total_ends s) /\ open_wires s' = open_wires s.
Proof.
  exact (fun s n q p s' W H I => conj (replace_tensor_total_atoms s n q p s' W H I)
          (conj (replace_tensor_total_ends s n q p s' W H I) (replace_tensor_open_wires s n q p s' W H I))).
Qed.
Print Assumptions C02_replace_tensor_totals.

Theorem C02_replace_tensor_lax : forall (s : store) (n : id) (q : list nat) (p : option (list nat)) (s' : store) (k : id) (nk : node),
  wf s -> replace_tensor s n q p = Some s' ->
  inverse_of (match p with Some p' => p' | None => seq 0 (length q) end) q ->
  aget k (nodes s) = Some nk ->
  exists nk', aget k (nodes s') = Some nk' /\ parent nk' = parent nk /\ children nk' = children nk /\ lax s' k nk' = lax s k nk.
Proof. exact replace_tensor_lax. Qed.
Print Assumptions C02_replace_tensor_lax.

(* ---- insert_identity ----------------------------------------------------------------------------------- *)
Theorem C02_insert_identity_preserves_wfb : forall (s : store) (c p new : id) (s' : store),
  wfb s = true -> insert_identity s c p new = Some s' -> wfb s' = true.
Proof. exact insert_identity_preserves_wfb. Qed.
Print Assumptions C02_insert_identity_preserves_wfb.

(* one new atom (the identity), the fresh wire contributes two ends, open legs unchanged *)
Theorem C02_insert_identity_totals : forall (s : store) (c p new : id) (s' : store),
  wf s -> insert_identity s c p new = Some s' ->
  total_atoms s' = total_atoms s ++ [next_atom s] /\
  Permutation (total_ends s') (next_wire s :: next_wire s :: total_ends s) /\
  open_wires s' = open_wires s.
Proof.
  exact (fun s c p new s' W H => conj (insert_identity_total_atoms s c p new s' W H)
          (conj (insert_identity_total_ends s c p new s' W H) (insert_identity_open_wires s c p new s' W H))).
Qed.
Print Assumptions C02_insert_identity_totals.

(* ---- split_nodes --------------------------------------------------------------------------------------- *)
(* spec_ok: the two leg specifications describe the node truthfully (named parent is the parent, root flag
   only on the root, listed children are children, listed open legs are open legs); ids_ok: each new
   identifier is the split node's own or unused.  Both are necessary (InvSplit.split_bad_*_counterexample). *)
Theorem C02_split_preserves_wfb : forall (s : store) (n : id) (o i : legspec) (oid iid : id) (kind : nat) (m : mode) (rbond : nat) (s' : store),
  wfb s = true -> split_nodes s n o i oid iid kind m rbond = Some s' ->
  spec_ok s n o i -> ids_ok s n oid iid -> wfb s' = true.
Proof. exact split_preserves_wfb. Qed.
Print Assumptions C02_split_preserves_wfb.

(* the atoms of the split tensor are replaced by the two fresh factor atoms *)
Theorem C02_split_total_atoms : forall (s : store) (n : id) (o i : legspec) (oid iid : id) (kind : nat) (m : mode) (rbond : nat) (s' : store),
  wf s -> split_nodes s n o i oid iid kind m rbond = Some s' -> ids_ok s n oid iid ->
  exists rest, Permutation (total_atoms s) (atoms (tens s n) ++ rest) /\
               Permutation (total_atoms s') (next_atom s :: S (next_atom s) :: rest).
Proof. exact split_total_atoms. Qed.
Print Assumptions C02_split_total_atoms.

(* wire ends: the split tensor's axes are distributed over the two factors, the fresh bond appears twice,
   its bound wires move into the recorded definition *)
Theorem C02_split_total_ends : forall (s : store) (n : id) (o i : legspec) (oid iid : id) (kind : nat) (m : mode) (rbond : nat) (s' : store),
  wf s -> split_nodes s n o i oid iid kind m rbond = Some s' -> ids_ok s n oid iid ->
  exists rest, Permutation (total_ends s) (sarr_ends (tens s n) ++ rest) /\
               Permutation (total_ends s') (next_wire s :: next_wire s :: axes (tens s n) ++ rest).
Proof. exact split_total_ends. Qed.
Print Assumptions C02_split_total_ends.

(* the newest definition: Q . R over the fresh bond equals the split tensor transposed to out-legs ++ in-legs,
   and the two new tensors are exactly Q (out-legs, bond) and R (bond, in-legs) *)
Theorem C02_split_new_def : forall (s : store) (n : id) (o i : legspec) (oid iid : id) (kind : nat) (m : mode) (rbond : nat) (s' : store) (d0 : kdef),
  wf s -> split_nodes s n o i oid iid kind m rbond = Some s' ->
  exists s1 nd t ol il bd,
    access s n = Some (s1, nd, t) /\ logical s n = Some t /\
    find_leg_values nd o = Some ol /\ find_leg_values nd i = Some il /\
    Permutation (ol ++ il) (seq 0 (length (axes t))) /\
    bd = sp_bd s kind m rbond (permute 0 ol (axes t)) (permute 0 il (axes t)) /\
    last (defs s') d0 = {| kq := next_atom s; kr := S (next_atom s); kbond := next_wire s;
                           kinput := s_transpose (ol ++ il) t; kkind := kind;
                           kmode := match kind with 0 => Some m | _ => None end |} /\
    defs s' = defs s ++ [last (defs s') d0] /\
    aget oid (tensors s') = Some {| axes := permute 0 ol (axes t) ++ [next_wire s]; atoms := [next_atom s]; bnd := [] |} /\
    aget iid (tensors s') = Some {| axes := next_wire s :: permute 0 il (axes t); atoms := [S (next_atom s)]; bnd := [] |} /\
    next_wire s' = S (next_wire s) /\ next_atom s' = S (S (next_atom s)) /\
    dims s' = dims s ++ [(next_wire s, bd)] /\ wdim s' (next_wire s) = bd.
Proof. exact split_new_def. Qed.
Print Assumptions C02_split_new_def.

(* open-leg rule: each factor's open wires are the wires named by its specification's open legs, in
   specification order; every other node keeps its open and owned wires *)
Theorem C02_split_open_legs : forall (s : store) (n : id) (o i : legspec) (oid iid : id) (kind : nat) (m : mode) (rbond : nat) (s' : store) (nd0 : node),
  wf s -> split_nodes s n o i oid iid kind m rbond = Some s' -> spec_ok s n o i -> ids_ok s n oid iid ->
  aget n (nodes s) = Some nd0 ->
  exists no ni,
    aget oid (nodes s') = Some no /\ aget iid (nodes s') = Some ni /\
    open_of no (tens s' oid) = map (fun l => nth l (lax s n nd0) 0) (ls_open o) /\
    open_of ni (tens s' iid) = map (fun l => nth l (lax s n nd0) 0) (ls_open i) /\
    (forall k nk, k <> n -> aget k (nodes s) = Some nk ->
       exists nk', aget k (nodes s') = Some nk' /\ open_of nk' (tens s' k) = open_of nk (tens s k) /\
                   own_of nk' (tens s' k) = own_of nk (tens s k)).
Proof. exact split_open_legs. Qed.
Print Assumptions C02_split_open_legs.

(* the side conditions on identifiers are necessary: model-level witnesses (the model mirrors ttn.py, which
   checks neither) *)
Theorem C02_contract_needs_fresh_id :
  let s := fst (run empty_store [AddRoot 0 [2; 3; 2]; AddChild 1 [2; 2] 1 0 0; AddChild 2 [3; 2] 0 0 1]) in
  wfb s = true /\
  match contract_nodes s 0 1 2 with
  | Some s' => wfb s' = false /\ akeys (nodes s') = [2] /\ option_map children (aget 2 (nodes s')) = Some [2]
  | None => False
  end.
Proof. exact contract_third_id_counterexample. Qed.
Print Assumptions C02_contract_needs_fresh_id.

(* ---- sequences ------------------------------------------------------------------------------------------ *)
Theorem C02_step_preserves_wfb : forall (s : store) (o : op) (s' : store),
  wfb s = true -> op_okb s o = true -> step s o = Some s' -> wfb s' = true.
Proof. exact step_preserves_wfb. Qed.
Print Assumptions C02_step_preserves_wfb.

Theorem C02_run_preserves_wf : forall (ops : list op) (s : store), wf s -> ops_ok s ops -> wf (fst (run s ops)).
Proof. exact run_preserves_wf. Qed.
Print Assumptions C02_run_preserves_wf.

(* from the empty store the checker accepts every state from the first AddRoot on *)
Theorem C02_run_wfb_empty : forall ops : list op, ops_ok empty_store ops -> run_wfb empty_store ops = after_root false ops.
Proof. exact run_wfb_empty. Qed.
Print Assumptions C02_run_wfb_empty.

(* non-vacuity: the example run satisfies the preconditions and the checker accepts each of its states *)
Example C02_example_ops_ok :
  ops_okb empty_store [AddRoot 0 [2; 3; 2]; AddChild 1 [2; 2] 1 0 0; AddChild 2 [3; 2] 0 0 1;
                       Contract 1 0 1;
                       Split 1 {| ls_parent := None; ls_children := [2]; ls_open := [1]; ls_root := true |}
                               {| ls_parent := None; ls_children := []; ls_open := [2]; ls_root := false |} 1 7 0 Reduced 0]
  = true.
Proof. vm_compute. reflexivity. Qed.
Print Assumptions C02_example_ops_ok.

Example C02_example_wfb :
  run_wfb empty_store [AddRoot 0 [2; 3; 2]; AddChild 1 [2; 2] 1 0 0; AddChild 2 [3; 2] 0 0 1;
                       Contract 1 0 1;
                       Split 1 {| ls_parent := None; ls_children := [2]; ls_open := [1]; ls_root := true |}
                               {| ls_parent := None; ls_children := []; ls_open := [2]; ls_root := false |} 1 7 0 Reduced 0]
  = [true; true; true; true; true].
Proof. vm_compute. reflexivity. Qed.
Print Assumptions C02_example_wfb.

(* ======================================================================================================
   The bridge between the store invariant and the diagram semantics (TTN/InvSem*.v): the extended
   executable invariant wfsb (wfb + atom table / summed wires / atom identifiers), the diagram of the
   WHOLE network (net_diagram: all atoms; summed wires = wires summed inside tensors ++ every edge wire once;
   axes = open_wires) and its value net_value over an arbitrary commutative semiring.
   ====================================================================================================== *)
From PTN Require Import Wire.Sem TTN.InvSem TTN.InvSemProofs TTN.InvSemWfs TTN.InvSemValue TTN.InvSemOps TTN.InvSemEye TTN.InvSemRun.

Theorem C02_wfsb_iff : forall s : store, wfsb s = true <-> wfs s.
Proof. exact wfsb_iff. Qed.
Print Assumptions C02_wfsb_iff.

(* wire accounting: every wire end of a well-formed network is an open leg (once) or belongs to a summed
   wire (twice) *)
Theorem C02_wf_total_ends : forall s : store, wf s ->
  Permutation (total_ends s) (open_wires s ++ net_bnd s ++ net_bnd s).
Proof. exact wf_total_ends. Qed.
Print Assumptions C02_wf_total_ends.

(* ---- wfsb is preserved by every operation (same preconditions as for wfb) and by run ------------------ *)
Theorem C02_access_preserves_wfsb : forall (s : store) (n : id) (s' : store) (nd : node) (t : sarr),
  wfsb s = true -> access s n = Some (s', nd, t) -> wfsb s' = true.
Proof. exact access_preserves_wfsb. Qed.
Print Assumptions C02_access_preserves_wfsb.

Theorem C02_contract_preserves_wfsb : forall (s : store) (a b new : id) (s' : store),
  wfsb s = true -> contract_nodes s a b new = Some s' ->
  (new = a \/ new = b \/ ~ In new (akeys (nodes s))) -> wfsb s' = true.
Proof. exact contract_preserves_wfsb. Qed.
Print Assumptions C02_contract_preserves_wfsb.

Theorem C02_rename_preserves_wfsb : forall (s : store) (new old : id) (s' : store),
  wfsb s = true -> rename s new old = Some s' -> wfsb s' = true.
Proof. exact rename_preserves_wfsb. Qed.
Print Assumptions C02_rename_preserves_wfsb.

Theorem C02_replace_tensor_preserves_wfsb : forall (s : store) (n : id) (q : list nat) (p : option (list nat)) (s' : store),
  wfsb s = true -> replace_tensor s n q p = Some s' ->
  inverse_of (match p with Some p' => p' | None => seq 0 (length q) end) q -> wfsb s' = true.
Proof. exact replace_tensor_preserves_wfsb. Qed.
Print Assumptions C02_replace_tensor_preserves_wfsb.

Theorem C02_insert_identity_preserves_wfsb : forall (s : store) (c p new : id) (s' : store),
  wfsb s = true -> insert_identity s c p new = Some s' -> wfsb s' = true.
Proof. exact insert_identity_preserves_wfsb. Qed.
Print Assumptions C02_insert_identity_preserves_wfsb.

Theorem C02_split_preserves_wfsb : forall (s : store) (n : id) (o i : legspec) (oid iid : id) (kind : nat) (m : mode) (rbond : nat) (s' : store),
  wfsb s = true -> split_nodes s n o i oid iid kind m rbond = Some s' ->
  spec_ok s n o i -> ids_ok s n oid iid -> wfsb s' = true.
Proof. exact split_preserves_wfsb. Qed.
Print Assumptions C02_split_preserves_wfsb.

Theorem C02_add_child_preserves_wfsb : forall (s : store) (c : id) (shp : list nat) (cleg : nat) (p : id) (pleg : nat) (s' : store),
  wfsb s = true -> add_child s c shp cleg p pleg = Some s' -> wfsb s' = true.
Proof. exact add_child_preserves_wfsb. Qed.
Print Assumptions C02_add_child_preserves_wfsb.

(* blank_s: no nodes, no tensors, no root, and no stale atom-table keys (e.g. empty_store) *)
Theorem C02_add_root_wfsb : forall (s : store) (n : id) (shp : list nat) (s' : store),
  blank_s s -> add_root s n shp = Some s' -> wfsb s' = true.
Proof. exact add_root_wfsb. Qed.
Print Assumptions C02_add_root_wfsb.

Theorem C02_step_preserves_wfsb : forall (s : store) (o : op) (s' : store),
  wfsb s = true -> op_okb s o = true -> step s o = Some s' -> wfsb s' = true.
Proof. exact step_preserves_wfsb. Qed.
Print Assumptions C02_step_preserves_wfsb.

Theorem C02_run_preserves_wfs : forall (ops : list op) (s : store), wfs s -> ops_ok s ops -> wfs (fst (run s ops)).
Proof. exact run_preserves_wfs. Qed.
Print Assumptions C02_run_preserves_wfs.

Theorem C02_run_wfsb_empty : forall ops : list op, ops_ok empty_store ops -> run_wfsb empty_store ops = after_root false ops.
Proof. exact run_wfsb_empty. Qed.
Print Assumptions C02_run_wfsb_empty.

(* ---- the value of the whole network is preserved ----------------------------------------------------------- *)
(* access / rename / replace_tensor / contract_nodes only permute the atoms and the summed wires of the
   network diagram (for a contraction the contracted edge wire moves from "edge wires" to the new
   tensor's summed wires) *)
Theorem C02_access_net_value : forall (R : Type) (zero one : R) (add mul : R -> R -> R),
  comm_semiring zero one add mul -> forall (tbl : nat -> list nat -> R)
  (s : store) (n : id) (s' : store) (nd : node) (t : sarr),
  wf s -> access s n = Some (s', nd, t) ->
  open_wires s' = open_wires s /\
  forall rho, net_value zero one add mul s' tbl rho = net_value zero one add mul s tbl rho.
Proof. exact access_net_value. Qed.
Print Assumptions C02_access_net_value.

Theorem C02_rename_net_value : forall (R : Type) (zero one : R) (add mul : R -> R -> R),
  comm_semiring zero one add mul -> forall (tbl : nat -> list nat -> R)
  (s : store) (new old : id) (s' : store),
  wf s -> rename s new old = Some s' ->
  Permutation (open_wires s') (open_wires s) /\
  forall rho, net_value zero one add mul s' tbl rho = net_value zero one add mul s tbl rho.
Proof. exact rename_net_value. Qed.
Print Assumptions C02_rename_net_value.

Theorem C02_replace_tensor_net_value : forall (R : Type) (zero one : R) (add mul : R -> R -> R),
  comm_semiring zero one add mul -> forall (tbl : nat -> list nat -> R)
  (s : store) (n : id) (q : list nat) (p : option (list nat)) (s' : store),
  wf s -> replace_tensor s n q p = Some s' ->
  inverse_of (match p with Some p' => p' | None => seq 0 (length q) end) q ->
  open_wires s' = open_wires s /\
  forall rho, net_value zero one add mul s' tbl rho = net_value zero one add mul s tbl rho.
Proof. exact replace_tensor_net_value. Qed.
Print Assumptions C02_replace_tensor_net_value.

Theorem C02_contract_net_value : forall (R : Type) (zero one : R) (add mul : R -> R -> R),
  comm_semiring zero one add mul -> forall (tbl : nat -> list nat -> R)
  (s : store) (a b new : id) (s' : store),
  wf s -> contract_nodes s a b new = Some s' -> (new = a \/ new = b \/ ~ In new (akeys (nodes s))) ->
  Permutation (open_wires s') (open_wires s) /\
  forall rho, net_value zero one add mul s' tbl rho = net_value zero one add mul s tbl rho.
Proof. exact contract_net_value. Qed.
Print Assumptions C02_contract_net_value.

(* node level (variable elimination): the new node's tensor is the sum over the child's edge wire of the
   product of the two old tensors *)
Theorem C02_contract_node_value : forall (R : Type) (zero one : R) (add mul : R -> R -> R),
  comm_semiring zero one add mul -> forall (tbl : nat -> list nat -> R)
  (s : store) (a b new : id) (s' : store),
  wfs s -> contract_nodes s a b new = Some s' -> (new = a \/ new = b \/ ~ In new (akeys (nodes s))) ->
  exists p c cn,
    ((p = a /\ c = b) \/ (p = b /\ c = a)) /\ aget c (nodes s) = Some cn /\ parent cn = Some p /\
    forall rho,
      node_value zero one add mul s' tbl new rho
      = sum_upto R zero add (wdim s (ew s c))
          (fun k => mul (node_value zero one add mul s tbl p (upd rho (ew s c) k))
                        (node_value zero one add mul s tbl c (upd rho (ew s c) k))).
Proof. exact contract_node_value. Qed.
Print Assumptions C02_contract_node_value.

(* split_nodes under the kernel contract def_holds: for the newly recorded definition, summing Q.R over
   the new bond gives the split tensor (transposed to out-legs ++ in-legs) at every wire assignment *)
Theorem C02_split_net_value : forall (R : Type) (zero one : R) (add mul : R -> R -> R),
  comm_semiring zero one add mul -> forall (tbl : nat -> list nat -> R)
  (s : store) (n : id) (o i : legspec) (oid iid : id) (kind : nat) (m : mode) (rbond : nat) (s' : store),
  wfs s -> split_nodes s n o i oid iid kind m rbond = Some s' -> spec_ok s n o i -> ids_ok s n oid iid ->
  def_holds zero one add mul s' tbl (last (defs s') dflt_def) ->
  Permutation (open_wires s') (open_wires s) /\
  forall rho, net_value zero one add mul s' tbl rho = net_value zero one add mul s tbl rho.
Proof. exact split_net_value. Qed.
Print Assumptions C02_split_net_value.

(* insert_identity under the contract that the fresh atom is an identity matrix: the old parent wire and
   the fresh wire are both summed, so the value is unchanged at every assignment *)
Theorem C02_insert_identity_net_value : forall (R : Type) (zero one : R) (add mul : R -> R -> R),
  comm_semiring zero one add mul -> forall (tbl : nat -> list nat -> R)
  (s : store) (c p new : id) (s' : store),
  wfs s -> insert_identity s c p new = Some s' -> eye_atom zero one tbl (next_atom s) ->
  open_wires s' = open_wires s /\
  forall rho, net_value zero one add mul s' tbl rho = net_value zero one add mul s tbl rho.
Proof. exact insert_identity_net_value. Qed.
Print Assumptions C02_insert_identity_net_value.

(* every sequence of operations without add_child (add_root is rejected once a root exists; rejected
   operations leave the store unchanged), under the documented preconditions and the kernel contracts of its splits and inserted
   identities: same set of open wires, same value at every wire assignment, invariant kept *)
Theorem C02_run_net_value : forall (R : Type) (zero one : R) (add mul : R -> R -> R),
  comm_semiring zero one add mul -> forall (tbl : nat -> list nat -> R) (ops : list op) (s : store),
  wfs s -> ops_ok s ops -> forallb is_edit_op ops = true -> contracts_hold zero one add mul tbl s ops ->
  wfs (fst (run s ops)) /\
  Permutation (open_wires (fst (run s ops))) (open_wires s) /\
  forall rho, net_value zero one add mul (fst (run s ops)) tbl rho = net_value zero one add mul s tbl rho.
Proof. exact run_net_value. Qed.
Print Assumptions C02_run_net_value.

(* the network is a closed diagram: its value is a function of the indices on the open wires only *)
Theorem C02_net_value_supp : forall (R : Type) (zero one : R) (add mul : R -> R -> R)
  (tbl : nat -> list nat -> R) (s : store) (r r' : wire -> nat),
  wfs s -> (forall x, In x (open_wires s) -> r x = r' x) ->
  net_value zero one add mul s tbl r = net_value zero one add mul s tbl r'.
Proof. exact net_value_supp. Qed.
Print Assumptions C02_net_value_supp.

(* entry level: net_entry s tbl rho0 idx is the entry of the tensor the whole network denotes at the
   multi-index idx of its open legs (canonical order: node dict order, each node's open legs in node order).
   A full multi-index determines it ... *)
Theorem C02_net_entry_rho0_irrelevant : forall (R : Type) (zero one : R) (add mul : R -> R -> R)
  (tbl : nat -> list nat -> R) (s : store) (rho0 rho0' : wire -> nat) (idx : list nat),
  wfs s -> length idx = length (open_wires s) ->
  net_entry zero one add mul s tbl rho0 idx = net_entry zero one add mul s tbl rho0' idx.
Proof. exact net_entry_rho0_irrelevant. Qed.
Print Assumptions C02_net_entry_rho0_irrelevant.

(* ... and after any such sequence the network denotes the same tensor: entries agree whenever the two
   multi-indices put the same index on every open wire (which wire sits on which open leg is given by the
   open-leg rules C02_contract_open_rule / C02_split_open_legs / C02_rename_lax / ..._totals) *)
Theorem C02_run_net_entry : forall (R : Type) (zero one : R) (add mul : R -> R -> R),
  comm_semiring zero one add mul -> forall (tbl : nat -> list nat -> R) (ops : list op) (s : store)
  (rho0 : wire -> nat) (idx idx' : list nat),
  wfs s -> ops_ok s ops -> forallb is_edit_op ops = true -> contracts_hold zero one add mul tbl s ops ->
  (forall x, In x (open_wires s) ->
     assign rho0 (open_wires (fst (run s ops))) idx' x = assign rho0 (open_wires s) idx x) ->
  net_entry zero one add mul (fst (run s ops)) tbl rho0 idx' = net_entry zero one add mul s tbl rho0 idx.
Proof. exact run_net_entry. Qed.
Print Assumptions C02_run_net_entry.

(* non-vacuity: the extended checker accepts every state of a run with all kinds of editing operations, and
   the hypotheses of C02_run_net_value (including the kernel contract) are satisfiable *)
Example C02_example_wfsb :
  run_wfsb empty_store [AddRoot 0 [2; 3; 2]; AddChild 1 [2; 2] 1 0 0; AddChild 2 [3; 2] 0 0 1;
                        Contract 1 0 1;
                        Split 1 {| ls_parent := None; ls_children := [2]; ls_open := [1]; ls_root := true |}
                                {| ls_parent := None; ls_children := []; ls_open := [2]; ls_root := false |} 1 7 0 Reduced 0;
                        InsertIdentity 7 1 9; Rename 5 7; Access 5; Contract 9 5 9; Contract 1 9 3]
  = [true; true; true; true; true; true; true; true; true; true].
Proof. vm_compute. reflexivity. Qed.
Print Assumptions C02_example_wfsb.

Example C02_example_contracts :
  wfsb exv_s0 = true /\ ops_okb exv_s0 exv_ops = true /\ forallb is_edit_op exv_ops = true /\
  snd (run exv_s0 exv_ops) = [true; true; true] /\
  contracts_hold 0 1 Nat.add Nat.mul exv_tbl exv_s0 exv_ops.
Proof. exact exv_hyps. Qed.
Print Assumptions C02_example_contracts.

(* ---- kernel contracts on the index ranges only (TTN/InvSemEyeRange.v, TTN/InvSemRunRange.v) ------------------- *)
(* eye_atom (identity at EVERY pair of indices) together with def_holds (Q.R = A at EVERY assignment) cannot
   both hold when a freshly inserted identity node is split afterwards (C02_eye_atom_split_unsatisfiable below),
   so C02_run_net_value says nothing about such sequences.  The contracts are therefore restated on the
   recorded index ranges: eye_atom_in_range (identity below the dimensions of the atom's two wires),
   def_holds_in_range (Q.R = A at every assignment that is in range on the axes of the input tensor), and the
   conclusions hold at every assignment that is in range on the open wires of the network, i.e. at every entry
   of the denoted tensor (the restriction is necessary: C02_example_in_range_needed). *)
From Coq Require Import ZArith.
From PTN Require Import Wire.SemInst TTN.InvSemEyeRange TTN.InvSemRunRange.

(* the in-range premises are implied by the unrestricted ones: the new run theorem covers every sequence the
   old one covers (at in-range assignments) *)
Theorem C02_contracts_hold_weaken : forall (R : Type) (zero one : R) (add mul : R -> R -> R)
  (tbl : nat -> list nat -> R) (ops : list op) (s : store),
  contracts_hold zero one add mul tbl s ops -> contracts_hold_in_range zero one add mul tbl s ops.
Proof. exact (@contracts_hold_weaken). Qed.
Print Assumptions C02_contracts_hold_weaken.

Theorem C02_split_net_value_in_range : forall (R : Type) (zero one : R) (add mul : R -> R -> R),
  comm_semiring zero one add mul -> forall (tbl : nat -> list nat -> R)
  (s : store) (n : id) (o i : legspec) (oid iid : id) (kind : nat) (m : mode) (rbond : nat) (s' : store),
  wfs s -> split_nodes s n o i oid iid kind m rbond = Some s' -> spec_ok s n o i -> ids_ok s n oid iid ->
  (forall rho, (forall x, In x (axes (kinput (last (defs s') dflt_def))) -> rho x < wdim s' x) ->
     sum_upto R zero add (wdim s' (kbond (last (defs s') dflt_def)))
       (fun k => mul (atom_val R (atom_wires s') tbl (upd rho (kbond (last (defs s') dflt_def)) k) (kq (last (defs s') dflt_def)))
                     (atom_val R (atom_wires s') tbl (upd rho (kbond (last (defs s') dflt_def)) k) (kr (last (defs s') dflt_def))))
     = value_s zero one add mul s' tbl (kinput (last (defs s') dflt_def)) rho) ->
  Permutation (open_wires s') (open_wires s) /\
  forall rho, (forall x, In x (open_wires s) -> rho x < wdim s x) ->
    net_value zero one add mul s' tbl rho = net_value zero one add mul s tbl rho.
Proof. exact split_net_value_in_range. Qed.
Print Assumptions C02_split_net_value_in_range.

(* both wires of the identity atom are summed within the dimension of the old edge: only in-range entries of
   its table are read, and the value is unchanged at EVERY assignment *)
Theorem C02_insert_identity_net_value_in_range : forall (R : Type) (zero one : R) (add mul : R -> R -> R),
  comm_semiring zero one add mul -> forall (tbl : nat -> list nat -> R)
  (s : store) (c p new : id) (s' : store),
  wfs s -> insert_identity s c p new = Some s' ->
  (forall i j, i < wdim s' (nth 0 (atom_wires s' (next_atom s)) 0) -> j < wdim s' (nth 1 (atom_wires s' (next_atom s)) 0) ->
     tbl (next_atom s) [i; j] = if Nat.eqb i j then one else zero) ->
  open_wires s' = open_wires s /\
  forall rho, net_value zero one add mul s' tbl rho = net_value zero one add mul s tbl rho.
Proof. exact insert_identity_net_value_in_range. Qed.
Print Assumptions C02_insert_identity_net_value_in_range.

(* every editing operation keeps the recorded dimension of every existing wire *)
Theorem C02_step_wdim_old : forall (s : store) (o : op) (s' : store) (x : wire),
  wf s -> is_edit_op o = true -> step s o = Some s' -> x < next_wire s -> wdim s' x = wdim s x.
Proof. exact step_wdim_old. Qed.
Print Assumptions C02_step_wdim_old.

(* every sequence of operations without add_child under the documented preconditions and the IN-RANGE kernel
   contracts: invariant kept, same set of open wires with the same dimensions, same value at every assignment
   that is in range on the open wires *)
Theorem C02_run_net_value_in_range : forall (R : Type) (zero one : R) (add mul : R -> R -> R),
  comm_semiring zero one add mul -> forall (tbl : nat -> list nat -> R) (ops : list op) (s : store),
  wfs s -> ops_ok s ops -> forallb is_edit_op ops = true -> contracts_hold_in_range zero one add mul tbl s ops ->
  wfs (fst (run s ops)) /\
  Permutation (open_wires (fst (run s ops))) (open_wires s) /\
  (forall x, In x (open_wires s) -> wdim (fst (run s ops)) x = wdim s x) /\
  forall rho, (forall x, In x (open_wires s) -> rho x < wdim s x) ->
    net_value zero one add mul (fst (run s ops)) tbl rho = net_value zero one add mul s tbl rho.
Proof. exact run_net_value_in_range. Qed.
Print Assumptions C02_run_net_value_in_range.

(* entry level: every entry of the denoted tensor at a multi-index within the shape of the open legs *)
Theorem C02_run_net_entry_in_range : forall (R : Type) (zero one : R) (add mul : R -> R -> R),
  comm_semiring zero one add mul -> forall (tbl : nat -> list nat -> R) (ops : list op) (s : store)
  (rho0 : wire -> nat) (idx idx' : list nat),
  wfs s -> ops_ok s ops -> forallb is_edit_op ops = true -> contracts_hold_in_range zero one add mul tbl s ops ->
  Forall2 (fun w k => k < wdim s w) (open_wires s) idx ->
  (forall x, In x (open_wires s) ->
     assign rho0 (open_wires (fst (run s ops))) idx' x = assign rho0 (open_wires s) idx x) ->
  net_entry zero one add mul (fst (run s ops)) tbl rho0 idx' = net_entry zero one add mul s tbl rho0 idx.
Proof. exact run_net_entry_in_range. Qed.
Print Assumptions C02_run_net_entry_in_range.

(* non-vacuity exactly where C02_run_net_value is vacuous: root (2,3) with child (2,2); an identity node is
   inserted on the edge and QR-split (Q = [[1,1],[0,1]], R = [[1,-1],[0,1]] over Z, junk beyond the index range;
   the identity atom's table is the unbounded identity): every premise of C02_run_net_value_in_range holds ... *)
Example C02_example_contracts_in_range :
  exr_ops = [InsertIdentity 1 0 9;
             Split 9 {| ls_parent := Some 0; ls_children := []; ls_open := []; ls_root := false |}
                     {| ls_parent := None; ls_children := [1]; ls_open := []; ls_root := false |} 7 8 0 Reduced 0] /\
  wfsb exr_s0 = true /\ ops_okb exr_s0 exr_ops = true /\ forallb is_edit_op exr_ops = true /\
  snd (run exr_s0 exr_ops) = [true; true] /\
  contracts_hold_in_range 0%Z 1%Z Z.add Z.mul exr_tbl exr_s0 exr_ops.
Proof. split; [reflexivity|exact exr_hyps]. Qed.
Print Assumptions C02_example_contracts_in_range.

(* ... so the theorem applies, and the six entries computed independently agree *)
Example C02_example_in_range_conclusion :
  (forall rho, (forall x, In x (open_wires exr_s0) -> rho x < wdim exr_s0 x) ->
     net_value 0%Z 1%Z Z.add Z.mul (fst (run exr_s0 exr_ops)) exr_tbl rho = net_value 0%Z 1%Z Z.add Z.mul exr_s0 exr_tbl rho) /\
  open_wires exr_s0 = [1; 3] /\ open_wires (fst (run exr_s0 exr_ops)) = [1; 3] /\
  map (fun idx => net_entry 0%Z 1%Z Z.add Z.mul (fst (run exr_s0 exr_ops)) exr_tbl (fun _ => 0) idx)
      [[0; 0]; [0; 1]; [1; 0]; [1; 1]; [2; 0]; [2; 1]]
  = map (fun idx => net_entry 0%Z 1%Z Z.add Z.mul exr_s0 exr_tbl (fun _ => 0) idx)
      [[0; 0]; [0; 1]; [1; 0]; [1; 1]; [2; 0]; [2; 1]].
Proof. split; [exact exr_conclusion|exact exr_entries]. Qed.
Print Assumptions C02_example_in_range_conclusion.

(* ... whereas NO table over Z satisfies the unrestricted premises of C02_run_net_value for this sequence
   (the 3x3 identity does not factor through the bond of dimension 2): that theorem is vacuous here *)
Theorem C02_eye_atom_split_unsatisfiable : forall tbl : nat -> list nat -> Z,
  ~ contracts_hold 0%Z 1%Z Z.add Z.mul tbl exr_s0 exr_ops.
Proof. exact eye_split_unsatisfiable_Z. Qed.
Print Assumptions C02_eye_atom_split_unsatisfiable.

(* the restriction to in-range assignments is necessary: a split whose factors satisfy the in-range contract
   and vanish beyond the range while the split tensor's table does not; the networks differ at an assignment
   that puts the out-of-range index 2 on an open wire *)
Example C02_example_in_range_needed :
  wfsb exv_s0 = true /\ ops_okb exv_s0 exo_ops = true /\ forallb is_edit_op exo_ops = true /\
  contracts_hold_in_range 0%Z 1%Z Z.add Z.mul exo_tbl exv_s0 exo_ops /\
  net_value 0%Z 1%Z Z.add Z.mul (fst (run exv_s0 exo_ops)) exo_tbl (fun x => if Nat.eqb x 0 then 2 else 0)
  <> net_value 0%Z 1%Z Z.add Z.mul exv_s0 exo_tbl (fun x => if Nat.eqb x 0 then 2 else 0).
Proof. exact exo_in_range_needed. Qed.
Print Assumptions C02_example_in_range_needed.
