(* Property C17 — placeholder while the development is being written *)
From Coq Require Import List Arith.
From PTN Require Import Tree.RTree Tree.Nav Tree.UpdatePath Tree.CachePath.
Import ListNotations.
Example C17_example : update_path (RNode 0 [RNode 1 [RNode 2 []]; RNode 3 []]) = Some [2; 1; 0; 3].
Proof. vm_compute. reflexivity. Qed.
Print Assumptions C17_example.
