(* Property C17 — tree navigation and the TDVP sweep order are correct on every rooted tree.
   Statements only; each is closed by `exact`.  Universal statements quantify over every
   rtree with unique identifiers (NoDup (ids t)); the one statement named *_bounded_N
   quantifies over the finite enumeration `trees_upto N` and is evaluated by the kernel. *)
From Coq Require Import List Arith Permutation.
From PTN Require Import Tree.RTree Tree.RTreeProofs Tree.Nav Tree.NavProofs
     Tree.UpdatePath Tree.UpdatePathProofs Tree.CachePath Tree.CachePathProofs Tree.Enum Tree.EnumProofs
     Tree.Crossings Tree.EdgeBlock Tree.Jumps.
Import ListNotations.

(* ---- linearise: permutation of the nodes, children before parents, root last -------- *)
Theorem C17_linearise_perm : forall t, Permutation (linearise t) (ids t).
Proof. exact linearise_perm. Qed.
Print Assumptions C17_linearise_perm.

Theorem C17_linearise_child_before_parent : forall t p c, In (p, c) (edges t) ->
  exists l1 l2 l3, linearise t = l1 ++ c :: l2 ++ p :: l3.
Proof. exact linearise_child_before_parent. Qed.
Print Assumptions C17_linearise_child_before_parent.

Theorem C17_linearise_root_last : forall t, exists l, linearise t = l ++ [rid t].
Proof. exact linearise_root_last. Qed.
Print Assumptions C17_linearise_root_last.

(* ---- find_path_to_root ----------------------------------------------------------- *)
Theorem C17_root_path_spec : forall t x p, path_to_root t x = Some p ->
  (exists r, p = x :: r) /\ (exists r, p = r ++ [rid t]) /\
  chain (fun a b => In (b, a) (edges t)) p /\ (NoDup (ids t) -> NoDup p).
Proof. exact root_path_spec. Qed.
Print Assumptions C17_root_path_spec.

Theorem C17_root_path_defined : forall t x, In x (ids t) <-> exists p, path_to_root t x = Some p.
Proof. exact root_path_defined. Qed.
Print Assumptions C17_root_path_defined.

(* ---- path_from_to (the literal model) -------------------------------------------- *)
Theorem C17_path_from_to_spec : forall t a b, NoDup (ids t) -> In a (ids t) -> In b (ids t) ->
  exists p, path_from_to t a b = Some p /\
            (exists r, p = a :: r) /\ (exists r, p = r ++ [b]) /\
            chain (adjacent t) p /\ NoDup p.
Proof. exact path_from_to_spec. Qed.
Print Assumptions C17_path_from_to_spec.

(* ... hence THE tree path: any repetition-free walk along edges from a to b is it *)
Theorem C17_path_unique : forall t a b p, NoDup (ids t) -> chain (adjacent t) p -> NoDup p ->
  (exists r, p = a :: r) -> (exists r, p = r ++ [b]) -> path_from_to t a b = Some p.
Proof. exact path_unique. Qed.
Print Assumptions C17_path_unique.

Theorem C17_path_self : forall t a, path_from_to t a a = Some [a].
Proof. exact path_self. Qed.
Print Assumptions C17_path_self.

Theorem C17_path_defined : forall t a b, a <> b ->
  ((In a (ids t) /\ In b (ids t)) <-> exists p, path_from_to t a b = Some p).
Proof. exact path_from_to_defined. Qed.
Print Assumptions C17_path_defined.

(* ---- distances from the root: keys in pre-order, value = len(path) - 1 ------------- *)
Theorem C17_root_distance_spec : forall t, NoDup (ids t) ->
  distance_to_node t (rid t) = Some (depths 0 t) /\
  map fst (depths 0 t) = ids t /\
  forall x, In x (ids t) ->
    exists p, path_from_to t (rid t) x = Some p /\ assoc x (depths 0 t) = Some (length p - 1).
Proof. exact root_distance_spec. Qed.
Print Assumptions C17_root_distance_spec.

(* distances from every centre (dict order = pre-order of the tree re-rooted at c) *)
Theorem C17_distance_spec : forall t c, NoDup (ids t) -> In c (ids t) ->
  exists d, distance_to_node t c = Some d /\ Permutation (map fst d) (ids t) /\
    forall x, In x (ids t) ->
      exists p, path_from_to t c x = Some p /\ assoc x d = Some (length p - 1).
Proof. exact distance_spec. Qed.
Print Assumptions C17_distance_spec.

(* ---- subtree, leaves, subtree size ----------------------------------------------- *)
Theorem C17_subtree_spec : forall t x, NoDup (ids t) -> In x (ids t) ->
  exists l, subtree_nodes t x = Some l /\ NoDup l /\ (exists r, l = x :: r) /\
    forall y, In y l <-> exists p, path_to_root t y = Some p /\ In x p.
Proof. exact subtree_nodes_spec. Qed.
Print Assumptions C17_subtree_spec.

Theorem C17_leaves_spec : forall t x, NoDup (ids t) -> In x (ids t) ->
  exists l ns, leaves_under t x = Some l /\ subtree_nodes t x = Some ns /\
    forall y, In y l <-> In y ns /\ is_leaf t y = true.
Proof. exact leaves_under_spec. Qed.
Print Assumptions C17_leaves_spec.

Theorem C17_subtree_size_spec : forall t x,
  subtree_size t x = option_map (@length nat) (subtree_nodes t x).
Proof. exact subtree_size_spec. Qed.
Print Assumptions C17_subtree_size_spec.

Theorem C17_get_leaves_spec : forall order t y, NoDup (ids t) -> (forall z, In z order <-> In z (ids t)) ->
  (In y (get_leaves order t) <-> In y (leaves t)).
Proof. exact get_leaves_spec. Qed.
Print Assumptions C17_get_leaves_spec.

Theorem C17_nearest_neighbours_spec : forall order t p c, NoDup (ids t) ->
  (In (p, c) (nearest_neighbours order t) <-> In p order /\ In (p, c) (edges t)).
Proof. exact nearest_neighbours_spec. Qed.
Print Assumptions C17_nearest_neighbours_spec.

(* ---- the TDVP update path -------------------------------------------------------- *)
Theorem C17_update_path_perm : forall t, NoDup (ids t) ->
  exists p, update_path t = Some p /\ Permutation p (ids t).
Proof. exact update_path_perm. Qed.
Print Assumptions C17_update_path_perm.

(* the head is the start node: a leaf (no children), of maximal depth, the first such in
   pre-order (all entries before it in the distance dict are strictly shallower) *)
Theorem C17_update_path_start : forall t, NoDup (ids t) ->
  exists st l, update_path t = Some (st :: l) /\
    start_node t = Some st /\ In st (ids t) /\ children_ids t st = [] /\
    (forall x vx vs, assoc x (depths 0 t) = Some vx -> assoc st (depths 0 t) = Some vs -> vx <= vs) /\
    (exists l1 v l2, depths 0 t = l1 ++ (st, v) :: l2 /\ forall k' v', In (k', v') l1 -> v' < v).
Proof.
  intros t Hw. destruct (update_path_start t Hw) as [st [l [F U]]]. exists st, l.
  exact (conj U (conj (sf_start _ _ F) (conj (sf_in _ _ F) (conj (sf_leaf _ _ F) (conj (sf_max _ _ F) (sf_first _ _ F)))))).
Qed.
Print Assumptions C17_update_path_start.

Theorem C17_update_path_end : forall t, NoDup (ids t) ->
  exists l x, update_path t = Some (l ++ [x]) /\ degree t x <= 1.
Proof. exact update_path_end. Qed.
Print Assumptions C17_update_path_end.

(* walking the update path along tree paths crosses no edge more than twice: BOUNDED
   (all rooted ordered trees with at most 11 nodes); the universal statement is open *)
Theorem C17_update_path_crossings_bounded_11 : forall t, In t (trees_upto 11) ->
  exists p w, update_path t = Some p /\ walk_edges t p = Some w /\
              forall e, In e (edges t) -> crossings e w <= 2.
Proof. exact crossings_bounded_11. Qed.
Print Assumptions C17_update_path_crossings_bounded_11.

(* ... and the UNIVERSAL statement (every tree with unique identifiers): walking the update
   path along tree paths crosses no edge more than twice (Tree/Crossings.v) *)
Theorem C17_update_path_crossings : forall t, NoDup (ids t) ->
  exists p w, update_path t = Some p /\ walk_edges t p = Some w /\
              forall e, In e (edges t) -> crossings e w <= 2.
Proof. exact update_path_crossings. Qed.
Print Assumptions C17_update_path_crossings.

(* the reason: the nodes below any edge (p, c) form ONE contiguous block of the update path *)
Theorem C17_update_path_subtree_block : forall t p c, NoDup (ids t) -> In (p, c) (edges t) ->
  exists path s, update_path t = Some path /\ subtree c t = Some s /\
    exists l1 l2 l3, path = l1 ++ l2 ++ l3 /\
      (forall x, In x l2 -> In x (ids s)) /\ (forall x, In x l1 \/ In x l3 -> ~ In x (ids s)).
Proof. exact update_path_subtree_block. Qed.
Print Assumptions C17_update_path_subtree_block.

(* every non-adjacent jump of the update path lands on a leaf (a node without children) *)
Theorem C17_update_path_jumps : forall t, NoDup (ids t) ->
  exists up, update_path t = Some up /\ chain (fun a b => adjacent t a b \/ children_ids t b = []) up.
Proof. exact update_path_jumps. Qed.
Print Assumptions C17_update_path_jumps.

(* ---- the initial cache ----------------------------------------------------------- *)
(* init_cache_but_one(left_out = u): exactly one block per edge (as unordered pairs the key
   list is a permutation of the edge list); every block (n, m) points toward u (m is the
   second node of the path n -> u); the blocks (j, n) of the other neighbours j of n, from
   which the block (n, m) is contracted, are created before it *)
Theorem C17_cache_keys_spec : forall t first, NoDup (ids t) -> In first (ids t) ->
  exists keys, cache_keys t first = Some keys /\
    Permutation (map sort_pair keys) (map sort_pair (edges t)) /\
    (forall n m, In (n, m) keys -> exists r, path_from_to t n first = Some (n :: m :: r)) /\
    (forall pre n m post, keys = pre ++ (n, m) :: post ->
       forall j, In j (neighbours t n) -> j <> m -> In (j, n) pre).
Proof. exact cache_keys_spec. Qed.
Print Assumptions C17_cache_keys_spec.

(* the cache a TDVP run starts from: everything but update_path[0] *)
Theorem C17_tdvp_cache_keys_spec : forall t, NoDup (ids t) ->
  exists u l keys, update_path t = Some (u :: l) /\ tdvp_cache_keys t = Some keys /\
    Permutation (map sort_pair keys) (map sort_pair (edges t)) /\
    (forall n m, In (n, m) keys -> exists r, path_from_to t n u = Some (n :: m :: r)) /\
    (forall pre n m post, keys = pre ++ (n, m) :: post ->
       forall j, In j (neighbours t n) -> j <> m -> In (j, n) pre).
Proof. exact tdvp_cache_keys_spec. Qed.
Print Assumptions C17_tdvp_cache_keys_spec.

(* the bounded statement ranges over every tree shape up to the bound *)
Theorem C17_enumeration_complete : forall t n, size t <= n -> In (relabel (erase t)) (trees_upto n).
Proof. exact trees_upto_complete. Qed.
Print Assumptions C17_enumeration_complete.

(* ---- non-vacuity ----------------------------------------------------------------- *)
Definition C17_ex : rtree :=
  RNode 0 [RNode 1 [RNode 2 []; RNode 3 [RNode 4 []]]; RNode 5 []; RNode 6 [RNode 7 []; RNode 8 []]].

Example C17_example_wf : NoDup (ids C17_ex).
Proof. repeat constructor; simpl; intuition discriminate. Qed.
Print Assumptions C17_example_wf.

Example C17_example : (path_from_to C17_ex 4 7, update_path C17_ex, tdvp_cache_keys C17_ex) =
  (Some [4; 3; 1; 0; 6; 7], Some [4; 3; 2; 1; 5; 0; 8; 6; 7],
   Some [(5, 0); (7, 6); (8, 6); (6, 0); (0, 1); (2, 1); (1, 3); (3, 4)]).
Proof. vm_compute. reflexivity. Qed.
Print Assumptions C17_example.
