(* Property C18 — the evolution driver.  Statements only; each is closed by `exact`. *)
From Coq Require Import ZArith QArith Qround List Arith.
From PTN Require Import Driver.Run Driver.RunProofs.
Import ListNotations.
Local Close Scope Q_scope.

(* n = floor(q) when the fractional part is below the double 0.1, floor(q)+1 otherwise *)
Theorem C18_num_steps_rule : forall q : Q,
  (q - inject_Z (Qfloor q) < thr /\ num_steps q = Qfloor q)%Q \/
  (thr <= q - inject_Z (Qfloor q) /\ num_steps q = (Qfloor q + 1)%Z)%Q.
Proof. exact num_steps_cases. Qed.
Print Assumptions C18_num_steps_rule.

Theorem C18_num_steps_nonneg : forall q : Q, (0 <= q)%Q -> (0 <= num_steps q)%Z.
Proof. exact num_steps_nonneg. Qed.
Print Assumptions C18_num_steps_nonneg.

Theorem C18_num_steps_unique : forall (q : Q) (n : Z),
  (inject_Z n - 1 + thr <= q)%Q -> (q < inject_Z n + thr)%Q -> n = num_steps q.
Proof. exact num_steps_unique. Qed.
Print Assumptions C18_num_steps_unique.

(* finite evaluation interval k >= 1: every one of the n/k+1 columns holds the measurement of
   the state after exactly j*k steps with time index j*k; no out-of-range write; n steps *)
Theorem C18_run_every : forall (S V : Type) (step : S -> S) (measure : S -> V) (n k : nat) (s0 : S),
  1 <= k ->
  run S V step measure n (Every k) s0 =
  {| sys := iter S step n s0;
     cols := map (fun j => Some (measure (iter S step (j * k) s0), j * k)) (seq 0 (n / k + 1));
     err := false |}.
Proof. exact run_every. Qed.
Print Assumptions C18_run_every.

(* 'inf': one column, written once, after the last step *)
Theorem C18_run_inf : forall (S V : Type) (step : S -> S) (measure : S -> V) (n : nat) (s0 : S),
  run S V step measure n Inf s0 =
  {| sys := iter S step n s0; cols := [Some (measure (iter S step n s0), n)]; err := false |}.
Proof. exact run_inf. Qed.
Print Assumptions C18_run_inf.

(* a key addresses the row at its (first) insertion position *)
Theorem C18_result_keys : forall (A : Type) (eqb : A -> A -> bool),
  (forall a b, eqb a b = true <-> a = b) ->
  forall (k d : A) (l : list A) (i : nat),
  index_of eqb k l = Some i -> nth i l d = k /\ i < length l /\ (forall j, j < i -> nth j l d <> k).
Proof. exact @index_of_nth. Qed.
Print Assumptions C18_result_keys.

(* non-vacuity: a concrete run *)
Example C18_example : run_counting 7 (Every 3) = (7%Z, [(0,0); (3,3); (6,6)]%Z, false).
Proof. vm_compute. reflexivity. Qed.
Print Assumptions C18_example.
