(* Property C18 — the evolution driver.  Statements only; each is closed by `exact`. *)
From Coq Require Import ZArith QArith Qround List Arith.
From PTN Require Import Driver.Run Driver.RunProofs.
Import ListNotations.
Local Close Scope Q_scope.

(* n = floor(q) when the fractional part is below the double 0.1, floor(q)+1 otherwise *)
Theorem C18_num_steps_rule : forall q : Q,
  (q - inject_Z (Qfloor q) < thr /\ num_steps q = Qfloor q)%Q \/
  (thr <= q - inject_Z (Qfloor q) /\ num_steps q = (Qfloor q + 1)%Z)%Q.
Proof. exact num_steps_cases. Qed.
Print Assumptions C18_num_steps_rule.

Theorem C18_num_steps_nonneg : forall q : Q, (0 <= q)%Q -> (0 <= num_steps q)%Z.
Proof. exact num_steps_nonneg. Qed.
Print Assumptions C18_num_steps_nonneg.

Theorem C18_num_steps_unique : forall (q : Q) (n : Z),
  (inject_Z n - 1 + thr <= q)%Q -> (q < inject_Z n + thr)%Q -> n = num_steps q.
Proof. exact num_steps_unique. Qed.
Print Assumptions C18_num_steps_unique.

(* finite evaluation interval k >= 1: every one of the n/k+1 columns holds the measurement of
   the state after exactly j*k steps with time index j*k; no out-of-range write; n steps *)
Theorem C18_run_every : forall (S V : Type) (step : S -> S) (measure : S -> V) (n k : nat) (s0 : S),
  1 <= k ->
  run S V step measure n (Every k) s0 =
  {| sys := iter S step n s0;
     cols := map (fun j => Some (measure (iter S step (j * k) s0), j * k)) (seq 0 (n / k + 1));
     err := false |}.
Proof. exact run_every. Qed.
Print Assumptions C18_run_every.

(* 'inf': one column, written once, after the last step *)
Theorem C18_run_inf : forall (S V : Type) (step : S -> S) (measure : S -> V) (n : nat) (s0 : S),
  run S V step measure n Inf s0 =
  {| sys := iter S step n s0; cols := [Some (measure (iter S step n s0), n)]; err := false |}.
Proof. exact run_inf. Qed.
Print Assumptions C18_run_inf.

(* a key addresses the row at its (first) insertion position *)
Theorem C18_result_keys : forall (A : Type) (eqb : A -> A -> bool),
  (forall a b, eqb a b = true <-> a = b) ->
  forall (k d : A) (l : list A) (i : nat),
  index_of eqb k l = Some i -> nth i l d = k /\ i < length l /\ (forall j, j < i -> nth j l d <> k).
Proof. exact @index_of_nth. Qed.
Print Assumptions C18_result_keys.

(* non-vacuity: a concrete run *)
Example C18_example : run_counting 7 (Every 3) = (7%Z, [(0,0); (3,3); (6,6)]%Z, false).
Proof. vm_compute. reflexivity. Qed.
Print Assumptions C18_example.

(* ---- exact evolution ------------------------------------------------------------------------ *)
(* Kernel contract expm_spec (laws of the matrix exponential and of operator application, not
   statements about the code): E m stands for exp(-i H (m dt)); E 0 = 1, E (m+n) = E m * E n,
   1 s = s, (a b) s = a (b s).  With the time step performed by the exact propagator E 1, column j
   of the result array holds the measurement of exp(-i H (j k dt)) psi_0 (time index j*k), and the
   final state is exp(-i H (n dt)) psi_0. *)
From PTN Require Import Driver.RunExact.

Theorem C18_exact_state_every : forall (St V Op : Type) (mul : Op -> Op -> Op) (one : Op)
    (act : Op -> St -> St) (E : nat -> Op) (measure : St -> V),
  E 0 = one -> (forall m n, E (m + n) = mul (E m) (E n)) ->
  (forall s, act one s = s) -> (forall a b s, act (mul a b) s = act a (act b s)) ->
  forall (n k : nat) (s0 : St), 1 <= k ->
  run St V (act (E 1)) measure n (Every k) s0 =
  {| sys := act (E n) s0;
     cols := map (fun j => Some (measure (act (E (j * k)) s0), j * k)) (seq 0 (n / k + 1));
     err := false |}.
Proof. exact exact_state_every. Qed.
Print Assumptions C18_exact_state_every.

Theorem C18_exact_state_every_col : forall (St V Op : Type) (mul : Op -> Op -> Op) (one : Op)
    (act : Op -> St -> St) (E : nat -> Op) (measure : St -> V),
  E 0 = one -> (forall m n, E (m + n) = mul (E m) (E n)) ->
  (forall s, act one s = s) -> (forall a b s, act (mul a b) s = act a (act b s)) ->
  forall (n k : nat) (s0 : St) (j : nat), 1 <= k -> j <= n / k ->
  nth_error (cols (run St V (act (E 1)) measure n (Every k) s0)) j
  = Some (Some (measure (act (E (j * k)) s0), j * k)).
Proof. exact exact_state_every_col. Qed.
Print Assumptions C18_exact_state_every_col.

Theorem C18_exact_state_inf : forall (St V Op : Type) (mul : Op -> Op -> Op) (one : Op)
    (act : Op -> St -> St) (E : nat -> Op) (measure : St -> V),
  E 0 = one -> (forall m n, E (m + n) = mul (E m) (E n)) ->
  (forall s, act one s = s) -> (forall a b s, act (mul a b) s = act a (act b s)) ->
  forall (n : nat) (s0 : St),
  run St V (act (E 1)) measure n Inf s0 =
  {| sys := act (E n) s0; cols := [Some (measure (act (E n) s0), n)]; err := false |}.
Proof. exact exact_state_inf. Qed.
Print Assumptions C18_exact_state_inf.

(* the contract is satisfiable: Op = (Z, +, 0) acting on Z by translation, E m = 3 m *)
Example C18_exact_contract_satisfiable :
  let E := fun m : nat => (3 * Z.of_nat m)%Z in
  E 0 = 0%Z /\ (forall m n, E (m + n) = (E m + E n)%Z) /\
  (forall s : Z, (0 + s)%Z = s) /\ (forall a b s : Z, (a + b + s)%Z = (a + (b + s))%Z) /\
  cols (run Z Z (Z.add (E 1)) (fun s => s) 7 (Every 3) 10%Z) = [Some (10%Z, 0); Some (19%Z, 3); Some (28%Z, 6)].
Proof.
  cbv zeta. repeat split; intros; try (rewrite ?Nat2Z.inj_add; ring).
Qed.
Print Assumptions C18_exact_contract_satisfiable.

(* [ext-C18X] the driver as a state machine over an abstract state type (Driver/RunState.v): the results array
   in the layout of the code (one row per operator, the time row last), objects and references (the caller's
   object IS `_initial_state`; `state` is a deep copy), run / reset / run again, accessors, bond-dimension record.
   All statements hold for every state type, step function, operator type and evaluation function.
   (Several statements share one theorem: every Print Assumptions re-traverses the whole cone.) *)
From PTN Require Import Driver.RunState Driver.RunStateProofs.

(* (1) one run from any driver state, interval k >= 1 or 'inf': the array is table_of (closed form, see
   C18_run_record_layout), the driver's own state object holds the state after n steps, no other object is written,
   the bond-dimension record is extended by one snapshot per evaluated time step;
   (2) the only exception a command can raise: interval 0 (ZeroDivisionError of init_results, before any assignment) *)
Theorem C18_run_record : forall (St Op V K : Type) (step : St -> St) (eval : Op -> St -> V) (bdims : St -> list nat),
  (forall (d : driver St Op V K) (e : evalt), valid e ->
  exists d', exec St Op V K step eval bdims (Run e) d = Some d' /\
    results d' = Some (table_of St Op V step eval (d_ops d) (nsteps d) e (heap d (state_ref d))) /\
    heap d' (state_ref d') = iter St step (nsteps d) (heap d (state_ref d)) /\
    (forall a, a <> state_ref d -> heap d' a = heap d a) /\
    state_ref d' = state_ref d /\ init_ref d' = init_ref d /\ next d' = next d /\
    nsteps d' = nsteps d /\ d_ops d' = d_ops d /\ d_keys d' = d_keys d /\
    bond d' = bond_after St bdims (map (fun i => iter St step i (heap d (state_ref d))) (eval_steps (nsteps d) e)) (bond d)) /\
  (forall (c : cmd) (d : driver St Op V K),
  exec St Op V K step eval bdims c d = None <-> c = Run (Every 0)).
Proof. exact (fun St Op V K step eval bdims => conj (run_record St Op V K step eval bdims) (exec_none_iff St Op V K step eval bdims)). Qed.
Print Assumptions C18_run_record.

(* layout of that array: (1) len(ops)+1 rows of n/k+1 (resp. 1) entries, row r belongs to the r-th operator, the
   last row is the time row; (2) column j of operator o holds eval o (step^(j*k) s), column j of the time row the time
   index j*k, for exactly the allocated columns j <= n/k; (3) what the code does when k does not divide n: the last
   column is the state after n - n mod k steps; it is the final state exactly when k divides n (the remaining
   n mod k steps are performed but not recorded) *)
Theorem C18_run_record_layout : forall (St Op V : Type) (step : St -> St) (eval : Op -> St -> V),
  (forall (ops : list Op) (n : nat) (e : evalt) (s : St),
  length (table_of St Op V step eval ops n e s) = length ops + 1 /\
  (forall row, In row (table_of St Op V step eval ops n e s) -> length row = width n e) /\
  (forall r o0, r < length ops ->
     nth_error (table_of St Op V step eval ops n e s) r = Some (op_row St Op V step eval n e s (nth r ops o0))) /\
  nth_error (table_of St Op V step eval ops n e s) (length ops) = Some (time_row V n e)) /\
  (forall (n k : nat) (s : St) (o : Op) (j : nat), j <= n / k ->
  nth_error (op_row St Op V step eval n (Every k) s o) j = Some (CVal (eval o (iter St step (j * k) s))) /\
  nth_error (time_row V n (Every k)) j = Some (CTime (j * k))) /\
  (forall n k : nat, 1 <= k -> n / k * k = n - n mod k /\ (n / k * k = n <-> n mod k = 0)).
Proof. exact (fun St Op V step eval => conj (table_of_shape St Op V step eval) (conj (op_row_every_col St Op V step eval) last_column_step)). Qed.
Print Assumptions C18_run_record_layout.

(* ownership.  THIS IS A PROPERTY OF THE MODEL'S OBJECT STRUCTURE: in the model `__init__` stores the caller's
   reference as init_ref and a copy at a fresh address as state_ref, a run writes only at state_ref and a reset only
   at a fresh address.  That the code has this structure (deepcopy in __init__ and in reset_to_initial_state, steps
   working on self.state only) is checked by the tie (object identities and contents after every command), not proved.
   Under it: (1) no history of run / reset commands (raising ones included) changes an object that existed when the
   driver was constructed, in particular not the caller's; (2) `_initial_state` is the caller's object, not a copy:
   when the caller changes it later (f), a reset restores the CHANGED content *)
Theorem C18_caller_state_untouched : forall (St Op V K : Type) (step : St -> St) (eval : Op -> St -> V)
    (bdims : St -> list nat) (h : nat -> St) (nx caller n : nat) (c : container Op K) (record : bool),
  caller < nx ->
  (forall cs : list cmd,
  let d := exec_all St Op V K step eval bdims cs (new_driver St Op V K h nx caller n c record) in
  (forall a, a < nx -> heap d a = h a) /\ heap d caller = h caller /\
  init_ref d = caller /\ state_ref d <> caller /\ nx <= state_ref d) /\
  (forall (cs : list cmd) (f : St -> St) (e : evalt), valid e ->
  let d := exec_total St Op V K step eval bdims (exec_total St Op V K step eval bdims
             (caller_write St Op V K f (exec_all St Op V K step eval bdims cs (new_driver St Op V K h nx caller n c record))) Reset) (Run e) in
  results d = Some (table_of St Op V step eval (c_ops Op K c) n e (f (h caller)))).
Proof. exact (fun St Op V K step eval bdims h nx caller n c record H => conj (caller_state_untouched St Op V K step eval bdims h nx caller n c record H) (reset_uses_callers_object St Op V K step eval bdims h nx caller n c record H)). Qed.
Print Assumptions C18_caller_state_untouched.

(* after ANY history of commands: reset, run reproduces the record of the first run of a fresh driver
   (in particular run; reset; run) — for every (deterministic) step and evaluation function *)
Theorem C18_reset_rerun_same_record : forall (St Op V K : Type) (step : St -> St) (eval : Op -> St -> V)
    (bdims : St -> list nat) (h : nat -> St) (nx caller n : nat) (c : container Op K) (record : bool),
  caller < nx -> forall (cs : list cmd) (e : evalt), valid e ->
  results (exec_all St Op V K step eval bdims (cs ++ [Reset; Run e]) (new_driver St Op V K h nx caller n c record))
  = Some (table_of St Op V step eval (c_ops Op K c) n e (h caller)) /\
  results (exec_all St Op V K step eval bdims [Run e] (new_driver St Op V K h nx caller n c record))
  = Some (table_of St Op V step eval (c_ops Op K c) n e (h caller)).
Proof. exact reset_rerun_same_record. Qed.
Print Assumptions C18_reset_rerun_same_record.

(* run twice without reset (what the code does): (1) the second run starts from the evolved state, the array is
   allocated anew (the first record is dropped), its time labels start again at 0, 2n steps in total;
   (2) the bond-dimension record of TTNTimeEvolution is never cleared: after run; reset; run (and after run; run) it
   holds the snapshots of BOTH runs, so it is longer than the results array *)
Theorem C18_run_twice_without_reset : forall (St Op V K : Type) (step : St -> St) (eval : Op -> St -> V)
    (bdims : St -> list nat) (h : nat -> St) (nx caller n : nat) (c : container Op K) (record : bool),
  caller < nx ->
  forall e1 e2 : evalt, valid e1 -> valid e2 ->
  (  let d := exec_all St Op V K step eval bdims [Run e1; Run e2] (new_driver St Op V K h nx caller n c record) in
  results d = Some (table_of St Op V step eval (c_ops Op K c) n e2 (iter St step n (h caller))) /\
  heap d (state_ref d) = iter St step n (iter St step n (h caller)) /\ heap d (init_ref d) = h caller) /\
  (  let snaps := fun e s => map (fun i => iter St step i s) (eval_steps n e) in
  bond (exec_all St Op V K step eval bdims [Run e1; Reset; Run e2] (new_driver St Op V K h nx caller n c record))
  = bond_after St bdims (snaps e1 (h caller) ++ snaps e2 (h caller)) (if record then Some [] else None) /\
  bond (exec_all St Op V K step eval bdims [Run e1; Run e2] (new_driver St Op V K h nx caller n c record))
  = bond_after St bdims (snaps e1 (h caller) ++ snaps e2 (iter St step n (h caller))) (if record then Some [] else None)).
Proof. exact (fun St Op V K step eval bdims h nx caller n c record H e1 e2 H1 H2 => conj (run_twice_without_reset St Op V K step eval bdims h nx caller n c record H e1 e2 H1 H2) (bond_record_accumulates St Op V K step eval bdims h nx caller n c record H e1 e2 H1 H2)). Qed.
Print Assumptions C18_run_twice_without_reset.

(* accessors on the record of a run: rows by position and by key, the time row under positions len(ops) and -1,
   IndexError outside [-(len(ops)+1), len(ops)], times(), operator_results() *)
Theorem C18_accessors : forall (St Op V K : Type) (step : St -> St) (eval : Op -> St -> V) (re : V -> V)
    (keqb : K -> K -> bool) (d : driver St Op V K) (ops : list Op) (n : nat) (e : evalt) (s : St),
  results d = Some (table_of St Op V step eval ops n e s) ->
  (forall r o0 rl, r < length ops ->
     operator_result St Op V K re keqb d (ByPos (Z.of_nat r)) rl
     = Some (rl, if rl then map (real_cell V re) (op_row St Op V step eval n e s (nth r ops o0))
                 else op_row St Op V step eval n e s (nth r ops o0))) /\
  (forall k r rl, index_of keqb k (d_keys d) = Some r ->
     operator_result St Op V K re keqb d (ByKey k) rl = operator_result St Op V K re keqb d (ByPos (Z.of_nat r)) rl) /\
  operator_result St Op V K re keqb d (ByPos (Z.of_nat (length ops))) false = Some (false, time_row V n e) /\
  operator_result St Op V K re keqb d (ByPos (-1)) false = Some (false, time_row V n e) /\
  (forall i, (i < - Z.of_nat (length ops + 1) \/ Z.of_nat (length ops + 1) <= i)%Z ->
     operator_result St Op V K re keqb d (ByPos i) false = None) /\
  times St Op V K re d = Some (time_row V n e) /\
  operator_results St Op V K re d false = Some (false, map (op_row St Op V step eval n e s) ops).
Proof. exact accessors_after_run. Qed.
Print Assumptions C18_accessors.

(* non-vacuity: T/dt = 7, k = 3, dict {3: 2s+1, 0: 3s-1+i}; run; run; the caller adds 5 to its object; reset;
   run('inf'); run(0) raises.  Records, states (7, 14, 14, 5, 12, 12), caller content, growing bond record. *)
Example C18_state_machine_example :
  map (fun x => match x with (r, t, s, s0, b, i0, i1) => (r, t, s, s0, i0, i1) end)
      (cnt_trace [inl (Run (Every 3)); inl (Run (Every 3)); inr 5%Z; inl Reset; inl (Run Inf); inl (Run (Every 0))]
                 (cnt_driver 7 (ODict [(3, (2, 1, 0)%Z); (0, (3, -1, 1)%Z)]) true))
  = [(false, Some [[(1, 1, 0); (1, 7, 0); (1, 13, 0)]; [(1, -1, 1); (1, 8, 1); (1, 17, 1)]; [(2, 0, 0); (2, 3, 0); (2, 6, 0)]], 7, 0, true, false);
     (false, Some [[(1, 15, 0); (1, 21, 0); (1, 27, 0)]; [(1, 20, 1); (1, 29, 1); (1, 38, 1)]; [(2, 0, 0); (2, 3, 0); (2, 6, 0)]], 14, 0, true, false);
     (false, Some [[(1, 15, 0); (1, 21, 0); (1, 27, 0)]; [(1, 20, 1); (1, 29, 1); (1, 38, 1)]; [(2, 0, 0); (2, 3, 0); (2, 6, 0)]], 14, 5, true, false);
     (false, Some [[(1, 15, 0); (1, 21, 0); (1, 27, 0)]; [(1, 20, 1); (1, 29, 1); (1, 38, 1)]; [(2, 0, 0); (2, 3, 0); (2, 6, 0)]], 5, 5, true, false);
     (false, Some [[(1, 25, 0)]; [(1, 35, 1)]; [(2, 7, 0)]], 12, 5, true, false);
     (true, Some [[(1, 25, 0)]; [(1, 35, 1)]; [(2, 7, 0)]], 12, 5, true, false)]%Z

  /\ (* the hypotheses of the history theorems (caller < nx, valid e) are met; the bond record accumulates *)
  0 < 1 /\ valid (Every 3) /\ valid Inf /\
  bond (exec_all Z (Z * Z * Z) (Z * Z) nat Z.succ cnt_eval cnt_bdims [Run (Every 3); Reset; Run (Every 3)]
          (cnt_driver 7 (OList [(2, 1, 0)%Z]) true))
  = Some [[1; 4; 7; 1; 4; 7]; [1; 7; 13; 1; 7; 13]] /\
  results (exec_all Z (Z * Z * Z) (Z * Z) nat Z.succ cnt_eval cnt_bdims [Run (Every 3); Reset; Run (Every 3)]
          (cnt_driver 7 (OList [(2, 1, 0)%Z]) true))
  = results (exec_all Z (Z * Z * Z) (Z * Z) nat Z.succ cnt_eval cnt_bdims [Run (Every 3)] (cnt_driver 7 (OList [(2, 1, 0)%Z]) true)).
Proof.
  split; [vm_compute; reflexivity|]. split; [repeat constructor|]. split; [unfold valid; repeat constructor|]. split; [exact I|].
  split; vm_compute; reflexivity.
Qed.
Print Assumptions C18_state_machine_example.
(* [/ext-C18X] *)
