(* Property C18 — the evolution driver.  Statements only; each is closed by `exact`. *)
From Coq Require Import ZArith QArith Qround List Arith.
From PTN Require Import Driver.Run Driver.RunProofs.
Import ListNotations.
Local Close Scope Q_scope.

(* n = floor(q) when the fractional part is below the double 0.1, floor(q)+1 otherwise *)
Theorem C18_num_steps_rule : forall q : Q,
  (q - inject_Z (Qfloor q) < thr /\ num_steps q = Qfloor q)%Q \/
  (thr <= q - inject_Z (Qfloor q) /\ num_steps q = (Qfloor q + 1)%Z)%Q.
Proof. exact num_steps_cases. Qed.
Print Assumptions C18_num_steps_rule.

Theorem C18_num_steps_nonneg : forall q : Q, (0 <= q)%Q -> (0 <= num_steps q)%Z.
Proof. exact num_steps_nonneg. Qed.
Print Assumptions C18_num_steps_nonneg.

Theorem C18_num_steps_unique : forall (q : Q) (n : Z),
  (inject_Z n - 1 + thr <= q)%Q -> (q < inject_Z n + thr)%Q -> n = num_steps q.
Proof. exact num_steps_unique. Qed.
Print Assumptions C18_num_steps_unique.

(* finite evaluation interval k >= 1: every one of the n/k+1 columns holds the measurement of
   the state after exactly j*k steps with time index j*k; no out-of-range write; n steps *)
Theorem C18_run_every : forall (S V : Type) (step : S -> S) (measure : S -> V) (n k : nat) (s0 : S),
  1 <= k ->
  run S V step measure n (Every k) s0 =
  {| sys := iter S step n s0;
     cols := map (fun j => Some (measure (iter S step (j * k) s0), j * k)) (seq 0 (n / k + 1));
     err := false |}.
Proof. exact run_every. Qed.
Print Assumptions C18_run_every.

(* 'inf': one column, written once, after the last step *)
Theorem C18_run_inf : forall (S V : Type) (step : S -> S) (measure : S -> V) (n : nat) (s0 : S),
  run S V step measure n Inf s0 =
  {| sys := iter S step n s0; cols := [Some (measure (iter S step n s0), n)]; err := false |}.
Proof. exact run_inf. Qed.
Print Assumptions C18_run_inf.

(* a key addresses the row at its (first) insertion position *)
Theorem C18_result_keys : forall (A : Type) (eqb : A -> A -> bool),
  (forall a b, eqb a b = true <-> a = b) ->
  forall (k d : A) (l : list A) (i : nat),
  index_of eqb k l = Some i -> nth i l d = k /\ i < length l /\ (forall j, j < i -> nth j l d <> k).
Proof. exact @index_of_nth. Qed.
Print Assumptions C18_result_keys.

(* non-vacuity: a concrete run *)
Example C18_example : run_counting 7 (Every 3) = (7%Z, [(0,0); (3,3); (6,6)]%Z, false).
Proof. vm_compute. reflexivity. Qed.
Print Assumptions C18_example.

(* ---- exact evolution ------------------------------------------------------------------------ *)
(* Kernel contract expm_spec (laws of the matrix exponential and of operator application, not
   statements about the code): E m stands for exp(-i H (m dt)); E 0 = 1, E (m+n) = E m * E n,
   1 s = s, (a b) s = a (b s).  With the time step performed by the exact propagator E 1, column j
   of the result array holds the measurement of exp(-i H (j k dt)) psi_0 (time index j*k), and the
   final state is exp(-i H (n dt)) psi_0. *)
From PTN Require Import Driver.RunExact.

Theorem C18_exact_state_every : forall (St V Op : Type) (mul : Op -> Op -> Op) (one : Op)
    (act : Op -> St -> St) (E : nat -> Op) (measure : St -> V),
  E 0 = one -> (forall m n, E (m + n) = mul (E m) (E n)) ->
  (forall s, act one s = s) -> (forall a b s, act (mul a b) s = act a (act b s)) ->
  forall (n k : nat) (s0 : St), 1 <= k ->
  run St V (act (E 1)) measure n (Every k) s0 =
  {| sys := act (E n) s0;
     cols := map (fun j => Some (measure (act (E (j * k)) s0), j * k)) (seq 0 (n / k + 1));
     err := false |}.
Proof. exact exact_state_every. Qed.
Print Assumptions C18_exact_state_every.

Theorem C18_exact_state_every_col : forall (St V Op : Type) (mul : Op -> Op -> Op) (one : Op)
    (act : Op -> St -> St) (E : nat -> Op) (measure : St -> V),
  E 0 = one -> (forall m n, E (m + n) = mul (E m) (E n)) ->
  (forall s, act one s = s) -> (forall a b s, act (mul a b) s = act a (act b s)) ->
  forall (n k : nat) (s0 : St) (j : nat), 1 <= k -> j <= n / k ->
  nth_error (cols (run St V (act (E 1)) measure n (Every k) s0)) j
  = Some (Some (measure (act (E (j * k)) s0), j * k)).
Proof. exact exact_state_every_col. Qed.
Print Assumptions C18_exact_state_every_col.

Theorem C18_exact_state_inf : forall (St V Op : Type) (mul : Op -> Op -> Op) (one : Op)
    (act : Op -> St -> St) (E : nat -> Op) (measure : St -> V),
  E 0 = one -> (forall m n, E (m + n) = mul (E m) (E n)) ->
  (forall s, act one s = s) -> (forall a b s, act (mul a b) s = act a (act b s)) ->
  forall (n : nat) (s0 : St),
  run St V (act (E 1)) measure n Inf s0 =
  {| sys := act (E n) s0; cols := [Some (measure (act (E n) s0), n)]; err := false |}.
Proof. exact exact_state_inf. Qed.
Print Assumptions C18_exact_state_inf.

(* the contract is satisfiable: Op = (Z, +, 0) acting on Z by translation, E m = 3 m *)
Example C18_exact_contract_satisfiable :
  let E := fun m : nat => (3 * Z.of_nat m)%Z in
  E 0 = 0%Z /\ (forall m n, E (m + n) = (E m + E n)%Z) /\
  (forall s : Z, (0 + s)%Z = s) /\ (forall a b s : Z, (a + b + s)%Z = (a + (b + s))%Z) /\
  cols (run Z Z (Z.add (E 1)) (fun s => s) 7 (Every 3) 10%Z) = [Some (10%Z, 0); Some (19%Z, 3); Some (28%Z, 6)].
Proof.
  cbv zeta. repeat split; intros; try (rewrite ?Nat2Z.inj_add; ring).
Qed.
Print Assumptions C18_exact_contract_satisfiable.
