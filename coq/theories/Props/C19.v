(* Property C19 — placeholder while the check is being built. *)
From Coq Require Import List Arith ZArith.
From PTN Require Import Special.Chain Models.Ising.
Import ListNotations.
Example C19_example : option_map (fun m => lefts m) (mps_from_list [[1;2];[1;1;2];[1;2]] 1) = Some [0].
Proof. vm_compute. reflexivity. Qed.
Print Assumptions C19_example.
