(* Property C19 — special-topology constructors, the leg permutation of TTNO.from_tensor and the
   Ising model builders.  Statements only; each is closed by `exact`. *)
From Coq Require Import List Arith ZArith Permutation.
From PTN Require Import TTN.Store TTN.Inv Tree.RTree Special.Chain Special.ChainProofs Models.Ising Models.IsingProofs.
Import ListNotations.

(* ---- MatrixProductTree.from_tensor_list: all lengths, all root positions, all tensor shapes ------ *)
(* whenever the constructor returns (no step raised): the node dictionary is the closed form
   mps_nodes (root record, then the sites left of the root going outward, then the sites to its right),
   the root is the requested site, left_nodes = site0..site(r-1), right_nodes = site(r+1)..site(L-1) *)
Theorem C19_mps_closed_form : forall (shapes : list (list nat)) (r : nat) (m : mpt),
  mps_from_list shapes r = Some m ->
  r < length shapes /\ nodes (mst m) = mps_nodes shapes r /\ root (mst m) = Some r
  /\ lefts m = seq 0 r /\ rights m = seq (S r) (length shapes - S r).
Proof. exact mps_from_list_struct. Qed.
Print Assumptions C19_mps_closed_form.

Theorem C19_mps_dict_order : forall (shapes : list (list nat)) (r : nat), r < length shapes ->
  akeys (mps_nodes shapes r) = r :: rev (seq 0 r) ++ seq (S r) (length shapes - S r).
Proof. exact mps_nodes_keys. Qed.
Print Assumptions C19_mps_dict_order.

(* the chain site0 .. site(L-1): neighbours of site i are exactly i-1 and i+1, the parent pointer
   points toward the root, the recorded tensor is tensor i, and axis 0 / axis 1 of tensor i are bound
   to the left / right neighbour (site 0 has its only bond on axis 0) *)
Theorem C19_mps_chain : forall (shapes : list (list nat)) (r : nat) (m : mpt) (i : nat),
  mps_from_list shapes r = Some m -> i < length shapes ->
  exists n, aget i (nodes (mst m)) = Some n
    /\ (forall x, In x (neighbouring_nodes n) <-> (S x = i \/ (x = S i /\ x < length shapes)))
    /\ parent n = (if i <? r then Some (S i) else if r <? i then Some (i - 1) else None)
    /\ shape n = nth i shapes []
    /\ (0 < i -> axis_to n (i - 1) = Some 0)
    /\ (S i < length shapes -> axis_to n (S i) = Some (if i =? 0 then 0 else 1)).
Proof. exact mps_chain. Qed.
Print Assumptions C19_mps_chain.

(* the documented input format [left, right, open...] with any bond dimensions and any open legs is
   accepted for every root position: no add_child_to_parent call is rejected *)
Theorem C19_mps_accepts : forall (bonds : list nat) (opens : list (list nat)) (r : nat),
  length opens = S (length bonds) -> r <= length bonds ->
  exists m, mps_from_list (mps_shapes bonds opens) r = Some m.
Proof. exact mps_accepts. Qed.
Print Assumptions C19_mps_accepts.

(* the produced store satisfies the store invariant of TTN/Inv.v (one root, symmetric parent/child
   links, acyclic, leg permutations are permutations, recorded shapes = wire dimensions, both ends of
   every edge carry the same wire, no other sharing) *)
Theorem C19_mps_store_wf : forall (shapes : list (list nat)) (r : nat) (m : mpt),
  mps_from_list shapes r = Some m -> wfb (mst m) = true.
Proof. exact mps_from_list_wf. Qed.
Print Assumptions C19_mps_store_wf.

(* value level: the zero-padded tensors of constant_product_state (a single 1 at [0,0,sv] resp. [0,sv],
   tied entry by entry to the code) contract along the chain, summing every bond index over its full
   padded range, to the product basis state: 1 at (sv,...,sv), 0 elsewhere, for every padding >= 1 *)
Theorem C19_mps_product_state_value : forall (sv : nat) (bonds ps : list nat),
  bonds <> [] -> Forall (fun d => 1 <= d) bonds -> length ps = S (length bonds) ->
  mps_val sv bonds ps = (if forallb (fun p => p =? sv) ps then 1%Z else 0%Z).
Proof. exact mps_product_state_value. Qed.
Print Assumptions C19_mps_product_state_value.

(* ---- stars and forks built through add_chain_node / add_*_chain_node ----------------------------- *)
Theorem C19_star_store_wf : forall (center : list nat) (calls : list (list nat * nat)) (m : star),
  star_build center calls = Some m -> wfb (sst m) = true.
Proof. exact star_build_wf. Qed.
Print Assumptions C19_star_store_wf.

Theorem C19_fork_store_wf : forall (calls : list fcall) (m : fork),
  fork_build calls = Some m -> mainc m <> [] -> wfb (fst_ m) = true.
Proof. exact fork_build_wf. Qed.
Print Assumptions C19_fork_store_wf.

(* the star product-state helper as found (bug = true: reshape to (1,2) / (1,1,2)) rejects every
   valid parameter set with dimension <> 2 and at least one chain node *)
Theorem C19_star_dim_refuted : forall sv dim clen nch : Z,
  check_ps sv dim = true -> dim <> 2%Z -> (1 <= clen)%Z -> (1 <= nch)%Z ->
  star_cps true sv dim clen nch = None.
Proof. exact star_dim_refuted. Qed.
Print Assumptions C19_star_dim_refuted.

(* bounded: the repaired helper (bug = false) builds a well-formed star with 1 + chains * length nodes
   for dimension 1..4, every state value, chain length 1..4, 0..4 chains *)
Theorem C19_star_fixed_bounded : forall dim sv cl nc : nat,
  In dim (seq 1 4) -> In sv (seq 0 dim) -> In cl (seq 1 4) -> In nc (seq 0 5) -> star_ok_b dim sv cl nc = true.
Proof. exact star_fixed_bounded. Qed.
Print Assumptions C19_star_fixed_bounded.

(* bounded: binary trees with 1..16 physical sites, bond dimension 1..3: accepted, well-formed,
   2n-1 nodes;  forks of width, height 1..5, bond 1..3: accepted, well-formed, width*height nodes,
   main chain of `height` nodes *)
Theorem C19_binary_bounded : forall n bd : nat, In n (seq 1 16) -> In bd (seq 1 3) -> binary_ok_b n bd = true.
Proof. exact binary_bounded. Qed.
Print Assumptions C19_binary_bounded.

Theorem C19_ftps_bounded : forall w h bd : nat,
  In w (seq 1 5) -> In h (seq 1 5) -> In bd (seq 1 3) -> ftps_ok_b w h bd = true.
Proof. exact ftps_bounded. Qed.
Print Assumptions C19_ftps_bounded.

(* ---- TTNO.from_tensor: _get_qr_decomposition_shape ------------------------------------------------- *)
(* a permutation of all 2n legs whenever leg_dict is a bijection nodes -> 0..n-1 *)
Theorem C19_qr_shape_is_permutation : forall (lg : nat -> nat) (half : nat) (t : rtree),
  Permutation (map lg (ids t)) (seq 0 half) -> Permutation (ft_perm lg half t) (seq 0 (2 * half)).
Proof. exact ft_perm_is_permutation. Qed.
Print Assumptions C19_qr_shape_is_permutation.

(* own legs first, then the blocks of the children in reverse order: the legs of the first child's
   subtree are the LAST 2 * size block, which is what _from_tensor_rec splits off first *)
Theorem C19_qr_first_child_last : forall (leg : nat -> list nat) (i : nat) (c : rtree) (cs : list rtree),
  qr_acc leg (RNode i (c :: cs)) [] = (leg i ++ concat (rev (map (fun c => qr_acc leg c []) cs))) ++ qr_acc leg c [].
Proof. exact qr_first_child_last. Qed.
Print Assumptions C19_qr_first_child_last.

Theorem C19_qr_block_length : forall (lg : nat -> nat) (half : nat) (t : rtree), length (ft_perm lg half t) = 2 * size t.
Proof. exact ft_perm_length. Qed.
Print Assumptions C19_qr_block_length.

(* ---- Ising builders ------------------------------------------------------------------------------------ *)
(* the term list: one (-1, "ext_magn", {i: B}) per site, then one (-1, "coupling", {i: A, j: A}) per pair *)
Theorem C19_ising_terms_shape : forall (S : Type) (eqb : S -> S -> bool) (sites : list S) (nn : list (S * S)),
  ising_terms eqb sites nn
  = map (fun i => ((-1)%Z, CExtMagn, [(i, OpExt)])) sites
    ++ map (fun ij => ((-1)%Z, CCoupling, if eqb (fst ij) (snd ij) then [(fst ij, OpNN)] else [(fst ij, OpNN); (snd ij, OpNN)])) nn.
Proof. exact @ising_terms_shape. Qed.
Print Assumptions C19_ising_terms_shape.

(* over any additive structure: the list denotes  sum_i (-1 * g) B_i + sum_<ij> (-1 * J) A_i A_j *)
Theorem C19_ising_denotes : forall (S R M : Type) (zero : M) (add : M -> M -> M) (smul : R -> M -> M)
    (rmul : R -> R -> R) (ofZ : Z -> R) (cval : coef -> R) (mono : list (S * opsym) -> M) (eqb : S -> S -> bool),
  (forall a b c, add (add a b) c = add a (add b c)) -> (forall a, add zero a = a) ->
  forall (sites : list S) (nn : list (S * S)),
  (forall p, In p nn -> eqb (fst p) (snd p) = false) ->
  eval_terms zero add smul rmul ofZ cval mono (ising_terms eqb sites nn)
  = add (msum zero add (map (fun i => smul (rmul (ofZ (-1)%Z) (cval CExtMagn)) (mono [(i, OpExt)])) sites))
        (msum zero add (map (fun ij => smul (rmul (ofZ (-1)%Z) (cval CCoupling)) (mono [(fst ij, OpNN); (snd ij, OpNN)])) nn)).
Proof. exact @ising_denotes. Qed.
Print Assumptions C19_ising_denotes.

(* trees: nearest_neighbours lists every tree edge exactly once whatever the dictionary order; 2n-1 terms *)
Theorem C19_tree_edges_once : forall (t : rtree) (ord : list nat),
  NoDup (ids t) -> Permutation ord (ids t) -> Permutation (tree_nn t ord) (edges t).
Proof. exact tree_nn_perm. Qed.
Print Assumptions C19_tree_edges_once.

Theorem C19_tree_term_count : forall (t : rtree) (ord : list nat),
  NoDup (ids t) -> Permutation ord (ids t) -> length (ising_of_tree t ord) = 2 * size t - 1.
Proof. exact ising_tree_count. Qed.
Print Assumptions C19_tree_term_count.

(* grids, every size: _find_nn_pairs lists exactly the grid edges, each once, never reversed *)
Theorem C19_grid_pairs_are_edges : forall (r c : nat) (e : site2 * site2), In e (grid_pairs r c) <-> grid_edge r c e.
Proof. exact grid_pairs_spec. Qed.
Print Assumptions C19_grid_pairs_are_edges.

Theorem C19_grid_edge_exactly_once : forall (r c : nat) (e : site2 * site2),
  grid_edge r c e -> count_occ edge2_dec (grid_pairs r c) e = 1.
Proof. exact grid_edge_exactly_once. Qed.
Print Assumptions C19_grid_edge_exactly_once.

Theorem C19_grid_edge_not_reversed : forall (r c : nat) (a b : site2),
  In (a, b) (grid_pairs r c) -> ~ In (b, a) (grid_pairs r c).
Proof. exact grid_pairs_oriented. Qed.
Print Assumptions C19_grid_edge_not_reversed.

Theorem C19_grid_coupling_count : forall r c : nat, length (grid_pairs r c) = (r - 1) * c + r * (c - 1).
Proof. exact grid_pairs_length. Qed.
Print Assumptions C19_grid_coupling_count.

(* at least two sites: the single-site block is a permutation of the grid sites (one field term each) *)
Theorem C19_grid_field_terms : forall r c : nat, 2 <= r * c ->
  Permutation (dedup site2_eqb (flat_pairs (grid_pairs r c)) []) (list_prod (seq 0 r) (seq 0 c)).
Proof. exact grid_single_sites. Qed.
Print Assumptions C19_grid_field_terms.

Theorem C19_grid_term_count : forall r c : nat, 2 <= r * c ->
  length (ising_of_pairs site2_eqb (grid_pairs r c)) = r * c + ((r - 1) * c + r * (c - 1)).
Proof. exact ising_grid_count. Qed.
Print Assumptions C19_grid_term_count.

(* the 1 x 1 grid: the builder returns no term at all (recorded finding C19-grid-1x1) *)
Theorem C19_grid_1x1_refuted : ising_of_grid 1 1 = Some [].
Proof. exact ising_grid_1x1_no_terms. Qed.
Print Assumptions C19_grid_1x1_refuted.

(* the exact dense builder sums the same terms as the symbolic builder on the chain = 1 x n grid *)
Theorem C19_exact_terms : forall n : nat,
  Permutation (exact_ising_terms n) (ising_terms Nat.eqb (seq 0 n) (chain_pairs n)).
Proof. exact exact_terms_perm. Qed.
Print Assumptions C19_exact_terms.

Theorem C19_chain_is_grid_row : forall n : nat,
  map (fun p => ((0, fst p), (0, snd p))) (chain_pairs n) = grid_pairs 1 n.
Proof. exact chain_pairs_is_grid_row. Qed.
Print Assumptions C19_chain_is_grid_row.

(* ---- non-vacuity ------------------------------------------------------------------------------------------ *)
Example C19_example_mps :
  option_map (fun m => (map fst (nodes (mst m)), lefts m, rights m, wfb (mst m)))
             (mps_from_list (mps_shapes [2; 3; 4] [[5]; [6; 2]; [7]; [8]]) 2)
  = Some ([2; 1; 0; 3], [0; 1], [3], true).
Proof. vm_compute. reflexivity. Qed.
Print Assumptions C19_example_mps.

Example C19_example_grid : length (grid_pairs 3 4) = 17 /\ ft_perm (fun i => i) 3 (RNode 0 [RNode 1 []; RNode 2 []]) = [0; 3; 2; 5; 1; 4].
Proof. vm_compute. split; reflexivity. Qed.
Print Assumptions C19_example_grid.
