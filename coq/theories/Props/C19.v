(* Property C19 — special-topology constructors, the leg permutation of TTNO.from_tensor and the
   Ising model builders.  Statements only; each is closed by `exact`. *)
From Coq Require Import List Arith ZArith Permutation.
From PTN Require Import TTN.Store TTN.Inv Tree.RTree Special.Chain Special.ChainProofs Special.ChainUniv Models.Ising Models.IsingProofs.
From Coq Require Import Bool.   (* ext-C19F *)
From PTN Require Import Wire.Sem Wire.SemInst TTN.InvSem Special.FromTensor Special.FromTensorProofs Special.FromTensorTree Special.FromTensorValue.   (* ext-C19F *)
Import ListNotations.

(* ---- MatrixProductTree.from_tensor_list: all lengths, all root positions, all tensor shapes ------ *)
(* whenever the constructor returns (no step raised): the node dictionary is the closed form
   mps_nodes (root record, then the sites left of the root going outward, then the sites to its right),
   the root is the requested site, left_nodes = site0..site(r-1), right_nodes = site(r+1)..site(L-1) *)
Theorem C19_mps_closed_form : forall (shapes : list (list nat)) (r : nat) (m : mpt),
  mps_from_list shapes r = Some m ->
  r < length shapes /\ nodes (mst m) = mps_nodes shapes r /\ root (mst m) = Some r
  /\ lefts m = seq 0 r /\ rights m = seq (S r) (length shapes - S r).
Proof. exact mps_from_list_struct. Qed.
Print Assumptions C19_mps_closed_form.

Theorem C19_mps_dict_order : forall (shapes : list (list nat)) (r : nat), r < length shapes ->
  akeys (mps_nodes shapes r) = r :: rev (seq 0 r) ++ seq (S r) (length shapes - S r).
Proof. exact mps_nodes_keys. Qed.
Print Assumptions C19_mps_dict_order.

(* the chain site0 .. site(L-1): neighbours of site i are exactly i-1 and i+1, the parent pointer
   points toward the root, the recorded tensor is tensor i, and axis 0 / axis 1 of tensor i are bound
   to the left / right neighbour (site 0 has its only bond on axis 0) *)
Theorem C19_mps_chain : forall (shapes : list (list nat)) (r : nat) (m : mpt) (i : nat),
  mps_from_list shapes r = Some m -> i < length shapes ->
  exists n, aget i (nodes (mst m)) = Some n
    /\ (forall x, In x (neighbouring_nodes n) <-> (S x = i \/ (x = S i /\ x < length shapes)))
    /\ parent n = (if i <? r then Some (S i) else if r <? i then Some (i - 1) else None)
    /\ shape n = nth i shapes []
    /\ (0 < i -> axis_to n (i - 1) = Some 0)
    /\ (S i < length shapes -> axis_to n (S i) = Some (if i =? 0 then 0 else 1)).
Proof. exact mps_chain. Qed.
Print Assumptions C19_mps_chain.

(* the documented input format [left, right, open...] with any bond dimensions and any open legs is
   accepted for every root position: no add_child_to_parent call is rejected *)
Theorem C19_mps_accepts : forall (bonds : list nat) (opens : list (list nat)) (r : nat),
  length opens = S (length bonds) -> r <= length bonds ->
  exists m, mps_from_list (mps_shapes bonds opens) r = Some m.
Proof. exact mps_accepts. Qed.
Print Assumptions C19_mps_accepts.

(* the produced store satisfies the store invariant of TTN/Inv.v (one root, symmetric parent/child
   links, acyclic, leg permutations are permutations, recorded shapes = wire dimensions, both ends of
   every edge carry the same wire, no other sharing) *)
Theorem C19_mps_store_wf : forall (shapes : list (list nat)) (r : nat) (m : mpt),
  mps_from_list shapes r = Some m -> wfb (mst m) = true.
Proof. exact mps_from_list_wf. Qed.
Print Assumptions C19_mps_store_wf.

(* value level: the zero-padded tensors of constant_product_state (a single 1 at [0,0,sv] resp. [0,sv],
   tied entry by entry to the code) contract along the chain, summing every bond index over its full
   padded range, to the product basis state: 1 at (sv,...,sv), 0 elsewhere, for every padding >= 1 *)
Theorem C19_mps_product_state_value : forall (sv : nat) (bonds ps : list nat),
  bonds <> [] -> Forall (fun d => 1 <= d) bonds -> length ps = S (length bonds) ->
  mps_val sv bonds ps = (if forallb (fun p => p =? sv) ps then 1%Z else 0%Z).
Proof. exact mps_product_state_value. Qed.
Print Assumptions C19_mps_product_state_value.

(* ---- stars and forks built through add_chain_node / add_*_chain_node ----------------------------- *)
Theorem C19_star_store_wf : forall (center : list nat) (calls : list (list nat * nat)) (m : star),
  star_build center calls = Some m -> wfb (sst m) = true.
Proof. exact star_build_wf. Qed.
Print Assumptions C19_star_store_wf.

Theorem C19_fork_store_wf : forall (calls : list fcall) (m : fork),
  fork_build calls = Some m -> mainc m <> [] -> wfb (fst_ m) = true.
Proof. exact fork_build_wf. Qed.
Print Assumptions C19_fork_store_wf.

(* the star product-state helper as found (bug = true: reshape to (1,2) / (1,1,2)) rejects every
   valid parameter set with dimension <> 2 and at least one chain node *)
Theorem C19_star_dim_refuted : forall sv dim clen nch : Z,
  check_ps sv dim = true -> dim <> 2%Z -> (1 <= clen)%Z -> (1 <= nch)%Z ->
  star_cps true sv dim clen nch = None.
Proof. exact star_dim_refuted. Qed.
Print Assumptions C19_star_dim_refuted.

(* bounded: the repaired helper (bug = false) builds a well-formed star with 1 + chains * length nodes
   for dimension 1..4, every state value, chain length 1..4, 0..4 chains *)
Theorem C19_star_fixed_bounded : forall dim sv cl nc : nat,
  In dim (seq 1 4) -> In sv (seq 0 dim) -> In cl (seq 1 4) -> In nc (seq 0 5) -> star_ok_b dim sv cl nc = true.
Proof. exact star_fixed_bounded. Qed.
Print Assumptions C19_star_fixed_bounded.

(* bounded: binary trees with 1..16 physical sites, bond dimension 1..3: accepted, well-formed,
   2n-1 nodes;  forks of width, height 1..5, bond 1..3: accepted, well-formed, width*height nodes,
   main chain of `height` nodes *)
Theorem C19_binary_bounded : forall n bd : nat, In n (seq 1 16) -> In bd (seq 1 3) -> binary_ok_b n bd = true.
Proof. exact binary_bounded. Qed.
Print Assumptions C19_binary_bounded.

Theorem C19_ftps_bounded : forall w h bd : nat,
  In w (seq 1 5) -> In h (seq 1 5) -> In bd (seq 1 3) -> ftps_ok_b w h bd = true.
Proof. exact ftps_bounded. Qed.
Print Assumptions C19_ftps_bounded.

(* ---- TTNO.from_tensor: _get_qr_decomposition_shape ------------------------------------------------- *)
(* a permutation of all 2n legs whenever leg_dict is a bijection nodes -> 0..n-1 *)
Theorem C19_qr_shape_is_permutation : forall (lg : nat -> nat) (half : nat) (t : rtree),
  Permutation (map lg (ids t)) (seq 0 half) -> Permutation (ft_perm lg half t) (seq 0 (2 * half)).
Proof. exact ft_perm_is_permutation. Qed.
Print Assumptions C19_qr_shape_is_permutation.

(* own legs first, then the blocks of the children in reverse order: the legs of the first child's
   subtree are the LAST 2 * size block, which is what _from_tensor_rec splits off first *)
Theorem C19_qr_first_child_last : forall (leg : nat -> list nat) (i : nat) (c : rtree) (cs : list rtree),
  qr_acc leg (RNode i (c :: cs)) [] = (leg i ++ concat (rev (map (fun c => qr_acc leg c []) cs))) ++ qr_acc leg c [].
Proof. exact qr_first_child_last. Qed.
Print Assumptions C19_qr_first_child_last.

Theorem C19_qr_block_length : forall (lg : nat -> nat) (half : nat) (t : rtree), length (ft_perm lg half t) = 2 * size t.
Proof. exact ft_perm_length. Qed.
Print Assumptions C19_qr_block_length.

(* ---- Ising builders ------------------------------------------------------------------------------------ *)
(* the term list: one (-1, "ext_magn", {i: B}) per site, then one (-1, "coupling", {i: A, j: A}) per pair *)
Theorem C19_ising_terms_shape : forall (S : Type) (eqb : S -> S -> bool) (sites : list S) (nn : list (S * S)),
  ising_terms eqb sites nn
  = map (fun i => ((-1)%Z, CExtMagn, [(i, OpExt)])) sites
    ++ map (fun ij => ((-1)%Z, CCoupling, if eqb (fst ij) (snd ij) then [(fst ij, OpNN)] else [(fst ij, OpNN); (snd ij, OpNN)])) nn.
Proof. exact @ising_terms_shape. Qed.
Print Assumptions C19_ising_terms_shape.

(* over any additive structure: the list denotes  sum_i (-1 * g) B_i + sum_<ij> (-1 * J) A_i A_j *)
Theorem C19_ising_denotes : forall (S R M : Type) (zero : M) (add : M -> M -> M) (smul : R -> M -> M)
    (rmul : R -> R -> R) (ofZ : Z -> R) (cval : coef -> R) (mono : list (S * opsym) -> M) (eqb : S -> S -> bool),
  (forall a b c, add (add a b) c = add a (add b c)) -> (forall a, add zero a = a) ->
  forall (sites : list S) (nn : list (S * S)),
  (forall p, In p nn -> eqb (fst p) (snd p) = false) ->
  eval_terms zero add smul rmul ofZ cval mono (ising_terms eqb sites nn)
  = add (msum zero add (map (fun i => smul (rmul (ofZ (-1)%Z) (cval CExtMagn)) (mono [(i, OpExt)])) sites))
        (msum zero add (map (fun ij => smul (rmul (ofZ (-1)%Z) (cval CCoupling)) (mono [(fst ij, OpNN); (snd ij, OpNN)])) nn)).
Proof. exact @ising_denotes. Qed.
Print Assumptions C19_ising_denotes.

(* trees: nearest_neighbours lists every tree edge exactly once whatever the dictionary order; 2n-1 terms *)
Theorem C19_tree_edges_once : forall (t : rtree) (ord : list nat),
  NoDup (ids t) -> Permutation ord (ids t) -> Permutation (tree_nn t ord) (edges t).
Proof. exact tree_nn_perm. Qed.
Print Assumptions C19_tree_edges_once.

Theorem C19_tree_term_count : forall (t : rtree) (ord : list nat),
  NoDup (ids t) -> Permutation ord (ids t) -> length (ising_of_tree t ord) = 2 * size t - 1.
Proof. exact ising_tree_count. Qed.
Print Assumptions C19_tree_term_count.

(* grids, every size: _find_nn_pairs lists exactly the grid edges, each once, never reversed *)
Theorem C19_grid_pairs_are_edges : forall (r c : nat) (e : site2 * site2), In e (grid_pairs r c) <-> grid_edge r c e.
Proof. exact grid_pairs_spec. Qed.
Print Assumptions C19_grid_pairs_are_edges.

Theorem C19_grid_edge_exactly_once : forall (r c : nat) (e : site2 * site2),
  grid_edge r c e -> count_occ edge2_dec (grid_pairs r c) e = 1.
Proof. exact grid_edge_exactly_once. Qed.
Print Assumptions C19_grid_edge_exactly_once.

Theorem C19_grid_edge_not_reversed : forall (r c : nat) (a b : site2),
  In (a, b) (grid_pairs r c) -> ~ In (b, a) (grid_pairs r c).
Proof. exact grid_pairs_oriented. Qed.
Print Assumptions C19_grid_edge_not_reversed.

Theorem C19_grid_coupling_count : forall r c : nat, length (grid_pairs r c) = (r - 1) * c + r * (c - 1).
Proof. exact grid_pairs_length. Qed.
Print Assumptions C19_grid_coupling_count.

(* at least two sites: the single-site block is a permutation of the grid sites (one field term each) *)
Theorem C19_grid_field_terms : forall r c : nat, 2 <= r * c ->
  Permutation (dedup site2_eqb (flat_pairs (grid_pairs r c)) []) (list_prod (seq 0 r) (seq 0 c)).
Proof. exact grid_single_sites. Qed.
Print Assumptions C19_grid_field_terms.

Theorem C19_grid_term_count : forall r c : nat, 2 <= r * c ->
  length (ising_of_pairs site2_eqb (grid_pairs r c)) = r * c + ((r - 1) * c + r * (c - 1)).
Proof. exact ising_grid_count. Qed.
Print Assumptions C19_grid_term_count.

(* the 1 x 1 grid: the builder returns no term at all (recorded finding C19-grid-1x1) *)
Theorem C19_grid_1x1_refuted : ising_of_grid 1 1 = Some [].
Proof. exact ising_grid_1x1_no_terms. Qed.
Print Assumptions C19_grid_1x1_refuted.

(* the exact dense builder sums the same terms as the symbolic builder on the chain = 1 x n grid *)
Theorem C19_exact_terms : forall n : nat,
  Permutation (exact_ising_terms n) (ising_terms Nat.eqb (seq 0 n) (chain_pairs n)).
Proof. exact exact_terms_perm. Qed.
Print Assumptions C19_exact_terms.

Theorem C19_chain_is_grid_row : forall n : nat,
  map (fun p => ((0, fst p), (0, snd p))) (chain_pairs n) = grid_pairs 1 n.
Proof. exact chain_pairs_is_grid_row. Qed.
Print Assumptions C19_chain_is_grid_row.

(* ---- universal versions (Special/ChainUniv.v): every size, by induction ------------------------------------ *)
(* STAR.  The repaired product-state helper (bug = false) accepts every valid parameter set: any number of
   chains nch >= 0, any chain length clen >= 0 (clen = 0: no chain node is created and `chains` stays empty),
   dimension >= 1, 0 <= state value < dimension.  The node dictionary is the closed form star_nodes (centre,
   then chain after chain), the root is the centre, `chains` is the documented list of lists, the value
   multi-indices are star_values, and the store invariant holds *)
Theorem C19_star_universal : forall sv dim clen nch : Z,
  check_ps sv dim = true -> (0 <= clen)%Z -> (0 <= nch)%Z ->
  exists m, star_cps false sv dim clen nch
            = Some (m, star_values (Z.to_nat sv) (Z.to_nat clen) (Z.to_nat nch))
    /\ nodes (sst m) = star_nodes (Z.to_nat dim) (Z.to_nat clen) (Z.to_nat nch)
    /\ root (sst m) = Some center_id
    /\ chains m = star_chains (Z.to_nat clen) (Z.to_nat nch)
    /\ slabels m = star_labels (Z.to_nat clen) (Z.to_nat nch)
    /\ wfb (sst m) = true.
Proof. exact star_cps_univ. Qed.
Print Assumptions C19_star_universal.

Theorem C19_star_universal_nat : forall sv dim cl nc : nat, 1 <= dim -> sv < dim ->
  exists m, star_cps false (Z.of_nat sv) (Z.of_nat dim) (Z.of_nat cl) (Z.of_nat nc) = Some (m, star_values sv cl nc)
    /\ nodes (sst m) = star_nodes dim cl nc /\ root (sst m) = Some center_id
    /\ length (nodes (sst m)) = 1 + nc * cl
    /\ chains m = star_chains cl nc /\ slabels m = star_labels cl nc /\ wfb (sst m) = true.
Proof. exact star_cps_univ_nat. Qed.
Print Assumptions C19_star_universal_nat.

(* the closed form, identifier by identifier: dictionary order, node count, the centre (children = the chain
   heads in chain order, none when the chain length is 0), chain node (c, j) (parent = previous chain node or
   the centre, single child = next chain node except for the last; shape [1;1;d], last [1;d]) *)
Theorem C19_star_keys : forall d cl nc : nat,
  akeys (star_nodes d cl nc) = center_id :: flat_map (fun c => map (arm_id (S nc) c) (seq 0 cl)) (seq 0 nc).
Proof. exact star_nodes_keys. Qed.
Print Assumptions C19_star_keys.

Theorem C19_star_count : forall d cl nc : nat, length (star_nodes d cl nc) = 1 + nc * cl.
Proof. exact star_nodes_length. Qed.
Print Assumptions C19_star_count.

Theorem C19_star_keys_distinct : forall d cl nc : nat, NoDup (akeys (star_nodes d cl nc)).
Proof. exact star_nodes_NoDup. Qed.
Print Assumptions C19_star_keys_distinct.

Theorem C19_star_center : forall d cl nc : nat,
  aget center_id (star_nodes d cl nc)
  = Some {| parent := None;
            children := if cl =? 0 then [] else map (fun c => arm_id (S nc) c 0) (seq 0 nc);
            perm := seq 0 (S nc); shape := repeat 1 nc ++ [d] |}.
Proof. exact star_nodes_center. Qed.
Print Assumptions C19_star_center.

Theorem C19_star_arm : forall d cl nc c j : nat, c < nc -> j < cl ->
  aget (arm_id (S nc) c j) (star_nodes d cl nc)
  = Some {| parent := Some (if j =? 0 then center_id else arm_id (S nc) c (j - 1));
            children := if S j <? cl then [arm_id (S nc) c (S j)] else [];
            perm := seq 0 (length (if j =? cl - 1 then [1; d] else [1; 1; d]));
            shape := if j =? cl - 1 then [1; d] else [1; 1; d] |}.
Proof. exact star_nodes_arm. Qed.
Print Assumptions C19_star_arm.

Theorem C19_star_chains : forall cl nc : nat,
  star_chains cl nc = if cl =? 0 then [] else map (fun c => map (arm_id (S nc) c) (seq 0 cl)) (seq 0 nc).
Proof. reflexivity. Qed.
Print Assumptions C19_star_chains.

(* FORK.  constant_ftps accepts every width, height, bond dimension >= 1 and every physical dimension;
   identifiers are main_id N i / sub_id N i j with N = width * height + 1; the node dictionary is the closed
   form fork_nodes (main chain first, then sub chain after sub chain), width * height nodes, the root is
   main 0, main_chain / sub_chains are the documented lists, and the store invariant holds *)
Theorem C19_fork_universal : forall (phys : nat) (width height bd : Z),
  (1 <= width)%Z -> (1 <= height)%Z -> (1 <= bd)%Z ->
  exists m, constant_ftps phys width height bd = Some m
    /\ nodes (fst_ m) = fork_nodes (S (Z.to_nat width * Z.to_nat height)) phys (Z.to_nat width) (Z.to_nat height) (Z.to_nat bd)
    /\ root (fst_ m) = Some (main_id (S (Z.to_nat width * Z.to_nat height)) 0)
    /\ length (nodes (fst_ m)) = Z.to_nat width * Z.to_nat height
    /\ mainc m = map (main_id (S (Z.to_nat width * Z.to_nat height))) (seq 0 (Z.to_nat height))
    /\ subc m = map (fun i => map (sub_id (S (Z.to_nat width * Z.to_nat height)) i) (seq 0 (Z.to_nat width - 1)))
                    (seq 0 (Z.to_nat height))
    /\ flabels m = fork_labels (S (Z.to_nat width * Z.to_nat height)) (Z.to_nat width) (Z.to_nat height)
    /\ wfb (fst_ m) = true.
Proof. exact constant_ftps_univ. Qed.
Print Assumptions C19_fork_universal.

Theorem C19_fork_keys : forall N phys W H bd : nat,
  akeys (fork_nodes N phys W H bd)
  = map (main_id N) (seq 0 H) ++ flat_map (fun i => map (sub_id N i) (seq 0 (W - 1))) (seq 0 H).
Proof. exact fork_nodes_keys. Qed.
Print Assumptions C19_fork_keys.

(* main-chain node i: parent = main (i-1) (none for the root); children, in the order the code produces
   them: the next main-chain node (added first), then the head of its sub chain (width >= 2) *)
Theorem C19_fork_main : forall N phys W H bd i : nat, 0 < N -> i < H ->
  aget (main_id N i) (fork_nodes N phys W H bd)
  = Some {| parent := if i =? 0 then None else Some (main_id N (i - 1));
            children := (if S i <? H then [main_id N (S i)] else []) ++ (if 1 <? W then [sub_id N i 0] else []);
            perm := seq 0 (length (fmain_shape phys H bd i)); shape := fmain_shape phys H bd i |}.
Proof. exact fork_nodes_main. Qed.
Print Assumptions C19_fork_main.

Theorem C19_fork_sub : forall N phys W H bd i j : nat, W <= N -> i < H -> j < W - 1 ->
  aget (sub_id N i j) (fork_nodes N phys W H bd)
  = Some {| parent := Some (if j =? 0 then main_id N i else sub_id N i (j - 1));
            children := if S j <? W - 1 then [sub_id N i (S j)] else [];
            perm := seq 0 (length (fsub_shape phys W bd j)); shape := fsub_shape phys W bd j |}.
Proof. exact fork_nodes_sub. Qed.
Print Assumptions C19_fork_sub.

Theorem C19_fork_shapes : forall phys W H bd i j : nat,
  fmain_shape phys H bd i = (if orb (i =? 0) (i =? H - 1) then [bd; bd; phys] else [bd; bd; bd; phys])
  /\ fsub_shape phys W bd j = (if j =? W - 2 then [bd; phys] else [bd; bd; phys]).
Proof. intros; split; reflexivity. Qed.
Print Assumptions C19_fork_shapes.

(* BINARY.  replace_node keeps the store invariant whenever the new identifier is fresh *)
Theorem C19_replace_node_wf : forall (s : store) (new old : nat) (shp : list nat) (s' : store),
  Inv.wf s -> new <> old -> aget new (nodes s) = None ->
  replace_node s new old shp = Some s' -> Inv.wf s'.
Proof. exact replace_node_preserves_wf. Qed.
Print Assumptions C19_replace_node_wf.

(* generate_binary_ttns with n >= 2 physical sites and bond dimension >= 1 is accepted exactly when the
   physical tensor has at least one leg and its first leg has the bond dimension (the fuel of the model's
   loop suffices); 2n-1 nodes: the virtual nodes with heap indices 0 .. n-2 in breadth-first order, then the
   sites 0 .. n-1 which replaced the leaves n-1 .. 2n-2 in queue order; the store invariant holds *)
Theorem C19_binary_universal : forall (nphys bd : Z) (shp : list nat),
  (2 <= nphys)%Z -> (1 <= bd)%Z -> 1 <= length shp -> nth 0 shp 0 = Z.to_nat bd ->
  exists s, binary_ttns nphys bd shp = Some (s, bin_labels (Z.to_nat nphys))
    /\ nodes s = bin_nodes (Z.to_nat bd) (Z.to_nat nphys) shp /\ root s = Some 0
    /\ length (nodes s) = 2 * Z.to_nat nphys - 1
    /\ wfb s = true.
Proof. exact binary_ttns_univ. Qed.
Print Assumptions C19_binary_universal.

Theorem C19_binary_rejects : forall (nphys bd : Z) (shp : list nat),
  (2 <= nphys)%Z -> (1 <= bd)%Z -> (length shp = 0 \/ nth 0 shp 0 <> Z.to_nat bd) ->
  binary_ttns nphys bd shp = None.
Proof. exact binary_ttns_rejects. Qed.
Print Assumptions C19_binary_rejects.

(* a single site: the root itself is replaced and any physical shape is accepted *)
Theorem C19_binary_one_site : forall (bd : Z) (shp : list nat), (1 <= bd)%Z ->
  exists s, binary_ttns 1 bd shp = Some (s, [(0, LVirt 0 0); (site_id 1 0, LSite 0)])
    /\ nodes s = [(site_id 1 0, new_node shp)] /\ root s = Some (site_id 1 0) /\ wfb s = true.
Proof. exact binary_ttns_one. Qed.
Print Assumptions C19_binary_one_site.

Theorem C19_binary_keys : forall (b n : nat) (shp : list nat),
  akeys (bin_nodes b n shp) = seq 0 (n - 1) ++ map (site_id n) (seq 0 n).
Proof. exact bin_nodes_keys. Qed.
Print Assumptions C19_binary_keys.

(* virtual node i (heap index): parent (i-1)/2, children 2i+1 and 2i+2 where a child that is a leaf
   (heap index c >= n-1) appears under its site identifier site_id n (c - (n-1)) *)
Theorem C19_binary_virtual : forall (b n : nat) (shp : list nat) (i : nat), i < n - 1 ->
  aget i (bin_nodes b n shp)
  = Some {| parent := if i =? 0 then None else Some ((i - 1) / 2);
            children := [(if n - 1 <=? 2 * i + 1 then site_id n (2 * i + 1 - (n - 1)) else 2 * i + 1);
                         (if n - 1 <=? 2 * i + 2 then site_id n (2 * i + 2 - (n - 1)) else 2 * i + 2)];
            perm := seq 0 (length (if i =? 0 then [b; b; 1] else [b; b; b; 1]));
            shape := if i =? 0 then [b; b; 1] else [b; b; b; 1] |}.
Proof. exact bin_nodes_virtual. Qed.
Print Assumptions C19_binary_virtual.

Theorem C19_binary_site : forall (b n : nat) (shp : list nat) (i : nat), i < n ->
  aget (site_id n i) (bin_nodes b n shp)
  = Some {| parent := Some ((n - 1 + i - 1) / 2); children := []; perm := seq 0 (length shp); shape := shp |}.
Proof. exact bin_nodes_site. Qed.
Print Assumptions C19_binary_site.

Theorem C19_binary_labels : forall n : nat,
  bin_labels n = map (fun i => (i, LVirt (Nat.log2 (S i)) (S i - 2 ^ Nat.log2 (S i)))) (seq 0 (2 * n - 1))
                 ++ map (fun i => (site_id n i, LSite i)) (seq 0 n).
Proof. reflexivity. Qed.
Print Assumptions C19_binary_labels.

(* ---- non-vacuity ------------------------------------------------------------------------------------------ *)
Example C19_example_mps :
  option_map (fun m => (map fst (nodes (mst m)), lefts m, rights m, wfb (mst m)))
             (mps_from_list (mps_shapes [2; 3; 4] [[5]; [6; 2]; [7]; [8]]) 2)
  = Some ([2; 1; 0; 3], [0; 1], [3], true).
Proof. vm_compute. reflexivity. Qed.
Print Assumptions C19_example_mps.

Example C19_example_grid : length (grid_pairs 3 4) = 17 /\ ft_perm (fun i => i) 3 (RNode 0 [RNode 1 []; RNode 2 []]) = [0; 3; 2; 5; 1; 4].
Proof. vm_compute. split; reflexivity. Qed.
Print Assumptions C19_example_grid.

Example C19_example_universal :
  option_map (fun mv => (nodes (sst (fst mv)), chains (fst mv))) (star_cps false 1 3 2 3)
    = Some (star_nodes 3 2 3, [[1; 5]; [2; 6]; [3; 7]])
  /\ option_map (fun m => (nodes (fst_ m), mainc m, subc m)) (constant_ftps 2 3 2 4)
    = Some (fork_nodes 7 2 3 2 4, [0; 7], [[1; 2]; [8; 9]])
  /\ option_map (fun sl => (nodes (fst sl), snd sl, wfb (fst sl))) (binary_ttns 5 2 [2; 3])
    = Some (bin_nodes 2 5 [2; 3], bin_labels 5, true).
Proof. vm_compute. repeat split; reflexivity. Qed.
Print Assumptions C19_example_universal.

(* ---- TTNO.from_tensor / _from_tensor_rec as a program over the store (ext-C19F) ---------------------------------- *)
(* Special/FromTensor.v models from_tensor literally: the initial transposition by _get_qr_decomposition_shape,
   add_root, and for every child (reference-tree order) the kernel call on the trailing 2 * subtree-size legs (a
   fresh bond wire, two fresh atoms Q, R and the recorded definition "Q . R over the bond = current tensor"),
   link_tensor(Q) + tensors[current] = Q, add_child_to_parent(R-node, R, 0, current, Q.ndim - 1), the recursion into
   the child and the next TensorDict access.  The input tensor is atom 0; its axis a is wire a. *)

(* ONE factor-and-attach step, on any well-formed store whose current node was just accessed (identity leg
   permutation), for a fresh child identifier and r trailing OPEN legs: the step is accepted, keeps the store
   invariant, touches only the current node and the new child, appends the child as the LAST child, leaves the
   leading open legs at the current node and hands the r trailing legs to the child (identity permutation) *)
Theorem C19_from_tensor_step : forall (s : store) (cur c : nat) (nd : node) (t : sarr) (r : nat) (dm : dmode) (tb : nat),
  step_pre s cur c nd t r ->
  exists s3, factor_attach s cur c t r dm tb = Some s3 /\ Inv.wf s3
    /\ akeys (nodes s3) = akeys (nodes s) ++ [c] /\ root s3 = root s
    /\ (forall k, k <> cur -> k <> c -> aget k (nodes s3) = aget k (nodes s) /\ aget k (tensors s3) = aget k (tensors s))
    /\ (exists nP, aget cur (nodes s3) = Some nP /\ parent nP = parent nd /\ children nP = children nd ++ [c]
          /\ open_of nP (tens s3 cur) = skipn (nvirt nd) (firstn (length (axes t) - r) (axes t)))
    /\ (exists nC, aget c (nodes s3) = Some nC /\ parent nC = Some cur /\ children nC = []
          /\ open_of nC (tens s3 c) = skipn (length (axes t) - r) (axes t) /\ perm nC = seq 0 (nlegs nC)).
Proof. exact factor_attach_spec. Qed.
Print Assumptions C19_from_tensor_step.

(* the same step preserves the VALUE of the whole network over any commutative semiring, under the kernel
   contract of that step (def_holds: Q . R summed over the new bond = the factorised tensor) *)
Theorem C19_from_tensor_step_value : forall (R : Type) (zero one : R) (add mul : R -> R -> R) (tbl : nat -> list nat -> R)
    (s : store) (cur c : nat) (nd : node) (t : sarr) (r : nat) (dm : dmode) (tbv : nat),
  comm_semiring zero one add mul -> step_pre s cur c nd t r -> simple s ->
  def_holds zero one add mul (step_result s cur c nd t r dm tbv) tbl (def_of s t dm) ->
  simple (step_result s cur c nd t r dm tbv) /\
  forall rho, net_value zero one add mul (step_result s cur c nd t r dm tbv) tbl rho = net_value zero one add mul s tbl rho.
Proof. exact step_value. Qed.
Print Assumptions C19_from_tensor_step_value.

(* ALL reference trees with distinct identifiers, ALL leg assignments that are bijections onto 0..n-1, ALL three
   decomposition modes (for the truncated SVD: all kept bond dimensions tb): (a) the program is accepted and the
   result satisfies the store invariant; (b) the node dictionary lists the reference tree's identifiers in
   pre-order, the root is the reference root, every node has the reference tree's parent and children IN THE SAME
   ORDER; (c) every node ends with exactly two open legs: the operator's axes leg_dict[node] (out) and
   n + leg_dict[node] (in), in this order, and an identity leg permutation *)
Theorem C19_from_tensor_structure : forall (dm : dmode) (tb : nat -> nat) (t : rtree) (lg : nat -> nat) (shape : list nat),
  NoDup (ids t) -> length shape = 2 * size t -> Permutation (map lg (ids t)) (seq 0 (size t)) ->
  exists s', from_tensor t lg shape dm tb = Some s' /\ wfb s' = true
    /\ akeys (nodes s') = ids t /\ root s' = Some (rid t)
    /\ forall k, In k (ids t) ->
       exists nk, aget k (nodes s') = Some nk /\ parent nk = parent_of k t /\ children nk = children_ids t k
                  /\ open_of nk (tens s' k) = [lg k; size t + lg k] /\ perm nk = seq 0 (nlegs nk).
Proof. exact from_tensor_structure. Qed.
Print Assumptions C19_from_tensor_structure.

(* (d) VALUE, over any commutative semiring and any table of atom entries: if every factorisation the program
   recorded holds (Q . R = A over the new bond: the LAPACK QR / SVD contract), the contraction of the resulting
   network is the input tensor: for every assignment rho of indices to wires the network's value is the entry
   of atom 0 at (rho 0, ..., rho (2n-1)); the open legs of the network are, node after node in pre-order, the wires
   leg_dict[node], n + leg_dict[node] *)
Theorem C19_from_tensor_value : forall (R : Type) (zero one : R) (add mul : R -> R -> R) (tbl : nat -> list nat -> R)
    (dm : dmode) (tb : nat -> nat) (t : rtree) (lg : nat -> nat) (shape : list nat),
  comm_semiring zero one add mul ->
  NoDup (ids t) -> length shape = 2 * size t -> Permutation (map lg (ids t)) (seq 0 (size t)) ->
  exists s', from_tensor t lg shape dm tb = Some s' /\ wfb s' = true
    /\ akeys (nodes s') = ids t /\ root s' = Some (rid t)
    /\ (forall k, In k (ids t) ->
        exists nk, aget k (nodes s') = Some nk /\ parent nk = parent_of k t /\ children nk = children_ids t k
                   /\ open_of nk (tens s' k) = [lg k; size t + lg k] /\ perm nk = seq 0 (nlegs nk))
    /\ open_wires s' = flat_map (fun k => [lg k; size t + lg k]) (ids t)
    /\ ((forall d, In d (defs s') -> def_holds zero one add mul s' tbl d) ->
        forall rho, net_value zero one add mul s' tbl rho = tbl 0 (map rho (seq 0 (length shape)))).
Proof. exact from_tensor_correct. Qed.
Print Assumptions C19_from_tensor_value.

(* the decidable form of the hypotheses the harness evaluates per instance implies them *)
Theorem C19_from_tensor_hyp_checker : forall (t : rtree) (lg : nat -> nat) (shape : list nat),
  ft_hyp t lg shape = true ->
  NoDup (ids t) /\ length shape = 2 * size t /\ Permutation (map lg (ids t)) (seq 0 (size t)).
Proof. exact ft_hyp_sound. Qed.
Print Assumptions C19_from_tensor_hyp_checker.

(* non-vacuity 1: root 0 with children 1, 2; node 1 has the child 3; leg assignment 0->2, 1->0, 2->3, 3->1;
   site dimensions 2, 3, 2, 1: hypotheses hold, the model accepts, the result passes the invariant (also the
   extended one of TTN/InvSem.v) and the structure / open-leg statement; QR, SVD and truncated SVD *)
Example C19_example_from_tensor :
  let t := RNode 0 [RNode 1 [RNode 3 []]; RNode 2 []] in
  let lg := fun i => nth i [2; 0; 3; 1] 0 in
  let shape := [2; 3; 2; 1; 2; 3; 2; 1] in
  ft_hyp t lg shape = true
  /\ map (fun dm => option_map (fun s => (akeys (nodes s), wfb s, wfsb s, ft_result_ok t lg 4 s, open_legs s, length (defs s)))
                               (from_tensor t lg shape dm (fun _ => 1)))
         [DQR; DSVD; DTSVD]
     = let r := Some ([0; 1; 3; 2], true, true, true, [(0, [2; 6]); (1, [0; 4]); (3, [1; 5]); (2, [3; 7])], 3) in [r; r; r].
Proof. vm_compute. split; reflexivity. Qed.
Print Assumptions C19_example_from_tensor.

(* non-vacuity 2 (kernel contract): a two-node tree with the SWAPPED leg assignment, operator A of shape
   (2,1,2,1), Q = the unit vector, R = A: the recorded definition holds, hence the network denotes A *)
Definition exf_t : rtree := RNode 0 [RNode 1 []].
Definition exf_lg (k : nat) : nat := 1 - k.
Definition exf_shape : list nat := [2; 1; 2; 1].
Definition exf_A (a0 a1 a2 a3 : nat) : nat :=
  if Nat.ltb a0 2 && Nat.eqb a1 0 && Nat.ltb a2 2 && Nat.eqb a3 0 then 1 + a0 + 2 * a2 else 0.
Definition exf_tbl (a : nat) (idx : list nat) : nat :=
  match a, idx with
  | 0, [a0; a1; a2; a3] => exf_A a0 a1 a2 a3
  | 1, [i; j; k] => if Nat.eqb i 0 && Nat.eqb j 0 && Nat.eqb k 0 then 1 else 0
  | 2, [k; x; y] => if Nat.eqb k 0 then exf_A x 0 y 0 else 0
  | _, _ => 0
  end.
Definition exf_tb : nat -> nat := fun _ => 0.
Definition exf_s : store :=
  match from_tensor exf_t exf_lg exf_shape DQR exf_tb with Some s => s | None => empty_store end.

Example C19_example_from_tensor_contract :
  forall d, In d (defs exf_s) -> def_holds 0 1 Nat.add Nat.mul exf_s exf_tbl d.
Proof.
  intros d Hd. set (s := exf_s) in *. vm_compute in s. subst s. cbn [defs In] in Hd. destruct Hd as [<-|[]].
  intros rho. cbn -[exf_tbl Nat.add Nat.mul]. unfold value_s, value, atoms_val, atom_val, atom_wires.
  cbn -[exf_tbl Nat.add Nat.mul]. unfold upd. cbn -[exf_tbl Nat.add Nat.mul].
  unfold exf_tbl, exf_A.
  destruct (rho 0) as [|[|i]]; destruct (rho 1) as [|j]; destruct (rho 2) as [|[|k]]; destruct (rho 3) as [|l]; reflexivity.
Qed.
Print Assumptions C19_example_from_tensor_contract.

Example C19_example_from_tensor_value : forall rho,
  net_value 0 1 Nat.add Nat.mul exf_s exf_tbl rho = exf_A (rho 0) (rho 1) (rho 2) (rho 3).
Proof.
  destruct (C19_from_tensor_value nat 0 1 Nat.add Nat.mul exf_tbl DQR exf_tb exf_t exf_lg exf_shape nat_csr)
    as (s' & E & _ & _ & _ & _ & _ & V).
  - repeat constructor; cbn; intuition discriminate.
  - reflexivity.
  - vm_compute. apply perm_swap.
  - assert (Es : s' = exf_s) by (unfold exf_s; rewrite E; reflexivity). subst s'.
    intros rho. rewrite (V C19_example_from_tensor_contract rho). reflexivity.
Qed.
Print Assumptions C19_example_from_tensor_value.
