(* Property C14 — the bipartite vertex cover is a cover and has maximum-matching size.
   Statements only; each is closed by `exact`.  The model is Bip/Model.v (BipartiteGraph,
   HopcroftKarp, minimum_vertex_cover, _explore_alternating_paths of
   pytreenet/ttno/bipartite_graph.py), the proofs are in Bip/ModelProofs.v.

   STATE OF THE PROOFS: everything planned in DESIGN.md section 5 / C14 is proved for all
   inputs, including the two "target" theorems (no augmenting path when the outer loop
   stops; Koenig cover size = matching size).  The size equality is therefore NOT a
   per-instance obligation: C14_mvc_main states that the code's own
   `assert len(u_cover) + len(v_cover) == len(matching)` holds for every accepted input,
   and that cover and matching are minimum resp. maximum.  All fuel bounds of the model
   are shown sufficient (C14_koenig_fuel_suffices, C14_hk_fuel_suffices, C14_mvc_main), so
   the model's `None` (fuel exhausted) is unreachable on accepted inputs.

   Vocabulary (ModelProofs): edges_ok nu nv edges = every entry (u,v) has u < nu, v < nv
   (the constructor's asserts); is_matching M = no U vertex and no V vertex occurs twice;
   covers E cu cv = every (u,v) in E has u in cu or v in cv; functional_on_u M = every U
   vertex occurs at most once as a first component. *)
From Coq Require Import ZArith List Arith.
From PTN Require Import Bip.Model Bip.ModelProofs.
Import ListNotations.

(* ---- the constructor ------------------------------------------------------------------ *)
(* adjacency lists = the edge set (duplicates suppressed), both directions consistent *)
Theorem C14_constructor_adjacency : forall nu nv edges, edges_ok nu nv edges ->
  let g := mk_graph nu nv edges in
  num_u g = nu /\ num_v g = nv /\ wf g /\
  (forall u v, In v (adjU g u) <-> In (u, v) edges) /\
  (forall u v, In u (adjV g v) <-> In (u, v) edges).
Proof. exact mk_graph_spec. Qed.
Print Assumptions C14_constructor_adjacency.

(* the model accepts exactly the inputs that pass the constructor's asserts *)
Theorem C14_constructor_accepts : forall nu nv edges,
  let nedges := map (fun e => (Z.to_nat (fst e), Z.to_nat (snd e))) edges in
  ((1 <= nu)%Z /\ (1 <= nv)%Z /\
   (forall e, In e edges -> (0 <= fst e < nu)%Z /\ (0 <= snd e < nv)%Z)) ->
  build nu nv edges = Some (mk_graph (Z.to_nat nu) (Z.to_nat nv) nedges) /\
  edges_ok (Z.to_nat nu) (Z.to_nat nv) nedges.
Proof. exact build_spec. Qed.
Print Assumptions C14_constructor_accepts.

Theorem C14_constructor_rejects : forall nu nv edges,
  ~ ((1 <= nu)%Z /\ (1 <= nv)%Z /\
     (forall e, In e edges -> (0 <= fst e < nu)%Z /\ (0 <= snd e < nv)%Z)) ->
  build nu nv edges = None.
Proof. exact build_reject. Qed.
Print Assumptions C14_constructor_rejects.

(* ---- (1) the Koenig construction, for ANY matching list handed to it -------------------- *)
(* the exploration fuel num_u + 1 always suffices *)
Theorem C14_koenig_fuel_suffices : forall nu nv edges M, edges_ok nu nv edges ->
  exists cu cv, koenig (mk_graph nu nv edges) M = Some (cu, cv).
Proof. exact koenig_fuel_suffices. Qed.
Print Assumptions C14_koenig_fuel_suffices.

(* both returned lists contain only existing vertices, each once *)
Theorem C14_mvc_in_range : forall nu nv edges M cu cv, edges_ok nu nv edges ->
  koenig (mk_graph nu nv edges) M = Some (cu, cv) ->
  (forall u, In u cu -> u < nu) /\ (forall v, In v cv -> v < nv) /\ NoDup cu /\ NoDup cv.
Proof. exact mvc_in_range. Qed.
Print Assumptions C14_mvc_in_range.

(* they touch every edge, as soon as the matching uses every U vertex at most once *)
Theorem C14_mvc_is_cover : forall nu nv edges M cu cv, edges_ok nu nv edges -> functional_on_u M ->
  koenig (mk_graph nu nv edges) M = Some (cu, cv) -> covers edges cu cv.
Proof. exact mvc_is_cover. Qed.
Print Assumptions C14_mvc_is_cover.

(* ---- (2) Hopcroft-Karp ------------------------------------------------------------------ *)
(* the fuel of BFS (2 num_u + 2), DFS (num_u + 3) and of the outer loop (num_u + 1) suffices *)
Theorem C14_hk_fuel_suffices : forall nu nv edges, edges_ok nu nv edges ->
  exists M, hopcroft_karp (mk_graph nu nv edges) = Some M.
Proof. exact hk_fuel_suffices. Qed.
Print Assumptions C14_hk_fuel_suffices.

(* every returned pair is an edge, no vertex is used twice *)
Theorem C14_hk_valid_matching : forall nu nv edges M, edges_ok nu nv edges ->
  hopcroft_karp (mk_graph nu nv edges) = Some M -> is_matching M /\ incl M edges.
Proof. exact hk_valid_matching. Qed.
Print Assumptions C14_hk_valid_matching.

(* ---- (3) weak duality -------------------------------------------------------------------- *)
Theorem C14_weak_duality : forall (M : list (nat * nat)) (cu cv : list nat),
  is_matching M -> covers M cu cv -> length M <= length cu + length cv.
Proof. exact weak_duality. Qed.
Print Assumptions C14_weak_duality.

Theorem C14_equal_sizes_optimal : forall (E M : list (nat * nat)) (cu cv : list nat),
  is_matching M -> incl M E -> covers E cu cv -> length cu + length cv = length M ->
  (forall M', is_matching M' -> incl M' E -> length M' <= length M) /\
  (forall cu' cv', covers E cu' cv' -> length cu + length cv <= length cu' + length cv').
Proof. exact equal_sizes_optimal. Qed.
Print Assumptions C14_equal_sizes_optimal.

(* ---- (4) the targets ----------------------------------------------------------------------- *)
(* when the outer loop stops there is no augmenting path: every V vertex adjacent to a U vertex
   that is reachable from an unmatched U vertex by an alternating walk is matched *)
Theorem C14_hk_no_augmenting_path : forall nu nv edges M, edges_ok nu nv edges ->
  hopcroft_karp (mk_graph nu nv edges) = Some M ->
  forall u v, areach (mk_graph nu nv edges) M u -> In (u, v) edges -> exists u', In (u', v) M.
Proof. exact hk_no_augmenting_path_edges. Qed.
Print Assumptions C14_hk_no_augmenting_path.

(* the code's own size assert can never fail *)
Theorem C14_mvc_size_eq_matching : forall nu nv edges r, edges_ok nu nv edges ->
  mvc (mk_graph nu nv edges) = Some r ->
  r_assert r = true /\ length (r_ucover r) + length (r_vcover r) = length (r_matching r).
Proof. exact mvc_size_eq_matching. Qed.
Print Assumptions C14_mvc_size_eq_matching.

(* ---- the property ------------------------------------------------------------------------- *)
(* minimum_vertex_cover on every accepted input: returns (no fuel exhaustion, no AssertionError);
   the matching is a valid matching of the graph; the cover lists are in range, duplicate free,
   touch every edge, have together the size of the matching; no larger matching and no smaller
   cover exist *)
Theorem C14_mvc_main : forall nu nv edges, edges_ok nu nv edges ->
  exists r, mvc (mk_graph nu nv edges) = Some r /\ r_assert r = true /\
    is_matching (r_matching r) /\ incl (r_matching r) edges /\
    (forall u, In u (r_ucover r) -> u < nu) /\ (forall v, In v (r_vcover r) -> v < nv) /\
    NoDup (r_ucover r) /\ NoDup (r_vcover r) /\
    covers edges (r_ucover r) (r_vcover r) /\
    length (r_ucover r) + length (r_vcover r) = length (r_matching r) /\
    (forall M', is_matching M' -> incl M' edges -> length M' <= length (r_matching r)) /\
    (forall cu' cv', covers edges cu' cv' ->
       length (r_ucover r) + length (r_vcover r) <= length cu' + length cv').
Proof. exact mvc_main. Qed.
Print Assumptions C14_mvc_main.

(* ---- the correspondence's equality tests are sound ------------------------------------------ *)
Theorem C14_all_eqb_sound : forall a b, all_eqb a b = true -> a = b.
Proof. exact all_eqb_eq. Qed.
Print Assumptions C14_all_eqb_sound.

Theorem C14_koenig_eqb_sound : forall a b, koenig_eqb a b = true -> a = b.
Proof. exact koenig_eqb_eq. Qed.
Print Assumptions C14_koenig_eqb_sound.

(* ---- non-vacuity ----------------------------------------------------------------------------- *)
(* a 3x3 graph with a duplicate entry: two phases, one augmentation through a matched vertex *)
Example C14_example_run :
  run_all 3 3 [(0,0); (0,1); (1,0); (2,2); (1,0); (2,1)]%Z =
  Some ([[0; 1]; [0]; [2; 1]]%Z, [[0; 1]; [0; 2]; [2]]%Z,
        Some ([(0, 1); (1, 0); (2, 2)]%Z, [0; 1; 2]%Z, []%Z, true, [])).
Proof. vm_compute. reflexivity. Qed.
Print Assumptions C14_example_run.

(* a graph whose minimum cover mixes both sides; U vertex 3 is isolated and starts an exploration *)
Example C14_example_mixed :
  run_all 4 3 [(0,0); (1,0); (2,0); (2,1); (2,2)]%Z =
  Some ([[0]; [0]; [0; 1; 2]; []]%Z, [[0; 1; 2]; [2]; [2]]%Z,
        Some ([(0, 0); (2, 1)]%Z, [2]%Z, [0]%Z, true,
              [(1, [1; 0], [0]); (3, [3], [])]%Z)).
Proof. vm_compute. reflexivity. Qed.
Print Assumptions C14_example_mixed.

Example C14_example_hypotheses : edges_ok 4 3 [(0,0); (1,0); (2,0); (2,1); (2,2)].
Proof. intros u v H. simpl in H. repeat (destruct H as [H|H]; [inversion H; subst; split; auto with arith|]). destruct H. Qed.
Print Assumptions C14_example_hypotheses.
