From Coq Require Import List.
From PTN Require Import Bip.Model.
Import ListNotations.
Example C14_example : True. Proof. exact I. Qed.
Print Assumptions C14_example.
