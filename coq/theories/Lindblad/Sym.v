(* Model of pytreenet/operators/lindbladian.py (generate_lindbladian and its four helpers),
   of the parts of TensorProduct it uses (add_suffix, _local_action = transpose / conjugate /
   conjugate_transpose, otimes, multiply) and of exact_operators.exact_lindbladian.
   Definitions only; proofs are in SymProofs.v.

   Layer 1 (symbolic, executable): labels, site identifiers and coefficient names are strings,
   Python dicts are insertion-ordered association lists with the `d[k] = v` / `update`
   semantics, numerical values of dictionary entries are symbolic expressions over the entries
   of the input dictionaries.  The four classifiers (_find_symmetric/real/hermitian/identity_
   operators) enter as boolean tables computed by the real functions.
   `bug_sign = true` is the code as it stands (`new_frac = -1 * frac`), `false` the GKSL sign.

   Layer 2 (semantic): a generated term (f, c, ket (x) bra) denotes rho |-> f*c * K rho B^T in an
   abstract algebra (Section variables).  *)
From Coq Require Import String List Bool QArith Qcanon.
Import ListNotations.
Local Close Scope Q_scope.
Local Open Scope string_scope.

Definition label := string.
Definition site := string.
Definition cname := string.

(* ---- Python dict as insertion-ordered association list --------------------------------- *)
Section Dict.
  Context {V : Type}.
  Definition dict := list (string * V).

  Fixpoint dget (k : string) (d : dict) : option V :=
    match d with
    | [] => None
    | (k', v) :: r => if String.eqb k k' then Some v else dget k r
    end.

  (* d[k] = v : an existing key keeps its position *)
  Fixpoint dset (k : string) (v : V) (d : dict) : dict :=
    match d with
    | [] => [(k, v)]
    | (k', v') :: r => if String.eqb k k' then (k', v) :: r else (k', v') :: dset k v r
    end.

  (* d.update(items) *)
  Definition dupdate (d : dict) (items : list (string * V)) : dict :=
    fold_left (fun acc kv => dset (fst kv) (snd kv) acc) items d.

  Definition dmem (k : string) (d : dict) : bool :=
    match dget k d with Some _ => true | None => false end.

  Definition dkeys (d : dict) : list string := map fst d.
End Dict.
Arguments dict : clear implicits.

(* ---- symbolic values of dictionary entries ---------------------------------------------- *)
Inductive src := SHam | SJump.      (* which input dictionary a base entry comes from *)

Inductive mexp :=
| MBase (s : src) (l : label)       (* hamiltonian.conversion_dictionary[l] / jump_operator_dict[l] *)
| MT (e : mexp)                     (* e.T *)
| MConj (e : mexp)                  (* e.conj() *)
| MH (e : mexp)                     (* e.conj().T *)
| MMul (a b : mexp).                (* a @ b *)

Inductive cexp :=
| COne                              (* the default {"1": 1} of Hamiltonian() *)
| CBase (s : src) (c : cname)       (* hamiltonian.coeffs_mapping[c] / jump_coeff_mapping[c] *)
| CI (e : cexp).                    (* 1j * e *)

Definition src_eqb (a b : src) : bool :=
  match a, b with SHam, SHam | SJump, SJump => true | _, _ => false end.

Fixpoint mexp_eqb (a b : mexp) : bool :=
  match a, b with
  | MBase s l, MBase s' l' => src_eqb s s' && String.eqb l l'
  | MT e, MT e' | MConj e, MConj e' | MH e, MH e' => mexp_eqb e e'
  | MMul x y, MMul x' y' => mexp_eqb x x' && mexp_eqb y y'
  | _, _ => false
  end.

Fixpoint mget (e : mexp) (t : list (mexp * bool)) : option bool :=
  match t with
  | [] => None
  | (e', b) :: r => if mexp_eqb e e' then Some b else mget e r
  end.

(* ---- results: Python exceptions ---------------------------------------------------------- *)
Inductive result (A : Type) :=
| Ok (a : A)
| KeyError (k : string)
| ValueError.
Arguments Ok {A} a.
Arguments KeyError {A} k.
Arguments ValueError {A}.

Definition bind {A B} (r : result A) (f : A -> result B) : result B :=
  match r with Ok a => f a | KeyError k => KeyError k | ValueError => ValueError end.
Notation "'do' x <- r ; k" := (bind r (fun x => k)) (at level 200, x pattern, r at level 100, k at level 200).

Definition lookup {V} (k : string) (d : dict V) : result V :=
  match dget k d with Some v => Ok v | None => KeyError k end.

(* ---- TensorProduct ------------------------------------------------------------------------ *)
Definition tp := dict label.                     (* node identifier -> operator label *)
Definition term := (Q * cname * tp)%type.

Definition add_suffix (suf : string) (t : tp) : tp :=
  map (fun kv => (fst kv ++ suf, snd kv)) t.

(* _local_action on symbolic operators: keep the label when the invariance table says so,
   otherwise append the suffix; a label missing from the table is a KeyError.
   (A TensorProduct is a dict: its identifiers are distinct, so `new_tp[identifier] = x` in the
   Python loop appends.) *)
Fixpoint local_action (inv : label -> option bool) (suf : string) (t : tp) : result tp :=
  match t with
  | [] => Ok []
  | (s, l) :: r =>
      match inv l with
      | None => KeyError l
      | Some b => do r' <- local_action inv suf r ;
                  Ok ((s, if b then l else l ++ suf) :: r')
      end
  end.

(* otimes(to_copy=True): ValueError on a common identifier *)
Fixpoint otimes (a b : tp) : result tp :=
  match b with
  | [] => Ok a
  | (s, l) :: r => if dmem s a then ValueError else otimes (a ++ [(s, l)])%list r
  end.

(* multiply(self, other, identity_dict, conversion_dict): returns the product, the updated
   conversion dictionary and the list of assignments made to it *)
Fixpoint multiply_loop (self other : tp) (idd : dict bool) (conv : dict mexp)
  : result (tp * dict mexp * list (label * mexp)) :=
  match self with
  | [] => Ok ([], conv, [])
  | (s, o) :: r =>
      match dget s other with
      | None => do res <- multiply_loop r other idd conv ;
                Ok ((s, o) :: fst (fst res), snd (fst res), snd res)
      | Some o' =>
          do io <- lookup o idd ;
          if (io : bool) then do res <- multiply_loop r other idd conv ;
                              Ok ((s, o') :: fst (fst res), snd (fst res), snd res)
          else
            do io' <- lookup o' idd ;
            if (io' : bool) then do res <- multiply_loop r other idd conv ;
                                 Ok ((s, o) :: fst (fst res), snd (fst res), snd res)
            else
              let lab := (o ++ "_mult_") ++ o' in
              do v <- lookup o conv ;
              do v' <- lookup o' conv ;
              do res <- multiply_loop r other idd (dset lab (MMul v v') conv) ;
              Ok ((s, lab) :: fst (fst res), snd (fst res), (lab, MMul v v') :: snd res)
      end
  end.

Definition multiply (self other : tp) (idd : dict bool) (conv : dict mexp)
  : result (tp * dict mexp * list (label * mexp)) :=
  do res <- multiply_loop self other idd conv ;
  Ok (fold_left (fun a kv => if dmem (fst kv) a then a else (a ++ [kv])%list) other (fst (fst res)),
      snd (fst res), snd res).

(* ---- inputs ------------------------------------------------------------------------------- *)
Record jflags := { f_real : bool; f_herm : bool; f_id : bool }.

Inductive jin :=                                  (* deal_with_term_input *)
| JTP (t : tp)                                    (* a bare TensorProduct: (1, "1", t) *)
| JTerm (f : Q) (c : cname) (t : tp).

Record input := {
  h_terms : list term;                            (* hamiltonian.terms *)
  h_conv : dict bool;                             (* keys of hamiltonian.conversion_dictionary, with
                                                     _find_symmetric_operators of each *)
  h_coeffs : list cname;                          (* keys of hamiltonian.coeffs_mapping *)
  j_ops : list jin;                               (* jump_operators *)
  j_dict : dict jflags;                           (* keys of jump_operator_dict with real/hermitian/identity *)
  j_coeffs : list cname;                          (* keys of jump_coeff_mapping *)
  j_sym : list (mexp * bool);                     (* _find_symmetric_operators on the values held by
                                                     jop_conv_dict, keyed by the symbolic value *)
  ket_suffix : string;
  bra_suffix : string
}.

Definition deal (j : jin) : term :=
  match j with JTP t => (1%Q, "1", t) | JTerm f c t => (f, c, t) end.

(* ---- structured terms: ket and bra copies kept apart -------------------------------------- *)
Record sterm := { st_frac : Q; st_coef : cname; st_ket : tp; st_bra : tp }.

Record gen := {
  g_terms : list sterm;
  g_writes : list (label * mexp);                 (* every assignment to conversion_dictionary, in order *)
  g_cwrites : list (cname * cexp);                (* every assignment to coeffs_mapping, in order *)
  g_jlog : list (label * mexp)                    (* every assignment to jop_conv_dict (the working copy of
                                                     jump_operator_dict that is merged into conversion_dictionary) *)
}.

(* all assignments of a value to a label, in either dictionary *)
Definition g_log (g : gen) : list (label * mexp) := (g_writes g ++ g_jlog g)%list.

(* _add_hamiltonian_ket_terms *)
Definition ham_ket_terms (i : input) : list sterm :=
  map (fun t : term => let '(f, c, p) := t in
       {| st_frac := f; st_coef := c; st_ket := p; st_bra := [] |}) (h_terms i).

(* _add_hamiltonian_bra_terms *)
Fixpoint ham_bra_terms (symd : dict bool) (ts : list term) : result (list sterm) :=
  match ts with
  | [] => Ok []
  | (f, c, p) :: r =>
      do p' <- local_action (fun l => dget l symd) "_T" p ;
      do r' <- ham_bra_terms symd r ;
      Ok ({| st_frac := (-1 * f)%Q; st_coef := c; st_ket := []; st_bra := p' |} :: r')
  end.

Definition transpose_writes (d : dict mexp) (sym : mexp -> option bool) : result (list (label * mexp)) :=
  fold_right (fun kv acc =>
      do acc' <- acc ;
      match sym (snd kv) with
      | None => KeyError (fst kv)
      | Some true => Ok acc'
      | Some false => Ok ((fst kv ++ "_T", MT (snd kv)) :: acc')
      end) (Ok []) d.

(* _add_jump_operators: one term per jump operator; the ValueError of otimes is raised here.
   (The code suffixes first and conjugates afterwards; the two act on different components.) *)
Fixpoint jump_terms (i : input) (reald : dict bool) (js : list term) : result (list sterm) :=
  match js with
  | [] => Ok []
  | (f, c, p) :: r =>
      do pb <- local_action (fun l => dget l reald) "_conj" p ;
      do _ <- otimes (add_suffix (ket_suffix i) p) (add_suffix (bra_suffix i) pb) ;
      do r' <- jump_terms i reald r ;
      Ok ({| st_frac := f; st_coef := c ++ "*j"; st_ket := p; st_bra := pb |} :: r')
  end.

(* the loop over jump_operator_dict.items() that adds the "_H" entries *)
Definition init_jop (jd : dict jflags) : dict mexp * dict bool :=
  fold_left (fun (st : dict mexp * dict bool) (kv : string * jflags) =>
      if negb (f_id (snd kv)) && negb (f_herm (snd kv))
      then (dset (fst kv ++ "_H") (MH (MBase SJump (fst kv))) (fst st), dset (fst kv ++ "_H") false (snd st))
      else st)
    jd
    (map (fun kv => (fst kv, MBase SJump (fst kv))) jd, map (fun kv => (fst kv, f_id (snd kv))) jd).

(* _add_jump_operator_products: the loop over the jump operators; jop is jop_conv_dict *)
Fixpoint product_terms (bug_sign : bool) (i : input) (idd hermd : dict bool) (jop : dict mexp) (js : list term)
  : result (list sterm * list (label * mexp) * list (label * mexp)) :=
  match js with
  | [] => Ok ([], [], [])
  | (f, c, p) :: r =>
      let frac := (-1 * f / 2)%Q in
      do padj <- local_action (fun l => dget l hermd) "_H" p ;
      do res <- multiply padj p idd jop ;
      let pm := fst (fst res) in
      let jop' := snd (fst res) in
      let sym := fun l => match dget l jop' with Some e => mget e (j_sym i) | None => None end in
      do pmt <- local_action sym "_T" pm ;
      let new_frac := if bug_sign then (-1 * frac)%Q else frac in
      do tw <- transpose_writes jop' (fun e => mget e (j_sym i)) ;
      do rest <- product_terms bug_sign i idd hermd jop' r ;
      Ok ({| st_frac := frac; st_coef := c ++ "*j"; st_ket := pm; st_bra := [] |}
          :: {| st_frac := new_frac; st_coef := c ++ "*j"; st_ket := []; st_bra := pmt |}
          :: fst (fst rest),
          (jop' ++ tw ++ snd (fst rest))%list,
          (snd res ++ snd rest)%list)
  end.

Definition adj_writes (jd : dict jflags) : list (label * mexp) :=
  flat_map (fun kv => if negb (f_id (snd kv)) && negb (f_herm (snd kv))
                      then [(fst kv ++ "_H", MH (MBase SJump (fst kv)))] else []) jd.

Definition base_writes {V} (sr : src) (d : dict V) : list (label * mexp) :=
  map (fun kv => (fst kv, MBase sr (fst kv))) d.

Definition ham_T_writes (hc : dict bool) : list (label * mexp) :=
  flat_map (fun kv => if (snd kv : bool) then [] else [(fst kv ++ "_T", MT (MBase SHam (fst kv)))]) hc.

Definition conj_writes (jd : dict jflags) : list (label * mexp) :=
  flat_map (fun kv => if f_real (snd kv) then [] else [(fst kv ++ "_conj", MConj (MBase SJump (fst kv)))]) jd.

Definition ham_cwrites (cs : list cname) : list (cname * cexp) :=
  ("1", COne) :: map (fun c => (c, CBase SHam c)) cs.

Definition jump_cwrites (cs : list cname) : list (cname * cexp) :=
  map (fun c => (c ++ "*j", CI (CBase SJump c))) cs.

Definition generate_struct (bug_sign : bool) (i : input) : result gen :=
  let js := map deal (j_ops i) in
  (* _add_hamiltonian_ket_terms, _add_hamiltonian_bra_terms *)
  do t2 <- ham_bra_terms (h_conv i) (h_terms i) ;
  (* _add_jump_operators *)
  do t3 <- jump_terms i (map (fun kv => (fst kv, f_real (snd kv))) (j_dict i)) js ;
  (* _add_jump_operator_products *)
  let st := init_jop (j_dict i) in
  do t4 <- product_terms bug_sign i (snd st) (map (fun kv => (fst kv, f_herm (snd kv))) (j_dict i)) (fst st) js ;
  Ok {| g_terms := app (ham_ket_terms i) (app t2 (app t3 (fst (fst t4))));
        g_writes := app (base_writes SHam (h_conv i))
                   (app (ham_T_writes (h_conv i))
                   (app (conj_writes (j_dict i))
                   (app (base_writes SJump (j_dict i)) (snd (fst t4)))));
        g_cwrites := app (ham_cwrites (h_coeffs i)) (jump_cwrites (j_coeffs i));
        g_jlog := app (base_writes SJump (j_dict i)) (app (adj_writes (j_dict i)) (snd t4)) |}.

(* ---- rendering: what the code returns ------------------------------------------------------ *)
Definition render (kets bras : string) (t : sterm) : term :=
  (st_frac t, st_coef t, (add_suffix kets (st_ket t) ++ add_suffix bras (st_bra t))%list).

Definition generate (bug_sign : bool) (i : input)
  : result (list term * dict mexp * dict cexp) :=
  do g <- generate_struct bug_sign i ;
  Ok (map (render (ket_suffix i) (bra_suffix i)) (g_terms g),
      dupdate [] (g_writes g),
      dupdate [] (g_cwrites g)).

(* ============================================================================================ *)
(* Layer 2: semantics in an abstract algebra.                                                    *)
(* ============================================================================================ *)
(* the operations (no laws here; the laws are Section hypotheses of SymProofs.v) *)
Record alg := {
  aC : Type;                                   (* scalars *)
  aM : Type;                                   (* operators on the whole system (matrices) *)
  aL : Type;                                   (* single-site operators *)
  cadd : aC -> aC -> aC; cmul : aC -> aC -> aC; c0 : aC; c1 : aC; copp : aC -> aC;
  ci : aC;                                     (* the imaginary unit *)
  qC : Q -> aC;                                (* rational prefactors *)
  madd : aM -> aM -> aM; mmul : aM -> aM -> aM; m0 : aM; m1 : aM; mopp : aM -> aM;
  smul : aC -> aM -> aM;
  mT : aM -> aM; mconj : aM -> aM; mH : aM -> aM; tr : aM -> aC;
  lmul : aL -> aL -> aL; l1 : aL; lT : aL -> aL; lconj : aL -> aL; lH : aL -> aL;
  emb : site -> aL -> aM                       (* a acting on site s, identity on the other sites *)
}.

Section Sem.
  Variable A : alg.
  Variables (hval jval : label -> aL A).       (* contents of the two input dictionaries *)
  Variables (hcoef jcoef : cname -> aC A).     (* contents of the two coefficient mappings *)

  Fixpoint meval (e : mexp) : aL A :=
    match e with
    | MBase SHam l => hval l
    | MBase SJump l => jval l
    | MT e => lT A (meval e)
    | MConj e => lconj A (meval e)
    | MH e => lH A (meval e)
    | MMul a b => lmul A (meval a) (meval b)
    end.

  Fixpoint ceval (e : cexp) : aC A :=
    match e with
    | COne => c1 A
    | CBase SHam c => hcoef c
    | CBase SJump c => jcoef c
    | CI e => cmul A (ci A) (ceval e)
    end.

  (* valuations read off the generated dictionaries *)
  Definition table_val (d : dict mexp) (l : label) : aL A :=
    match dget l d with Some e => meval e | None => l1 A end.
  Definition table_coef (d : dict cexp) (c : cname) : aC A :=
    match dget c d with Some e => ceval e | None => c1 A end.

  (* a tensor product as an operator on the whole system *)
  Definition tpval (vl : label -> aL A) (t : tp) : aM A :=
    fold_right (fun kv acc => mmul A (emb A (fst kv) (vl (snd kv))) acc) (m1 A) t.

  Definition msum (l : list (aM A)) : aM A := fold_right (madd A) (m0 A) l.
  Definition msub (a b : aM A) : aM A := madd A a (mopp A b).

  (* (f, c, K (x) B) : rho |-> f*c * K rho B^T *)
  Definition denote (val : label -> aL A) (cval : cname -> aC A) (t : sterm) (rho : aM A) : aM A :=
    smul A (cmul A (qC A (st_frac t)) (cval (st_coef t)))
         (mmul A (mmul A (tpval val (st_ket t)) rho) (mT A (tpval val (st_bra t)))).

  Definition denote_all (val : label -> aL A) (cval : cname -> aC A) (ts : list sterm) (rho : aM A) : aM A :=
    msum (map (fun t => denote val cval t rho) ts).

  (* the generated Lindbladian, read through its own dictionaries *)
  Definition denote_gen (g : gen) (rho : aM A) : aM A :=
    denote_all (table_val (dupdate [] (g_writes g))) (table_coef (dupdate [] (g_cwrites g))) (g_terms g) rho.

  (* the operators named by the inputs *)
  Definition ham_op (ts : list term) : aM A :=
    msum (map (fun t : term => smul A (cmul A (qC A (fst (fst t))) (hcoef (snd (fst t)))) (tpval hval (snd t))) ts).

  (* one dissipator with the anticommutator written out; sgn = true is the code's sign *)
  Definition dissipator (sgn : bool) (Lk rho : aM A) : aM A :=
    let LL := mmul A (mH A Lk) Lk in
    let a := mmul A (mmul A Lk rho) (mH A Lk) in
    let b := smul A (qC A (1 # 2)) (mmul A LL rho) in
    let c := smul A (qC A (1 # 2)) (mmul A rho LL) in
    if sgn then madd A (msub a b) c else msub (msub a b) c.

  Definition jump_sum (sgn : bool) (js : list term) (rho : aM A) : aM A :=
    msum (map (fun t : term => smul A (cmul A (qC A (fst (fst t))) (jcoef (snd (fst t))))
                                    (dissipator sgn (tpval jval (snd t)) rho)) js).

  (* H rho - rho H + i sum_k gamma_k (L rho L^+ - 1/2 L^+ L rho -/+ 1/2 rho L^+ L) *)
  Definition lindblad_rhs (sgn : bool) (hs js : list term) (rho : aM A) : aM A :=
    madd A (msub (mmul A (ham_op hs) rho) (mmul A rho (ham_op hs)))
           (smul A (ci A) (jump_sum sgn js rho)).

  (* exact_lindbladian(H, [(c_k, L_k)]) acting on rho in the same vectorisation convention:
     t1 = 1j L (x) conj L, t2 = -1j/2 L^+L (x) 1, t3 = +1j/2 1 (x) (L^+L)^T (code, sgn = true) *)
  Definition exact_terms (sgn : bool) (c : aC A) (Lk rho : aM A) : aM A :=
    let LL := mmul A (mH A Lk) Lk in
    let t1 := smul A (ci A) (mmul A (mmul A Lk rho) (mH A Lk)) in
    let t2 := smul A (cmul A (qC A (-1 # 2)) (ci A)) (mmul A LL rho) in
    let t3 := smul A (cmul A (qC A (if sgn then 1 # 2 else -1 # 2)) (ci A)) (mmul A rho LL) in
    smul A (cmul A c c) (madd A (madd A t1 t2) t3).

  Definition exact_lindbladian (sgn : bool) (H : aM A) (js : list (aC A * aM A)) (rho : aM A) : aM A :=
    madd A (msub (mmul A H rho) (mmul A rho H))
           (msum (map (fun cl => exact_terms sgn (fst cl) (snd cl) rho) js)).
End Sem.

(* ---- the hypotheses of the semantic theorems, bundled ---------------------------------------- *)
(* laws of matrix algebra (statements about the algebra, not about the code) *)
Record alg_laws (A : alg) : Prop := {
  (* scalars: a commutative ring containing i and an image of Q *)
  law_Cring : ring_theory (c0 A) (c1 A) (cadd A) (cmul A) (fun x y => cadd A x (copp A y)) (copp A) eq;
  law_qC_proper : forall p q : Q, Qeq p q -> qC A p = qC A q;
  law_qC_add : forall p q, qC A (p + q)%Q = cadd A (qC A p) (qC A q);
  law_qC_mul : forall p q, qC A (p * q)%Q = cmul A (qC A p) (qC A q);
  law_qC_1 : qC A 1%Q = c1 A;
  (* operators: an associative unital algebra over the scalars *)
  law_madd_assoc : forall x y z, madd A x (madd A y z) = madd A (madd A x y) z;
  law_madd_comm : forall x y, madd A x y = madd A y x;
  law_madd_0_l : forall x, madd A (m0 A) x = x;
  law_madd_opp_r : forall x, madd A x (mopp A x) = m0 A;
  law_mmul_assoc : forall x y z, mmul A x (mmul A y z) = mmul A (mmul A x y) z;
  law_mmul_1_l : forall x, mmul A (m1 A) x = x;
  law_mmul_1_r : forall x, mmul A x (m1 A) = x;
  law_mmul_add_l : forall x y z, mmul A x (madd A y z) = madd A (mmul A x y) (mmul A x z);
  law_mmul_add_r : forall x y z, mmul A (madd A x y) z = madd A (mmul A x z) (mmul A y z);
  law_smul_add_r : forall a x y, smul A a (madd A x y) = madd A (smul A a x) (smul A a y);
  law_smul_add_l : forall a b x, smul A (cadd A a b) x = madd A (smul A a x) (smul A b x);
  law_smul_smul : forall a b x, smul A a (smul A b x) = smul A (cmul A a b) x;
  law_smul_1 : forall x, smul A (c1 A) x = x;
  law_smul_mul_l : forall a x y, mmul A (smul A a x) y = smul A a (mmul A x y);
  law_smul_mul_r : forall a x y, mmul A x (smul A a y) = smul A a (mmul A x y);
  law_mopp_smul : forall x, mopp A x = smul A (copp A (c1 A)) x;
  (* transpose, entrywise conjugate, adjoint *)
  law_mT_mul : forall x y, mT A (mmul A x y) = mmul A (mT A y) (mT A x);
  law_mT_1 : mT A (m1 A) = m1 A;
  law_mT_invol : forall x, mT A (mT A x) = x;
  law_mH_mul : forall x y, mH A (mmul A x y) = mmul A (mH A y) (mH A x);
  law_mH_1 : mH A (m1 A) = m1 A;
  law_mH_invol : forall x, mH A (mH A x) = x;
  law_mT_conj : forall x, mT A (mconj A x) = mH A x;
  (* trace: linear and cyclic *)
  law_tr_add : forall x y, tr A (madd A x y) = cadd A (tr A x) (tr A y);
  law_tr_smul : forall a x, tr A (smul A a x) = cmul A a (tr A x);
  law_tr_cyc : forall x y, tr A (mmul A x y) = tr A (mmul A y x);
  (* single-site operators inside the whole system (Kronecker product with identities) *)
  law_emb_mul : forall s a b, emb A s (lmul A a b) = mmul A (emb A s a) (emb A s b);
  law_emb_1 : forall s, emb A s (l1 A) = m1 A;
  law_emb_T : forall s a, emb A s (lT A a) = mT A (emb A s a);
  law_emb_conj : forall s a, emb A s (lconj A a) = mconj A (emb A s a);
  law_emb_H : forall s a, emb A s (lH A a) = mH A (emb A s a);
  law_emb_comm : forall s t a b, s <> t -> mmul A (emb A s a) (emb A t b) = mmul A (emb A t b) (emb A s a)
}.

(* what a Python caller guarantees by construction *)
Definition wf_input (i : input) : Prop :=
  (* identifiers of a TensorProduct (a dict) are distinct *)
  (forall t, In t (h_terms i) -> NoDup (map fst (snd t))) /\
  (forall t, In t (map deal (j_ops i)) -> NoDup (map fst (snd t))) /\
  (* the coefficient mappings name the coefficients of the terms *)
  (forall t, In t (h_terms i) -> In (snd (fst t)) (h_coeffs i)) /\
  (forall t, In t (map deal (j_ops i)) -> In (snd (fst t)) (j_coeffs i)).

(* the classifier flags say nothing false about the matrices they were computed from *)
Definition sound_flags (A : alg) (hval jval : label -> aL A) (i : input) : Prop :=
  (forall l, In (l, true) (h_conv i) -> lT A (hval l) = hval l) /\
  (forall X fl, In (X, fl) (j_dict i) -> f_real fl = true -> lconj A (jval X) = jval X) /\
  (forall X fl, In (X, fl) (j_dict i) -> f_herm fl = true -> lH A (jval X) = jval X) /\
  (forall X fl, In (X, fl) (j_dict i) -> f_id fl = true -> jval X = l1 A) /\
  (* an operator recognised as the identity is recognised as Hermitian *)
  (forall X fl, In (X, fl) (j_dict i) -> f_id fl = true -> f_herm fl = true) /\
  (forall e, mget e (j_sym i) = Some true -> lT A (meval A hval jval e) = meval A hval jval e).

(* no label and no coefficient name is ever assigned two different values (label freshness) *)
Definition functional_tables (A : alg) (hval jval : label -> aL A) (hcoef jcoef : cname -> aC A) (g : gen) : Prop :=
  (forall l e e', In (l, e) (g_log g) -> In (l, e') (g_log g) -> meval A hval jval e = meval A hval jval e') /\
  (forall c e e', In (c, e) (g_cwrites g) -> In (c, e') (g_cwrites g) ->
     ceval A hcoef jcoef e = ceval A hcoef jcoef e').

(* a computable sufficient condition for functional_tables: two assignments to the same label carry
   the same symbolic value up to the dictionary a base entry is read from (a label shared by the two
   input dictionaries must then denote the same matrix in both); for coefficient names the only
   admitted repetition is the default "1" -> 1 against the caller's "1" *)
Fixpoint erase_src (e : mexp) : mexp :=
  match e with
  | MBase _ l => MBase SHam l
  | MT e => MT (erase_src e)
  | MConj e => MConj (erase_src e)
  | MH e => MH (erase_src e)
  | MMul a b => MMul (erase_src a) (erase_src b)
  end.

Definition log_functional_syn (log : list (label * mexp)) : bool :=
  forallb (fun kv => forallb (fun kv' =>
      negb (String.eqb (fst kv) (fst kv')) || mexp_eqb (erase_src (snd kv)) (erase_src (snd kv'))) log) log.

Fixpoint cexp_eqb (a b : cexp) : bool :=
  match a, b with
  | COne, COne => true
  | COne, CBase SHam c | CBase SHam c, COne => String.eqb c "1"
  | CBase s c, CBase s' c' => src_eqb s s' && String.eqb c c'
  | CI e, CI e' => cexp_eqb e e'
  | _, _ => false
  end.

Definition clog_functional_syn (log : list (cname * cexp)) : bool :=
  forallb (fun kv => forallb (fun kv' =>
      negb (String.eqb (fst kv) (fst kv')) || cexp_eqb (snd kv) (snd kv')) log) log.

Definition tables_check (bug_sign : bool) (i : input) : bool :=
  match generate_struct bug_sign i with
  | Ok g => log_functional_syn (g_log g) && clog_functional_syn (g_cwrites g)
  | _ => true
  end.

(* ============================================================================================ *)
(* A concrete instance: 1x1 matrices over the Gaussian rationals Q(i) (pairs of canonical       *)
(* rationals), one site, embedded by the identity.                                              *)
(* ============================================================================================ *)
Definition G := (Qc * Qc)%type.
Definition Gadd (a b : G) : G := (fst a + fst b, snd a + snd b)%Qc.
Definition Gmul (a b : G) : G := (fst a * fst b - snd a * snd b, fst a * snd b + snd a * fst b)%Qc.
Definition Gopp (a : G) : G := (- fst a, - snd a)%Qc.
Definition G0 : G := (Q2Qc 0, Q2Qc 0).
Definition G1 : G := (Q2Qc 1, Q2Qc 0).
Definition Gi : G := (Q2Qc 0, Q2Qc 1).
Definition Gq (q : Q) : G := (Q2Qc q, Q2Qc 0).
Definition Gconj (a : G) : G := (fst a, - snd a)%Qc.
Definition Gid (a : G) : G := a.

Definition Galg : alg :=
  {| aC := G; aM := G; aL := G;
     cadd := Gadd; cmul := Gmul; c0 := G0; c1 := G1; copp := Gopp; ci := Gi; qC := Gq;
     madd := Gadd; mmul := Gmul; m0 := G0; m1 := G1; mopp := Gopp; smul := Gmul;
     mT := Gid; mconj := Gconj; mH := Gconj; tr := Gid;
     lmul := Gmul; l1 := G1; lT := Gid; lconj := Gconj; lH := Gconj;
     emb := fun _ a => a |}.

(* the witness input: no Hamiltonian, one jump operator L = 1 on one site, rate g = 1 *)
Definition witness_input : input :=
  {| h_terms := []; h_conv := []; h_coeffs := ["1"];
     j_ops := [JTerm 1%Q "g" [("s", "L")]];
     j_dict := [("L", {| f_real := true; f_herm := true; f_id := true |})];
     j_coeffs := ["g"];
     j_sym := [(MBase SJump "L", true)];
     ket_suffix := "_ket"; bra_suffix := "_bra" |}.

(* the generated superoperator of an input applied to rho in the instance; every entry of the
   input dictionaries is the 1x1 matrix 1, every coefficient is 1 *)
Definition G_apply (bug_sign : bool) (i : input) (rho : G) : option G :=
  match generate_struct bug_sign i with
  | Ok g => Some (denote_gen Galg (fun _ => G1) (fun _ => G1) (fun _ => G1) (fun _ => G1) g rho)
  | _ => None
  end.

(* numerator/denominator view for printing *)
Definition G_show (x : option G) : option (Q * Q) :=
  match x with Some (a, b) => Some (this a, this b) | None => None end.
